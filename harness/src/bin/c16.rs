//! C16 - every shipped field and curve configuration is internally consistent.
//!
//! Space = every configuration object of /repo/curves/* and /repo/test-curves
//! x every relation it must satisfy.  One sweep case = one (config, relation,
//! table index) triple.  All expected values are recomputed with num-bigint:
//! prime-field values are read by decoding the raw Montgomery limbs, towers and
//! curves use schoolbook arithmetic written below (`Tw`, `SwCurve`, `TeCurve`).
//! No library arithmetic (field mul, Frobenius, scalar mul, GLV, pairings) is
//! used to compute an expected value; library *hooks* (mul_by_a, add_b,
//! mul_*_by_nonresidue*, endomorphism) are called only as the thing under test.
#![allow(clippy::type_complexity, clippy::too_many_arguments)]
use algebra_mc::core::*;
use algebra_mc::refmodel::zmod::*;
use ark_ec::bls12::Bls12Config;
use ark_ec::bn::BnConfig;
use ark_ec::bw6::BW6Config;
use ark_ec::hashing::curve_maps::elligator2::Elligator2Config;
use ark_ec::hashing::curve_maps::swu::SWUConfig;
use ark_ec::hashing::curve_maps::wb::WBConfig;
use ark_ec::mnt4::MNT4Config;
use ark_ec::mnt6::MNT6Config;
use ark_ec::models::short_weierstrass::{self as sw, SWCurveConfig};
use ark_ec::models::twisted_edwards::{MontCurveConfig, TECurveConfig};
use ark_ec::models::CurveConfig;
use ark_ec::scalar_mul::glv::GLVConfig;
use ark_ff::fields::models::cubic_extension::{CubicExtConfig, CubicExtField};
use ark_ff::fields::models::quadratic_extension::{QuadExtConfig, QuadExtField};
use ark_ff::{
    BigInt, FftField, Field, Fp, Fp12Config, Fp12ConfigWrapper, Fp2Config, Fp2ConfigWrapper, Fp3Config, Fp3ConfigWrapper, Fp4Config,
    Fp4ConfigWrapper, MontBackend, MontConfig, PrimeField, SqrtPrecomputation,
};
use num_bigint::{BigInt as SBig, BigUint, Sign};
use num_integer::Integer;
use num_traits::{One, Signed, Zero};
use std::collections::{BTreeMap, BTreeSet};
use std::marker::PhantomData;
use std::sync::atomic::{AtomicU64, Ordering};
use std::sync::{Mutex, OnceLock};

use ark_ff::fields::fp6_2over3::{Fp6Config as Fp6Config2o3, Fp6ConfigWrapper as Fp6Wrapper2o3};
use ark_ff::fields::fp6_3over2::{Fp6Config as Fp6Config3o2, Fp6ConfigWrapper as Fp6Wrapper3o2};

/// sources scanned for the registry staleness check and the derive attributes
fn repo() -> String {
    std::env::var("C16_REPO").or_else(|_| std::env::var("VERIF_REPO_OVERRIDE")).unwrap_or_else(|_| "/repo".to_string())
}

// ---------------------------------------------------------------------
// relation results that are not verdicts about the library
// ---------------------------------------------------------------------

/// a relation that could not be evaluated because the harness could not read / parse the sources
/// (file missing, attribute reformatted): reported through `Ctx::machinery_error` (exit 2), never as a violation
const MACHINERY: &str = "MACHINERY: ";
static MACHINERY_ERRORS: Mutex<Vec<String>> = Mutex::new(Vec::new());
fn machinery(msg: String) -> String {
    format!("{MACHINERY}{msg}")
}
/// observations about a configuration that the property does not demand (a conservative flag, an RFC
/// recommendation for the CHOICE of a parameter, an undocumented exact value ...): recorded as branch classes
static OBSERVED: Mutex<BTreeMap<&'static str, u64>> = Mutex::new(BTreeMap::new());
fn observe(class: &'static str) {
    *OBSERVED.lock().unwrap().entry(class).or_insert(0) += 1;
}

/// text of a source file of the repository the harness was built against; unreadable = machinery error
fn read_source(file: &str) -> Result<String, String> {
    std::fs::read_to_string(format!("{}/{file}", repo())).map_err(|e| machinery(format!("cannot read {}/{file}: {e}", repo())))
}
/// the comment lines (`//`, `///`) among the `window` lines directly above the first non-comment line that
/// contains `needle`; Ok(None) if the (readable) file has no such line
fn comment_above(file: &str, needle: &str, window: usize) -> Result<Option<Vec<String>>, String> {
    let txt = read_source(file)?;
    let lines: Vec<&str> = txt.lines().collect();
    let pos = lines.iter().position(|l| !l.trim_start().starts_with("//") && l.contains(needle));
    Ok(pos.map(|i| {
        lines[i.saturating_sub(window)..i]
            .iter()
            .map(|l| l.trim_start())
            .filter(|l| l.starts_with("//"))
            .map(|l| l.trim_start_matches('/').trim().to_string())
            .collect()
    }))
}
/// does some comment line of the file contain all the given (lower-case) fragments?
fn comment_says(file: &str, fragments: &[&str]) -> Result<bool, String> {
    let txt = read_source(file)?;
    Ok(txt.lines().map(|l| l.trim_start()).filter(|l| l.starts_with("//")).any(|l| {
        let l = l.to_lowercase();
        fragments.iter().all(|f| l.contains(f))
    }))
}

// =====================================================================
// 1. Oracle: towers of binomial extensions over Z/p on BigUint
// =====================================================================

type El = Vec<BigUint>;

/// F_p[X1]/(X1^k1 - b1)[X2]/(X2^k2 - b2)...; an element is the flat vector of
/// its F_p coordinates, innermost level varying fastest (c0 first).
#[derive(Clone, Debug)]
struct Tw {
    p: BigUint,
    lv: Vec<(usize, El)>,
}

fn big(v: u64) -> BigUint {
    BigUint::from(v)
}

impl Tw {
    fn prime(p: BigUint) -> Tw {
        Tw { p, lv: vec![] }
    }
    fn ext(&self, k: usize, beta: El) -> Tw {
        assert_eq!(beta.len(), self.dim());
        let mut t = self.clone();
        t.lv.push((k, beta));
        t
    }
    fn nl(&self) -> usize {
        self.lv.len()
    }
    fn dim_at(&self, l: usize) -> usize {
        self.lv[..l].iter().map(|x| x.0).product()
    }
    fn dim(&self) -> usize {
        self.dim_at(self.nl())
    }
    fn order(&self) -> BigUint {
        let mut o = BigUint::one();
        for _ in 0..self.dim() {
            o *= &self.p;
        }
        o
    }
    fn zero(&self) -> El {
        vec![BigUint::zero(); self.dim()]
    }
    fn from_big(&self, v: &BigUint) -> El {
        let mut e = self.zero();
        e[0] = v % &self.p;
        e
    }
    fn from_u64(&self, v: u64) -> El {
        self.from_big(&big(v))
    }
    fn one(&self) -> El {
        self.from_u64(1)
    }
    /// embedding of an element of a prefix sub-tower (coordinates first, zeros after)
    fn embed(&self, x: &[BigUint]) -> El {
        let mut e = x.to_vec();
        assert!(e.len() <= self.dim());
        e.resize(self.dim(), BigUint::zero());
        e
    }
    fn is_zero(&self, a: &[BigUint]) -> bool {
        a.iter().all(|x| x.is_zero())
    }
    fn add(&self, a: &[BigUint], b: &[BigUint]) -> El {
        a.iter().zip(b).map(|(x, y)| (x + y) % &self.p).collect()
    }
    fn sub(&self, a: &[BigUint], b: &[BigUint]) -> El {
        a.iter().zip(b).map(|(x, y)| modsub(x, y, &self.p)).collect()
    }
    fn neg(&self, a: &[BigUint]) -> El {
        a.iter().map(|x| modneg(x, &self.p)).collect()
    }
    fn muls(&self, a: &[BigUint], k: u64) -> El {
        a.iter().map(|x| (x * k) % &self.p).collect()
    }
    fn mul(&self, a: &[BigUint], b: &[BigUint]) -> El {
        assert_eq!(a.len(), self.dim());
        assert_eq!(b.len(), self.dim());
        self.mul_l(self.nl(), a, b)
    }
    fn sq(&self, a: &[BigUint]) -> El {
        self.mul(a, a)
    }
    fn mul_l(&self, l: usize, a: &[BigUint], b: &[BigUint]) -> El {
        if l == 0 {
            return vec![(&a[0] * &b[0]) % &self.p];
        }
        let (k, beta) = (&self.lv[l - 1].0, &self.lv[l - 1].1);
        let k = *k;
        let d = self.dim_at(l - 1);
        let mut c: Vec<El> = vec![vec![BigUint::zero(); d]; 2 * k - 1];
        for i in 0..k {
            for j in 0..k {
                let t = self.mul_l(l - 1, &a[i * d..(i + 1) * d], &b[j * d..(j + 1) * d]);
                c[i + j] = self.add(&c[i + j], &t);
            }
        }
        for t in (k..2 * k - 1).rev() {
            let hi = std::mem::take(&mut c[t]);
            let r = self.mul_l(l - 1, beta, &hi);
            c[t - k] = self.add(&c[t - k], &r);
        }
        c.truncate(k);
        c.concat()
    }
    fn pow(&self, a: &[BigUint], e: &BigUint) -> El {
        let mut r = self.one();
        for i in (0..e.bits()).rev() {
            r = self.sq(&r);
            if e.bit(i) {
                r = self.mul(&r, a);
            }
        }
        r
    }
    fn inv(&self, a: &[BigUint]) -> Option<El> {
        let r = self.inv_l(self.nl(), a)?;
        assert!(self.mul(a, &r) == self.one(), "oracle inverse self-check");
        Some(r)
    }
    fn sub_l(&self, l: usize) -> Tw {
        Tw { p: self.p.clone(), lv: self.lv[..l].to_vec() }
    }
    fn inv_l(&self, l: usize, a: &[BigUint]) -> Option<El> {
        if l == 0 {
            return modinv(&a[0], &self.p).map(|x| vec![x]);
        }
        let (k, beta) = (self.lv[l - 1].0, self.lv[l - 1].1.clone());
        let b = self.sub_l(l - 1);
        let d = b.dim();
        match k {
            2 => {
                let (a0, a1) = (&a[..d], &a[d..]);
                let n = b.sub(&b.sq(a0), &b.mul(&beta, &b.sq(a1)));
                let ni = b.inv_l(l - 1, &n)?;
                let mut r = b.mul(a0, &ni);
                r.extend(b.neg(&b.mul(a1, &ni)));
                Some(r)
            },
            3 => {
                let (a0, a1, a2) = (&a[..d], &a[d..2 * d], &a[2 * d..]);
                let t0 = b.sub(&b.sq(a0), &b.mul(&beta, &b.mul(a1, a2)));
                let t1 = b.sub(&b.mul(&beta, &b.sq(a2)), &b.mul(a0, a1));
                let t2 = b.sub(&b.sq(a1), &b.mul(a0, a2));
                let n = b.add(&b.mul(a0, &t0), &b.mul(&beta, &b.add(&b.mul(a2, &t1), &b.mul(a1, &t2))));
                let ni = b.inv_l(l - 1, &n)?;
                let mut r = b.mul(&t0, &ni);
                r.extend(b.mul(&t1, &ni));
                r.extend(b.mul(&t2, &ni));
                Some(r)
            },
            _ => panic!("oracle: unsupported extension degree {k}"),
        }
    }
    /// a / b
    fn div(&self, a: &[BigUint], b: &[BigUint]) -> Option<El> {
        Some(self.mul(a, &self.inv(b)?))
    }
    fn is_square(&self, a: &[BigUint]) -> bool {
        if self.is_zero(a) {
            return true;
        }
        let e = (self.order() - 1u32) >> 1;
        self.pow(a, &e) == self.one()
    }
    /// n-th "small" element: base-4 digits of n fill the coordinates 1.., the rest goes to coordinate 0
    fn small(&self, mut n: u64) -> El {
        let mut e = self.zero();
        for c in e.iter_mut().skip(1) {
            *c = big(n % 4);
            n /= 4;
        }
        e[0] = big(n) % &self.p;
        e
    }
    /// Tonelli-Shanks in the tower (None if not a square)
    fn sqrt(&self, a: &[BigUint]) -> Option<El> {
        if self.is_zero(a) {
            return Some(self.zero());
        }
        if !self.is_square(a) {
            return None;
        }
        let qm1 = self.order() - 1u32;
        let s = qm1.trailing_zeros().unwrap();
        let t = &qm1 >> s;
        let mut n = 2u64;
        let z0 = loop {
            let c = self.small(n);
            if !self.is_zero(&c) && !self.is_square(&c) {
                break c;
            }
            n += 1;
            assert!(n < 4096, "oracle: no non-residue found");
        };
        let mut z = self.pow(&z0, &t);
        let mut x = self.pow(a, &((&t + 1u32) >> 1));
        let mut b = self.pow(a, &t);
        let mut m = s;
        let one = self.one();
        while b != one {
            let mut i = 0u64;
            let mut b2 = b.clone();
            while b2 != one {
                b2 = self.sq(&b2);
                i += 1;
            }
            assert!(i < m, "oracle sqrt: not a square after Euler test");
            let mut w = z.clone();
            for _ in 0..(m - i - 1) {
                w = self.sq(&w);
            }
            z = self.sq(&w);
            x = self.mul(&x, &w);
            b = self.mul(&b, &z);
            m = i;
        }
        assert!(self.sq(&x) == a, "oracle sqrt self-check");
        Some(x)
    }
    /// Horner evaluation, coefficient i belongs to x^i
    fn horner(&self, coeffs: &[El], x: &[BigUint]) -> El {
        let mut r = self.zero();
        for c in coeffs.iter().rev() {
            r = self.add(&self.mul(&r, x), c);
        }
        r
    }
    // ---- univariate polynomials over the tower (coefficient i belongs to x^i), for the
    // irreducibility test of a monic cubic
    fn poly_trim(&self, mut a: Vec<El>) -> Vec<El> {
        while a.last().map(|c| self.is_zero(c)).unwrap_or(false) {
            a.pop();
        }
        a
    }
    /// a mod m, m monic
    fn poly_rem_monic(&self, a: &[El], m: &[El]) -> Vec<El> {
        let mut a = a.to_vec();
        let dm = m.len() - 1;
        while a.len() > dm {
            let top = a.pop().unwrap();
            let base = a.len() - dm;
            for k in 0..dm {
                a[base + k] = self.sub(&a[base + k], &self.mul(&top, &m[k]));
            }
        }
        a.resize(dm, self.zero());
        a
    }
    fn poly_mulmod(&self, a: &[El], b: &[El], m: &[El]) -> Vec<El> {
        let mut c = vec![self.zero(); a.len() + b.len() - 1];
        for (i, x) in a.iter().enumerate() {
            for (j, y) in b.iter().enumerate() {
                c[i + j] = self.add(&c[i + j], &self.mul(x, y));
            }
        }
        self.poly_rem_monic(&c, m)
    }
    /// x^e mod m
    fn poly_xpow(&self, e: &BigUint, m: &[El]) -> Vec<El> {
        let dm = m.len() - 1;
        let mut x = vec![self.zero(); dm];
        x[1] = self.one();
        let mut r = vec![self.zero(); dm];
        r[0] = self.one();
        for i in (0..e.bits()).rev() {
            r = self.poly_mulmod(&r, &r, m);
            if e.bit(i) {
                r = self.poly_mulmod(&r, &x, m);
            }
        }
        r
    }
    /// degree of gcd(a, b)
    fn poly_gcd_degree(&self, a: &[El], b: &[El]) -> usize {
        let mut a = self.poly_trim(a.to_vec());
        let mut b = self.poly_trim(b.to_vec());
        while !b.is_empty() {
            // make b monic, reduce a
            let li = self.inv(b.last().unwrap()).unwrap();
            let bm: Vec<El> = b.iter().map(|c| self.mul(c, &li)).collect();
            let r = if a.len() >= bm.len() { self.poly_trim(self.poly_rem_monic(&a, &bm)) } else { a.clone() };
            if a.len() < bm.len() {
                a = bm;
                b = r;
            } else {
                a = bm;
                b = r;
            }
        }
        a.len().saturating_sub(1)
    }
    /// monic cubic x^3 + c2 x^2 + c1 x + c0 irreducible over the field <=> no root in it
    fn cubic_is_irreducible(&self, c: &[El; 3]) -> bool {
        let m = vec![c[0].clone(), c[1].clone(), c[2].clone(), self.one()];
        let mut h = self.poly_xpow(&self.order(), &m);
        h[1] = self.sub(&h[1], &self.one());
        let h = self.poly_trim(h);
        if h.is_empty() {
            return false; // x^q = x mod m: splits completely
        }
        self.poly_gcd_degree(&m, &h) == 0
    }
    fn show(&self, a: &[BigUint]) -> String {
        if a.len() == 1 {
            format!("{}", a[0])
        } else {
            format!("({})", a.iter().map(|x| x.to_string()).collect::<Vec<_>>().join(", "))
        }
    }
}

// ---------------------------------------------------------------------
// reading library elements into the oracle (raw Montgomery limbs) and back
// ---------------------------------------------------------------------

trait Rd: Sized + 'static {
    fn tw() -> Tw;
    fn rd(&self) -> El;
    fn wr(v: &[BigUint]) -> Self;
}

impl<T: MontConfig<N>, const N: usize> Rd for Fp<MontBackend<T, N>, N> {
    fn tw() -> Tw {
        Tw::prime(from_limbs(&T::MODULUS.0))
    }
    fn rd(&self) -> El {
        let p = from_limbs(&T::MODULUS.0);
        vec![Mont::new(&p, N).decode(&(self.0).0)]
    }
    fn wr(v: &[BigUint]) -> Self {
        assert_eq!(v.len(), 1);
        let p = from_limbs(&T::MODULUS.0);
        let l = Mont::new(&p, N).encode(&(&v[0] % &p));
        let mut a = [0u64; N];
        a.copy_from_slice(&l);
        Fp(BigInt(a), PhantomData)
    }
}
impl<P: QuadExtConfig> Rd for QuadExtField<P>
where
    P::BaseField: Rd,
{
    fn tw() -> Tw {
        <P::BaseField as Rd>::tw().ext(2, P::NONRESIDUE.rd())
    }
    fn rd(&self) -> El {
        let mut v = self.c0.rd();
        v.extend(self.c1.rd());
        v
    }
    fn wr(v: &[BigUint]) -> Self {
        let d = v.len() / 2;
        QuadExtField { c0: <P::BaseField as Rd>::wr(&v[..d]), c1: <P::BaseField as Rd>::wr(&v[d..]) }
    }
}
impl<P: CubicExtConfig> Rd for CubicExtField<P>
where
    P::BaseField: Rd,
{
    fn tw() -> Tw {
        <P::BaseField as Rd>::tw().ext(3, P::NONRESIDUE.rd())
    }
    fn rd(&self) -> El {
        let mut v = self.c0.rd();
        v.extend(self.c1.rd());
        v.extend(self.c2.rd());
        v
    }
    fn wr(v: &[BigUint]) -> Self {
        let d = v.len() / 3;
        CubicExtField {
            c0: <P::BaseField as Rd>::wr(&v[..d]),
            c1: <P::BaseField as Rd>::wr(&v[d..2 * d]),
            c2: <P::BaseField as Rd>::wr(&v[2 * d..]),
        }
    }
}

/// value of a scalar-field constant as an integer
fn scalar<F: Rd>(x: &F) -> BigUint {
    x.rd()[0].clone()
}
fn modulus_of<F: Rd>() -> BigUint {
    F::tw().p
}

/// alphabet of elements of a tower for hook checks: deviation <= 2 over the
/// zero vector with coordinate alphabet {1, p-1, generic}, plus all-(p-1),
/// a generic dense vector, and boundary values of the prime field.
fn alphabet(tw: &Tw) -> Vec<El> {
    let p = &tw.p;
    let g = big(GENERIC64) % p;
    let coord = [BigUint::one(), p - 1u32, g.clone(), (p - 1u32) >> 1, (p + 1u32) >> 1, big(2) % p];
    let d = tw.dim();
    let mut out: Vec<El> = vec![tw.zero()];
    for i in 0..d {
        for a in &coord {
            let mut e = tw.zero();
            e[i] = a.clone();
            out.push(e.clone());
            for j in i + 1..d {
                for b in &coord[..3] {
                    let mut f = e.clone();
                    f[j] = b.clone();
                    out.push(f);
                }
            }
        }
    }
    out.push(vec![p - 1u32; d]);
    out.push((0..d).map(|i| (big(GENERIC64) * big(i as u64 + 3) + big(i as u64)) % p).collect());
    out.sort();
    out.dedup();
    out
}

// =====================================================================
// 2. Oracle: curves
// =====================================================================

/// affine point, None = point at infinity
type Pt = Option<(El, El)>;

struct SwCurve {
    f: Tw,
    a: El,
    b: El,
}
impl SwCurve {
    fn rhs(&self, x: &[BigUint]) -> El {
        let f = &self.f;
        f.add(&f.add(&f.mul(&f.sq(x), x), &f.mul(&self.a, x)), &self.b)
    }
    fn on_curve(&self, p: &Pt) -> bool {
        match p {
            None => true,
            Some((x, y)) => self.f.sq(y) == self.rhs(x),
        }
    }
    /// chord-and-tangent law, the definition
    fn add_affine(&self, p: &Pt, q: &Pt) -> Pt {
        let f = &self.f;
        let (x1, y1) = match p {
            None => return q.clone(),
            Some(v) => v,
        };
        let (x2, y2) = match q {
            None => return p.clone(),
            Some(v) => v,
        };
        let lam = if x1 == x2 {
            if *y1 != *y2 || f.is_zero(y1) {
                return None;
            }
            let num = f.add(&f.muls(&f.sq(x1), 3), &self.a);
            f.div(&num, &f.muls(y1, 2)).expect("2y invertible")
        } else {
            f.div(&f.sub(y2, y1), &f.sub(x2, x1)).expect("dx invertible")
        };
        let x3 = f.sub(&f.sub(&f.sq(&lam), x1), x2);
        let y3 = f.sub(&f.mul(&lam, &f.sub(x1, &x3)), y1);
        Some((x3, y3))
    }
    fn neg(&self, p: &Pt) -> Pt {
        p.as_ref().map(|(x, y)| (x.clone(), self.f.neg(y)))
    }
    // Jacobian coordinates (X, Y, Z), Z = 0 at infinity; textbook dbl-2007-bl / add-2007-bl
    fn jdbl(&self, p: &(El, El, El)) -> (El, El, El) {
        let f = &self.f;
        let (x, y, z) = p;
        if f.is_zero(z) || f.is_zero(y) {
            return (f.one(), f.one(), f.zero());
        }
        let xx = f.sq(x);
        let yy = f.sq(y);
        let yyyy = f.sq(&yy);
        let zz = f.sq(z);
        let s = f.muls(&f.sub(&f.sub(&f.sq(&f.add(x, &yy)), &xx), &yyyy), 2);
        let m = f.add(&f.muls(&xx, 3), &f.mul(&self.a, &f.sq(&zz)));
        let t = f.sub(&f.sq(&m), &f.muls(&s, 2));
        let y3 = f.sub(&f.mul(&m, &f.sub(&s, &t)), &f.muls(&yyyy, 8));
        let z3 = f.sub(&f.sub(&f.sq(&f.add(y, z)), &yy), &zz);
        (t, y3, z3)
    }
    fn jadd(&self, p: &(El, El, El), q: &(El, El, El)) -> (El, El, El) {
        let f = &self.f;
        if f.is_zero(&p.2) {
            return q.clone();
        }
        if f.is_zero(&q.2) {
            return p.clone();
        }
        let z1z1 = f.sq(&p.2);
        let z2z2 = f.sq(&q.2);
        let u1 = f.mul(&p.0, &z2z2);
        let u2 = f.mul(&q.0, &z1z1);
        let s1 = f.mul(&f.mul(&p.1, &q.2), &z2z2);
        let s2 = f.mul(&f.mul(&q.1, &p.2), &z1z1);
        if u1 == u2 {
            if s1 == s2 {
                return self.jdbl(p);
            }
            return (f.one(), f.one(), f.zero());
        }
        let h = f.sub(&u2, &u1);
        let i = f.sq(&f.muls(&h, 2));
        let j = f.mul(&h, &i);
        let r = f.muls(&f.sub(&s2, &s1), 2);
        let v = f.mul(&u1, &i);
        let x3 = f.sub(&f.sub(&f.sq(&r), &j), &f.muls(&v, 2));
        let y3 = f.sub(&f.mul(&r, &f.sub(&v, &x3)), &f.muls(&f.mul(&s1, &j), 2));
        let z3 = f.mul(&f.sub(&f.sub(&f.sq(&f.add(&p.2, &q.2)), &z1z1), &z2z2), &h);
        (x3, y3, z3)
    }
    fn to_jac(&self, p: &Pt) -> (El, El, El) {
        match p {
            None => (self.f.one(), self.f.one(), self.f.zero()),
            Some((x, y)) => (x.clone(), y.clone(), self.f.one()),
        }
    }
    fn from_jac(&self, p: &(El, El, El)) -> Pt {
        let f = &self.f;
        if f.is_zero(&p.2) {
            return None;
        }
        let zi = f.inv(&p.2).unwrap();
        let zi2 = f.sq(&zi);
        Some((f.mul(&p.0, &zi2), f.mul(&p.1, &f.mul(&zi2, &zi))))
    }
    /// plain left-to-right double-and-add
    fn mul(&self, k: &BigUint, p: &Pt) -> Pt {
        let base = self.to_jac(p);
        let mut r = self.to_jac(&None);
        for i in (0..k.bits()).rev() {
            r = self.jdbl(&r);
            if k.bit(i) {
                r = self.jadd(&r, &base);
            }
        }
        self.from_jac(&r)
    }
    /// the n-th point (n = 0, 1, ...) obtained from x = small(0), small(1), ...
    fn nth_point(&self, n: usize) -> (El, El) {
        let mut found = 0usize;
        let start = if self.f.dim() == 1 { 0 } else { 1 }; // for extensions start with a non-subfield x
        for c in start..100_000u64 {
            let x = self.f.small(c);
            if let Some(y) = self.f.sqrt(&self.rhs(&x)) {
                if self.f.is_zero(&y) {
                    continue;
                }
                if found == n {
                    return (x, y);
                }
                found += 1;
            }
        }
        panic!("oracle: no curve point found");
    }
    fn j_invariant(&self) -> Option<El> {
        let f = &self.f;
        let a3 = f.muls(&f.mul(&f.sq(&self.a), &self.a), 4);
        let den = f.add(&a3, &f.muls(&f.sq(&self.b), 27));
        f.div(&f.muls(&a3, 1728), &den)
    }
}

struct TeCurve {
    f: Tw,
    a: El,
    d: El,
}
impl TeCurve {
    fn on_curve(&self, p: &(El, El)) -> bool {
        let f = &self.f;
        let (x2, y2) = (f.sq(&p.0), f.sq(&p.1));
        f.add(&f.mul(&self.a, &x2), &y2) == f.add(&f.one(), &f.mul(&self.d, &f.mul(&x2, &y2)))
    }
    /// affine Edwards law, the definition (None if a denominator vanishes)
    fn add_affine(&self, p: &(El, El), q: &(El, El)) -> Option<(El, El)> {
        let f = &self.f;
        let x1x2 = f.mul(&p.0, &q.0);
        let y1y2 = f.mul(&p.1, &q.1);
        let t = f.mul(&self.d, &f.mul(&x1x2, &y1y2));
        let xn = f.add(&f.mul(&p.0, &q.1), &f.mul(&p.1, &q.0));
        let yn = f.sub(&y1y2, &f.mul(&self.a, &x1x2));
        let x3 = f.div(&xn, &f.add(&f.one(), &t))?;
        let y3 = f.div(&yn, &f.sub(&f.one(), &t))?;
        Some((x3, y3))
    }
    /// projective unified addition (add-2008-bbjlp); Err if an exceptional case (Z3 = 0) is met
    fn padd(&self, p: &(El, El, El), q: &(El, El, El)) -> Result<(El, El, El), String> {
        let f = &self.f;
        let a = f.mul(&p.2, &q.2);
        let b = f.sq(&a);
        let c = f.mul(&p.0, &q.0);
        let d = f.mul(&p.1, &q.1);
        let e = f.mul(&self.d, &f.mul(&c, &d));
        let ff = f.sub(&b, &e);
        let g = f.add(&b, &e);
        let x3 = f.mul(&f.mul(&a, &ff), &f.sub(&f.sub(&f.mul(&f.add(&p.0, &p.1), &f.add(&q.0, &q.1)), &c), &d));
        let y3 = f.mul(&f.mul(&a, &g), &f.sub(&d, &f.mul(&self.a, &c)));
        let z3 = f.mul(&ff, &g);
        if f.is_zero(&z3) {
            return Err("oracle: exceptional case of the Edwards addition law".into());
        }
        Ok((x3, y3, z3))
    }
    fn mul(&self, k: &BigUint, p: &(El, El)) -> Result<(El, El), String> {
        let f = &self.f;
        let base = (p.0.clone(), p.1.clone(), f.one());
        let mut r = (f.zero(), f.one(), f.one());
        for i in (0..k.bits()).rev() {
            r = self.padd(&r, &r)?;
            if k.bit(i) {
                r = self.padd(&r, &base)?;
            }
        }
        let zi = f.inv(&r.2).unwrap();
        Ok((f.mul(&r.0, &zi), f.mul(&r.1, &zi)))
    }
    fn is_identity(&self, p: &(El, El)) -> bool {
        self.f.is_zero(&p.0) && p.1 == self.f.one()
    }
    /// n-th point from y = small(2), small(3), ...: x^2 = (1 - y^2)/(a - d y^2)
    fn nth_point(&self, n: usize) -> (El, El) {
        let f = &self.f;
        let mut found = 0usize;
        for c in 2..100_000u64 {
            let y = f.small(c);
            let y2 = f.sq(&y);
            let den = f.sub(&self.a, &f.mul(&self.d, &y2));
            let x2 = match f.div(&f.sub(&f.one(), &y2), &den) {
                Some(v) => v,
                None => continue,
            };
            if let Some(x) = f.sqrt(&x2) {
                if f.is_zero(&x) {
                    continue;
                }
                if found == n {
                    return (x, y);
                }
                found += 1;
            }
        }
        panic!("oracle: no curve point found");
    }
}

// =====================================================================
// 3. Registry
// =====================================================================

type Rel = Box<dyn Fn() -> Result<(), String> + Send + Sync>;
struct Case {
    cfg: String,
    rel: &'static str,
    idx: usize,
    thorough: bool,
    classes: Vec<&'static str>,
    f: Rel,
}
impl Case {
    fn thorough_if(&mut self, c: bool) -> &mut Self {
        self.thorough = c;
        self
    }
    fn class(&mut self, c: &'static str) -> &mut Self {
        self.classes.push(c);
        self
    }
}
struct Reg {
    cases: Vec<Case>,
    /// (file relative to /repo, trait name) -> number of impls this registry accounts for
    decl: BTreeMap<(String, String), u64>,
}
impl Reg {
    fn declare(&mut self, file: &str, traits: &[&str]) {
        for t in traits {
            *self.decl.entry((file.to_string(), t.to_string())).or_insert(0) += 1;
        }
    }
    fn rel(&mut self, cfg: &str, rel: &'static str, idx: usize, f: impl Fn() -> Result<(), String> + Send + Sync + 'static) -> &mut Case {
        self.cases.push(Case { cfg: cfg.to_string(), rel, idx, thorough: false, classes: vec![], f: Box::new(f) });
        self.cases.last_mut().unwrap()
    }
}

fn want<T: PartialEq + std::fmt::Debug>(got: T, want: T) -> Result<(), String> {
    if got == want {
        Ok(())
    } else {
        Err(format!("got {got:?} want {want:?}"))
    }
}
fn want_el(tw: &Tw, got: &[BigUint], want: &[BigUint]) -> Result<(), String> {
    if got == want {
        Ok(())
    } else {
        Err(format!("got {} want {}", tw.show(got), tw.show(want)))
    }
}
fn ensure(c: bool, msg: impl FnOnce() -> String) -> Result<(), String> {
    if c {
        Ok(())
    } else {
        Err(msg())
    }
}

static FACTOR_BOUND: AtomicU64 = AtomicU64::new(1 << 16);
fn small_primes() -> &'static Vec<u32> {
    static P: OnceLock<Vec<u32>> = OnceLock::new();
    P.get_or_init(|| {
        let n = FACTOR_BOUND.load(Ordering::Relaxed) as usize;
        let mut sieve = vec![true; n + 1];
        let mut out = Vec::new();
        for i in 2..=n {
            if sieve[i] {
                out.push(i as u32);
                let mut j = i * i;
                while j <= n {
                    sieve[j] = false;
                    j += i;
                }
            }
        }
        out
    })
}
/// prime factors of n below the factor bound
fn small_factors(n: &BigUint) -> Vec<u32> {
    small_primes().iter().copied().filter(|q| (n % *q).is_zero()).collect()
}

// =====================================================================
// 4. Source scan (registry staleness + derive attributes)
// =====================================================================

const KNOWN_TRAITS: [&str; 19] = [
    "MontConfig",
    "Fp2Config",
    "Fp3Config",
    "Fp4Config",
    "Fp6Config",
    "Fp12Config",
    "CurveConfig",
    "SWCurveConfig",
    "TECurveConfig",
    "MontCurveConfig",
    "GLVConfig",
    "SWUConfig",
    "WBConfig",
    "Elligator2Config",
    "Bls12Config",
    "BnConfig",
    "BW6Config",
    "MNT4Config",
    "MNT6Config",
];

fn rs_files(dir: &std::path::Path, out: &mut Vec<std::path::PathBuf>) {
    if let Ok(rd) = std::fs::read_dir(dir) {
        let mut entries: Vec<_> = rd.flatten().map(|e| e.path()).collect();
        entries.sort();
        for p in entries {
            if p.is_dir() {
                rs_files(&p, out);
            } else if p.extension().map(|e| e == "rs").unwrap_or(false) {
                out.push(p);
            }
        }
    }
}

/// (file, trait) -> count of `impl .. <Trait> for ..` / `derive(..MontConfig)` found in the sources
fn scan_sources(errors: &mut Vec<String>) -> BTreeMap<(String, String), u64> {
    let mut files = Vec::new();
    let mut roots: Vec<std::path::PathBuf> = Vec::new();
    if let Ok(rd) = std::fs::read_dir(format!("{}/curves", repo())) {
        for e in rd.flatten() {
            let name = e.file_name().to_string_lossy().to_string();
            if name == "curve-constraint-tests" || name == "scripts" {
                continue;
            }
            let src = e.path().join("src");
            if src.is_dir() {
                roots.push(src);
            }
        }
    }
    roots.push(format!("{}/test-curves/src", repo()).into());
    roots.sort();
    for r in &roots {
        rs_files(r, &mut files);
    }
    if files.len() < 100 {
        errors.push(format!("source scan found only {} files under {}/curves and {}/test-curves", files.len(), repo(), repo()));
    }
    let mut out = BTreeMap::new();
    for f in files {
        let txt = match std::fs::read_to_string(&f) {
            Ok(t) => t,
            Err(e) => {
                errors.push(format!("cannot read {}: {e}", f.display()));
                continue;
            },
        };
        let rel = f.strip_prefix(repo()).unwrap().to_string_lossy().trim_start_matches('/').to_string();
        for line in txt.lines() {
            let l = line.trim_start();
            if l.starts_with("//") {
                continue;
            }
            if l.starts_with("#[derive(") && l.contains("MontConfig") {
                *out.entry((rel.clone(), "MontConfig".to_string())).or_insert(0) += 1;
                continue;
            }
            if !l.starts_with("impl") {
                continue;
            }
            let pos = match l.find(" for ") {
                Some(p) => p,
                None => continue,
            };
            let head = l[..pos].trim_end();
            // last path segment of the trait, generics stripped
            let head = head.split('<').next().unwrap_or(head).trim_end();
            let last = head.rsplit(|c: char| c == ' ' || c == ':').next().unwrap_or("");
            if !last.ends_with("Config") {
                continue;
            }
            if !KNOWN_TRAITS.contains(&last) {
                errors.push(format!("{rel}: impl of unknown configuration trait `{last}` - the C16 registry does not cover it"));
                continue;
            }
            *out.entry((rel.clone(), last.to_string())).or_insert(0) += 1;
        }
    }
    out
}

/// attributes of `#[derive(MontConfig)] ... pub struct <name>;` in a source file
fn derive_attrs(file: &str, name: &str) -> Result<BTreeMap<String, String>, String> {
    let txt = read_source(file)?;
    let lines: Vec<&str> = txt.lines().collect();
    let mut i = 0;
    while i < lines.len() {
        let l = lines[i].trim();
        if l.starts_with("#[derive(") && l.contains("MontConfig") {
            let mut attrs = BTreeMap::new();
            let mut j = i + 1;
            while j < lines.len() {
                let a = lines[j].trim();
                if let Some(rest) = a.strip_prefix("#[") {
                    if let Some(eq) = rest.find('=') {
                        let key = rest[..eq].trim().to_string();
                        let val = rest[eq + 1..].trim().trim_end_matches(']').trim().trim_matches('"').to_string();
                        attrs.insert(key, val);
                    }
                    j += 1;
                    continue;
                }
                break;
            }
            if j < lines.len() && lines[j].contains("struct") && lines[j].contains(name) {
                return Ok(attrs);
            }
            i = j;
            continue;
        }
        i += 1;
    }
    Err(machinery(format!("no #[derive(MontConfig)] struct {name} with single-line `#[key = \"value\"]` attributes found in {file} (source reformatted?)")))
}
fn parse_int(s: &str) -> Result<SBig, String> {
    let t = s.replace('_', "");
    let (neg, t) = match t.strip_prefix('-') {
        Some(r) => (true, r.to_string()),
        None => (false, t),
    };
    let v = if let Some(h) = t.strip_prefix("0x") {
        BigUint::parse_bytes(h.as_bytes(), 16)
    } else {
        BigUint::parse_bytes(t.as_bytes(), 10)
    }
    .ok_or_else(|| machinery(format!("cannot parse integer literal {s:?} of a derive attribute")))?;
    Ok(SBig::from_biguint(if neg { Sign::Minus } else { Sign::Plus }, v))
}

/// `SQRT_PRECOMP` of any field of the oracle tower.  `None` is legitimate (sqrt is then unavailable / generic);
/// for `Some` the constants it contains must be what the variant says they are; a variant this check does not
/// know is not judged.
fn check_sqrt_precomp<X: Rd + Field>(pre: &Option<SqrtPrecomputation<X>>) -> Result<(), String> {
    let tw = X::tw();
    let q = tw.order();
    let qm1 = &q - 1u32;
    let s = qm1.trailing_zeros().unwrap();
    let t = &qm1 >> s;
    match pre {
        None => {
            observe("sqrt_precomp:none");
            Ok(())
        },
        Some(SqrtPrecomputation::Case3Mod4 { modulus_plus_one_div_four }) => {
            observe("sqrt_precomp:case3mod4");
            ensure((&q % 4u32) == big(3), || "Case3Mod4 used although q % 4 != 3".to_string())?;
            want(from_limbs(modulus_plus_one_div_four), (&q + 1u32) >> 2)
        },
        Some(SqrtPrecomputation::TonelliShanks { two_adicity, quadratic_nonresidue_to_trace, trace_of_modulus_minus_one_div_two }) => {
            observe("sqrt_precomp:tonelli_shanks");
            want(*two_adicity as u64, s).map_err(|e| format!("two_adicity {e}"))?;
            want(from_limbs(trace_of_modulus_minus_one_div_two), (&t - 1u32) >> 1).map_err(|e| format!("trace_of_modulus_minus_one_div_two {e}"))?;
            let z = quadratic_nonresidue_to_trace.rd();
            // t-th power of a non-residue <=> order exactly 2^s
            ensure(tw.pow(&z, &pow2(s as usize - 1)) == tw.neg(&tw.one()), || {
                format!("quadratic_nonresidue_to_trace {} is not the t-th power of a quadratic non-residue (order != 2^{s})", tw.show(&z))
            })
        },
        #[allow(unreachable_patterns)]
        Some(_) => {
            observe("sqrt_precomp:variant_not_judged");
            Ok(())
        },
    }
}

// =====================================================================
// 5. Prime fields
// =====================================================================

type F<T, const N: usize> = Fp<MontBackend<T, N>, N>;

fn pmod<T: MontConfig<N>, const N: usize>() -> BigUint {
    from_limbs(&T::MODULUS.0)
}
fn dec<T: MontConfig<N>, const N: usize>(x: &F<T, N>) -> BigUint {
    Mont::new(&pmod::<T, N>(), N).decode(&(x.0).0)
}

fn prime_field<T: MontConfig<N>, const N: usize>(reg: &mut Reg, cfg: &str, file: &'static str, struct_name: &'static str) {
    reg.declare(file, &["MontConfig"]);
    let bits_class: &'static str = if N >= 12 { "field:>=753bit" } else { "field:<753bit" };
    // --- the modulus itself
    reg.rel(cfg, "modulus_limb_count", 0, || {
        let p = pmod::<T, N>();
        // the defining condition is that the modulus fits (and is not zero); a non-minimal limb count is
        // wasteful but denotes the same field - observed, not demanded
        if p.bits() as usize <= 64 * (N - 1) {
            observe("field:limb_count_not_minimal");
        }
        ensure(!p.is_zero() && p.bits() as usize <= 64 * N, || format!("modulus has {} bits and does not fit N = {N} limbs", p.bits()))
    });
    reg.rel(cfg, "modulus_prime", 0, || {
        let p = pmod::<T, N>();
        ensure(p.bit(0) && is_probable_prime(&p), || format!("MODULUS {p} is not an odd prime (Miller-Rabin, 40 bases)"))
    })
    .class(bits_class);
    // --- Montgomery constants
    reg.rel(cfg, "mont_r", 0, || {
        let p = pmod::<T, N>();
        want(from_limbs(&T::R.0), pow2(64 * N) % &p)
    });
    reg.rel(cfg, "mont_r2", 0, || {
        let p = pmod::<T, N>();
        let r = pow2(64 * N) % &p;
        want(from_limbs(&T::R2.0), (&r * &r) % &p)
    });
    reg.rel(cfg, "mont_inv", 0, || want(T::INV.wrapping_mul(T::MODULUS.0[0]), u64::MAX));
    reg.rel(cfg, "fp_one_zero", 0, || {
        want((dec::<T, N>(&<F<T, N> as Field>::ONE), dec::<T, N>(&<F<T, N> as ark_ff::AdditiveGroup>::ZERO)), (BigUint::one(), BigUint::zero()))
    });
    // --- derived integer constants
    reg.rel(cfg, "modulus_bit_size", 0, || want(<F<T, N> as PrimeField>::MODULUS_BIT_SIZE as u64, pmod::<T, N>().bits()));
    reg.rel(cfg, "two_adicity", 0, || {
        let s = (pmod::<T, N>() - 1u32).trailing_zeros().unwrap();
        want(<F<T, N> as FftField>::TWO_ADICITY as u64, s)
    });
    reg.rel(cfg, "trace", 0, || {
        let pm1 = pmod::<T, N>() - 1u32;
        let s = pm1.trailing_zeros().unwrap();
        want(from_limbs(&<F<T, N> as PrimeField>::TRACE.0), pm1 >> s)
    });
    reg.rel(cfg, "trace_minus_one_div_two", 0, || {
        let pm1 = pmod::<T, N>() - 1u32;
        let s = pm1.trailing_zeros().unwrap();
        want(from_limbs(&<F<T, N> as PrimeField>::TRACE_MINUS_ONE_DIV_TWO.0), ((pm1 >> s) - 1u32) >> 1)
    });
    reg.rel(cfg, "modulus_minus_one_div_two", 0, || {
        want(from_limbs(&<F<T, N> as PrimeField>::MODULUS_MINUS_ONE_DIV_TWO.0), (pmod::<T, N>() - 1u32) >> 1)
    });
    reg.rel(cfg, "modulus_plus_one_div_four", 0, || {
        let p = pmod::<T, N>();
        let w = if (&p % 4u32) == big(3) { Some((&p + 1u32) >> 2) } else { None };
        want(T::MODULUS_PLUS_ONE_DIV_FOUR.map(|b| from_limbs(&b.0)), w)
    });
    // --- flags
    reg.rel(cfg, "modulus_has_spare_bit", 0, || want(T::MODULUS_HAS_SPARE_BIT, T::MODULUS.0[N - 1] >> 63 == 0));
    reg.rel(cfg, "can_use_no_carry_mul_opt", 0, || {
        // definition (gnark note linked from the doc comment): top bit of the top limb is zero and
        // the remaining 64N-1 bits are not all one
        let p = pmod::<T, N>();
        let w = T::MODULUS.0[N - 1] >> 63 == 0 && p != pow2(64 * N - 1) - 1u32;
        // soundness only: the flag may be set only if the condition holds; a conservative `false` is legitimate
        if w && !T::CAN_USE_NO_CARRY_MUL_OPT {
            observe("field:no_carry_mul_flag_conservative");
        }
        ensure(w || !T::CAN_USE_NO_CARRY_MUL_OPT, || "CAN_USE_NO_CARRY_MUL_OPT is set although the modulus does not satisfy the condition of the optimisation (top bit clear, remaining bits not all one)".to_string())
    });
    reg.rel(cfg, "can_use_no_carry_square_opt", 0, || {
        // the only consumer (asm squaring) is the asm multiplication with b = a, so the flag must
        // satisfy the multiplication condition
        let p = pmod::<T, N>();
        let w = T::MODULUS.0[N - 1] >> 63 == 0 && p != pow2(64 * N - 1) - 1u32;
        if w && !T::CAN_USE_NO_CARRY_SQUARE_OPT {
            observe("field:no_carry_square_flag_conservative");
        }
        ensure(w || !T::CAN_USE_NO_CARRY_SQUARE_OPT, || "CAN_USE_NO_CARRY_SQUARE_OPT is set although the modulus does not satisfy the condition of the optimisation (top bit clear, remaining bits not all one)".to_string())
    });
    // --- the same constants read through the trait impls of Fp (what downstream code sees) equal the config's
    reg.rel(cfg, "fp_trait_constants_equal_config", 0, || {
        type FF<T, const N: usize> = F<T, N>;
        want(<FF<T, N> as PrimeField>::MODULUS.0, T::MODULUS.0).map_err(|e| format!("<Fp as PrimeField>::MODULUS vs MontConfig::MODULUS: {e}"))?;
        want((<FF<T, N> as FftField>::GENERATOR.0).0, (T::GENERATOR.0).0).map_err(|e| format!("<Fp as FftField>::GENERATOR vs MontConfig::GENERATOR (raw limbs): {e}"))?;
        want(<FF<T, N> as FftField>::TWO_ADICITY, <MontBackend<T, N> as ark_ff::FpConfig<N>>::TWO_ADICITY).map_err(|e| format!("<Fp as FftField>::TWO_ADICITY vs FpConfig::TWO_ADICITY of the Montgomery backend: {e}"))?;
        want(<MontBackend<T, N> as ark_ff::FpConfig<N>>::MODULUS.0, T::MODULUS.0).map_err(|e| format!("FpConfig::MODULUS of the Montgomery backend vs MontConfig::MODULUS: {e}"))?;
        want((<FF<T, N> as FftField>::TWO_ADIC_ROOT_OF_UNITY.0).0, (T::TWO_ADIC_ROOT_OF_UNITY.0).0).map_err(|e| format!("<Fp as FftField>::TWO_ADIC_ROOT_OF_UNITY vs MontConfig's (raw limbs): {e}"))?;
        want(<FF<T, N> as FftField>::SMALL_SUBGROUP_BASE, T::SMALL_SUBGROUP_BASE).map_err(|e| format!("SMALL_SUBGROUP_BASE: {e}"))?;
        want(<FF<T, N> as FftField>::SMALL_SUBGROUP_BASE_ADICITY, T::SMALL_SUBGROUP_BASE_ADICITY).map_err(|e| format!("SMALL_SUBGROUP_BASE_ADICITY: {e}"))?;
        want(<FF<T, N> as FftField>::LARGE_SUBGROUP_ROOT_OF_UNITY.map(|w| (w.0).0), T::LARGE_SUBGROUP_ROOT_OF_UNITY.map(|w| (w.0).0)).map_err(|e| format!("LARGE_SUBGROUP_ROOT_OF_UNITY (raw limbs): {e}"))
    })
    .class("field:constants_through_fp_traits");
    // get_root_of_unity(n) has exact order n: n = 1, 2, 2^TWO_ADICITY and, with a small subgroup, b, 2 b, 2^s b^k
    {
        let p = pmod::<T, N>();
        let s = (&p - 1u32).trailing_zeros().unwrap();
        let mut ns: Vec<u64> = vec![1, 2];
        if s < 64 {
            ns.push(1u64 << s);
        }
        if let (Some(b), Some(k)) = (T::SMALL_SUBGROUP_BASE, T::SMALL_SUBGROUP_BASE_ADICITY) {
            ns.push(b as u64);
            ns.push(2 * b as u64);
            if let Some(n) = (b as u64).checked_pow(k).and_then(|bk| if s < 64 { bk.checked_mul(1u64 << s) } else { None }) {
                ns.push(n);
            }
        }
        ns.sort();
        ns.dedup();
        for (idx, n) in ns.into_iter().enumerate() {
            reg.rel(cfg, "get_root_of_unity_exact_order", idx, move || {
                let p = pmod::<T, N>();
                let w = <F<T, N> as FftField>::get_root_of_unity(n).ok_or_else(|| format!("get_root_of_unity({n}) = None although {n} divides the size of the FFT subgroup"))?;
                let w = dec::<T, N>(&w);
                ensure(w.modpow(&big(n), &p).is_one(), || format!("get_root_of_unity({n}) = {w}: w^{n} != 1"))?;
                let mut m = n;
                let mut d = 2u64;
                let mut qs = Vec::new();
                while d * d <= m {
                    if m % d == 0 {
                        qs.push(d);
                        while m % d == 0 {
                            m /= d;
                        }
                    }
                    d += 1;
                }
                if m > 1 {
                    qs.push(m);
                }
                for q in qs {
                    ensure(!w.modpow(&big(n / q), &p).is_one(), || format!("get_root_of_unity({n}) = {w} has order dividing {n}/{q}, not exactly {n}"))?;
                }
                Ok(())
            })
            .class(if n == 1 { "root_of_unity:n=1" } else if n == 2 { "root_of_unity:n=2" } else if n.is_power_of_two() { "root_of_unity:n=2^two_adicity" } else { "root_of_unity:mixed_radix" });
        }
    }
    // --- generator and roots of unity
    reg.rel(cfg, "constants_canonical", 0, || {
        let p = pmod::<T, N>();
        let mut l = vec![("GENERATOR", from_limbs(&(T::GENERATOR.0).0)), ("TWO_ADIC_ROOT_OF_UNITY", from_limbs(&(T::TWO_ADIC_ROOT_OF_UNITY.0).0))];
        if let Some(w) = T::LARGE_SUBGROUP_ROOT_OF_UNITY {
            l.push(("LARGE_SUBGROUP_ROOT_OF_UNITY", from_limbs(&(w.0).0)));
        }
        for (n, v) in l {
            ensure(v < p, || format!("{n}: raw Montgomery limbs {v} are not reduced mod p"))?;
        }
        Ok(())
    });
    reg.rel(cfg, "generator_qnr", 0, || {
        let p = pmod::<T, N>();
        let g = dec::<T, N>(&T::GENERATOR);
        want(g.modpow(&((&p - 1u32) >> 1), &p), &p - 1u32).map_err(|e| format!("GENERATOR {g} is not a quadratic non-residue: g^((p-1)/2) {e}"))
    });
    reg.rel(cfg, "generator_order", 0, || {
        let p = pmod::<T, N>();
        let g = dec::<T, N>(&T::GENERATOR);
        let pm1 = &p - 1u32;
        ensure(!g.is_zero(), || "GENERATOR is zero".into())?;
        for q in small_factors(&pm1) {
            ensure(!g.modpow(&(&pm1 / q), &p).is_one(), || format!("GENERATOR {g} has order dividing (p-1)/{q}: not a generator of F_p^*"))?;
        }
        Ok(())
    })
    .class("field:generator_order_up_to_factor_bound");
    reg.rel(cfg, "two_adic_root_of_unity", 0, || {
        let p = pmod::<T, N>();
        let pm1 = &p - 1u32;
        let t = &pm1 >> pm1.trailing_zeros().unwrap();
        want(dec::<T, N>(&T::TWO_ADIC_ROOT_OF_UNITY), dec::<T, N>(&T::GENERATOR).modpow(&t, &p))
    });
    reg.rel(cfg, "two_adic_root_order", 0, || {
        let p = pmod::<T, N>();
        let s = (&p - 1u32).trailing_zeros().unwrap();
        let w = dec::<T, N>(&T::TWO_ADIC_ROOT_OF_UNITY);
        let half = w.modpow(&pow2(s as usize - 1), &p);
        ensure(half == &p - 1u32, || format!("TWO_ADIC_ROOT_OF_UNITY {w} does not have order exactly 2^{s}: w^(2^{}) = {half}, want p-1", s - 1))
    });
    let has_small = T::SMALL_SUBGROUP_BASE.is_some() || T::SMALL_SUBGROUP_BASE_ADICITY.is_some() || T::LARGE_SUBGROUP_ROOT_OF_UNITY.is_some();
    reg.rel(cfg, "small_subgroup_consts", 0, || {
        let p = pmod::<T, N>();
        match (T::SMALL_SUBGROUP_BASE, T::SMALL_SUBGROUP_BASE_ADICITY, T::LARGE_SUBGROUP_ROOT_OF_UNITY) {
            (None, None, None) => Ok(()),
            (Some(b), Some(k), Some(_)) => {
                ensure(b >= 2, || format!("SMALL_SUBGROUP_BASE = {b}"))?;
                let bk = big(b as u64).pow(k);
                ensure(((&p - 1u32) % &bk).is_zero(), || format!("{b}^{k} does not divide p-1: no multiplicative subgroup of that size"))
            },
            (b, k, w) => Err(format!("SMALL_SUBGROUP_BASE {b:?}, SMALL_SUBGROUP_BASE_ADICITY {k:?}, LARGE_SUBGROUP_ROOT_OF_UNITY is_some={} are not all set/unset together", w.is_some())),
        }
    })
    .class(if has_small { "field:small_subgroup" } else { "field:no_small_subgroup" });
    if has_small {
        reg.rel(cfg, "large_subgroup_root_of_unity", 0, || {
            let p = pmod::<T, N>();
            let pm1 = &p - 1u32;
            let (b, k, w) = (T::SMALL_SUBGROUP_BASE.ok_or("unset")?, T::SMALL_SUBGROUP_BASE_ADICITY.ok_or("unset")?, T::LARGE_SUBGROUP_ROOT_OF_UNITY.ok_or("unset")?);
            let n = pow2(pm1.trailing_zeros().unwrap() as usize) * big(b as u64).pow(k);
            ensure((&pm1 % &n).is_zero(), || "2^s * b^k does not divide p-1".to_string())?;
            want(dec::<T, N>(&w), dec::<T, N>(&T::GENERATOR).modpow(&(&pm1 / &n), &p))
        });
        reg.rel(cfg, "large_subgroup_root_order", 0, || {
            let p = pmod::<T, N>();
            let pm1 = &p - 1u32;
            let (b, k, w) = (T::SMALL_SUBGROUP_BASE.ok_or("unset")?, T::SMALL_SUBGROUP_BASE_ADICITY.ok_or("unset")?, T::LARGE_SUBGROUP_ROOT_OF_UNITY.ok_or("unset")?);
            let w = dec::<T, N>(&w);
            let n = pow2(pm1.trailing_zeros().unwrap() as usize) * big(b as u64).pow(k);
            ensure(w.modpow(&n, &p).is_one(), || format!("LARGE_SUBGROUP_ROOT_OF_UNITY^(2^s*{b}^{k}) != 1"))?;
            let mut qs: Vec<u64> = vec![2];
            let mut m = b as u64;
            let mut d = 2u64;
            while d * d <= m {
                if m % d == 0 {
                    qs.push(d);
                    while m % d == 0 {
                        m /= d;
                    }
                }
                d += 1;
            }
            if m > 1 {
                qs.push(m);
            }
            for q in qs {
                ensure(!w.modpow(&(&n / q), &p).is_one(), || format!("LARGE_SUBGROUP_ROOT_OF_UNITY has order dividing 2^s*{b}^{k}/{q}"))?;
            }
            Ok(())
        });
    }
    // --- square-root precomputation
    let mod4 = (T::MODULUS.0[0] & 3) as u8;
    reg.rel(cfg, "sqrt_precomp", 0, || check_sqrt_precomp::<F<T, N>>(&<F<T, N> as Field>::SQRT_PRECOMP))
    .class(if mod4 == 3 { "field:sqrt_case3mod4" } else { "field:sqrt_tonelli_shanks" });
    // --- derive attributes in the source text denote the constants
    reg.rel(cfg, "derive_attr_modulus", 0, move || {
        let a = derive_attrs(file, struct_name)?;
        let m = parse_int(a.get("modulus").ok_or_else(|| machinery(format!("no single-line modulus attribute on {struct_name} in {file}")))?)?;
        want(SBig::from(pmod::<T, N>()), m)
    });
    reg.rel(cfg, "derive_attr_generator", 0, move || {
        let a = derive_attrs(file, struct_name)?;
        let g = parse_int(a.get("generator").ok_or_else(|| machinery(format!("no single-line generator attribute on {struct_name} in {file}")))?)?;
        let p = SBig::from(pmod::<T, N>());
        want(SBig::from(dec::<T, N>(&T::GENERATOR)), g.mod_floor(&p))
    });
    reg.rel(cfg, "derive_attr_small_subgroup", 0, move || {
        let a = derive_attrs(file, struct_name)?;
        let get = |k: &str| -> Result<Option<u32>, String> {
            match a.get(k) {
                None => Ok(None),
                Some(v) => v.parse::<u32>().map(Some).map_err(|e| machinery(format!("derive attribute {k} = {v:?} of {struct_name} in {file}: {e}"))),
            }
        };
        want((T::SMALL_SUBGROUP_BASE, T::SMALL_SUBGROUP_BASE_ADICITY), (get("small_subgroup_base")?, get("small_subgroup_power")?))
    });
}

// =====================================================================
// 6. Extension towers
// =====================================================================

/// (p^i - 1)/k as an integer, Err if not integral
fn frob_exp(p: &BigUint, i: usize, k: u32) -> Result<BigUint, String> {
    let e = p.pow(i as u32) - 1u32;
    ensure((&e % k).is_zero(), || format!("(p^{i} - 1) is not divisible by {k}: the Frobenius map is not diagonal in this basis"))?;
    Ok(e / k)
}

struct TabNames {
    nonres: &'static str,
    len: &'static str,
    c1: &'static str,
    c2: &'static str,
}

/// generic quadratic level K[X]/(X^2 - beta): beta non-square, C1[i] = beta^((p^i-1)/2)
fn quad_level<P: QuadExtConfig>(reg: &mut Reg, cfg: &str, n: TabNames)
where
    P::BaseField: Rd,
    P::FrobCoeff: Rd,
{
    reg.rel(cfg, n.nonres, 0, || {
        let b = <P::BaseField as Rd>::tw();
        let beta = P::NONRESIDUE.rd();
        let e = (b.order() - 1u32) >> 1;
        want_el(&b, &b.pow(&beta, &e), &b.neg(&b.one())).map_err(|e| format!("NONRESIDUE {} is not a quadratic non-residue of the base field: beta^((q-1)/2) {e}", b.show(&beta)))
    });
    reg.rel(cfg, n.len, 0, || want(P::FROBENIUS_COEFF_C1.len(), P::DEGREE_OVER_BASE_PRIME_FIELD));
    let big_field = <P::BaseField as Rd>::tw().p.bits() > 700;
    for i in 0..P::FROBENIUS_COEFF_C1.len() {
        reg.rel(cfg, n.c1, i, move || {
            let b = <P::BaseField as Rd>::tw();
            let beta = P::NONRESIDUE.rd();
            let w = b.pow(&beta, &frob_exp(&b.p, i, 2)?);
            want_el(&b, &b.embed(&P::FROBENIUS_COEFF_C1[i].rd()), &w)
        })
        .class(if i == 0 { "frob:index0" } else if i == 1 { "frob:index1" } else { "frob:index>=2" })
        .class(if big_field { "frob:>=753bit" } else { "frob:<753bit" });
    }
}

/// generic cubic level K[X]/(X^3 - beta): beta non-cube, C1[i] = beta^((p^i-1)/3), C2[i] = beta^(2(p^i-1)/3)
fn cubic_level<P: CubicExtConfig>(reg: &mut Reg, cfg: &str, n: TabNames)
where
    P::BaseField: Rd,
    P::FrobCoeff: Rd,
{
    reg.rel(cfg, n.nonres, 0, || {
        let b = <P::BaseField as Rd>::tw();
        let beta = P::NONRESIDUE.rd();
        let qm1 = b.order() - 1u32;
        ensure((&qm1 % 3u32).is_zero(), || "3 does not divide q-1: X^3 - beta is reducible".to_string())?;
        ensure(b.pow(&beta, &(qm1 / 3u32)) != b.one() && !b.is_zero(&beta), || {
            format!("NONRESIDUE {} is a cube in the base field: X^3 - beta is reducible", b.show(&beta))
        })
    });
    reg.rel(cfg, n.len, 0, || {
        want((P::FROBENIUS_COEFF_C1.len(), P::FROBENIUS_COEFF_C2.len()), (P::DEGREE_OVER_BASE_PRIME_FIELD, P::DEGREE_OVER_BASE_PRIME_FIELD))
    });
    let big_field = <P::BaseField as Rd>::tw().p.bits() > 700;
    for (which, rel) in [(1u32, n.c1), (2u32, n.c2)] {
        let len = if which == 1 { P::FROBENIUS_COEFF_C1.len() } else { P::FROBENIUS_COEFF_C2.len() };
        for i in 0..len {
            reg.rel(cfg, rel, i, move || {
                let b = <P::BaseField as Rd>::tw();
                let beta = P::NONRESIDUE.rd();
                let e = frob_exp(&b.p, i, 3)? * which;
                let w = b.pow(&beta, &e);
                let tab = if which == 1 { P::FROBENIUS_COEFF_C1 } else { P::FROBENIUS_COEFF_C2 };
                want_el(&b, &b.embed(&tab[i].rd()), &w)
            })
            .class(if i == 0 { "frob:index0" } else if i == 1 { "frob:index1" } else { "frob:index>=2" })
            .class(if big_field { "frob:>=753bit" } else { "frob:<753bit" });
        }
    }
}

/// `hook(x)` must equal `model(x)` on the whole alphabet of the field `X`
fn hook1<X: Rd>(hook: impl Fn(X) -> X, model: impl Fn(&Tw, &El) -> El) -> Result<(), String> {
    let tw = X::tw();
    for x in alphabet(&tw) {
        let got = hook(X::wr(&x)).rd();
        let w = model(&tw, &x);
        if got != w {
            return Err(format!("x = {}: got {} want {}", tw.show(&x), tw.show(&got), tw.show(&w)));
        }
    }
    Ok(())
}
/// two-argument hooks on Fp: all ordered pairs of a small alphabet
fn hook2<X: Rd>(hook: impl Fn(X, X) -> X, model: impl Fn(&Tw, &El, &El) -> El) -> Result<(), String> {
    let tw = X::tw();
    let al = alphabet(&tw);
    for y in &al {
        for x in &al {
            let got = hook(X::wr(y), X::wr(x)).rd();
            let w = model(&tw, y, x);
            if got != w {
                return Err(format!("y = {}, x = {}: got {} want {}", tw.show(y), tw.show(x), tw.show(&got), tw.show(&w)));
            }
        }
    }
    Ok(())
}

fn fp2_cfg<P: Fp2Config>(reg: &mut Reg, cfg: &str, file: &str)
where
    P::Fp: Rd,
{
    reg.declare(file, &["Fp2Config"]);
    quad_level::<Fp2ConfigWrapper<P>>(
        reg,
        cfg,
        TabNames { nonres: "fp2_nonresidue_is_nonsquare", len: "frobenius_coeff_fp2_c1_len", c1: "frobenius_coeff_fp2_c1", c2: "" },
    );
    reg.rel(cfg, "mul_fp_by_nonresidue_in_place", 0, || {
        let beta = P::NONRESIDUE.rd();
        hook1::<P::Fp>(
            |mut x| {
                P::mul_fp_by_nonresidue_in_place(&mut x);
                x
            },
            |t, x| t.mul(&beta, x),
        )
    })
    .class("hook:fp2");
    reg.rel(cfg, "mul_fp_by_nonresidue_and_add", 0, || {
        let beta = P::NONRESIDUE.rd();
        hook2::<P::Fp>(
            |mut y, x| {
                P::mul_fp_by_nonresidue_and_add(&mut y, &x);
                y
            },
            |t, y, x| t.add(x, &t.mul(&beta, y)),
        )
    });
    reg.rel(cfg, "mul_fp_by_nonresidue_plus_one_and_add", 0, || {
        let beta = P::NONRESIDUE.rd();
        hook2::<P::Fp>(
            |mut y, x| {
                P::mul_fp_by_nonresidue_plus_one_and_add(&mut y, &x);
                y
            },
            |t, y, x| t.add(&t.add(x, &t.mul(&beta, y)), y),
        )
    });
    reg.rel(cfg, "sub_and_mul_fp_by_nonresidue", 0, || {
        let beta = P::NONRESIDUE.rd();
        hook2::<P::Fp>(
            |mut y, x| {
                P::sub_and_mul_fp_by_nonresidue(&mut y, &x);
                y
            },
            |t, y, x| t.sub(x, &t.mul(&beta, y)),
        )
    });
}

fn fp3_cfg<P: Fp3Config>(reg: &mut Reg, cfg: &str, file: &str)
where
    P::Fp: Rd,
{
    reg.declare(file, &["Fp3Config"]);
    cubic_level::<Fp3ConfigWrapper<P>>(
        reg,
        cfg,
        TabNames { nonres: "fp3_nonresidue_is_noncube", len: "frobenius_coeff_fp3_len", c1: "frobenius_coeff_fp3_c1", c2: "frobenius_coeff_fp3_c2" },
    );
    reg.rel(cfg, "mul_fp_by_nonresidue_in_place", 0, || {
        let beta = P::NONRESIDUE.rd();
        hook1::<P::Fp>(
            |mut x| {
                P::mul_fp_by_nonresidue_in_place(&mut x);
                x
            },
            |t, x| t.mul(&beta, x),
        )
    })
    .class("hook:fp3");
    reg.rel(cfg, "fp3_two_adicity", 0, || {
        let q = <ark_ff::Fp3<P> as Rd>::tw().order();
        want(P::TWO_ADICITY as u64, (q - 1u32).trailing_zeros().unwrap())
    });
    reg.rel(cfg, "fp3_trace_minus_one_div_two", 0, || {
        let qm1 = <ark_ff::Fp3<P> as Rd>::tw().order() - 1u32;
        let t = &qm1 >> qm1.trailing_zeros().unwrap();
        want(from_limbs(P::TRACE_MINUS_ONE_DIV_TWO), (t - 1u32) >> 1)
    });
    reg.rel(cfg, "fp3_quadratic_nonresidue_to_t", 0, || {
        let tw = <ark_ff::Fp3<P> as Rd>::tw();
        let s = (tw.order() - 1u32).trailing_zeros().unwrap();
        let z = P::QUADRATIC_NONRESIDUE_TO_T.rd();
        // t-th power of a quadratic non-residue <=> order exactly 2^s
        want_el(&tw, &tw.pow(&z, &pow2(s as usize - 1)), &tw.neg(&tw.one()))
            .map_err(|e| format!("QUADRATIC_NONRESIDUE_TO_T {} does not have order exactly 2^{s}: z^(2^(s-1)) {e}", tw.show(&z)))
    });
    reg.rel(cfg, "fp3_sqrt_precomp", 0, || check_sqrt_precomp::<ark_ff::Fp3<P>>(&<ark_ff::Fp3<P> as Field>::SQRT_PRECOMP));
    // every shipped Fp3 configuration documents this constant as NONRESIDUE^T ("NONRESIDUE^T % q", "(11^T, 0, 0)"
    // with NONRESIDUE = 11, ...): the cubic non-residue of the tower doubles as the quadratic non-residue
    // (only demanded where the configuration's source - in the repository the harness is built against - says so
    // in the comment above the constant; an unreadable source file is a machinery error, not "undocumented")
    let src = file.to_string();
    reg.rel(cfg, "fp3_quadratic_nonresidue_to_t_is_nonresidue_to_t", 0, move || {
        let documented = comment_above(&src, "const QUADRATIC_NONRESIDUE_TO_T", 4)?.map(|c| c.iter().any(|l| l.contains("^T"))).unwrap_or(false);
        if !documented {
            observe("fp3:quadratic_nonresidue_to_t_base_not_documented");
            return Ok(());
        }
        observe("fp3:quadratic_nonresidue_to_t_documented_as_nonresidue^t");
        let tw = <ark_ff::Fp3<P> as Rd>::tw();
        let qm1 = tw.order() - 1u32;
        let t = &qm1 >> qm1.trailing_zeros().unwrap();
        let beta = P::NONRESIDUE.rd();
        let mut e = tw.one();
        e[0] = beta[0].clone();
        want_el(&tw, &P::QUADRATIC_NONRESIDUE_TO_T.rd(), &tw.pow(&e, &t))
            .map_err(|e| format!("QUADRATIC_NONRESIDUE_TO_T is not NONRESIDUE^T (the documented value): {e}"))
    });
}

fn fp4_cfg<P: Fp4Config>(reg: &mut Reg, cfg: &str, file: &str)
where
    <P::Fp2Config as Fp2Config>::Fp: Rd,
{
    reg.declare(file, &["Fp4Config"]);
    quad_level::<Fp4ConfigWrapper<P>>(
        reg,
        cfg,
        TabNames { nonres: "fp4_nonresidue_is_nonsquare", len: "frobenius_coeff_fp4_c1_len", c1: "frobenius_coeff_fp4_c1", c2: "" },
    );
    reg.rel(cfg, "fp4_nonresidue_is_0_1", 0, || {
        let tw = <ark_ff::Fp2<P::Fp2Config> as Rd>::tw();
        want_el(&tw, &P::NONRESIDUE.rd(), &vec![BigUint::zero(), BigUint::one()])
    });
    reg.rel(cfg, "mul_fp2_by_nonresidue_in_place", 0, || {
        let beta = P::NONRESIDUE.rd();
        hook1::<ark_ff::Fp2<P::Fp2Config>>(
            |mut x| {
                P::mul_fp2_by_nonresidue_in_place(&mut x);
                x
            },
            |t, x| t.mul(&beta, x),
        )
    })
    .class("hook:fp4");
}

fn fp6_2o3_cfg<P: Fp6Config2o3>(reg: &mut Reg, cfg: &str, file: &str)
where
    <P::Fp3Config as Fp3Config>::Fp: Rd,
{
    reg.declare(file, &["Fp6Config"]);
    quad_level::<Fp6Wrapper2o3<P>>(
        reg,
        cfg,
        TabNames { nonres: "fp6_nonresidue_is_nonsquare", len: "frobenius_coeff_fp6_c1_len", c1: "frobenius_coeff_fp6_c1", c2: "" },
    );
    reg.rel(cfg, "mul_fp3_by_nonresidue_in_place", 0, || {
        let beta = P::NONRESIDUE.rd();
        hook1::<ark_ff::Fp3<P::Fp3Config>>(
            |mut x| {
                P::mul_fp3_by_nonresidue_in_place(&mut x);
                x
            },
            |t, x| t.mul(&beta, x),
        )
    })
    .class("hook:fp6_2over3");
}

fn fp6_3o2_cfg<P: Fp6Config3o2>(reg: &mut Reg, cfg: &str, file: &str)
where
    <P::Fp2Config as Fp2Config>::Fp: Rd,
{
    reg.declare(file, &["Fp6Config"]);
    cubic_level::<Fp6Wrapper3o2<P>>(
        reg,
        cfg,
        TabNames { nonres: "fp6_nonresidue_is_noncube", len: "frobenius_coeff_fp6_len", c1: "frobenius_coeff_fp6_c1", c2: "frobenius_coeff_fp6_c2" },
    );
    reg.rel(cfg, "mul_fp2_by_nonresidue_in_place", 0, || {
        let beta = P::NONRESIDUE.rd();
        hook1::<ark_ff::Fp2<P::Fp2Config>>(
            |mut x| {
                P::mul_fp2_by_nonresidue_in_place(&mut x);
                x
            },
            |t, x| t.mul(&beta, x),
        )
    })
    .class("hook:fp6_3over2");
    reg.rel(cfg, "mul_fp2_by_nonresidue", 0, || {
        let beta = P::NONRESIDUE.rd();
        hook1::<ark_ff::Fp2<P::Fp2Config>>(|x| P::mul_fp2_by_nonresidue(x), |t, x| t.mul(&beta, x))
    });
    // None (the default) is legitimate; a precomputation that is set must hold the right constants
    reg.rel(cfg, "fp6_sqrt_precomp", 0, || check_sqrt_precomp::<ark_ff::Fp6<P>>(&P::SQRT_PRECOMP));
}

fn fp12_cfg<P: Fp12Config>(reg: &mut Reg, cfg: &str, file: &str)
where
    <<P::Fp6Config as Fp6Config3o2>::Fp2Config as Fp2Config>::Fp: Rd,
{
    reg.declare(file, &["Fp12Config"]);
    quad_level::<Fp12ConfigWrapper<P>>(
        reg,
        cfg,
        TabNames { nonres: "fp12_nonresidue_is_nonsquare", len: "frobenius_coeff_fp12_c1_len", c1: "frobenius_coeff_fp12_c1", c2: "" },
    );
    reg.rel(cfg, "fp12_nonresidue_is_0_1_0", 0, || {
        let tw = <ark_ff::Fp6<P::Fp6Config> as Rd>::tw();
        let mut w = tw.zero();
        w[2] = BigUint::one();
        want_el(&tw, &P::NONRESIDUE.rd(), &w)
    });
    reg.rel(cfg, "mul_fp6_by_nonresidue_in_place", 0, || {
        let beta = P::NONRESIDUE.rd();
        hook1::<ark_ff::Fp6<P::Fp6Config>>(
            |mut x| {
                P::mul_fp6_by_nonresidue_in_place(&mut x);
                x
            },
            |t, x| t.mul(&beta, x),
        )
    })
    .class("hook:fp12");
}

// =====================================================================
// 7. Curves
// =====================================================================

fn cofactor<C: CurveConfig>() -> BigUint {
    from_limbs(C::COFACTOR)
}
fn r_of<C: CurveConfig>() -> BigUint
where
    C::ScalarField: Rd,
{
    modulus_of::<C::ScalarField>()
}

fn curve_common<C: CurveConfig>(reg: &mut Reg, cfg: &str)
where
    C::BaseField: Rd,
    C::ScalarField: Rd,
{
    reg.rel(cfg, "cofactor_inv", 0, || {
        let r = r_of::<C>();
        let h = cofactor::<C>();
        let hi = scalar(&C::COFACTOR_INV);
        want((&h * &hi) % &r, BigUint::one()).map_err(|e| format!("COFACTOR {h} * COFACTOR_INV {hi} mod r: {e}"))
    });
    reg.rel(cfg, "cofactor_is_one_flag", 0, || want(C::cofactor_is_one(), cofactor::<C>().is_one()));
    // COFACTOR * r must be a possible group order over the base field F_q, q = p^k: |h r - (q + 1)| <= 2 sqrt(q)
    // (compared as squares).  A COFACTOR that is a proper multiple of the true cofactor (with a matching
    // COFACTOR_INV) satisfies (h r) P = O and h h^-1 = 1 mod r, but leaves the Hasse interval.
    reg.rel(cfg, "cofactor_times_r_is_the_group_order_size", 0, || {
        let q = SBig::from(<C::BaseField as Rd>::tw().order());
        let n = SBig::from(cofactor::<C>() * r_of::<C>());
        let t = &q + 1 - &n;
        ensure(&t * &t <= &q * 4, || format!("COFACTOR * r = {n} is outside the Hasse interval of F_q, q = {q}: (h r - q - 1)^2 = {} > 4 q (trace would be {t})", &t * &t))
    })
    .class("curve:cofactor_times_r_in_hasse_interval");
}

fn sw_model<C: SWCurveConfig>() -> SwCurve
where
    C::BaseField: Rd,
{
    SwCurve { f: <C::BaseField as Rd>::tw(), a: C::COEFF_A.rd(), b: C::COEFF_B.rd() }
}
fn sw_gen<C: SWCurveConfig>() -> Pt
where
    C::BaseField: Rd,
{
    let g = C::GENERATOR;
    if g.infinity {
        None
    } else {
        Some((g.x.rd(), g.y.rd()))
    }
}

/// `decl`: the trait impls in `file` that this registry line accounts for
fn sw_curve<C: SWCurveConfig>(reg: &mut Reg, cfg: &str, file: &str, decl: &[&str], common: bool)
where
    C::BaseField: Rd,
    C::ScalarField: Rd,
{
    reg.declare(file, decl);
    if common {
        curve_common::<C>(reg, cfg);
    }
    let tw = <C::BaseField as Rd>::tw();
    let ext = tw.dim() > 1;
    let size: &'static str = if ext { "curve:over_extension" } else if tw.p.bits() > 700 { "curve:>=753bit" } else { "curve:<753bit" };
    reg.rel(cfg, "sw_discriminant", 0, || {
        let c = sw_model::<C>();
        let f = &c.f;
        let disc = f.add(&f.muls(&f.mul(&f.sq(&c.a), &c.a), 4), &f.muls(&f.sq(&c.b), 27));
        ensure(!f.is_zero(&disc), || "4a^3 + 27b^2 = 0: singular curve".to_string())
    });
    reg.rel(cfg, "generator_on_curve", 0, || {
        let c = sw_model::<C>();
        let g = sw_gen::<C>();
        ensure(g.is_some(), || "GENERATOR is the point at infinity".to_string())?;
        let (x, y) = g.clone().unwrap();
        ensure(c.on_curve(&g), || format!("GENERATOR ({}, {}) is not on the curve: y^2 = {} but x^3+ax+b = {}", c.f.show(&x), c.f.show(&y), c.f.show(&c.f.sq(&y)), c.f.show(&c.rhs(&x))))
    })
    .class(size);
    reg.rel(cfg, "generator_order_r", 0, || {
        let c = sw_model::<C>();
        let g = sw_gen::<C>();
        ensure(g.is_some() && c.on_curve(&g), || "GENERATOR not a finite point on the curve".to_string())?;
        let r = r_of::<C>();
        ensure(is_probable_prime(&r), || "scalar field modulus is not prime".to_string())?;
        let rg = c.mul(&r, &g);
        ensure(rg.is_none(), || format!("r * GENERATOR != O (plain double-and-add), got x = {}", c.f.show(&rg.as_ref().unwrap().0)))
    })
    .class(size);
    let npts = 8usize;
    let big_ext = ext && tw.p.bits() > 700;
    for k in 0..npts {
        reg.rel(cfg, "group_order_annihilates_point", k, move || {
            let c = sw_model::<C>();
            let p = Some(c.nth_point(k));
            let n = cofactor::<C>() * r_of::<C>();
            let np = c.mul(&n, &p);
            ensure(np.is_none(), || format!("(COFACTOR * r) * P != O for the curve point with x = {}: COFACTOR * r is not the group order", c.f.show(&p.as_ref().unwrap().0)))
        })
        .thorough_if(ext && k >= if big_ext { 1 } else { 2 })
        .class(if ext { "curve:order_on_extension_curve" } else { "curve:order_on_prime_field_curve" });
    }
    reg.rel(cfg, "mul_by_a_hook", 0, || {
        let a = C::COEFF_A.rd();
        hook1::<C::BaseField>(|x| C::mul_by_a(x), |t, x| t.mul(&a, x))
    })
    .class("hook:sw_mul_by_a");
    reg.rel(cfg, "add_b_hook", 0, || {
        let b = C::COEFF_B.rd();
        hook1::<C::BaseField>(|x| C::add_b(x), |t, x| t.add(x, &b))
    })
    .class("hook:sw_add_b");
}

fn te_model<C: TECurveConfig>() -> TeCurve
where
    C::BaseField: Rd,
{
    TeCurve { f: <C::BaseField as Rd>::tw(), a: <C as TECurveConfig>::COEFF_A.rd(), d: C::COEFF_D.rd() }
}

/// `common`: also emit the CurveConfig relations (false when an SW line of the same config already did)
fn te_curve<C: TECurveConfig>(reg: &mut Reg, cfg: &str, file: &str, decl: &[&str], common: bool)
where
    C::BaseField: Rd,
    C::ScalarField: Rd,
{
    reg.declare(file, decl);
    if common {
        curve_common::<C>(reg, cfg);
    }
    reg.rel(cfg, "te_nondegenerate", 0, || {
        let c = te_model::<C>();
        ensure(!c.f.is_zero(&c.a) && !c.f.is_zero(&c.d) && c.a != c.d, || "a = 0, d = 0 or a = d: degenerate twisted Edwards curve".to_string())
    });
    reg.rel(cfg, "te_generator_on_curve", 0, || {
        let c = te_model::<C>();
        let g = (C::GENERATOR.x.rd(), C::GENERATOR.y.rd());
        ensure(!c.is_identity(&g), || "GENERATOR is the identity".to_string())?;
        ensure(c.on_curve(&g), || format!("GENERATOR ({}, {}) does not satisfy a x^2 + y^2 = 1 + d x^2 y^2", c.f.show(&g.0), c.f.show(&g.1)))
    })
    .class("curve:twisted_edwards");
    reg.rel(cfg, "te_generator_order_r", 0, || {
        let c = te_model::<C>();
        let g = (C::GENERATOR.x.rd(), C::GENERATOR.y.rd());
        ensure(c.on_curve(&g) && !c.is_identity(&g), || "GENERATOR not a non-trivial point of the curve".to_string())?;
        let r = r_of::<C>();
        ensure(is_probable_prime(&r), || "scalar field modulus is not prime".to_string())?;
        let rg = c.mul(&r, &g)?;
        ensure(c.is_identity(&rg), || format!("r * GENERATOR != (0, 1), got ({}, {})", c.f.show(&rg.0), c.f.show(&rg.1)))
    })
    .class("curve:twisted_edwards");
    for k in 0..8usize {
        reg.rel(cfg, "te_group_order_annihilates_point", k, move || {
            let c = te_model::<C>();
            let p = c.nth_point(k);
            let n = cofactor::<C>() * r_of::<C>();
            // on incomplete curves (a non-square or d square) the unified law can meet an exceptional
            // point outside the prime-order subgroup; then the check is done on the birationally
            // equivalent Weierstrass model, whose group law is complete
            let np = match c.mul(&n, &p) {
                Ok(v) => v,
                Err(_) => return te_order_via_weierstrass(&c, &p, &n),
            };
            ensure(c.is_identity(&np), || format!("(COFACTOR * r) * P != (0,1) for the point with y = {}", c.f.show(&p.1)))
        });
    }
    reg.rel(cfg, "te_mul_by_a_hook", 0, || {
        let a = <C as TECurveConfig>::COEFF_A.rd();
        hook1::<C::BaseField>(|x| <C as TECurveConfig>::mul_by_a(x), |t, x| t.mul(&a, x))
    })
    .class("hook:te_mul_by_a");
    // Montgomery form: A = 2(a+d)/(a-d) exactly; B = 4/(a-d) up to a square factor (the documented
    // contract is "birationally equivalent", and bls12_377 documents a rescaled TE form)
    reg.rel(cfg, "te_montgomery_coeff_a", 0, || {
        let c = te_model::<C>();
        let f = &c.f;
        let ma = <C::MontCurveConfig as MontCurveConfig>::COEFF_A.rd();
        want_el(f, &f.mul(&ma, &f.sub(&c.a, &c.d)), &f.muls(&f.add(&c.a, &c.d), 2)).map_err(|e| format!("Montgomery A * (a - d) vs 2(a + d): {e}"))
    });
    reg.rel(cfg, "te_montgomery_coeff_b", 0, || {
        let c = te_model::<C>();
        let f = &c.f;
        let mb = <C::MontCurveConfig as MontCurveConfig>::COEFF_B.rd();
        // ratio = B (a - d) / 4 must be a non-zero square (1 when the forms correspond exactly)
        let ratio = f.div(&f.mul(&mb, &f.sub(&c.a, &c.d)), &f.from_u64(4)).ok_or("4 not invertible")?;
        ensure(!f.is_zero(&ratio) && f.is_square(&ratio), || {
            format!("Montgomery B * (a - d) / 4 = {} is not a non-zero square: the Montgomery curve is not F_q-birationally equivalent to the Edwards curve", f.show(&ratio))
        })
    });
}

/// (COFACTOR*r)*P = O checked on the Weierstrass model of the Edwards curve (complete group law)
fn te_order_via_weierstrass(c: &TeCurve, p: &(El, El), n: &BigUint) -> Result<(), String> {
    let f = &c.f;
    // Montgomery: A = 2(a+d)/(a-d), B = 4/(a-d); (u, v) = ((1+y)/(1-y), u/x)
    let amd = f.sub(&c.a, &c.d);
    let ma = f.div(&f.muls(&f.add(&c.a, &c.d), 2), &amd).ok_or("a = d")?;
    let mb = f.div(&f.from_u64(4), &amd).ok_or("a = d")?;
    let u = f.div(&f.add(&f.one(), &p.1), &f.sub(&f.one(), &p.1)).ok_or("y = 1")?;
    let v = f.div(&u, &p.0).ok_or("x = 0")?;
    // Weierstrass: x = (u + A/3)/B, y = v/B; a = (3 - A^2)/(3B^2), b = (2A^3 - 9A)/(27B^3)
    let three = f.from_u64(3);
    let wx = f.div(&f.add(&u, &f.div(&ma, &three).ok_or("char 3")?), &mb).ok_or("B = 0")?;
    let wy = f.div(&v, &mb).ok_or("B = 0")?;
    let b2 = f.sq(&mb);
    let wa = f.div(&f.sub(&three, &f.sq(&ma)), &f.muls(&b2, 3)).ok_or("B = 0")?;
    let a3 = f.mul(&f.sq(&ma), &ma);
    let wb = f.div(&f.sub(&f.muls(&a3, 2), &f.muls(&ma, 9)), &f.muls(&f.mul(&b2, &mb), 27)).ok_or("B = 0")?;
    let w = SwCurve { f: f.clone(), a: wa, b: wb };
    let q = Some((wx, wy));
    ensure(w.on_curve(&q), || "oracle: Edwards -> Weierstrass map left the curve".to_string())?;
    ensure(w.mul(n, &q).is_none(), || format!("(COFACTOR * r) * P != O for the point with y = {} (Weierstrass model)", f.show(&p.1)))
}

/// configs that implement both the SW and the TE model: same j-invariant
fn sw_te_same_curve<C: SWCurveConfig + TECurveConfig>(reg: &mut Reg, cfg: &str)
where
    C::BaseField: Rd,
{
    reg.rel(cfg, "sw_te_j_invariant", 0, || {
        let s = sw_model::<C>();
        let t = te_model::<C>();
        let f = &s.f;
        // Montgomery A of the Edwards curve, j = 256 (A^2 - 3)^3 / (A^2 - 4)
        let ma = f.div(&f.muls(&f.add(&t.a, &t.d), 2), &f.sub(&t.a, &t.d)).ok_or("a = d")?;
        let a2 = f.sq(&ma);
        let n = f.sub(&a2, &f.from_u64(3));
        let jt = f.div(&f.muls(&f.mul(&f.sq(&n), &n), 256), &f.sub(&a2, &f.from_u64(4))).ok_or("A^2 = 4")?;
        let js = s.j_invariant().ok_or("singular Weierstrass curve")?;
        want_el(f, &js, &jt).map_err(|e| format!("j-invariants of the Weierstrass and the Edwards model differ: {e}"))
    });
}


/// configs whose SW model is documented as the image of the TE model under the standard maps
/// TE -> Montgomery (u, v) = ((1+y)/(1-y), u/x) -> SW (x, y) = ((u + A/3)/B, v/B)
fn sw_is_image_of_te<C: SWCurveConfig + TECurveConfig + MontCurveConfig>(reg: &mut Reg, cfg: &str, file: &str)
where
    C::BaseField: Rd,
    C::ScalarField: Rd,
{
    fn mont<C: MontCurveConfig>() -> (El, El)
    where
        C::BaseField: Rd,
    {
        (<C as MontCurveConfig>::COEFF_A.rd(), <C as MontCurveConfig>::COEFF_B.rd())
    }
    reg.rel(cfg, "sw_coeff_a_from_montgomery", 0, || {
        let f = <C::BaseField as Rd>::tw();
        let (a, b) = mont::<C>();
        // a_sw * 3 B^2 = 3 - A^2
        want_el(&f, &f.mul(&<C as SWCurveConfig>::COEFF_A.rd(), &f.muls(&f.sq(&b), 3)), &f.sub(&f.from_u64(3), &f.sq(&a)))
    });
    reg.rel(cfg, "sw_coeff_b_from_montgomery", 0, || {
        let f = <C::BaseField as Rd>::tw();
        let (a, b) = mont::<C>();
        // b_sw * 27 B^3 = 2 A^3 - 9 A
        let a3 = f.mul(&f.sq(&a), &a);
        want_el(&f, &f.mul(&<C as SWCurveConfig>::COEFF_B.rd(), &f.muls(&f.mul(&f.sq(&b), &b), 27)), &f.sub(&f.muls(&a3, 2), &f.muls(&a, 9)))
    });
    // what the two models need: the map sends the TE generator to a point of order r of the SW curve (both
    // generators are on their curves with order r by the relations of sw_curve / te_curve).  That the SW
    // generator IS that image is demanded only where the source says so ("... generator is the same ...
    // generator converted into ... form"); elsewhere it is an observation.
    let src = file.to_string();
    reg.rel(cfg, "sw_generator_is_image_of_te_generator", 0, move || {
        let documented = comment_says(&src, &["generator", "is the same", "converted"])?;
        let f = <C::BaseField as Rd>::tw();
        let (a, b) = mont::<C>();
        let g = <C as TECurveConfig>::GENERATOR;
        let (x, y) = (g.x.rd(), g.y.rd());
        let u = f.div(&f.add(&f.one(), &y), &f.sub(&f.one(), &y)).ok_or("y = 1")?;
        let v = f.div(&u, &x).ok_or("x = 0")?;
        let wx = f.div(&f.add(&u, &f.div(&a, &f.from_u64(3)).ok_or("char 3")?), &b).ok_or("B = 0")?;
        let wy = f.div(&v, &b).ok_or("B = 0")?;
        let c = sw_model::<C>();
        let img: Pt = Some((wx.clone(), wy.clone()));
        ensure(c.on_curve(&img), || format!("the image ({}, {}) of the TE GENERATOR under TE -> Montgomery -> SW is not on the SW curve", f.show(&wx), f.show(&wy)))?;
        ensure(c.mul(&r_of::<C>(), &img).is_none(), || "the image of the TE GENERATOR under TE -> Montgomery -> SW does not have order r".to_string())?;
        let s = <C as SWCurveConfig>::GENERATOR;
        let exact = !s.infinity && s.x.rd() == wx && s.y.rd() == wy;
        if documented {
            observe("te_sw:generator_correspondence_documented");
            ensure(exact, || format!("SW GENERATOR is not the image of the TE GENERATOR (the source documents it as the converted TE generator): want ({}, {})", f.show(&wx), f.show(&wy)))
        } else {
            observe(if exact { "te_sw:generators_correspond(undocumented)" } else { "te_sw:generators_differ(undocumented)" });
            Ok(())
        }
    });
}

/// the chain documented in curves/bls12_377/src/curves/g1.rs (SW -> Montgomery -> TE1 -> TE2 with a = -1)
fn bls12_377_g1_te_chain(reg: &mut Reg, cfg: &str) {
    type C = ark_bls12_377::g1::Config;
    struct V {
        f: Tw,
        ma: El,
        mb: El,
        te1a: El,
        te1d: El,
    }
    fn v() -> Result<V, String> {
        let f = <ark_bls12_377::Fq as Rd>::tw();
        let ma = <C as MontCurveConfig>::COEFF_A.rd();
        let mb = <C as MontCurveConfig>::COEFF_B.rd();
        let two = f.from_u64(2);
        let te1a = f.div(&f.add(&ma, &two), &mb).ok_or("MB = 0")?;
        let te1d = f.div(&f.sub(&ma, &two), &mb).ok_or("MB = 0")?;
        Ok(V { f, ma, mb, te1a, te1d })
    }
    reg.rel(cfg, "bls12_377_montgomery_from_sw", 0, || {
        // alpha = -1 is the root of x^3 + 1, s = 1/sqrt(3): MB = s, MA = 3 alpha s
        let v = v()?;
        let f = &v.f;
        want_el(f, &f.muls(&f.sq(&v.mb), 3), &f.one()).map_err(|e| format!("3 * MB^2: {e}"))?;
        want_el(f, &v.ma, &f.neg(&f.muls(&v.mb, 3))).map_err(|e| format!("MA vs -3 MB: {e}"))
    });
    reg.rel(cfg, "bls12_377_te_coeffs_from_montgomery", 0, || {
        let v = v()?;
        let f = &v.f;
        want_el(f, &<C as TECurveConfig>::COEFF_A.rd(), &f.neg(&f.one())).map_err(|e| format!("TE a: {e}"))?;
        // TE2d = -TE1d / TE1a
        want_el(f, &f.mul(&<C as TECurveConfig>::COEFF_D.rd(), &v.te1a), &f.neg(&v.te1d)).map_err(|e| format!("TE d * TE1a vs -TE1d: {e}"))
    });
    // needed: the documented chain sends the SW generator to a point of order r of the TE curve; that the TE
    // generator IS that image (up to the sign of the square root) only because the source says so
    reg.rel(cfg, "bls12_377_te_generator_from_sw_generator", 0, || {
        let documented = comment_says("curves/bls12_377/src/curves/g1.rs", &["generator", "is the same", "converted"])?;
        let v = v()?;
        let f = &v.f;
        let g = <C as SWCurveConfig>::GENERATOR;
        let mx = f.mul(&v.mb, &f.add(&g.x.rd(), &f.one()));
        let my = f.mul(&v.mb, &g.y.rd());
        let te1x = f.div(&mx, &my).ok_or("My = 0")?;
        let te1y = f.div(&f.sub(&mx, &f.one()), &f.add(&mx, &f.one())).ok_or("Mx = -1")?;
        // x = TE1x * sqrt(-TE1a) (the sign of the root is a free choice)
        let beta = f.sqrt(&f.neg(&v.te1a)).ok_or("-TE1a is not a square: the curve has no TE form with a = -1 over F_q")?;
        let img = (f.mul(&te1x, &beta), te1y.clone());
        let c = te_model::<C>();
        ensure(c.on_curve(&img) && !c.is_identity(&img), || "the image of the SW GENERATOR under the documented chain SW -> Montgomery -> TE1 -> TE2 is not a non-trivial point of the TE curve".to_string())?;
        let r = modulus_of::<ark_bls12_377::Fr>();
        match c.mul(&r, &img) {
            Ok(ri) => ensure(c.is_identity(&ri), || "the image of the SW GENERATOR under the documented chain does not have order r".to_string())?,
            Err(_) => te_order_via_weierstrass(&c, &img, &r)?,
        }
        let t = <C as TECurveConfig>::GENERATOR;
        let exact = t.y.rd() == te1y && f.sq(&t.x.rd()) == f.mul(&f.sq(&te1x), &f.neg(&v.te1a));
        if documented {
            observe("te_sw:generator_correspondence_documented");
            want_el(f, &t.y.rd(), &te1y).map_err(|e| format!("TE generator y: {e}"))?;
            want_el(f, &f.sq(&t.x.rd()), &f.mul(&f.sq(&te1x), &f.neg(&v.te1a))).map_err(|e| format!("TE generator x^2: {e}"))
        } else {
            observe(if exact { "te_sw:generators_correspond(undocumented)" } else { "te_sw:generators_differ(undocumented)" });
            Ok(())
        }
    });
}

// ---------------------------------------------------------------------
// GLV
// ---------------------------------------------------------------------

fn glv_cfg<C: GLVConfig>(reg: &mut Reg, cfg: &str, file: &str)
where
    C::BaseField: Rd,
    C::ScalarField: Rd,
{
    reg.declare(file, &["GLVConfig"]);
    reg.rel(cfg, "glv_endo_coeff_order_3", 0, || {
        // every listed coefficient must satisfy the endomorphism equation; how many are listed is free.  On a
        // j = 0 curve (a = 0) the endomorphism is (x, y) -> (beta x, y), beta^3 = 1, beta != 1; for another kind
        // of endomorphism the coefficients are judged through `endomorphism(G) = LAMBDA * G` only.
        let f = <C::BaseField as Rd>::tw();
        observe(match C::ENDO_COEFFS.len() {
            0 => "glv:endo_coeffs=0",
            1 => "glv:endo_coeffs=1",
            _ => "glv:endo_coeffs>1",
        });
        if !f.is_zero(&<C as SWCurveConfig>::COEFF_A.rd()) {
            observe("glv:endo_coeffs_not_cube_root_type(not judged)");
            return Ok(());
        }
        for (k, b) in C::ENDO_COEFFS.iter().enumerate() {
            let b = b.rd();
            ensure(b != f.one() && f.mul(&f.sq(&b), &b) == f.one(), || format!("ENDO_COEFFS[{k}] = {} is not a primitive cube root of unity", f.show(&b)))?;
        }
        Ok(())
    });
    reg.rel(cfg, "glv_lambda_order_3", 0, || {
        let r = r_of::<C>();
        let l = scalar(&C::LAMBDA);
        want((&l * &l + &l + 1u32) % &r, BigUint::zero()).map_err(|e| format!("LAMBDA^2 + LAMBDA + 1 mod r: {e}"))
    });
    reg.rel(cfg, "glv_beta_matches_lambda", 0, || {
        let c = sw_model::<C>();
        let g = sw_gen::<C>().ok_or("generator at infinity")?;
        let lg = c.mul(&scalar(&C::LAMBDA), &Some(g.clone()));
        let beta = match C::ENDO_COEFFS.first() {
            Some(b) if c.f.is_zero(&c.a) => b.rd(),
            _ => return Ok(()), // no coefficient of the (beta x, y) kind: see glv_endomorphism_affine
        };
        let phi = Some((c.f.mul(&beta, &g.0), g.1.clone()));
        ensure(lg == phi, || "(beta * x, y) != LAMBDA * G for the generator G (plain double-and-add)".to_string())
    })
    .class("glv:eigenvalue");
    reg.rel(cfg, "glv_endomorphism_affine", 0, || {
        let c = sw_model::<C>();
        let g = sw_gen::<C>().ok_or("generator at infinity")?;
        let lg = c.mul(&scalar(&C::LAMBDA), &Some(g));
        let e = C::endomorphism_affine(&C::GENERATOR);
        let got = if e.infinity { None } else { Some((e.x.rd(), e.y.rd())) };
        ensure(lg == got, || "endomorphism_affine(G) != LAMBDA * G (plain double-and-add)".to_string())
    });
    reg.rel(cfg, "glv_endomorphism_projective", 0, || {
        let c = sw_model::<C>();
        let f = &c.f;
        let g = sw_gen::<C>().ok_or("generator at infinity")?;
        let lg = c.mul(&scalar(&C::LAMBDA), &Some(g.clone())).ok_or("LAMBDA * G = O")?;
        // a non-normalised Jacobian representative (2^2 x, 2^3 y, 2) of G
        let pr = sw::Projective::<C> { x: <C::BaseField as Rd>::wr(&f.muls(&g.0, 4)), y: <C::BaseField as Rd>::wr(&f.muls(&g.1, 8)), z: <C::BaseField as Rd>::wr(&f.from_u64(2)) };
        let e = C::endomorphism(&pr);
        let (x, y, z) = (e.x.rd(), e.y.rd(), e.z.rd());
        let z2 = f.sq(&z);
        ensure(!f.is_zero(&z) && x == f.mul(&lg.0, &z2) && y == f.mul(&lg.1, &f.mul(&z2, &z)), || {
            "endomorphism((4x, 8y, 2)) does not represent LAMBDA * G".to_string()
        })
    });
    let coeffs = || -> Vec<SBig> {
        C::SCALAR_DECOMP_COEFFS.iter().map(|(pos, v)| SBig::from_biguint(if *pos { Sign::Plus } else { Sign::Minus }, from_limbs(v.as_ref()))).collect()
    };
    for row in 0..2usize {
        reg.rel(cfg, "glv_lattice_row", row, move || {
            let n = coeffs();
            let r = SBig::from(r_of::<C>());
            let l = SBig::from(scalar(&C::LAMBDA));
            let v = (&n[2 * row] + &n[2 * row + 1] * &l).mod_floor(&r);
            want(v, SBig::zero()).map_err(|e| format!("n{}1 + n{}2 * LAMBDA mod r: {e}", row + 1, row + 1))
        });
    }
    // documented (ec/src/scalar_mul/glv.rs: "The entries are the LLL-reduced bases"): a reduced basis of the
    // rank-2 lattice of determinant r has entries of about sqrt(r): every |n_ij| < 2^(ceil(bits(r)/2) + 1)
    for k in 0..4usize {
        reg.rel(cfg, "glv_lattice_entries_short", k, move || {
            let n = coeffs();
            let bits = r_of::<C>().bits() as usize;
            let bound = sb(&pow2((bits + 1) / 2 + 1));
            ensure(n[k].abs() < bound, || format!("|SCALAR_DECOMP_COEFFS[{k}]| = {} has {} bits; an LLL-reduced basis for a {bits}-bit r has entries below 2^{}", n[k].abs(), n[k].abs().bits(), (bits + 1) / 2 + 1))
        })
        .class("glv:lattice_entries_short");
    }
    reg.rel(cfg, "glv_lattice_det", 0, move || {
        let n = coeffs();
        let det = &n[0] * &n[3] - &n[1] * &n[2];
        want(det, SBig::from(r_of::<C>())).map_err(|e| format!("det of SCALAR_DECOMP_COEFFS (documented to equal r): {e}"))
    });
}

// ---------------------------------------------------------------------
// public endomorphism constants / functions that are not trait items
// ---------------------------------------------------------------------

/// the two primitive cube roots of unity modulo the prime r (r = 1 mod 3)
fn cube_roots_of_unity_mod(r: &BigUint) -> Result<[BigUint; 2], String> {
    let rm1 = r - 1u32;
    ensure((&rm1 % 3u32).is_zero(), || "r != 1 mod 3: no primitive cube root of unity".to_string())?;
    for g in 2..100u64 {
        let l = big(g).modpow(&(&rm1 / 3u32), r);
        if !l.is_one() {
            let l2 = (&l * &l) % r;
            return Ok([l, l2]);
        }
    }
    Err("oracle: no cubic non-residue below 100".into())
}

/// `(file, constant)` pairs of public endomorphism constants this registry covers; `main` scans the sources for
/// `pub const ..ENDOMORPHISM.. / BETA` and fails as machinery if the two sets differ
const PUBLIC_ENDO_CONSTS: [(&str, &str); 4] = [
    ("curves/bls12_381/src/curves/g1.rs", "BETA"),
    ("test-curves/src/bls12_381/g2.rs", "P_POWER_ENDOMORPHISM_COEFF_0"),
    ("test-curves/src/bls12_381/g2.rs", "P_POWER_ENDOMORPHISM_COEFF_1"),
    ("test-curves/src/bls12_381/g2.rs", "DOUBLE_P_POWER_ENDOMORPHISM"),
];

fn public_endomorphisms(reg: &mut Reg) {
    // ---- curves/bls12_381 g1: pub const BETA, pub fn endomorphism
    {
        use ark_bls12_381::g1;
        type C = g1::Config;
        let cfg = "bls12_381/g1(public BETA, endomorphism)";
        reg.rel(cfg, "public_beta_is_primitive_cube_root", 0, || {
            let f = <ark_bls12_381::Fq as Rd>::tw();
            let b = g1::BETA.rd();
            ensure(b != f.one() && f.mul(&f.sq(&b), &b) == f.one(), || format!("BETA = {} is not a primitive cube root of unity in Fq", f.show(&b)))
        })
        .class("endo:public_constants");
        reg.rel(cfg, "public_endomorphism_is_beta_x", 0, || {
            let c = sw_model::<C>();
            for k in 0..3usize {
                let (x, y) = if k == 0 { sw_gen::<C>().ok_or("generator at infinity")? } else { c.nth_point(k) };
                let p = sw::Affine::<C>::new_unchecked(<ark_bls12_381::Fq as Rd>::wr(&x), <ark_bls12_381::Fq as Rd>::wr(&y));
                let e = g1::endomorphism(&p);
                ensure(!e.infinity && e.x.rd() == c.f.mul(&g1::BETA.rd(), &x) && e.y.rd() == y, || format!("endomorphism((x, y)) != (BETA x, y) for x = {}", c.f.show(&x)))?;
                ensure(c.on_curve(&Some((e.x.rd(), e.y.rd()))), || format!("endomorphism(P) is not on the curve for x = {}", c.f.show(&x)))?;
            }
            Ok(())
        });
        reg.rel(cfg, "public_endomorphism_eigenvalue", 0, || {
            let c = sw_model::<C>();
            let g = sw_gen::<C>().ok_or("generator at infinity")?;
            let e = g1::endomorphism(&<C as SWCurveConfig>::GENERATOR);
            let got: Pt = if e.infinity { None } else { Some((e.x.rd(), e.y.rd())) };
            let ls = cube_roots_of_unity_mod(&r_of::<C>())?;
            ensure(ls.iter().any(|l| c.mul(l, &Some(g.clone())) == got), || {
                "endomorphism(G) is not [lambda]G for either primitive cube root lambda of unity mod r (plain double-and-add)".to_string()
            })
        })
        .class("endo:public_eigenvalue");
    }
    // ---- test-curves bls12_381 g2: psi = untwist-Frobenius-twist and psi^2
    {
        use ark_test_curves::bls12_381 as t;
        use ark_test_curves::bls12_381::g2;
        type C = g2::Config;
        type F2 = ark_test_curves::bls12_381::Fq2;
        let cfg = "test/bls12_381/g2(public psi constants)";
        fn xi() -> El {
            <t::Fq6Config as Fp6Config3o2>::NONRESIDUE.rd()
        }
        fn conj(f: &Tw, a: &[BigUint]) -> El {
            vec![a[0].clone(), modneg(&a[1], &f.p)]
        }
        /// psi(x, y) = (conj(x) / xi^((p-1)/3), conj(y) / xi^((p-1)/2)) from the definition
        fn psi(f: &Tw, p: &(El, El)) -> Result<(El, El), String> {
            let cx = f.inv(&f.pow(&xi(), &frob_exp(&f.p, 1, 3)?)).ok_or("xi^((p-1)/3) = 0")?;
            let cy = f.inv(&f.pow(&xi(), &frob_exp(&f.p, 1, 2)?)).ok_or("xi^((p-1)/2) = 0")?;
            Ok((f.mul(&conj(f, &p.0), &cx), f.mul(&conj(f, &p.1), &cy)))
        }
        for (which, k) in [("public_p_power_endomorphism_coeff_0", 3u32), ("public_p_power_endomorphism_coeff_1", 2u32)] {
            reg.rel(cfg, which, 0, move || {
                let f = <F2 as Rd>::tw();
                let e = f.pow(&xi(), &frob_exp(&f.p, 1, k)?);
                let got = if k == 3 { g2::P_POWER_ENDOMORPHISM_COEFF_0.rd() } else { g2::P_POWER_ENDOMORPHISM_COEFF_1.rd() };
                want_el(&f, &f.mul(&got, &e), &f.one()).map_err(|m| format!("* (u+1)^((p-1)/{k}) vs 1 (documented: 1/(u+1)^((p-1)/{k})): {m}"))
            })
            .class("endo:public_constants");
        }
        reg.rel(cfg, "public_double_p_power_endomorphism", 0, || {
            // psi^2(x, y) = (x c0^(p+1), -y): the constant for psi^2 is the norm c0 * conj(c0) of the constant of psi
            let f = <F2 as Rd>::tw();
            let c0 = f.inv(&f.pow(&xi(), &frob_exp(&f.p, 1, 3)?)).ok_or("xi^((p-1)/3) = 0")?;
            want_el(&f, &g2::DOUBLE_P_POWER_ENDOMORPHISM.rd(), &f.mul(&c0, &conj(&f, &c0))).map_err(|m| format!("DOUBLE_P_POWER_ENDOMORPHISM vs (1/(u+1)^((p-1)/3))^(p+1): {m}"))
        });
        for k in 0..3usize {
            reg.rel(cfg, "public_p_power_endomorphism_fn", k, move || {
                let c = sw_model::<C>();
                let f = &c.f;
                // k = 0: the generator; k >= 1: curve points outside the subgroup
                let (x, y) = if k == 0 { sw_gen::<C>().ok_or("generator at infinity")? } else { c.nth_point(k) };
                let p = sw::Affine::<C>::new_unchecked(<F2 as Rd>::wr(&x), <F2 as Rd>::wr(&y));
                let w = psi(f, &(x.clone(), y.clone()))?;
                ensure(c.on_curve(&Some(w.clone())), || "oracle: psi(P) left the curve".to_string())?;
                let e = g2::p_power_endomorphism(&p);
                ensure(!e.infinity && (e.x.rd(), e.y.rd()) == w, || format!("p_power_endomorphism(P) != psi(P) for x = {}: got ({}, {}) want ({}, {})", f.show(&x), f.show(&e.x.rd()), f.show(&e.y.rd()), f.show(&w.0), f.show(&w.1)))?;
                // psi^2 on a non-normalised Jacobian representative (4x, 8y, 2)
                let w2 = psi(f, &w)?;
                let pr = sw::Projective::<C> { x: <F2 as Rd>::wr(&f.muls(&x, 4)), y: <F2 as Rd>::wr(&f.muls(&y, 8)), z: <F2 as Rd>::wr(&f.from_u64(2)) };
                let d = g2::double_p_power_endomorphism(&pr);
                let (dx, dy, dz) = (d.x.rd(), d.y.rd(), d.z.rd());
                let z2 = f.sq(&dz);
                ensure(!f.is_zero(&dz) && dx == f.mul(&w2.0, &z2) && dy == f.mul(&w2.1, &f.mul(&z2, &dz)), || format!("double_p_power_endomorphism((4x, 8y, 2)) does not represent psi(psi(P)) for x = {}", f.show(&x)))
            })
            .class(if k == 0 { "endo:psi_on_generator" } else { "endo:psi_outside_subgroup" });
        }
        reg.rel(cfg, "public_p_power_endomorphism_eigenvalue", 0, || {
            // on G2, psi acts as multiplication by p mod r
            let c = sw_model::<C>();
            let g = sw_gen::<C>().ok_or("generator at infinity")?;
            let e = g2::p_power_endomorphism(&<C as SWCurveConfig>::GENERATOR);
            let got: Pt = if e.infinity { None } else { Some((e.x.rd(), e.y.rd())) };
            let r = r_of::<C>();
            let k = &c.f.p % &r;
            ensure(c.mul(&k, &Some(g)) == got, || "p_power_endomorphism(G2 generator) != [p mod r] G2 generator (plain double-and-add)".to_string())
        })
        .class("endo:public_eigenvalue");
    }
}

// ---------------------------------------------------------------------
// hash-to-curve parameters
// ---------------------------------------------------------------------

fn swu_cfg<C: SWUConfig>(reg: &mut Reg, cfg: &str, file: &str)
where
    C::BaseField: Rd,
{
    reg.declare(file, &["SWUConfig"]);
    reg.rel(cfg, "swu_zeta_nonsquare", 0, || {
        let f = <C::BaseField as Rd>::tw();
        let z = C::ZETA.rd();
        ensure(!f.is_zero(&z) && !f.is_square(&z), || format!("ZETA = {} is a square", f.show(&z)))
    })
    .class("hash:swu");
    reg.rel(cfg, "swu_ab_nonzero", 0, || {
        let c = sw_model::<C>();
        ensure(!c.f.is_zero(&c.a) && !c.f.is_zero(&c.b), || "simplified SWU needs a*b != 0".to_string())
    });
    swu_rfc_criteria::<C>(reg, cfg);
    reg.rel(cfg, "swu_exceptional_case_square", 0, || {
        // for u = 0 the map uses x1 = B/(ZETA*A) and needs g(x1) to be a square
        let c = sw_model::<C>();
        let f = &c.f;
        let x1 = f.div(&c.b, &f.mul(&C::ZETA.rd(), &c.a)).ok_or("ZETA * A = 0")?;
        ensure(f.is_square(&c.rhs(&x1)), || "g(B / (ZETA * A)) is not a square: map_to_curve(0) leaves the curve".to_string())
    });
}

/// RFC 9380 H.2 criteria 2 and 3 for the CHOICE of Z (Z != -1, g(x) - Z irreducible): recommendations of the
/// RFC's find_z procedure, not needed by the map and not in the SWUConfig rustdoc (which asks for a non-square,
/// conveniently with g(B/(ZETA A)) square - both demanded above): observed, never a violation
fn swu_rfc_criteria<C: SWUConfig>(reg: &mut Reg, cfg: &str)
where
    C::BaseField: Rd,
{
    reg.rel(cfg, "swu_zeta_rfc_choice_observed", 0, || {
        let c = sw_model::<C>();
        let f = &c.f;
        let not_minus_one = C::ZETA.rd() != f.neg(&f.one());
        let irreducible = f.cubic_is_irreducible(&[f.sub(&c.b, &C::ZETA.rd()), c.a.clone(), f.zero()]);
        observe(if not_minus_one { "swu:rfc_h2_zeta_is_not_minus_one" } else { "swu:rfc_h2_zeta_is_minus_one" });
        observe(if irreducible { "swu:rfc_h2_g_minus_zeta_irreducible" } else { "swu:rfc_h2_g_minus_zeta_reducible" });
        Ok(())
    });
}

fn wb_cfg<C: WBConfig>(reg: &mut Reg, cfg: &str, file: &str)
where
    C::BaseField: Rd,
{
    reg.declare(file, &["WBConfig"]);
    let quick_pts = if <C::BaseField as Rd>::tw().dim() > 1 { 2 } else { 4 };
    fn maps<C: WBConfig>() -> [Vec<El>; 4]
    where
        C::BaseField: Rd,
    {
        let m = C::ISOGENY_MAP;
        let rd = |s: &[C::BaseField]| s.iter().map(|c| c.rd()).collect::<Vec<_>>();
        [rd(m.x_map_numerator), rd(m.x_map_denominator), rd(m.y_map_numerator), rd(m.y_map_denominator)]
    }
    fn iso<C: WBConfig>() -> SwCurve
    where
        C::BaseField: Rd,
    {
        SwCurve {
            f: <C::BaseField as Rd>::tw(),
            a: <C::IsogenousCurve as SWCurveConfig>::COEFF_A.rd(),
            b: <C::IsogenousCurve as SWCurveConfig>::COEFF_B.rd(),
        }
    }
    fn apply(f: &Tw, m: &[Vec<El>; 4], p: &Pt) -> Result<Pt, String> {
        match p {
            None => Ok(None),
            Some((x, y)) => {
                let xd = f.horner(&m[1], x);
                let yd = f.horner(&m[3], x);
                if f.is_zero(&xd) || f.is_zero(&yd) {
                    return Ok(None); // kernel point
                }
                let ix = f.div(&f.horner(&m[0], x), &xd).unwrap();
                let iy = f.div(&f.mul(&f.horner(&m[2], x), y), &yd).unwrap();
                Ok(Some((ix, iy)))
            },
        }
    }
    reg.rel(cfg, "isogeny_maps_generator_to_curve", 0, || {
        let f = <C::BaseField as Rd>::tw();
        let g = <C::IsogenousCurve as SWCurveConfig>::GENERATOR;
        let img = apply(&f, &maps::<C>(), &Some((g.x.rd(), g.y.rd())))?;
        ensure(img.is_some() && sw_model::<C>().on_curve(&img), || "ISOGENY_MAP sends the generator of the isogenous curve off the target curve".to_string())
    })
    .class("hash:wb_isogeny");
    for k in 0..8usize {
        reg.rel(cfg, "isogeny_point_on_codomain", k, move || {
            let (src, dst) = (iso::<C>(), sw_model::<C>());
            let p = Some(src.nth_point(k));
            let img = apply(&src.f, &maps::<C>(), &p)?;
            ensure(dst.on_curve(&img), || format!("ISOGENY_MAP(P) is not on the target curve for the point with x = {}", src.f.show(&p.as_ref().unwrap().0)))
        })
        .thorough_if(k >= quick_pts);
        reg.rel(cfg, "isogeny_homomorphism", k, move || {
            let (src, dst) = (iso::<C>(), sw_model::<C>());
            let m = maps::<C>();
            let p = Some(src.nth_point(k));
            let q = Some(src.nth_point(k + 1));
            let lhs = apply(&src.f, &m, &src.add_affine(&p, &q))?;
            let rhs = dst.add_affine(&apply(&src.f, &m, &p)?, &apply(&src.f, &m, &q)?);
            ensure(lhs == rhs, || format!("phi(P + Q) != phi(P) + phi(Q) for the points with x = {}, {}", src.f.show(&p.as_ref().unwrap().0), src.f.show(&q.as_ref().unwrap().0)))?;
            let lhs = apply(&src.f, &m, &src.add_affine(&p, &p))?;
            let ip = apply(&src.f, &m, &p)?;
            ensure(lhs == dst.add_affine(&ip, &ip), || format!("phi(2P) != 2 phi(P) for the point with x = {}", src.f.show(&p.as_ref().unwrap().0)))
        })
        .thorough_if(k >= quick_pts);
    }
}

fn elligator2_cfg<C: Elligator2Config>(reg: &mut Reg, cfg: &str, file: &str)
where
    C::BaseField: Rd,
{
    reg.declare(file, &["Elligator2Config"]);
    reg.rel(cfg, "elligator2_z_nonsquare", 0, || {
        let f = <C::BaseField as Rd>::tw();
        let z = C::Z.rd();
        ensure(!f.is_zero(&z) && !f.is_square(&z), || format!("Z = {} is a square", f.show(&z)))
    })
    .class("hash:elligator2");
    reg.rel(cfg, "elligator2_z_rfc_choice_observed", 0, || {
        // RFC 9380 H.3 (find_z_ell2): first non-square in 1, -1, 2, -2, ... (prime fields only).  The map needs a
        // non-square Z only (demanded above); which one is chosen is an observation.
        let f = <C::BaseField as Rd>::tw();
        if f.dim() != 1 {
            return Ok(());
        }
        let z = C::Z.rd();
        for c in 1..1000u64 {
            for cand in [f.from_u64(c), f.neg(&f.from_u64(c))] {
                if !f.is_square(&cand) {
                    observe(if z == cand { "elligator2:z_is_rfc_h3_minimal" } else { "elligator2:z_is_not_rfc_h3_minimal" });
                    return Ok(());
                }
            }
        }
        observe("elligator2:no_small_nonsquare");
        Ok(())
    });
    reg.rel(cfg, "elligator2_one_over_coeff_b_square", 0, || {
        let f = <C::BaseField as Rd>::tw();
        let b = <C as MontCurveConfig>::COEFF_B.rd();
        want_el(&f, &f.mul(&C::ONE_OVER_COEFF_B_SQUARE.rd(), &f.sq(&b)), &f.one()).map_err(|e| format!("ONE_OVER_COEFF_B_SQUARE * B^2: {e}"))
    });
    reg.rel(cfg, "elligator2_coeff_a_over_coeff_b", 0, || {
        let f = <C::BaseField as Rd>::tw();
        let (a, b) = (<C as MontCurveConfig>::COEFF_A.rd(), <C as MontCurveConfig>::COEFF_B.rd());
        want_el(&f, &f.mul(&C::COEFF_A_OVER_COEFF_B.rd(), &b), &a).map_err(|e| format!("COEFF_A_OVER_COEFF_B * B vs A: {e}"))
    });
}

// =====================================================================
// 8. Pairing engines
// =====================================================================

fn i(v: i64) -> SBig {
    SBig::from(v)
}
fn is_multiple(a: &SBig, b: &SBig) -> bool {
    let r: SBig = a % b;
    r.is_zero()
}
fn sb(x: &BigUint) -> SBig {
    SBig::from(x.clone())
}
fn signed(limbs: &[u64], neg: bool) -> SBig {
    let v = sb(&from_limbs(limbs));
    if neg {
        -v
    } else {
        v
    }
}
/// value of a signed-digit array, least significant digit first; the top digit must be 1
/// (the Miller loops start from it implicitly)
fn naf_value(digits: &[i8]) -> Result<SBig, String> {
    let mut v = SBig::zero();
    ensure(digits.last() == Some(&1), || format!("most significant digit is {:?}, the loop assumes 1", digits.last()))?;
    for (k, d) in digits.iter().enumerate().rev() {
        ensure((-1..=1).contains(d), || format!("digit {d} at position {k} is not in {{-1,0,1}}"))?;
        v = v * i(2) + SBig::from(*d);
    }
    Ok(v)
}
/// same, most significant digit first (MNT4/MNT6 tables)
fn naf_value_msb_first(digits: &[i8]) -> Result<SBig, String> {
    let mut d = digits.to_vec();
    d.reverse();
    naf_value(&d)
}
fn exact_div(a: &SBig, b: &SBig, what: &str) -> Result<SBig, String> {
    ensure((a % b).is_zero(), || format!("{what}: not divisible"))?;
    Ok(a / b)
}
fn isqrt_exact(n: &SBig, what: &str) -> Result<SBig, String> {
    ensure(!n.is_negative(), || format!("{what}: negative"))?;
    let s = n.to_biguint().unwrap().sqrt();
    ensure(&s * &s == n.to_biguint().unwrap(), || format!("{what}: not a perfect square"))?;
    Ok(sb(&s))
}
/// BLS12 polynomials
fn bls12_p(x: &SBig) -> Result<SBig, String> {
    let r = x.pow(4) - x.pow(2) + 1;
    Ok(exact_div(&((x - i(1)).pow(2) * r), &i(3), "(x-1)^2 (x^4-x^2+1) / 3")? + x)
}
/// orders of the two sextic twists (degree 6) of an ordinary j = 0 curve over F_q with trace t
fn sextic_twist_orders(q: &SBig, t: &SBig) -> Result<[SBig; 2], String> {
    let f2 = exact_div(&(q * 4 - t * t), &SBig::from(3), "(4q - t^2)/3")?;
    let f = isqrt_exact(&f2, "(4q - t^2)/3")?;
    let a = exact_div(&(t + &f * 3), &SBig::from(2), "(t + 3f)/2")?;
    let b = exact_div(&(t - &f * 3), &SBig::from(2), "(t - 3f)/2")?;
    Ok([q + 1 - a, q + 1 - b])
}

fn g2_b_twist<G1: SWCurveConfig, G2: SWCurveConfig>(xi: El, m_type: bool) -> Result<(), String>
where
    G1::BaseField: Rd,
    G2::BaseField: Rd,
{
    let f = <G2::BaseField as Rd>::tw();
    let b = f.embed(&G1::COEFF_B.rd());
    let b2 = G2::COEFF_B.rd();
    let xi = f.embed(&xi);
    if m_type {
        want_el(&f, &b2, &f.mul(&b, &xi)).map_err(|e| format!("M-type twist: G2 COEFF_B vs b * xi: {e}"))
    } else {
        want_el(&f, &f.mul(&b2, &xi), &b).map_err(|e| format!("D-type twist: G2 COEFF_B * xi vs b: {e}"))
    }
}

fn bls12_cfg<P: Bls12Config>(reg: &mut Reg, cfg: &str, file: &str)
where
    P::Fp: Rd,
    <P::G1Config as CurveConfig>::ScalarField: Rd,
{
    reg.declare(file, &["Bls12Config"]);
    let x = || signed(P::X, P::X_IS_NEGATIVE);
    let p = || sb(&modulus_of::<P::Fp>());
    let r = || sb(&r_of::<P::G1Config>());
    reg.rel(cfg, "bls12_r_polynomial", 0, move || want(r(), x().pow(4) - x().pow(2) + 1).map_err(|e| format!("r vs x^4 - x^2 + 1: {e}"))).class("pairing:bls12");
    reg.rel(cfg, "bls12_p_polynomial", 0, move || want(p(), bls12_p(&x())?).map_err(|e| format!("p vs (x-1)^2 (x^4-x^2+1)/3 + x: {e}")));
    reg.rel(cfg, "bls12_g1_cofactor", 0, move || {
        want(sb(&cofactor::<P::G1Config>()), exact_div(&(x() - i(1)).pow(2), &i(3), "(x-1)^2/3")?).map_err(|e| format!("G1 COFACTOR vs (x-1)^2/3: {e}"))
    });
    reg.rel(cfg, "pairing_g1_order", 0, move || {
        want(sb(&cofactor::<P::G1Config>()) * r(), p() + 1 - (x() + 1)).map_err(|e| format!("h1 * r vs p + 1 - t, t = x + 1: {e}"))
    });
    reg.rel(cfg, "pairing_embedding_degree", 0, move || {
        ensure(is_multiple(&(p().pow(4) - p().pow(2) + i(1)), &r()), || "r does not divide p^4 - p^2 + 1".to_string())
    });
    reg.rel(cfg, "pairing_g2_coeff_b", 0, || {
        let xi = <P::Fp6Config as Fp6Config3o2>::NONRESIDUE.rd();
        g2_b_twist::<P::G1Config, P::G2Config>(xi, matches!(P::TWIST_TYPE, ark_ec::bls12::TwistType::M))
    });
    reg.rel(cfg, "pairing_g2_order", 0, move || {
        let t = x() + 1;
        let t2 = &t * &t - p() * 2;
        let n = sb(&cofactor::<P::G2Config>()) * r();
        let cands = sextic_twist_orders(&(p() * p()), &t2)?;
        ensure(cands.contains(&n), || format!("h2 * r = {n} is not the order of a sextic twist over F_p^2 ({} or {})", cands[0], cands[1]))
    });
    reg.rel(cfg, "pairing_g2_coeff_a", 0, || {
        let f = <<P::G2Config as CurveConfig>::BaseField as Rd>::tw();
        ensure(f.is_zero(&<P::G2Config as SWCurveConfig>::COEFF_A.rd()) && <P::G1Config as SWCurveConfig>::COEFF_A.rd()[0].is_zero(), || "j = 0 curve needs a = 0 on G1 and G2".to_string())
    });
}

fn bn_cfg<P: BnConfig>(reg: &mut Reg, cfg: &str, file: &str)
where
    P::Fp: Rd,
    <P::G1Config as CurveConfig>::ScalarField: Rd,
{
    reg.declare(file, &["BnConfig"]);
    let x = || signed(P::X, P::X_IS_NEGATIVE);
    let p = || sb(&modulus_of::<P::Fp>());
    let r = || sb(&r_of::<P::G1Config>());
    reg.rel(cfg, "bn_p_polynomial", 0, move || {
        let x = x();
        want(p(), x.pow(4) * 36 + x.pow(3) * 36 + x.pow(2) * 24 + &x * 6 + 1).map_err(|e| format!("p vs 36x^4+36x^3+24x^2+6x+1: {e}"))
    })
    .class("pairing:bn");
    reg.rel(cfg, "bn_r_polynomial", 0, move || {
        let x = x();
        want(r(), x.pow(4) * 36 + x.pow(3) * 36 + x.pow(2) * 18 + &x * 6 + 1).map_err(|e| format!("r vs 36x^4+36x^3+18x^2+6x+1: {e}"))
    });
    reg.rel(cfg, "bn_ate_loop_count", 0, move || want(naf_value(P::ATE_LOOP_COUNT)?, (x() * i(6) + i(2)).abs()).map_err(|e| format!("ATE_LOOP_COUNT (signed digits) vs |6x + 2|: {e}")));
    reg.rel(cfg, "pairing_g1_order", 0, move || {
        want(sb(&cofactor::<P::G1Config>()) * r(), p() + 1 - (x().pow(2) * 6 + 1)).map_err(|e| format!("h1 * r vs p + 1 - t, t = 6x^2 + 1: {e}"))
    });
    reg.rel(cfg, "pairing_embedding_degree", 0, move || {
        ensure(is_multiple(&(p().pow(4) - p().pow(2) + i(1)), &r()), || "r does not divide p^4 - p^2 + 1".to_string())
    });
    reg.rel(cfg, "pairing_g2_coeff_b", 0, || {
        let xi = <P::Fp6Config as Fp6Config3o2>::NONRESIDUE.rd();
        g2_b_twist::<P::G1Config, P::G2Config>(xi, matches!(P::TWIST_TYPE, ark_ec::bn::TwistType::M))
    });
    reg.rel(cfg, "pairing_g2_order", 0, move || {
        let t = x().pow(2) * 6 + 1;
        let t2 = &t * &t - p() * 2;
        let n = sb(&cofactor::<P::G2Config>()) * r();
        let cands = sextic_twist_orders(&(p() * p()), &t2)?;
        ensure(cands.contains(&n), || format!("h2 * r = {n} is not the order of a sextic twist over F_p^2 ({} or {})", cands[0], cands[1]))
    });
    // untwist-Frobenius-twist constants: xi^((p-1)/3), xi^((p-1)/2) (D-type), inverses for M-type
    for (which, k) in [("twist_mul_by_q_x", 3u32), ("twist_mul_by_q_y", 2u32)] {
        reg.rel(cfg, which, 0, move || {
            let f = <ark_ff::Fp2<P::Fp2Config> as Rd>::tw();
            let xi = <P::Fp6Config as Fp6Config3o2>::NONRESIDUE.rd();
            let e = f.pow(&xi, &frob_exp(&f.p, 1, k)?);
            let got = if k == 3 { P::TWIST_MUL_BY_Q_X.rd() } else { P::TWIST_MUL_BY_Q_Y.rd() };
            if matches!(P::TWIST_TYPE, ark_ec::bn::TwistType::D) {
                want_el(&f, &got, &e).map_err(|m| format!("vs xi^((p-1)/{k}): {m}"))
            } else {
                want_el(&f, &f.mul(&got, &e), &f.one()).map_err(|m| format!("* xi^((p-1)/{k}) vs 1 (M-type): {m}"))
            }
        });
    }
}

fn bw6_cfg<P: BW6Config>(reg: &mut Reg, cfg: &str, file: &str)
where
    P::Fp: Rd,
    <P::G1Config as CurveConfig>::ScalarField: Rd,
{
    reg.declare(file, &["BW6Config"]);
    let x = || signed(P::X.as_ref(), P::X_IS_NEGATIVE);
    let p = || sb(&modulus_of::<P::Fp>());
    let r = || sb(&r_of::<P::G1Config>());
    // family polynomials of [HG21] (BW6 over BLS12): N = x^5 - 3x^4 + 3x^3 - x
    //   t mod r mod x = 0:  t = -N + h_t r,     y = N/3 + h_y r
    //   t mod r mod x = 3:  t = N + 3 + h_t r,  y = (N + 3)/3 + h_y r,   q = (t^2 + 3y^2)/4
    let ty = move || -> Result<(SBig, SBig), String> {
        let x = x();
        let n = x.pow(5) - x.pow(4) * 3 + x.pow(3) * 3 - &x;
        let (ht, hy) = (SBig::from(P::H_T), SBig::from(P::H_Y));
        if P::T_MOD_R_IS_ZERO {
            Ok((-&n + ht * r(), exact_div(&n, &SBig::from(3), "N/3")? + hy * r()))
        } else {
            Ok((&n + 3 + ht * r(), exact_div(&(&n + 3), &SBig::from(3), "(N+3)/3")? + hy * r()))
        }
    };
    reg.rel(cfg, "bw6_r_is_bls12_p", 0, move || want(r(), bls12_p(&x())?).map_err(|e| format!("r vs (x-1)^2 (x^4-x^2+1)/3 + x: {e}"))).class("pairing:bw6");
    reg.rel(cfg, "bw6_p_polynomial", 0, move || {
        let (t, y) = ty()?;
        want(p(), exact_div(&(&t * &t + &y * &y * 3), &SBig::from(4), "(t^2 + 3y^2)/4")?).map_err(|e| format!("p vs (t^2 + 3y^2)/4 with X, H_T, H_Y, T_MOD_R_IS_ZERO: {e}"))
    });
    reg.rel(cfg, "pairing_g1_order", 0, move || {
        let (t, _) = ty()?;
        want(sb(&cofactor::<P::G1Config>()) * r(), p() + 1 - t).map_err(|e| format!("h1 * r vs p + 1 - t(X, H_T): {e}"))
    });
    reg.rel(cfg, "bw6_t_mod_r_flag", 0, move || {
        // centred residue of the actual trace modulo r, then modulo |x|
        let t: SBig = p() + i(1) - sb(&cofactor::<P::G1Config>()) * r();
        let mut t0: SBig = t.mod_floor(&r());
        if &t0 * i(2) > r() {
            t0 -= r();
        }
        let m = t0.mod_floor(&x().abs());
        want(m, SBig::from(if P::T_MOD_R_IS_ZERO { 0 } else { 3 })).map_err(|e| format!("(trace mod r) mod |x|: {e}"))
    });
    // what the pairing needs from the two loop counts: the Miller loop computes f_{c1+1,Q}(P) and f_{c1*c2,Q}(P)
    // and raises one of them to the p-th power, so (c1 + 1) + c1 c2 p (resp. (c1 + 1) p + c1 c2) must be a
    // multiple of r (optimal ate, formulas (4.15)/(4.17) cited in ec/src/models/bw6/mod.rs)
    reg.rel(cfg, "bw6_ate_loop_counts_lattice", 0, move || {
        let c1 = signed(P::ATE_LOOP_COUNT_1, P::ATE_LOOP_COUNT_1_IS_NEGATIVE);
        let v = naf_value(P::ATE_LOOP_COUNT_2)?;
        let c2 = if P::ATE_LOOP_COUNT_2_IS_NEGATIVE { -v } else { v };
        let (a, b) = (&c1 + i(1), &c1 * &c2);
        let e = if P::T_MOD_R_IS_ZERO { &a * p() + &b } else { &a + &b * p() };
        ensure(!c1.is_zero() && is_multiple(&e, &r()), || {
            format!("ATE_LOOP_COUNT_1 = {c1}, ATE_LOOP_COUNT_2 = {c2}: (c1 + 1) and c1 * c2 (one of them times p, T_MOD_R_IS_ZERO = {}) do not add up to a multiple of r", P::T_MOD_R_IS_ZERO)
        })
    });
    // ATE_LOOP_COUNT_1 = X exactly (same sign flag): only where the source says so in the comment above the constant
    let src = file.to_string();
    reg.rel(cfg, "bw6_ate_loop_count_1", 0, move || {
        let documented = comment_above(&src, "const ATE_LOOP_COUNT_1:", 3)?.map(|c| c.iter().any(|l| l == "X")).unwrap_or(false);
        let got = (from_limbs(P::ATE_LOOP_COUNT_1), P::ATE_LOOP_COUNT_1_IS_NEGATIVE);
        let w = (from_limbs(P::X.as_ref()), P::X_IS_NEGATIVE);
        if !documented {
            observe(if got == w { "pairing:bw6_loop_count_1=x(undocumented)" } else { "pairing:bw6_loop_count_1!=x(undocumented)" });
            return Ok(());
        }
        observe("pairing:bw6_loop_count_1_documented_as_x");
        want(got, w).map_err(|e| format!("ATE_LOOP_COUNT_1 vs X (the documented value): {e}"))
    });
    reg.rel(cfg, "bw6_ate_loop_count_2", 0, move || {
        let w = x().pow(2) - x() - 1;
        let v = naf_value(P::ATE_LOOP_COUNT_2)?;
        want(if P::ATE_LOOP_COUNT_2_IS_NEGATIVE { -v } else { v }, w).map_err(|e| format!("ATE_LOOP_COUNT_2 (signed digits) vs x^2 - x - 1: {e}"))
    });
    reg.rel(cfg, "bw6_x_minus_1_div_3", 0, move || {
        // documented: [X-1]/3 for X > 0, [(-X)+1]/3 otherwise
        let w = exact_div(&(x() - 1), &SBig::from(3), "(x-1)/3")?.abs();
        want(sb(&from_limbs(P::X_MINUS_1_DIV_3.as_ref())), w)
    });
    reg.rel(cfg, "pairing_embedding_degree", 0, move || ensure(is_multiple(&(p().pow(2) - p() + i(1)), &r()), || "r does not divide p^2 - p + 1".to_string()));
    reg.rel(cfg, "pairing_g2_coeff_b", 0, || {
        let xi = <P::Fp3Config as Fp3Config>::NONRESIDUE.rd();
        g2_b_twist::<P::G1Config, P::G2Config>(xi, matches!(P::TWIST_TYPE, ark_ec::bw6::TwistType::M))
    });
    reg.rel(cfg, "pairing_g2_order", 0, move || {
        let t = p() + 1 - sb(&cofactor::<P::G1Config>()) * r();
        let n = sb(&cofactor::<P::G2Config>()) * r();
        let cands = sextic_twist_orders(&p(), &t)?;
        ensure(cands.contains(&n), || format!("h2 * r = {n} is not the order of a sextic twist over F_p ({} or {})", cands[0], cands[1]))
    });
}

/// MNT4 / MNT6 / CP6-782 share the shape: G2 on a quadratic twist over F_p^(k/2), ate loop |t - 1|,
/// last chunk of the final exponent w1 * p + w0 = Phi_k(p) / r
struct MntView {
    k: u32,
    p: BigUint,
    r: BigUint,
    h1: BigUint,
    h2: BigUint,
    ate: SBig,
    w0: SBig,
    w1: SBig,
}
/// the exact value of ATE_LOOP_COUNT that the source documents in the comment above the constant (a decimal
/// number of at least 20 digits), if any
fn documented_loop_count(file: &str) -> Result<Option<SBig>, String> {
    let c = match comment_above(file, "const ATE_LOOP_COUNT:", 4)? {
        Some(c) => c,
        None => return Err(machinery(format!("no `const ATE_LOOP_COUNT:` in {file}"))),
    };
    for l in c {
        for tok in l.split(|ch: char| !ch.is_ascii_digit()) {
            if tok.len() >= 20 {
                return Ok(BigUint::parse_bytes(tok.as_bytes(), 10).map(|v| sb(&v)));
            }
        }
    }
    Ok(None)
}
fn mnt_relations(reg: &mut Reg, cfg: &str, file: &str, view: fn() -> Result<MntView, String>) {
    reg.rel(cfg, "ate_loop_count_congruent_p_mod_r", 0, move || {
        let v = view()?;
        want(v.ate.mod_floor(&sb(&v.r)), sb(&v.p).mod_floor(&sb(&v.r))).map_err(|e| format!("signed ATE_LOOP_COUNT mod r vs p mod r: {e}"))
    })
    .class("pairing:mnt_like");
    // the pairing needs the congruence above only; the exact value (t - 1, the shortest choice) is demanded only
    // where the source documents the exact value of the constant, elsewhere it is an observation
    let src = file.to_string();
    reg.rel(cfg, "ate_loop_count_is_trace_minus_one", 0, move || {
        let v = view()?;
        let t = sb(&v.p) + i(1) - sb(&v.h1) * sb(&v.r);
        let tm1 = t - i(1);
        match documented_loop_count(&src)? {
            None => {
                observe(if v.ate == tm1 { "pairing:ate_loop_count=t-1(undocumented)" } else { "pairing:ate_loop_count!=t-1(undocumented)" });
                Ok(())
            },
            Some(d) => {
                observe("pairing:ate_loop_count_value_documented");
                let what = if d == tm1 { "t - 1 (the documented value), t = p + 1 - h1 r" } else { "the value documented in the source" };
                want(v.ate, d).map_err(|e| format!("signed ATE_LOOP_COUNT vs {what}: {e}"))
            },
        }
    });
    reg.rel(cfg, "final_exponent_last_chunk", 0, move || {
        let v = view()?;
        let p = sb(&v.p);
        let phi: SBig = if v.k == 4 { &p * &p + i(1) } else { &p * &p - &p + i(1) };
        let q = exact_div(&phi, &sb(&v.r), "Phi_k(p) / r")?;
        want(&v.w1 * &p + &v.w0, q).map_err(|e| format!("w1 * p + w0 vs Phi_{}(p)/r: {e}", v.k))
    });
    reg.rel(cfg, "pairing_embedding_degree", 0, move || {
        let v = view()?;
        let p = sb(&v.p);
        let phi: SBig = if v.k == 4 { &p * &p + i(1) } else { &p * &p - &p + i(1) };
        let rem: SBig = phi % sb(&v.r);
        ensure(rem.is_zero(), || format!("r does not divide Phi_{}(p)", v.k))
    });
    reg.rel(cfg, "pairing_g2_order", 0, move || {
        let v = view()?;
        let p = sb(&v.p);
        let t = &p + 1 - sb(&v.h1) * sb(&v.r);
        // quadratic twist over F_p^(k/2): order p^d + 1 + t_d
        let (q, td) = if v.k == 4 { (&p * &p, &t * &t - &p * 2) } else { (&p * &p * &p, &t * &t * &t - &p * &t * 3) };
        want(sb(&v.h2) * sb(&v.r), q + 1 + td).map_err(|e| format!("h2 * r vs order of the quadratic twist over F_p^{}: {e}", v.k / 2))
    });
}
/// G2 coefficients of the twisted curve: a' = a * twist^2, b' = b * twist^3, twist^2 generates the top extension
fn mnt_twist_relations<G1: SWCurveConfig, G2: SWCurveConfig>(reg: &mut Reg, cfg: &str, twist: fn() -> El, twist_coeff_a: Option<fn() -> El>, top_nonresidue: fn() -> El)
where
    G1::BaseField: Rd,
    G2::BaseField: Rd,
{
    reg.rel(cfg, "mnt_twist_is_tower_nonresidue", 0, move || {
        let f = <G2::BaseField as Rd>::tw();
        want_el(&f, &twist(), &top_nonresidue()).map_err(|e| format!("TWIST vs NONRESIDUE of the top quadratic extension: {e}"))
    });
    if let Some(tca) = twist_coeff_a {
        reg.rel(cfg, "mnt_twist_coeff_a", 0, move || {
            let f = <G2::BaseField as Rd>::tw();
            let a = f.embed(&G1::COEFF_A.rd());
            want_el(&f, &tca(), &f.mul(&a, &f.sq(&twist()))).map_err(|e| format!("TWIST_COEFF_A vs a * TWIST^2: {e}"))
        });
    }
    reg.rel(cfg, "pairing_g2_coeff_a", 0, move || {
        let f = <G2::BaseField as Rd>::tw();
        let a = f.embed(&G1::COEFF_A.rd());
        want_el(&f, &G2::COEFF_A.rd(), &f.mul(&a, &f.sq(&twist()))).map_err(|e| format!("G2 COEFF_A vs a * TWIST^2: {e}"))
    });
    reg.rel(cfg, "pairing_g2_coeff_b", 0, move || {
        let f = <G2::BaseField as Rd>::tw();
        let b = f.embed(&G1::COEFF_B.rd());
        let t = twist();
        want_el(&f, &G2::COEFF_B.rd(), &f.mul(&b, &f.mul(&f.sq(&t), &t))).map_err(|e| format!("G2 COEFF_B vs b * TWIST^3: {e}"))
    });
}

fn mnt4_cfg<P: MNT4Config>(reg: &mut Reg, cfg: &str, file: &str)
where
    P::Fp: Rd,
    P::Fr: Rd,
{
    reg.declare(file, &["MNT4Config"]);
    mnt_relations(reg, cfg, file, || {
        let v = naf_value_msb_first(P::ATE_LOOP_COUNT)?;
        let w0 = sb(&from_limbs(P::FINAL_EXPONENT_LAST_CHUNK_ABS_OF_W0.as_ref()));
        Ok(MntView {
            k: 4,
            p: modulus_of::<P::Fp>(),
            r: modulus_of::<P::Fr>(),
            h1: cofactor::<P::G1Config>(),
            h2: cofactor::<P::G2Config>(),
            ate: if P::ATE_IS_LOOP_COUNT_NEG { -v } else { v },
            w0: if P::FINAL_EXPONENT_LAST_CHUNK_W0_IS_NEG { -w0 } else { w0 },
            w1: sb(&from_limbs(P::FINAL_EXPONENT_LAST_CHUNK_1.as_ref())),
        })
    });
    mnt_twist_relations::<P::G1Config, P::G2Config>(reg, cfg, || P::TWIST.rd(), Some((|| P::TWIST_COEFF_A.rd()) as fn() -> El), || <P::Fp4Config as Fp4Config>::NONRESIDUE.rd());
}
fn mnt6_cfg<P: MNT6Config>(reg: &mut Reg, cfg: &str, file: &str)
where
    P::Fp: Rd,
    P::Fr: Rd,
{
    reg.declare(file, &["MNT6Config"]);
    mnt_relations(reg, cfg, file, || {
        let v = naf_value_msb_first(P::ATE_LOOP_COUNT)?;
        let w0 = sb(&from_limbs(P::FINAL_EXPONENT_LAST_CHUNK_ABS_OF_W0.as_ref()));
        Ok(MntView {
            k: 6,
            p: modulus_of::<P::Fp>(),
            r: modulus_of::<P::Fr>(),
            h1: cofactor::<P::G1Config>(),
            h2: cofactor::<P::G2Config>(),
            ate: if P::ATE_IS_LOOP_COUNT_NEG { -v } else { v },
            w0: if P::FINAL_EXPONENT_LAST_CHUNK_W0_IS_NEG { -w0 } else { w0 },
            w1: sb(&from_limbs(P::FINAL_EXPONENT_LAST_CHUNK_1.as_ref())),
        })
    });
    mnt_twist_relations::<P::G1Config, P::G2Config>(reg, cfg, || P::TWIST.rd(), Some((|| P::TWIST_COEFF_A.rd()) as fn() -> El), || <P::Fp6Config as Fp6Config2o3>::NONRESIDUE.rd());
}
fn cp6_782_cfg(reg: &mut Reg, cfg: &str) {
    use ark_cp6_782 as c;
    mnt_relations(reg, cfg, "curves/cp6_782/src/curves/mod.rs", || {
        let w0 = sb(&from_limbs(c::FINAL_EXPONENT_LAST_CHUNK_ABS_OF_W0.as_ref()));
        let ate = sb(&from_limbs(&c::ATE_LOOP_COUNT));
        Ok(MntView {
            k: 6,
            p: modulus_of::<c::Fq>(),
            r: modulus_of::<c::Fr>(),
            h1: cofactor::<c::g1::Config>(),
            h2: cofactor::<c::g2::Config>(),
            ate: if c::ATE_IS_LOOP_COUNT_NEG { -ate } else { ate },
            w0: if c::FINAL_EXPONENT_LAST_CHUNK_W0_IS_NEG { -w0 } else { w0 },
            w1: sb(&from_limbs(c::FINAL_EXPONENT_LAST_CHUNK_W1.as_ref())),
        })
    });
    mnt_twist_relations::<c::g1::Config, c::g2::Config>(reg, cfg, || c::TWIST.rd(), None, || <c::Fq6Config as Fp6Config2o3>::NONRESIDUE.rd());
}

// =====================================================================
// 9. The registry: one line per configuration object
// =====================================================================

const SW: &[&str] = &["CurveConfig", "SWCurveConfig"];
const SW_ONLY: &[&str] = &["SWCurveConfig"];
const TE: &[&str] = &["CurveConfig", "TECurveConfig", "MontCurveConfig"];
const TE_ONLY: &[&str] = &["TECurveConfig", "MontCurveConfig"];

fn registry_fields(r: &mut Reg) {
    prime_field::<ark_bls12_377::FqConfig, 6>(r, "bls12_377/Fq", "curves/bls12_377/src/fields/fq.rs", "FqConfig");
    prime_field::<ark_bls12_377::FrConfig, 4>(r, "bls12_377/Fr", "curves/bls12_377/src/fields/fr.rs", "FrConfig");
    prime_field::<ark_bls12_381::FqConfig, 6>(r, "bls12_381/Fq", "curves/bls12_381/src/fields/fq.rs", "FqConfig");
    prime_field::<ark_bls12_381::FrConfig, 4>(r, "bls12_381/Fr", "curves/bls12_381/src/fields/fr.rs", "FrConfig");
    prime_field::<ark_bn254::FqConfig, 4>(r, "bn254/Fq", "curves/bn254/src/fields/fq.rs", "FqConfig");
    prime_field::<ark_bn254::FrConfig, 4>(r, "bn254/Fr", "curves/bn254/src/fields/fr.rs", "FrConfig");
    prime_field::<ark_bw6_761::FqConfig, 12>(r, "bw6_761/Fq", "curves/bw6_761/src/fields/fq.rs", "FqConfig");
    prime_field::<ark_bw6_767::FqConfig, 12>(r, "bw6_767/Fq", "curves/bw6_767/src/fields/fq.rs", "FqConfig");
    prime_field::<ark_cp6_782::FqConfig, 13>(r, "cp6_782/Fq", "curves/cp6_782/src/fields/fq.rs", "FqConfig");
    prime_field::<ark_curve25519::FqConfig, 4>(r, "curve25519/Fq", "curves/curve25519/src/fields/fq.rs", "FqConfig");
    prime_field::<ark_curve25519::FrConfig, 4>(r, "curve25519/Fr", "curves/curve25519/src/fields/fr.rs", "FrConfig");
    prime_field::<ark_ed_on_bls12_377::FrConfig, 4>(r, "ed_on_bls12_377/Fr", "curves/ed_on_bls12_377/src/fields/fr.rs", "FrConfig");
    prime_field::<ark_ed_on_bls12_381::FrConfig, 4>(r, "ed_on_bls12_381/Fr", "curves/ed_on_bls12_381/src/fields/fr.rs", "FrConfig");
    prime_field::<ark_ed_on_bls12_381_bandersnatch::FrConfig, 4>(r, "ed_on_bls12_381_bandersnatch/Fr", "curves/ed_on_bls12_381_bandersnatch/src/fields/fr.rs", "FrConfig");
    prime_field::<ark_ed_on_bn254::FrConfig, 4>(r, "ed_on_bn254/Fr", "curves/ed_on_bn254/src/fields/fr.rs", "FrConfig");
    prime_field::<ark_ed_on_cp6_782::FrConfig, 6>(r, "ed_on_cp6_782/Fr", "curves/ed_on_cp6_782/src/fields/fr.rs", "FrConfig");
    prime_field::<ark_ed_on_mnt4_298::FrConfig, 5>(r, "ed_on_mnt4_298/Fr", "curves/ed_on_mnt4_298/src/fields/fr.rs", "FrConfig");
    prime_field::<ark_ed_on_mnt4_753::FrConfig, 12>(r, "ed_on_mnt4_753/Fr", "curves/ed_on_mnt4_753/src/fields/fr.rs", "FrConfig");
    prime_field::<ark_mnt4_298::FqConfig, 5>(r, "mnt4_298/Fq", "curves/mnt4_298/src/fields/fq.rs", "FqConfig");
    prime_field::<ark_mnt4_298::FrConfig, 5>(r, "mnt4_298/Fr", "curves/mnt4_298/src/fields/fr.rs", "FrConfig");
    prime_field::<ark_mnt4_753::FqConfig, 12>(r, "mnt4_753/Fq", "curves/mnt4_753/src/fields/fq.rs", "FqConfig");
    prime_field::<ark_mnt4_753::FrConfig, 12>(r, "mnt4_753/Fr", "curves/mnt4_753/src/fields/fr.rs", "FrConfig");
    prime_field::<ark_pallas::FqConfig, 4>(r, "pallas/Fq", "curves/pallas/src/fields/fq.rs", "FqConfig");
    prime_field::<ark_pallas::FrConfig, 4>(r, "pallas/Fr", "curves/pallas/src/fields/fr.rs", "FrConfig");
    prime_field::<ark_secp256k1::FqConfig, 4>(r, "secp256k1/Fq", "curves/secp256k1/src/fields/fq.rs", "FqConfig");
    prime_field::<ark_secp256k1::FrConfig, 4>(r, "secp256k1/Fr", "curves/secp256k1/src/fields/fr.rs", "FrConfig");
    prime_field::<ark_secp256r1::FqConfig, 4>(r, "secp256r1/Fq", "curves/secp256r1/src/fields/fq.rs", "FqConfig");
    prime_field::<ark_secp256r1::FrConfig, 4>(r, "secp256r1/Fr", "curves/secp256r1/src/fields/fr.rs", "FrConfig");
    prime_field::<ark_secp384r1::FqConfig, 6>(r, "secp384r1/Fq", "curves/secp384r1/src/fields/fq.rs", "FqConfig");
    prime_field::<ark_secp384r1::FrConfig, 6>(r, "secp384r1/Fr", "curves/secp384r1/src/fields/fr.rs", "FrConfig");
    use ark_test_curves as t;
    prime_field::<t::secp256k1::FqConfig, 4>(r, "test/secp256k1/Fq", "test-curves/src/secp256k1/fq.rs", "FqConfig");
    prime_field::<t::secp256k1::FrConfig, 4>(r, "test/secp256k1/Fr", "test-curves/src/secp256k1/fr.rs", "FrConfig");
    prime_field::<t::bls12_381::FqConfig, 6>(r, "test/bls12_381/Fq", "test-curves/src/bls12_381/fq.rs", "FqConfig");
    prime_field::<t::bls12_381::FrConfig, 4>(r, "test/bls12_381/Fr", "test-curves/src/bls12_381/fr.rs", "FrConfig");
    prime_field::<t::ed_on_bls12_381::FrConfig, 4>(r, "test/ed_on_bls12_381/Fr", "test-curves/src/ed_on_bls12_381/fr.rs", "FrConfig");
    prime_field::<t::mnt4_753::FqConfig, 12>(r, "test/mnt4_753/Fq", "test-curves/src/mnt4_753/fq.rs", "FqConfig");
    prime_field::<t::mnt4_753::FrConfig, 12>(r, "test/mnt4_753/Fr", "test-curves/src/mnt4_753/fr.rs", "FrConfig");
    prime_field::<t::bn384_small_two_adicity::FqConfig, 6>(r, "test/bn384_small_two_adicity/Fq", "test-curves/src/bn384_small_two_adicity/fq.rs", "FqConfig");
    prime_field::<t::bn384_small_two_adicity::FrConfig, 6>(r, "test/bn384_small_two_adicity/Fr", "test-curves/src/bn384_small_two_adicity/fr.rs", "FrConfig");
    prime_field::<t::fp128::FqConfig, 2>(r, "test/fp128/Fq", "test-curves/src/fp128.rs", "FqConfig");
}

fn registry_towers(r: &mut Reg) {
    fp2_cfg::<ark_bls12_377::Fq2Config>(r, "bls12_377/Fq2", "curves/bls12_377/src/fields/fq2.rs");
    fp6_3o2_cfg::<ark_bls12_377::Fq6Config>(r, "bls12_377/Fq6", "curves/bls12_377/src/fields/fq6.rs");
    fp12_cfg::<ark_bls12_377::Fq12Config>(r, "bls12_377/Fq12", "curves/bls12_377/src/fields/fq12.rs");
    fp2_cfg::<ark_bls12_381::Fq2Config>(r, "bls12_381/Fq2", "curves/bls12_381/src/fields/fq2.rs");
    fp6_3o2_cfg::<ark_bls12_381::Fq6Config>(r, "bls12_381/Fq6", "curves/bls12_381/src/fields/fq6.rs");
    fp12_cfg::<ark_bls12_381::Fq12Config>(r, "bls12_381/Fq12", "curves/bls12_381/src/fields/fq12.rs");
    fp2_cfg::<ark_bn254::Fq2Config>(r, "bn254/Fq2", "curves/bn254/src/fields/fq2.rs");
    fp6_3o2_cfg::<ark_bn254::Fq6Config>(r, "bn254/Fq6", "curves/bn254/src/fields/fq6.rs");
    fp12_cfg::<ark_bn254::Fq12Config>(r, "bn254/Fq12", "curves/bn254/src/fields/fq12.rs");
    fp3_cfg::<ark_bw6_761::Fq3Config>(r, "bw6_761/Fq3", "curves/bw6_761/src/fields/fq3.rs");
    fp6_2o3_cfg::<ark_bw6_761::Fq6Config>(r, "bw6_761/Fq6", "curves/bw6_761/src/fields/fq6.rs");
    fp3_cfg::<ark_bw6_767::Fq3Config>(r, "bw6_767/Fq3", "curves/bw6_767/src/fields/fq3.rs");
    fp6_2o3_cfg::<ark_bw6_767::Fq6Config>(r, "bw6_767/Fq6", "curves/bw6_767/src/fields/fq6.rs");
    fp3_cfg::<ark_cp6_782::Fq3Config>(r, "cp6_782/Fq3", "curves/cp6_782/src/fields/fq3.rs");
    fp6_2o3_cfg::<ark_cp6_782::Fq6Config>(r, "cp6_782/Fq6", "curves/cp6_782/src/fields/fq6.rs");
    fp2_cfg::<ark_mnt4_298::Fq2Config>(r, "mnt4_298/Fq2", "curves/mnt4_298/src/fields/fq2.rs");
    fp4_cfg::<ark_mnt4_298::Fq4Config>(r, "mnt4_298/Fq4", "curves/mnt4_298/src/fields/fq4.rs");
    fp2_cfg::<ark_mnt4_753::Fq2Config>(r, "mnt4_753/Fq2", "curves/mnt4_753/src/fields/fq2.rs");
    fp4_cfg::<ark_mnt4_753::Fq4Config>(r, "mnt4_753/Fq4", "curves/mnt4_753/src/fields/fq4.rs");
    fp3_cfg::<ark_mnt6_298::Fq3Config>(r, "mnt6_298/Fq3", "curves/mnt6_298/src/fields/fq3.rs");
    fp6_2o3_cfg::<ark_mnt6_298::Fq6Config>(r, "mnt6_298/Fq6", "curves/mnt6_298/src/fields/fq6.rs");
    fp3_cfg::<ark_mnt6_753::Fq3Config>(r, "mnt6_753/Fq3", "curves/mnt6_753/src/fields/fq3.rs");
    fp6_2o3_cfg::<ark_mnt6_753::Fq6Config>(r, "mnt6_753/Fq6", "curves/mnt6_753/src/fields/fq6.rs");
    use ark_test_curves as t;
    fp2_cfg::<t::bls12_381::Fq2Config>(r, "test/bls12_381/Fq2", "test-curves/src/bls12_381/fq2.rs");
    fp6_3o2_cfg::<t::bls12_381::Fq6Config>(r, "test/bls12_381/Fq6", "test-curves/src/bls12_381/fq6.rs");
    fp12_cfg::<t::bls12_381::Fq12Config>(r, "test/bls12_381/Fq12", "test-curves/src/bls12_381/fq12.rs");
    fp3_cfg::<t::mnt6_753::Fq3Config>(r, "test/mnt6_753/Fq3", "test-curves/src/mnt6_753/fq3.rs");
}

type Iso<C> = <C as WBConfig>::IsogenousCurve;

fn registry_curves(r: &mut Reg) {
    // --- BLS12-377
    {
        use ark_bls12_377::{g1, g2};
        let d = "curves/bls12_377/src/curves";
        sw_curve::<g1::Config>(r, "bls12_377/g1", &format!("{d}/g1.rs"), SW, true);
        te_curve::<g1::Config>(r, "bls12_377/g1(te)", &format!("{d}/g1.rs"), TE_ONLY, false);
        sw_te_same_curve::<g1::Config>(r, "bls12_377/g1(te)");
        bls12_377_g1_te_chain(r, "bls12_377/g1(te)");
        glv_cfg::<g1::Config>(r, "bls12_377/g1", &format!("{d}/g1.rs"));
        wb_cfg::<g1::Config>(r, "bls12_377/g1", &format!("{d}/g1.rs"));
        sw_curve::<Iso<g1::Config>>(r, "bls12_377/g1_swu_iso", &format!("{d}/g1_swu_iso.rs"), SW, true);
        swu_cfg::<Iso<g1::Config>>(r, "bls12_377/g1_swu_iso", &format!("{d}/g1_swu_iso.rs"));
        sw_curve::<g2::Config>(r, "bls12_377/g2", &format!("{d}/g2.rs"), SW, true);
        glv_cfg::<g2::Config>(r, "bls12_377/g2", &format!("{d}/g2.rs"));
        wb_cfg::<g2::Config>(r, "bls12_377/g2", &format!("{d}/g2.rs"));
        sw_curve::<Iso<g2::Config>>(r, "bls12_377/g2_swu_iso", &format!("{d}/g2_swu_iso.rs"), SW, true);
        swu_cfg::<Iso<g2::Config>>(r, "bls12_377/g2_swu_iso", &format!("{d}/g2_swu_iso.rs"));
    }
    // --- BLS12-381
    {
        use ark_bls12_381::{g1, g2};
        let d = "curves/bls12_381/src/curves";
        sw_curve::<g1::Config>(r, "bls12_381/g1", &format!("{d}/g1.rs"), SW, true);
        glv_cfg::<g1::Config>(r, "bls12_381/g1", &format!("{d}/g1.rs"));
        wb_cfg::<g1::Config>(r, "bls12_381/g1", &format!("{d}/g1.rs"));
        sw_curve::<Iso<g1::Config>>(r, "bls12_381/g1_swu_iso", &format!("{d}/g1_swu_iso.rs"), SW, true);
        swu_cfg::<Iso<g1::Config>>(r, "bls12_381/g1_swu_iso", &format!("{d}/g1_swu_iso.rs"));
        sw_curve::<g2::Config>(r, "bls12_381/g2", &format!("{d}/g2.rs"), SW, true);
        glv_cfg::<g2::Config>(r, "bls12_381/g2", &format!("{d}/g2.rs"));
        wb_cfg::<g2::Config>(r, "bls12_381/g2", &format!("{d}/g2.rs"));
        sw_curve::<Iso<g2::Config>>(r, "bls12_381/g2_swu_iso", &format!("{d}/g2_swu_iso.rs"), SW, true);
        swu_cfg::<Iso<g2::Config>>(r, "bls12_381/g2_swu_iso", &format!("{d}/g2_swu_iso.rs"));
    }
    // --- BN254, BW6, CP6
    {
        use ark_bn254::{g1, g2};
        sw_curve::<g1::Config>(r, "bn254/g1", "curves/bn254/src/curves/g1.rs", SW, true);
        glv_cfg::<g1::Config>(r, "bn254/g1", "curves/bn254/src/curves/g1.rs");
        sw_curve::<g2::Config>(r, "bn254/g2", "curves/bn254/src/curves/g2.rs", SW, true);
        glv_cfg::<g2::Config>(r, "bn254/g2", "curves/bn254/src/curves/g2.rs");
    }
    {
        use ark_bw6_761::{g1, g2};
        sw_curve::<g1::Config>(r, "bw6_761/g1", "curves/bw6_761/src/curves/g1.rs", SW, true);
        glv_cfg::<g1::Config>(r, "bw6_761/g1", "curves/bw6_761/src/curves/g1.rs");
        sw_curve::<g2::Config>(r, "bw6_761/g2", "curves/bw6_761/src/curves/g2.rs", SW, true);
        glv_cfg::<g2::Config>(r, "bw6_761/g2", "curves/bw6_761/src/curves/g2.rs");
    }
    sw_curve::<ark_bw6_767::g1::Config>(r, "bw6_767/g1", "curves/bw6_767/src/curves/g1.rs", SW, true);
    sw_curve::<ark_bw6_767::g2::Config>(r, "bw6_767/g2", "curves/bw6_767/src/curves/g2.rs", SW, true);
    sw_curve::<ark_cp6_782::g1::Config>(r, "cp6_782/g1", "curves/cp6_782/src/curves/g1.rs", SW, true);
    sw_curve::<ark_cp6_782::g2::Config>(r, "cp6_782/g2", "curves/cp6_782/src/curves/g2.rs", SW, true);
    // --- twisted Edwards crates
    te_curve::<ark_curve25519::Curve25519Config>(r, "curve25519", "curves/curve25519/src/curves/mod.rs", TE, true);
    te_curve::<ark_ed25519::EdwardsConfig>(r, "ed25519", "curves/ed25519/src/curves/mod.rs", TE, true);
    te_curve::<ark_ed_on_bls12_377::EdwardsConfig>(r, "ed_on_bls12_377", "curves/ed_on_bls12_377/src/curves/mod.rs", TE, true);
    {
        use ark_ed_on_bls12_381::JubjubConfig as J;
        let f = "curves/ed_on_bls12_381/src/curves/mod.rs";
        te_curve::<J>(r, "ed_on_bls12_381/jubjub", f, TE, true);
        sw_curve::<J>(r, "ed_on_bls12_381/jubjub(sw)", f, SW_ONLY, false);
        sw_te_same_curve::<J>(r, "ed_on_bls12_381/jubjub(sw)");
        sw_is_image_of_te::<J>(r, "ed_on_bls12_381/jubjub(sw)", f);
    }
    {
        use ark_ed_on_bls12_381_bandersnatch::BandersnatchConfig as B;
        let f = "curves/ed_on_bls12_381_bandersnatch/src/curves/mod.rs";
        te_curve::<B>(r, "ed_on_bls12_381_bandersnatch", f, TE, true);
        sw_curve::<B>(r, "ed_on_bls12_381_bandersnatch(sw)", f, SW_ONLY, false);
        sw_te_same_curve::<B>(r, "ed_on_bls12_381_bandersnatch(sw)");
        sw_is_image_of_te::<B>(r, "ed_on_bls12_381_bandersnatch(sw)", f);
        elligator2_cfg::<B>(r, "ed_on_bls12_381_bandersnatch", f);
    }
    te_curve::<ark_ed_on_bn254::EdwardsConfig>(r, "ed_on_bn254", "curves/ed_on_bn254/src/curves/mod.rs", TE, true);
    te_curve::<ark_ed_on_cp6_782::EdwardsConfig>(r, "ed_on_cp6_782(=ed_on_bw6_761)", "curves/ed_on_cp6_782/src/curves/mod.rs", TE, true);
    te_curve::<ark_ed_on_mnt4_298::EdwardsConfig>(r, "ed_on_mnt4_298", "curves/ed_on_mnt4_298/src/curves/mod.rs", TE, true);
    te_curve::<ark_ed_on_mnt4_753::EdwardsConfig>(r, "ed_on_mnt4_753", "curves/ed_on_mnt4_753/src/curves/mod.rs", TE, true);
    // --- plain short Weierstrass crates
    sw_curve::<ark_grumpkin::GrumpkinConfig>(r, "grumpkin", "curves/grumpkin/src/curves/mod.rs", SW, true);
    sw_curve::<ark_mnt4_298::g1::Config>(r, "mnt4_298/g1", "curves/mnt4_298/src/curves/g1.rs", SW, true);
    sw_curve::<ark_mnt4_298::g2::Config>(r, "mnt4_298/g2", "curves/mnt4_298/src/curves/g2.rs", SW, true);
    sw_curve::<ark_mnt4_753::g1::Config>(r, "mnt4_753/g1", "curves/mnt4_753/src/curves/g1.rs", SW, true);
    sw_curve::<ark_mnt4_753::g2::Config>(r, "mnt4_753/g2", "curves/mnt4_753/src/curves/g2.rs", SW, true);
    sw_curve::<ark_mnt6_298::g1::Config>(r, "mnt6_298/g1", "curves/mnt6_298/src/curves/g1.rs", SW, true);
    sw_curve::<ark_mnt6_298::g2::Config>(r, "mnt6_298/g2", "curves/mnt6_298/src/curves/g2.rs", SW, true);
    sw_curve::<ark_mnt6_753::g1::Config>(r, "mnt6_753/g1", "curves/mnt6_753/src/curves/g1.rs", SW, true);
    sw_curve::<ark_mnt6_753::g2::Config>(r, "mnt6_753/g2", "curves/mnt6_753/src/curves/g2.rs", SW, true);
    sw_curve::<ark_pallas::PallasConfig>(r, "pallas", "curves/pallas/src/curves/mod.rs", SW, true);
    glv_cfg::<ark_pallas::PallasConfig>(r, "pallas", "curves/pallas/src/curves/mod.rs");
    sw_curve::<ark_vesta::VestaConfig>(r, "vesta", "curves/vesta/src/curves/mod.rs", SW, true);
    glv_cfg::<ark_vesta::VestaConfig>(r, "vesta", "curves/vesta/src/curves/mod.rs");
    sw_curve::<ark_secp256k1::Config>(r, "secp256k1", "curves/secp256k1/src/curves/mod.rs", SW, true);
    sw_curve::<ark_secp256r1::Config>(r, "secp256r1", "curves/secp256r1/src/curves/mod.rs", SW, true);
    sw_curve::<ark_secp384r1::Config>(r, "secp384r1", "curves/secp384r1/src/curves/mod.rs", SW, true);
    sw_curve::<ark_secq256k1::Config>(r, "secq256k1", "curves/secq256k1/src/curves/mod.rs", SW, true);
    // --- test-curves
    {
        use ark_test_curves as t;
        let d = "test-curves/src";
        sw_curve::<t::bn384_small_two_adicity::g1::Config>(r, "test/bn384_small_two_adicity/g1", &format!("{d}/bn384_small_two_adicity/g1.rs"), SW, true);
        sw_curve::<t::secp256k1::Config>(r, "test/secp256k1/g1", &format!("{d}/secp256k1/g1.rs"), SW, true);
        sw_curve::<t::mnt4_753::g1::Config>(r, "test/mnt4_753/g1", &format!("{d}/mnt4_753/g1.rs"), SW, true);
        use t::bls12_381::{g1, g1_swu_iso, g2, g2_swu_iso};
        sw_curve::<g1::Config>(r, "test/bls12_381/g1", &format!("{d}/bls12_381/g1.rs"), SW, true);
        wb_cfg::<g1::Config>(r, "test/bls12_381/g1", &format!("{d}/bls12_381/g1.rs"));
        glv_cfg::<g1::Config>(r, "test/bls12_381/g1", &format!("{d}/bls12_381/g1.rs"));
        sw_curve::<g1_swu_iso::SwuIsoConfig>(r, "test/bls12_381/g1_swu_iso", &format!("{d}/bls12_381/g1_swu_iso.rs"), SW, true);
        swu_cfg::<g1_swu_iso::SwuIsoConfig>(r, "test/bls12_381/g1_swu_iso", &format!("{d}/bls12_381/g1_swu_iso.rs"));
        sw_curve::<g2::Config>(r, "test/bls12_381/g2", &format!("{d}/bls12_381/g2.rs"), SW, true);
        wb_cfg::<g2::Config>(r, "test/bls12_381/g2", &format!("{d}/bls12_381/g2.rs"));
        sw_curve::<g2_swu_iso::SwuIsoConfig>(r, "test/bls12_381/g2_swu_iso", &format!("{d}/bls12_381/g2_swu_iso.rs"), SW, true);
        swu_cfg::<g2_swu_iso::SwuIsoConfig>(r, "test/bls12_381/g2_swu_iso", &format!("{d}/bls12_381/g2_swu_iso.rs"));
        te_curve::<t::ed_on_bls12_381::EdwardsConfig>(r, "test/ed_on_bls12_381", &format!("{d}/ed_on_bls12_381/g.rs"), TE, true);
    }
}

fn registry_pairings(r: &mut Reg) {
    bls12_cfg::<ark_bls12_377::Config>(r, "bls12_377/pairing", "curves/bls12_377/src/curves/mod.rs");
    bls12_cfg::<ark_bls12_381::Config>(r, "bls12_381/pairing", "curves/bls12_381/src/curves/mod.rs");
    bls12_cfg::<ark_test_curves::bls12_381::Config>(r, "test/bls12_381/pairing", "test-curves/src/bls12_381/mod.rs");
    bn_cfg::<ark_bn254::Config>(r, "bn254/pairing", "curves/bn254/src/curves/mod.rs");
    bw6_cfg::<ark_bw6_761::Config>(r, "bw6_761/pairing", "curves/bw6_761/src/curves/mod.rs");
    bw6_cfg::<ark_bw6_767::Config>(r, "bw6_767/pairing", "curves/bw6_767/src/curves/mod.rs");
    mnt4_cfg::<ark_mnt4_298::Config>(r, "mnt4_298/pairing", "curves/mnt4_298/src/curves/mod.rs");
    mnt4_cfg::<ark_mnt4_753::Config>(r, "mnt4_753/pairing", "curves/mnt4_753/src/curves/mod.rs");
    mnt6_cfg::<ark_mnt6_298::Config>(r, "mnt6_298/pairing", "curves/mnt6_298/src/curves/mod.rs");
    mnt6_cfg::<ark_mnt6_753::Config>(r, "mnt6_753/pairing", "curves/mnt6_753/src/curves/mod.rs");
    cp6_782_cfg(r, "cp6_782/pairing");
}

// =====================================================================
// 10. Driver
// =====================================================================

fn self_validate(ctx: &mut Ctx) {
    // toy tower F_7[u]/(u^2+1)[v]/(v^3-(u+2)): inverse and square roots against brute force
    let f7 = Tw::prime(big(7));
    let f49 = f7.ext(2, vec![big(6)]);
    let mut ok = true;
    let mut squares = BTreeSet::new();
    let all: Vec<El> = (0..49u64).map(|n| vec![big(n % 7), big(n / 7)]).collect();
    for a in &all {
        squares.insert(f49.sq(a));
    }
    for a in &all {
        if !f49.is_zero(a) {
            ok &= f49.inv(a).map(|i| f49.mul(a, &i) == f49.one()).unwrap_or(false);
        }
        ok &= f49.is_square(a) == squares.contains(a);
        ok &= f49.sqrt(a).map(|r| f49.sq(&r) == *a).unwrap_or(!squares.contains(a));
    }
    // (u+2) must be a non-cube for the toy cubic level; check inverse there on a few elements
    let beta = vec![big(2), big(1)];
    let f343 = f49.ext(3, beta);
    for n in 1..200u64 {
        let a = f343.small(n * 7 + 1);
        if !f343.is_zero(&a) {
            ok &= f343.inv(&a).is_some();
        }
        ok &= f343.pow(&a, &f343.order()) == a;
    }
    ctx.validate(ok, "oracle tower arithmetic on F_7[u]/(u^2+1)[v]/(v^3-(u+2))");
    // cubic irreducibility test against brute-force root search: all monic cubics over F_7, a slice over F_49
    let mut ok = true;
    for n in 0..343u64 {
        let c = [vec![big(n % 7)], vec![big(n / 7 % 7)], vec![big(n / 49)]];
        let has_root = (0..7u64).any(|x| (x * x * x + (n / 49) * x * x + (n / 7 % 7) * x + n % 7) % 7 == 0);
        ok &= f7.cubic_is_irreducible(&c) == !has_root;
    }
    for n in 0..400u64 {
        let c = [all[(n % 49) as usize].clone(), all[(n * 5 / 7 % 49) as usize].clone(), f49.zero()];
        let has_root = all.iter().any(|x| f49.is_zero(&f49.add(&f49.add(&f49.mul(&f49.sq(x), x), &f49.mul(&c[1], x)), &c[0])));
        ok &= f49.cubic_is_irreducible(&c) == !has_root;
    }
    ctx.validate(ok, "oracle cubic irreducibility test vs brute-force root search over F_7 and F_49");
    // Jacobian double-and-add against repeated chord-and-tangent on secp256k1 and on BLS12-381 G2
    fn sw_check<C: SWCurveConfig>() -> bool
    where
        C::BaseField: Rd,
    {
        let c = sw_model::<C>();
        let g = sw_gen::<C>();
        let mut acc: Pt = None;
        let mut ok = true;
        for k in 0..24u64 {
            ok &= c.mul(&big(k), &g) == acc && c.on_curve(&acc);
            acc = c.add_affine(&acc, &g);
        }
        ok && c.add_affine(&g, &c.neg(&g)).is_none()
    }
    ctx.validate(sw_check::<ark_secp256k1::Config>(), "oracle Jacobian scalar multiplication vs affine law (secp256k1)");
    ctx.validate(sw_check::<ark_bls12_381::g2::Config>(), "oracle Jacobian scalar multiplication vs affine law (BLS12-381 G2)");
    ctx.validate(sw_check::<ark_mnt6_298::g2::Config>(), "oracle Jacobian scalar multiplication vs affine law (MNT6-298 G2, a != 0 over Fp3)");
    fn te_check<C: TECurveConfig>() -> bool
    where
        C::BaseField: Rd,
    {
        let c = te_model::<C>();
        let g = (C::GENERATOR.x.rd(), C::GENERATOR.y.rd());
        let mut acc = (c.f.zero(), c.f.one());
        let mut ok = true;
        for k in 0..24u64 {
            ok &= c.mul(&big(k), &g).map(|v| v == acc).unwrap_or(false) && c.on_curve(&acc);
            acc = match c.add_affine(&acc, &g) {
                Some(v) => v,
                None => return false,
            };
        }
        ok
    }
    ctx.validate(te_check::<ark_ed25519::EdwardsConfig>(), "oracle projective Edwards law vs affine law (ed25519)");
    ctx.validate(te_check::<ark_ed_on_bls12_381_bandersnatch::BandersnatchConfig>(), "oracle projective Edwards law vs affine law (bandersnatch)");
    ctx.validate(is_probable_prime(&((BigUint::one() << 127) - 1u32)) && !is_probable_prime(&((BigUint::one() << 128) + 1u32)), "Miller-Rabin");
}

fn run_group(ctx: &mut Ctx, name: &str, reg: Reg, visited: &mut BTreeSet<String>) {
    let (mut cases, late): (Vec<Case>, Vec<Case>) = reg.cases.into_iter().partition(|c| !c.thorough);
    let nq = cases.len();
    cases.extend(late);
    let n = if ctx.quick() { nq } else { cases.len() };
    let before = ctx.sweeps.len();
    let timing = std::env::var("C16_TIMING").is_ok();
    ctx.sweep(name, n as u64, |i, loc| {
        let c = &cases[i as usize];
        for k in &c.classes {
            loc.class(k);
        }
        if loc.sampling() {
            loc.sample(format!("config {} relation {}[{}]", c.cfg, c.rel, c.idx));
        }
        let t0 = std::time::Instant::now();
        let res = (c.f)();
        if timing && t0.elapsed().as_secs_f64() > 0.3 {
            eprintln!("TIMING {:.2}s {} {}[{}]", t0.elapsed().as_secs_f64(), c.cfg, c.rel, c.idx);
        }
        if let Err(e) = &res {
            if let Some(m) = e.strip_prefix(MACHINERY) {
                // the harness could not read / parse what it needs: never a verdict
                MACHINERY_ERRORS.lock().unwrap().push(format!("config {} relation {}[{}]: {m}", c.cfg, c.rel, c.idx));
                loc.op();
                return;
            }
        }
        loc.check_at(c.rel, res.is_ok(), || format!("config {} relation {}[{}]: {}", c.cfg, c.rel, c.idx, res.as_ref().err().cloned().unwrap_or_default()));
    });
    for m in std::mem::take(&mut *MACHINERY_ERRORS.lock().unwrap()) {
        ctx.machinery_error(m);
    }
    for (k, n) in std::mem::take(&mut *OBSERVED.lock().unwrap()) {
        ctx.add_class(k, n);
    }
    if ctx.sweeps.len() > before {
        match &ctx.replay {
            Some((_, idx)) => {
                if let Some(c) = cases.get(*idx as usize) {
                    visited.insert(c.cfg.clone());
                }
            },
            None => {
                for c in &cases[..n] {
                    visited.insert(c.cfg.clone());
                }
            },
        }
    }
}

fn main() {
    let mut ctx = Ctx::from_args("C16");
    FACTOR_BOUND.store(ctx.t(1 << 22, 1 << 26), Ordering::Relaxed);
    ctx.assume("oracle: num-bigint integers; prime-field constants are read by decoding raw Montgomery limbs with R = 2^(64N)");
    ctx.assume("primality of moduli by Miller-Rabin with the first 40 prime bases (the only probabilistic step)");
    ctx.assume("GENERATOR order is checked against all prime factors of p-1 below the factor bound only");
    ctx.assume("CAN_USE_NO_CARRY_{MUL,SQUARE}_OPT: soundness only (flag set => top bit of the modulus clear and the remaining bits not all one; the squaring flag is held to the multiplication condition because its only consumer, asm squaring, is the asm multiplication with b = a); a conservative false is an observation (class field:no_carry_*_flag_conservative)");
    ctx.assume("exact values that are a CHOICE (limb count above the minimum, RFC 9380 H.2/H.3 choice of Z, ATE_LOOP_COUNT = t - 1, BW6 ATE_LOOP_COUNT_1 = X, SW generator = image of the TE generator, QUADRATIC_NONRESIDUE_TO_T = NONRESIDUE^T) are demanded only where a comment in the source of the repository under test documents them; otherwise only the defining equation is demanded and the exact value is recorded as a class");
    ctx.assume("a source file that cannot be read, or a derive attribute that is not in the single-line `#[key = \"value\"]` form, is a machinery error (exit 2), never a violation");
    ctx.assume("Montgomery-form coefficient B of a twisted Edwards config is required to equal 4/(a-d) up to a non-zero square (F_q-birational equivalence), A exactly 2(a+d)/(a-d)");
    ctx.assume("private constants of curve crates (psi / p-power endomorphism coefficients of curves/bls12_381 G2, bls12_377 G2, bn254 G2) are not reachable from the harness crate and are left to C12; the PUBLIC ones (curves/bls12_381 g1 BETA + endomorphism, test-curves bls12_381 g2 P_POWER_ENDOMORPHISM_COEFF_0/1, DOUBLE_P_POWER_ENDOMORPHISM + functions) are checked here, and a source scan fails as machinery if the set of `pub const ..ENDOMORPHISM.. / BETA` changes");
    ctx.bound("factor_bound_for_generator_order", FACTOR_BOUND.load(Ordering::Relaxed));
    ctx.bound(
        "points_for_group_order",
        if ctx.quick() { "8 points per curve over a prime field, 2 per curve over an extension field (1 when p >= 753 bits), from x resp. y = 0, 1, 2, ..." } else { "8 points per curve" },
    );
    ctx.bound("isogeny_points", if ctx.quick() { "4 (G1) / 2 (G2) points and consecutive pairs" } else { "8 points and consecutive pairs" });
    ctx.bound("hook_alphabet", "deviation <= 2 over 0 with coordinates {1, p-1, generic, (p-1)/2, (p+1)/2, 2}, all-(p-1), one dense generic vector");
    ctx.require(&[
        "field:sqrt_case3mod4",
        "field:sqrt_tonelli_shanks",
        "field:small_subgroup",
        "field:no_small_subgroup",
        "field:>=753bit",
        "field:generator_order_up_to_factor_bound",
        "frob:index0",
        "frob:index1",
        "frob:index>=2",
        "frob:>=753bit",
        "hook:fp2",
        "hook:fp3",
        "hook:fp4",
        "hook:fp6_2over3",
        "hook:fp6_3over2",
        "hook:fp12",
        "hook:sw_mul_by_a",
        "hook:sw_add_b",
        "hook:te_mul_by_a",
        "curve:over_extension",
        "curve:>=753bit",
        "curve:<753bit",
        "curve:twisted_edwards",
        "curve:order_on_prime_field_curve",
        "curve:order_on_extension_curve",
        "glv:eigenvalue",
        "hash:swu",
        "hash:wb_isogeny",
        "hash:elligator2",
        "pairing:bls12",
        "pairing:bn",
        "pairing:bw6",
        "pairing:mnt_like",
        // observations / documentation-dependent relations that the unchanged tree is known to produce
        "sqrt_precomp:none",
        "sqrt_precomp:case3mod4",
        "sqrt_precomp:tonelli_shanks",
        "pairing:ate_loop_count_value_documented",
        "pairing:bw6_loop_count_1_documented_as_x",
        "te_sw:generator_correspondence_documented",
        "fp3:quadratic_nonresidue_to_t_documented_as_nonresidue^t",
        "curve:cofactor_times_r_in_hasse_interval",
        "field:constants_through_fp_traits",
        "root_of_unity:n=1",
        "root_of_unity:n=2",
        "root_of_unity:n=2^two_adicity",
        "root_of_unity:mixed_radix",
        "glv:lattice_entries_short",
        "endo:public_constants",
        "endo:public_eigenvalue",
        "endo:psi_on_generator",
        "endo:psi_outside_subgroup",
    ]);

    let mk = || Reg { cases: Vec::new(), decl: BTreeMap::new() };
    let (mut rf, mut rt, mut rc, mut rp) = (mk(), mk(), mk(), mk());
    registry_fields(&mut rf);
    registry_towers(&mut rt);
    registry_curves(&mut rc);
    public_endomorphisms(&mut rc);
    registry_pairings(&mut rp);

    // registry staleness: every `impl <XConfig> for` / derive(MontConfig) in the sources is accounted for
    let mut declared: BTreeMap<(String, String), u64> = BTreeMap::new();
    for r in [&rf, &rt, &rc, &rp] {
        for (k, v) in &r.decl {
            *declared.entry(k.clone()).or_insert(0) += v;
        }
    }
    let mut errs = Vec::new();
    let found = scan_sources(&mut errs);
    for (k, v) in &found {
        let d = declared.get(k).copied().unwrap_or(0);
        if d != *v {
            errs.push(format!("stale registry: {} has {v} impl(s) of {} but the registry accounts for {d}", k.0, k.1));
        }
    }
    for (k, d) in &declared {
        if !found.contains_key(k) {
            errs.push(format!("stale registry: registry declares {d} impl(s) of {} in {} but the sources have none", k.1, k.0));
        }
    }
    // public endomorphism constants that are not trait items: the covered set must be the set in the sources
    {
        let mut files = Vec::new();
        rs_files(std::path::Path::new(&format!("{}/curves", repo())), &mut files);
        rs_files(std::path::Path::new(&format!("{}/test-curves/src", repo())), &mut files);
        let mut found_consts: BTreeSet<(String, String)> = BTreeSet::new();
        for f in files {
            let rel = f.strip_prefix(repo()).unwrap().to_string_lossy().trim_start_matches('/').to_string();
            if rel.contains("/tests") || rel.contains("curve-constraint-tests") {
                continue;
            }
            if let Ok(txt) = std::fs::read_to_string(&f) {
                for l in txt.lines() {
                    let l = l.trim_start();
                    if let Some(rest) = l.strip_prefix("pub const ") {
                        let name = rest.split(|c: char| c == ':' || c == ' ').next().unwrap_or("").to_string();
                        if name.contains("ENDOMORPHISM") || name == "BETA" {
                            found_consts.insert((rel.clone(), name));
                        }
                    }
                }
            }
        }
        let covered: BTreeSet<(String, String)> = PUBLIC_ENDO_CONSTS.iter().map(|(f, n)| (f.to_string(), n.to_string())).collect();
        for c in found_consts.symmetric_difference(&covered) {
            errs.push(format!("stale registry: public endomorphism constant {} in {} is {}", c.1, c.0, if covered.contains(c) { "covered by C16 but no longer `pub const` in the sources" } else { "not covered by C16" }));
        }
    }
    for e in errs {
        ctx.machinery_error(e);
    }
    let mut per_trait: BTreeMap<String, u64> = BTreeMap::new();
    for (k, v) in &found {
        *per_trait.entry(k.1.clone()).or_insert(0) += v;
    }
    ctx.bound("config_impls_found_in_sources", serde_json::json!(per_trait));

    self_validate(&mut ctx);

    let mut visited = BTreeSet::new();
    run_group(&mut ctx, "prime_fields", rf, &mut visited);
    run_group(&mut ctx, "towers", rt, &mut visited);
    run_group(&mut ctx, "curves", rc, &mut visited);
    run_group(&mut ctx, "pairings", rp, &mut visited);
    // states = (configuration, relation, index) cases evaluated, as in every other check; the number of distinct
    // configurations walked is a bound
    ctx.bound("relation_cases", ctx.states);
    ctx.bound("configurations_visited", visited.len() as u64);
    std::process::exit(ctx.finish());
}
