//! C17 - multilinear extensions (dense and sparse) and sparse multivariate
//! polynomials evaluate as defined.
//!
//! Reference model (written here, u64 arithmetic mod p only):
//!   * a table is a `Vec<u64>` of length 2^n; index bit i (bit 0 = least
//!     significant) is the value of variable x_i - the documented little-endian
//!     convention (`0b1011` is `P(1,1,0,1)`);
//!   * evaluation  = sum_b t[b] * prod_i (b_i ? x_i : 1 - x_i);
//!   * fix_variables(r_0..r_{d-1}) = table c -> sum_low t[c << d | low] * eq(low, r);
//!   * relabel(a,b,k) = table i -> t[i with bit windows a..a+k and b..b+k exchanged];
//!   * concat = tables appended, padded with zeros to the next power of two;
//!   * +, -, neg, scaling pointwise;
//!   * sparse multivariate polynomial = sum of coefficient * prod x_v^e over the raw term list.
use algebra_mc::core::*;
use algebra_mc::seq::run_seq;
use algebra_mc::toy::gen_fields::{D3, D5, D7};
use ark_ff::{PrimeField, Zero};
use ark_poly::multivariate::{SparsePolynomial, SparseTerm, Term};
use ark_poly::{DenseMVPolynomial, DenseMultilinearExtension, MultilinearExtension, Polynomial, SparseMultilinearExtension};
use std::collections::{BTreeMap, BTreeSet};
use std::ops::{Add, AddAssign, Index, Neg, Sub, SubAssign};
use std::panic::{catch_unwind, AssertUnwindSafe};
use std::sync::{Arc, Mutex};

type Dense<F> = DenseMultilinearExtension<F>;
type Sparse<F> = SparseMultilinearExtension<F>;
type MvPoly<F> = SparsePolynomial<F, SparseTerm>;

// ---------------------------------------------------------------- conversions (trusted, C01)
fn fe<F: PrimeField>(v: u64) -> F {
    F::from(v)
}
fn un<F: PrimeField>(x: &F) -> u64 {
    x.into_bigint().as_ref()[0]
}
fn fv<F: PrimeField>(t: &[u64]) -> Vec<F> {
    t.iter().map(|v| fe(*v)).collect()
}
fn uv<F: PrimeField>(t: &[F]) -> Vec<u64> {
    t.iter().map(un).collect()
}


// ---------------------------------------------------------------- reporting wrappers
fn chk(loc: &mut Loc, site: &str, ok: bool, msg: impl FnOnce() -> String) -> bool {
    loc.check_at(site, ok, msg)
}
fn flunk(loc: &mut Loc, site: &str, msg: String) {
    loc.fail_at(site, msg);
}

// ---------------------------------------------------------------- enumeration helpers
fn digits(mut i: u64, base: u64, len: usize) -> Vec<u64> {
    (0..len)
        .map(|_| {
            let d = i % base;
            i /= base;
            d
        })
        .collect()
}
fn ipow(b: u64, e: usize) -> u64 {
    b.pow(e as u32)
}
/// number of lists of length 0..=maxlen over an alphabet of size a
fn lists_count(a: u64, maxlen: usize) -> u64 {
    (0..=maxlen).map(|l| ipow(a, l)).sum()
}
fn list_get(mut i: u64, a: u64, maxlen: usize) -> Vec<u64> {
    for l in 0..=maxlen {
        let c = ipow(a, l);
        if i < c {
            return digits(i, a, l);
        }
        i -= c;
    }
    unreachable!("list index out of range")
}
#[derive(Clone)]
struct TableSpace {
    n: usize,
    alpha: Vec<u64>,
}
impl TableSpace {
    fn len(&self) -> u64 {
        ipow(self.alpha.len() as u64, 1 << self.n)
    }
    fn get(&self, i: u64) -> Vec<u64> {
        digits(i, self.alpha.len() as u64, 1 << self.n).iter().map(|d| self.alpha[*d as usize]).collect()
    }
}
/// all tables of 2^n entries with at most `max_nz` non-zero entries taken from `vals`
fn few_nonzero_tables(n: usize, vals: &[u64], max_nz: usize) -> Vec<Vec<u64>> {
    let base = vec![0u64; 1 << n];
    let mut alpha = vec![0u64];
    alpha.extend_from_slice(vals);
    dedup_sorted(deviation_ball(&base, &alpha, max_nz))
}

// ---------------------------------------------------------------- reference model: MLE
fn m_eq(p: u64, b: usize, x: &[u64]) -> u64 {
    let mut w = 1u64;
    for (i, xi) in x.iter().enumerate() {
        let f = if (b >> i) & 1 == 1 { *xi % p } else { (1 + p - *xi % p) % p };
        w = w * f % p;
    }
    w
}
fn m_eval(p: u64, t: &[u64], x: &[u64]) -> u64 {
    assert_eq!(t.len(), 1usize << x.len(), "oracle: table/point size");
    let mut acc = 0u64;
    for (b, v) in t.iter().enumerate() {
        acc = (acc + v * m_eq(p, b, x)) % p;
    }
    acc
}
fn m_fix(p: u64, t: &[u64], r: &[u64]) -> Vec<u64> {
    let d = r.len();
    assert!(t.len() >= 1 << d && t.len() % (1 << d) == 0, "oracle: partial point too long");
    let out_len = t.len() >> d;
    (0..out_len)
        .map(|c| {
            let mut acc = 0u64;
            for low in 0..(1usize << d) {
                acc = (acc + t[(c << d) | low] * m_eq(p, low, r)) % p;
            }
            acc
        })
        .collect()
}
/// exchange bit windows a..a+k and b..b+k of i, one bit at a time
fn m_swap_idx(i: usize, a: usize, b: usize, k: usize) -> usize {
    let mut j = i;
    for o in 0..k {
        let ba = (i >> (a + o)) & 1;
        let bb = (i >> (b + o)) & 1;
        j &= !(1usize << (a + o));
        j &= !(1usize << (b + o));
        j |= bb << (a + o);
        j |= ba << (b + o);
    }
    j
}
fn m_relabel(t: &[u64], a: usize, b: usize, k: usize) -> Vec<u64> {
    if a == b || k == 0 {
        return t.to_vec();
    }
    (0..t.len()).map(|i| t[m_swap_idx(i, a, b, k)]).collect()
}
fn m_neg(p: u64, t: &[u64]) -> Vec<u64> {
    t.iter().map(|v| (p - v % p) % p).collect()
}
fn m_scale(p: u64, f: u64, t: &[u64]) -> Vec<u64> {
    t.iter().map(|v| f * v % p).collect()
}
fn all_zero(t: &[u64]) -> bool {
    t.iter().all(|v| *v == 0)
}
/// model value of an MLE: (number of variables, table).  (0, [0]) is the
/// library's documented "special zero" that is neutral in every dimension.
type MV = (usize, Vec<u64>);
fn is_special(v: &MV) -> bool {
    v.0 == 0 && v.1 == [0]
}
fn m_add(p: u64, a: &MV, b: &MV) -> MV {
    if is_special(a) {
        return b.clone();
    }
    if is_special(b) {
        return a.clone();
    }
    assert_eq!(a.0, b.0, "oracle: the harness generated a dimension mismatch");
    (a.0, a.1.iter().zip(&b.1).map(|(x, y)| (x + y) % p).collect())
}

#[derive(PartialEq, Clone, Copy, Debug)]
enum RL {
    Legal,
    /// a == b or k == 0 (nothing to exchange) but the window sticks out of the variables:
    /// the dense form returns the table unchanged, the sparse form asserts; both accepted
    NoopOutOfRange,
    Illegal,
}
fn relabel_kind(n: usize, a: usize, b: usize, k: usize) -> RL {
    let (lo, hi) = (a.min(b), a.max(b));
    let in_range = hi + k <= n;
    if a == b || k == 0 {
        if in_range {
            RL::Legal
        } else {
            RL::NoopOutOfRange
        }
    } else if in_range && lo + k <= hi {
        RL::Legal
    } else {
        RL::Illegal
    }
}

fn panic_text(p: Box<dyn std::any::Any + Send>) -> String {
    if let Some(s) = p.downcast_ref::<&str>() {
        s.to_string()
    } else if let Some(s) = p.downcast_ref::<String>() {
        s.clone()
    } else {
        "<non-string panic>".into()
    }
}

// ---------------------------------------------------------------- uniform view of both MLE forms
trait Tab<F: PrimeField>:
    MultilinearExtension<F> + Index<usize, Output = F> + Add<Output = Self> + Sub<Output = Self> + Neg<Output = Self> + AddAssign<Self> + SubAssign<Self>
{
    const KIND: &'static str;
    /// every table entry given explicitly
    fn build(n: usize, t: &[u64]) -> Self;
    /// the table read directly from the public representation; None = malformed representation
    fn table(&self) -> Option<Vec<u64>>;
    /// structurally the value of `Zero::zero()`
    fn special_zero(&self) -> bool;
    fn add_ref(&self, o: &Self) -> Self;
    fn sub_ref(&self, o: &Self) -> Self;
    fn describe(&self) -> String;
}
impl<F: PrimeField> Tab<F> for Dense<F> {
    const KIND: &'static str = "dense";
    fn build(n: usize, t: &[u64]) -> Self {
        Dense::from_evaluations_vec(n, fv(t))
    }
    fn table(&self) -> Option<Vec<u64>> {
        if self.num_vars < 32 && self.evaluations.len() == 1usize << self.num_vars {
            Some(uv(&self.evaluations))
        } else {
            None
        }
    }
    fn special_zero(&self) -> bool {
        self.num_vars == 0 && self.evaluations.len() == 1 && self.evaluations[0].is_zero()
    }
    fn add_ref(&self, o: &Self) -> Self {
        self + o
    }
    fn sub_ref(&self, o: &Self) -> Self {
        self - o
    }
    fn describe(&self) -> String {
        format!("dense(n={}, evaluations={:?})", self.num_vars, uv(&self.evaluations))
    }
}
impl<F: PrimeField> Tab<F> for Sparse<F> {
    const KIND: &'static str = "sparse";
    fn build(n: usize, t: &[u64]) -> Self {
        let e: Vec<(usize, F)> = t.iter().enumerate().map(|(i, v)| (i, fe(*v))).collect();
        Sparse::from_evaluations(n, &e)
    }
    fn table(&self) -> Option<Vec<u64>> {
        if self.num_vars >= 32 {
            return None;
        }
        let mut v = vec![0u64; 1usize << self.num_vars];
        for (i, x) in &self.evaluations {
            if *i >= v.len() {
                return None;
            }
            v[*i] = un(x);
        }
        Some(v)
    }
    fn special_zero(&self) -> bool {
        self.num_vars == 0 && self.evaluations.is_empty()
    }
    fn add_ref(&self, o: &Self) -> Self {
        self + o
    }
    fn sub_ref(&self, o: &Self) -> Self {
        self - o
    }
    fn describe(&self) -> String {
        let e: Vec<(usize, u64)> = self.evaluations.iter().map(|(i, v)| (*i, un(v))).collect();
        format!("sparse(n={}, entries={:?})", self.num_vars, e)
    }
}

/// Compare an operation result with the model value (wn, wt).
///
/// Special-zero rule (DESIGN C17): a result that is structurally `Zero::zero()`
/// (num_vars = 0) instead of an n-variable table is accepted only when the model
/// table is identically zero; it must then satisfy is_zero(), evaluate to 0 at
/// the empty point and be neutral in a following + / - with an n-variable operand.
#[derive(PartialEq)]
enum Acc {
    Exact,
    Special,
    Bad,
}
fn expect<F: PrimeField, M: Tab<F>>(loc: &mut Loc, site: &str, r: &M, want: &MV, probe: Option<&M>, what: &dyn Fn() -> String) -> Acc {
    let tab = r.table();
    if r.num_vars() == want.0 && tab.as_deref() == Some(&want.1[..]) {
        loc.op();
        return Acc::Exact;
    }
    if r.special_zero() && all_zero(&want.1) {
        loc.class("zero_special_repr:returned");
        let mut ok = r.is_zero() && r.evaluate(&vec![]).is_zero();
        if let Some(x) = probe {
            let xt = x.table();
            let xn = x.num_vars();
            let same = |y: &M| y.num_vars() == xn && y.table() == xt;
            ok &= same(&x.add_ref(r)) && same(&r.add_ref(x)) && same(&x.sub_ref(r));
            ok &= same(&(x.clone() + r.clone())) && same(&(x.clone() - r.clone()));
            let mut y = x.clone();
            y += r;
            ok &= same(&y);
            y -= r;
            ok &= same(&y);
            let neg = r.sub_ref(x);
            let p = F::MODULUS.as_ref()[0];
            let want_neg = xt.as_ref().map(|t| m_neg(p, t));
            ok &= neg.num_vars() == xn && neg.table() == want_neg;
        }
        chk(loc, site, ok, || format!("{}: returned the special zero, but it is not is_zero()/0 at the empty point/neutral in a following +,-", what()));
        return if ok { Acc::Special } else { Acc::Bad };
    }
    loc.op();
    flunk(loc, site, format!("{}: got {} want n={} table={:?}", what(), r.describe(), want.0, want.1));
    Acc::Bad
}

/// Everything that is common to both forms, for one object `m` whose model table is `t`.
fn mle_common<F: PrimeField, M: Tab<F>>(loc: &mut Loc, p: u64, n: usize, t: &[u64], m: &M) -> bool {
    let k = M::KIND;
    let size = 1usize << n;
    // representation, Index, to_evaluations
    let got = m.table();
    if !chk(loc, &format!("{k}_construct"), m.num_vars() == n && got.as_deref() == Some(t), || {
        format!("{k} MLE built for n={n} table={t:?}: got {}", m.describe())
    }) {
        return false;
    }
    let idx: Vec<u64> = (0..size).map(|i| un(&m[i])).collect();
    chk(loc, &format!("{k}_index"), idx == t, || format!("{} Index over 0..2^n = {idx:?} want {t:?}", m.describe()));
    let te = uv(&m.to_evaluations());
    chk(loc, &format!("{k}_to_evaluations"), te == t, || format!("{}.to_evaluations() = {te:?} want {t:?}", m.describe()));
    // evaluation at every point of F^n
    loc.class_if(n == 0, "n=0");
    for pi in 0..ipow(p, n) {
        let x = digits(pi, p, n);
        let want = m_eval(p, t, &x);
        let gotv = un(&m.evaluate(&fv(&x)));
        if x.iter().all(|v| *v <= 1) {
            loc.class("point:boolean");
            // on the hypercube the value is the table entry whose index has bit i = x_i
            let b: usize = x.iter().enumerate().map(|(i, v)| (*v as usize) << i).sum();
            chk(loc, &format!("{k}_evaluate"), gotv == t[b], || {
                format!("{}.evaluate({x:?}) = {gotv}, table entry at little-endian index {b} is {}", m.describe(), t[b])
            });
        } else {
            loc.class("point:non_boolean");
        }
        chk(loc, &format!("{k}_evaluate"), gotv == want, || format!("{}.evaluate({x:?}) = {gotv} want {want} (mod {p})", m.describe()));
    }
    // fix_variables for every partial point of every length
    for d in 0..=n {
        loc.class_if(d == n, "partial_point_full_length");
        loc.class_if(d == 0, "partial_point_empty");
        for ri in 0..ipow(p, d) {
            let r = digits(ri, p, d);
            let want = m_fix(p, t, &r);
            let fx = m.fix_variables(&fv::<F>(&r));
            let ok = fx.num_vars() == n - d && fx.table().as_deref() == Some(&want[..]);
            chk(loc, &format!("{k}_fix_variables"), ok, || {
                format!("{}.fix_variables({r:?}) = {} want n={} table={want:?} (mod {p})", m.describe(), fx.describe(), n - d)
            });
            if fx.num_vars() == n - d {
                for yi in 0..ipow(p, n - d) {
                    let y = digits(yi, p, n - d);
                    let mut full = r.clone();
                    full.extend_from_slice(&y);
                    let want_e = m_eval(p, t, &full);
                    let got_e = un(&fx.evaluate(&fv(&y)));
                    chk(loc, &format!("{k}_fix_variables"), got_e == want_e, || {
                        format!("{}.fix_variables({r:?}).evaluate({y:?}) = {got_e} want P({full:?}) = {want_e} (mod {p})", m.describe())
                    });
                }
            }
        }
    }
    // relabel for every (a, b, k) in 0..=n+1
    for a in 0..=n + 1 {
        for b in 0..=n + 1 {
            for kk in 0..=n + 1 {
                let kind = relabel_kind(n, a, b, kk);
                let r = catch_unwind(AssertUnwindSafe(|| m.relabel(a, b, kk)));
                relabel_outcome(loc, &format!("{k}_relabel"), p, n, t, &m.describe(), a, b, kk, kind, r);
            }
        }
    }
    true
}

#[allow(clippy::too_many_arguments)]
fn relabel_outcome<F: PrimeField, M: Tab<F>>(
    loc: &mut Loc,
    site: &str,
    p: u64,
    n: usize,
    t: &[u64],
    desc: &str,
    a: usize,
    b: usize,
    kk: usize,
    kind: RL,
    r: std::thread::Result<M>,
) {
    let nontrivial = a != b && kk > 0;
    match (kind, r) {
        (RL::Legal, Err(e)) => {
            loc.class_if(kk == 0, "relabel:k=0");
            loc.class_if(nontrivial && a > b, "relabel:a>b");
            loc.class_if(kk > 0 && a.max(b) + kk == n, "relabel:top_window");
            loc.op();
            flunk(loc, site, format!("{desc}.relabel({a},{b},{kk}) panics on a legal window (max(a,b)+k = {} <= n = {n}): {}", a.max(b) + kk, panic_text(e)));
        }
        (RL::Legal, Ok(q)) => {
            loc.class_if(kk == 0, "relabel:k=0");
            loc.class_if(nontrivial && a > b, "relabel:a>b");
            loc.class_if(a == b && kk > 0, "relabel:a=b");
            loc.class_if(kk > 0 && a.max(b) + kk == n, "relabel:top_window");
            loc.class_if(nontrivial && kk >= 2, "relabel:window_width>=2");
            loc.class_if(nontrivial && kk >= 2 && a.min(b) + kk < a.max(b), "relabel:window_width>=2_with_gap");
            let want = m_relabel(t, a, b, kk);
            let ok = q.num_vars() == n && q.table().as_deref() == Some(&want[..]);
            chk(loc, site, ok, || format!("{desc}.relabel({a},{b},{kk}) = {} want table {want:?}", q.describe()));
            if nontrivial && q.num_vars() == n {
                // documented meaning: Q(x) = P(x with coordinates a..a+k and b..b+k exchanged)
                for pi in 0..ipow(p, n) {
                    let x = digits(pi, p, n);
                    let mut sx = x.clone();
                    for o in 0..kk {
                        sx.swap(a + o, b + o);
                    }
                    let want_e = m_eval(p, t, &sx);
                    let got_e = un(&q.evaluate(&fv(&x)));
                    chk(loc, site, got_e == want_e, || format!("{desc}.relabel({a},{b},{kk}).evaluate({x:?}) = {got_e} want P({sx:?}) = {want_e} (mod {p})"));
                }
            }
        }
        (RL::NoopOutOfRange, Ok(q)) => {
            loc.class("relabel:noop_window_out_of_range");
            let ok = q.num_vars() == n && q.table().as_deref() == Some(t);
            chk(loc, site, ok, || format!("{desc}.relabel({a},{b},{kk}) (nothing to exchange) = {} want the unchanged table", q.describe()));
        }
        (RL::NoopOutOfRange, Err(_)) => {
            loc.class("relabel:noop_window_out_of_range");
            loc.op();
        }
        // malformed argument (overlapping / out-of-range window): the property speaks about relabel windows,
        // i.e. well-formed ones; nothing is demanded, the observed behaviour is counted
        (RL::Illegal, Ok(_)) => {
            loc.class("relabel:illegal_window");
            loc.class("observed:illegal_relabel_window_returns_a_value");
            loc.op();
        }
        (RL::Illegal, Err(_)) => {
            loc.class("relabel:illegal_window");
            loc.class("observed:illegal_relabel_window_panics");
            loc.op();
        }
    }
}

/// neg, and every binary operator spelling, for one ordered operand pair.  The
/// operands either have the same number of variables or one of them is the
/// literal `Zero::zero()`.
fn mle_binary<F: PrimeField, M: Tab<F>>(loc: &mut Loc, p: u64, a: &MV, ma: &M, b: &MV, mb: &M, scalars: &[u64]) {
    let k = M::KIND;
    let nb = (b.0, m_neg(p, &b.1));
    let w_add = m_add(p, a, b);
    let w_sub = m_add(p, a, &nb);
    let probe = |w: &MV| -> Option<&M> {
        if ma.num_vars() == w.0 {
            Some(ma)
        } else if mb.num_vars() == w.0 {
            Some(mb)
        } else {
            None
        }
    };
    let what = |op: &str| format!("{} {op} {}", ma.describe(), mb.describe());
    let site_add = format!("{k}_add");
    let site_sub = format!("{k}_sub");
    let site_aa = format!("{k}_add_assign");
    let site_sa = format!("{k}_sub_assign");
    let site_sc = format!("{k}_add_assign_scaled");
    expect(loc, &site_add, &ma.add_ref(mb), &w_add, probe(&w_add), &|| what("&+&"));
    expect(loc, &site_add, &(ma.clone() + mb.clone()), &w_add, probe(&w_add), &|| what("+"));
    let mut x = ma.clone();
    x += mb;
    expect(loc, &site_aa, &x, &w_add, probe(&w_add), &|| what("+= &"));
    let mut x = ma.clone();
    x += mb.clone();
    expect(loc, &site_aa, &x, &w_add, probe(&w_add), &|| what("+="));
    expect(loc, &site_sub, &ma.sub_ref(mb), &w_sub, probe(&w_sub), &|| what("&-&"));
    expect(loc, &site_sub, &(ma.clone() - mb.clone()), &w_sub, probe(&w_sub), &|| what("-"));
    let mut x = ma.clone();
    x -= mb;
    expect(loc, &site_sa, &x, &w_sub, probe(&w_sub), &|| what("-= &"));
    let mut x = ma.clone();
    x -= mb.clone();
    expect(loc, &site_sa, &x, &w_sub, probe(&w_sub), &|| what("-="));
    for f in scalars {
        let fb = (b.0, m_scale(p, *f, &b.1));
        let w = m_add(p, a, &fb);
        let mut x = ma.clone();
        x += (fe::<F>(*f), mb);
        expect(loc, &site_sc, &x, &w, probe(&w), &|| what(&format!("+= ({f}, &)")));
    }
}

/// operations in which one operand is the literal `Zero::zero()`
fn mle_zero_operand<F: PrimeField, M: Tab<F>>(loc: &mut Loc, p: u64, n: usize, t: &[u64], m: &M) {
    let k = M::KIND;
    loc.class("zero_special_repr");
    loc.class("zero_special_repr:operand");
    let z = M::zero();
    let zv: MV = (0, vec![0]);
    chk(loc, &format!("{k}_zero"), z.special_zero() && z.is_zero() && z.num_vars() == 0 && z.evaluate(&vec![]).is_zero() && z.table().as_deref() == Some(&[0u64][..]), || {
        format!("{k} Zero::zero() = {} is not the 0-variable zero", z.describe())
    });
    let all: Vec<u64> = (0..p).collect();
    let a: MV = (n, t.to_vec());
    mle_binary(loc, p, &a, m, &zv, &z, &all);
    mle_binary(loc, p, &zv, &z, &a, m, &all);
    mle_binary(loc, p, &zv, &z, &zv, &z, &all);
    let nz = z.clone().neg();
    expect(loc, &format!("{k}_neg"), &nz, &zv, None, &|| format!("-{}", z.describe()));
}

fn mle_neg<F: PrimeField, M: Tab<F>>(loc: &mut Loc, p: u64, n: usize, t: &[u64], m: &M) {
    let want: MV = (n, m_neg(p, t));
    let r = m.clone().neg();
    expect(loc, &format!("{}_neg", M::KIND), &r, &want, Some(m), &|| format!("-{}", m.describe()));
}

// ---------------------------------------------------------------- dense: one table
fn dense_case<F: PrimeField>(loc: &mut Loc, p: u64, n: usize, t: &[u64]) {
    let d = Dense::<F>::from_evaluations_vec(n, fv(t));
    if loc.sampling() {
        loc.sample(format!("F_{p} dense MLE n={n} table={t:?}: all {} points, all partial points, all relabel (a,b,k) <= n+1, all scalars", ipow(p, n)));
    }
    if !mle_common(loc, p, n, t, &d) {
        return;
    }
    let d2 = Dense::<F>::from_evaluations_slice(n, &fv::<F>(t));
    let it: Vec<u64> = d.iter().map(un).collect();
    let it2: Vec<u64> = (&d).into_iter().map(un).collect();
    chk(loc, "dense_construct", d2 == d && it == t && it2 == t, || format!("from_evaluations_slice/iter disagree with from_evaluations_vec for n={n} table={t:?}"));
    let mut dm = d.clone();
    for x in dm.iter_mut() {
        *x += F::one();
    }
    let plus1: Vec<u64> = t.iter().map(|v| (v + 1) % p).collect();
    chk(loc, "dense_construct", dm.table().as_deref() == Some(&plus1[..]), || format!("iter_mut does not address the table of n={n} table={t:?}"));
    // relabel_in_place
    for a in 0..=n + 1 {
        for b in 0..=n + 1 {
            for kk in 0..=n + 1 {
                let kind = relabel_kind(n, a, b, kk);
                let r = catch_unwind(AssertUnwindSafe(|| {
                    let mut c = d.clone();
                    c.relabel_in_place(a, b, kk);
                    c
                }));
                relabel_outcome(loc, "dense_relabel_in_place", p, n, t, &d.describe(), a, b, kk, kind, r);
            }
        }
    }
    mle_neg(loc, p, n, t, &d);
    // scaling by every f: four spellings
    for f in 0..p {
        let want: MV = (n, m_scale(p, f, t));
        let ff: F = fe(f);
        loc.class_if(f == 0 && n >= 1, "zero_special_repr");
        loc.class_if(f == 0 && n >= 1, "zero_special_repr:times_zero");
        loc.class_if(f == 1, "scale:one");
        let r1 = &d * &ff;
        let acc = expect(loc, "dense_mul", &r1, &want, Some(&d), &|| format!("&{} * &{f}", d.describe()));
        expect(loc, "dense_mul", &(d.clone() * ff), &want, Some(&d), &|| format!("{} * {f}", d.describe()));
        let mut x = d.clone();
        x *= ff;
        expect(loc, "dense_mul", &x, &want, Some(&d), &|| format!("{} *= {f}", d.describe()));
        let mut x = d.clone();
        x *= &ff;
        expect(loc, "dense_mul", &x, &want, Some(&d), &|| format!("{} *= &{f}", d.describe()));
        if acc == Acc::Special && n >= 1 {
            // informational (DESIGN: accepted convention): the special zero has lost its dimension
            let e = catch_unwind(AssertUnwindSafe(|| r1.evaluate(&fv::<F>(&vec![0; n]))));
            loc.class_if(e.is_err(), "zero_special_repr:evaluate_at_original_dimension_panics");
        }
    }
    mle_zero_operand(loc, p, n, t, &d);
    // dense and sparse forms of the same table agree everywhere
    loc.class("sparse_vs_dense");
    let s_full = <Sparse<F> as Tab<F>>::build(n, t);
    let nz: Vec<(usize, F)> = t.iter().enumerate().filter(|(_, v)| **v != 0).map(|(i, v)| (i, fe(*v))).collect();
    let s_nz = Sparse::<F>::from_evaluations(n, &nz);
    for s in [&s_full, &s_nz] {
        if !mle_common(loc, p, n, t, s) {
            continue;
        }
        let back = s.to_dense_multilinear_extension();
        chk(loc, "sparse_to_dense", back == d, || format!("{}.to_dense_multilinear_extension() = {} want {}", s.describe(), back.describe(), d.describe()));
        for pi in 0..ipow(p, n) {
            let x: Vec<F> = fv(&digits(pi, p, n));
            let (vs, vd) = (s.evaluate(&x), d.evaluate(&x));
            chk(loc, "sparse_vs_dense", vs == vd, || format!("{} and {} differ at {:?}: {} vs {}", s.describe(), d.describe(), uv(&x), un(&vs), un(&vd)));
        }
    }
}

fn dense_sweeps<F: PrimeField>(ctx: &mut Ctx, p: u64, spaces: &[TableSpace]) {
    for sp in spaces {
        let name = format!("dense_mle.F{p}.n={}.alphabet={}", sp.n, sp.alpha.len());
        let n = sp.n;
        ctx.sweep(&name, sp.len(), |i, loc| {
            let t = sp.get(i);
            dense_case::<F>(loc, p, n, &t);
        });
    }
}

/// Dense (and, through `dense_case`, sparse) MLEs with MORE variables than the enumerated universes: relabel
/// windows of width k >= 2 only exist from n = 4 on.  Tables: every unit table e_i, e_i + 2 e_(i+1), and three
/// dense tables over {0,1,2}; everything `dense_case` does (all points, all partial points, all windows).
fn wide_tables(n: usize, with_pairs: bool) -> Vec<Vec<u64>> {
    let size = 1usize << n;
    let mut out: Vec<Vec<u64>> = Vec::new();
    for i in 0..size {
        let mut t = vec![0u64; size];
        t[i] = 1;
        out.push(t);
    }
    if with_pairs {
        for i in 0..size - 1 {
            let mut t = vec![0u64; size];
            t[i] = 1;
            t[i + 1] = 2;
            out.push(t);
        }
    }
    out.push((0..size).map(|i| (i % 3) as u64).collect());
    out.push((0..size).map(|i| ((i * i + 1) % 3) as u64).collect());
    out.push((0..size).map(|i| ((i / 2 + i / 4 + 2 * i) % 3) as u64).collect());
    out
}
fn dense_wide_sweep<F: PrimeField>(ctx: &mut Ctx, p: u64, ns: &[usize]) {
    let mut cases: Vec<(usize, Vec<u64>)> = Vec::new();
    for n in ns {
        for t in wide_tables(*n, *n == 4) {
            cases.push((*n, t));
        }
    }
    let tag: Vec<String> = ns.iter().map(|n| n.to_string()).collect();
    ctx.sweep(&format!("dense_mle_wide.F{p}.n={}", tag.join("+")), cases.len() as u64, |i, loc| {
        let (n, t) = &cases[i as usize];
        loc.class("mle:n>=4");
        loc.class_if(*n >= 5, "mle:n>=5");
        dense_case::<F>(loc, p, *n, t);
    });
}

/// all ordered pairs (left from `lhs`, right from `rhs`), every operator spelling, every scalar
fn mle_pair_sweep<F: PrimeField, M: Tab<F>>(ctx: &mut Ctx, p: u64, n: usize, lhs: &TableSpace, rhs: &[Vec<u64>], tag: &str) {
    let nl = lhs.len();
    let nr = rhs.len() as u64;
    let scalars: Vec<u64> = (0..p).collect();
    let name = format!("{}_mle_binary.F{p}.n={n}.{tag}", M::KIND);
    ctx.sweep(&name, nl * nr, |i, loc| {
        let [ib, ia] = unrank(i, [nr, nl]);
        let a: MV = (n, lhs.get(ia));
        let b: MV = (n, rhs[ib as usize].clone());
        if loc.sampling() {
            loc.sample(format!("F_{p} {} n={n}: {:?} (+,-,+=,-=,+=(f,.) all f) {:?}", M::KIND, a.1, b.1));
        }
        loc.class_if(all_zero(&m_add(p, &a, &b).1), "sum_identically_zero");
        loc.class_if(a.1 == b.1, "difference_identically_zero");
        let ma = M::build(n, &a.1);
        let mb = M::build(n, &b.1);
        mle_binary(loc, p, &a, &ma, &b, &mb, &scalars);
    });
}

fn concat_sweep<F: PrimeField>(ctx: &mut Ctx, p: u64, max_n: usize, max_len: usize) {
    // alphabet = every table over F_p with 0..=max_n variables
    let mut tables: Vec<MV> = Vec::new();
    for n in 0..=max_n {
        let sp = TableSpace { n, alpha: (0..p).collect() };
        for i in 0..sp.len() {
            tables.push((n, sp.get(i)));
        }
    }
    concat_tables_sweep::<F>(ctx, p, &format!("dense_concat.F{p}.n_i<={max_n}.len<={max_len}"), &tables, max_len);
}
/// parts with 2..4 variables, so that results have 4..6 variables
fn concat_wide_sweep<F: PrimeField>(ctx: &mut Ctx, p: u64) {
    let mut tables: Vec<MV> = Vec::new();
    for t in wide_tables(3, false) {
        tables.push((3, t));
    }
    let w4 = wide_tables(4, false);
    tables.push((4, w4[5].clone()));
    tables.push((4, w4[16].clone()));
    tables.push((2, vec![1, 2, 0, 1]));
    tables.push((0, vec![2]));
    concat_tables_sweep::<F>(ctx, p, &format!("dense_concat_wide.F{p}.n_i<=4.len<=3"), &tables, 3);
}
fn concat_tables_sweep<F: PrimeField>(ctx: &mut Ctx, p: u64, name: &str, tables: &[MV], max_len: usize) {
    let a = tables.len() as u64;
    ctx.sweep(name, lists_count(a, max_len), |i, loc| {
        let l = list_get(i, a, max_len);
        let parts: Vec<&MV> = l.iter().map(|k| &tables[*k as usize]).collect();
        let polys: Vec<Dense<F>> = parts.iter().map(|(n, t)| Dense::from_evaluations_vec(*n, fv(t))).collect();
        let mut want: Vec<u64> = Vec::new();
        for (_, t) in &parts {
            want.extend_from_slice(t);
        }
        let total = want.len();
        let mut size = 1usize;
        let mut wn = 0usize;
        while size < total {
            size *= 2;
            wn += 1;
        }
        want.resize(size, 0);
        loc.class_if(l.is_empty(), "concat:empty_list");
        loc.class_if(total != size, "concat:padded");
        loc.class_if(parts.iter().any(|x| x.0 != parts[0].0), "concat:mixed_sizes");
        loc.class_if(wn >= 4, "concat:result_n>=4");
        if loc.sampling() {
            loc.sample(format!("F_{p} concat of {:?}", parts));
        }
        let refs: Vec<&Dense<F>> = polys.iter().collect();
        let r1 = Dense::<F>::concat(&refs);
        let r2 = Dense::<F>::concat(polys.iter());
        let ok = r1.num_vars == wn && r1.table().as_deref() == Some(&want[..]) && r2 == r1;
        chk(loc, "dense_concat", ok, || format!("concat({parts:?}) = {} / {} want n={wn} table={want:?}", r1.describe(), r2.describe()));
        if l.len() <= 2 && r1.num_vars == wn {
            for pi in 0..ipow(p, wn) {
                let x = digits(pi, p, wn);
                let got = un(&r1.evaluate(&fv(&x)));
                let want_e = m_eval(p, &want, &x);
                chk(loc, "dense_concat", got == want_e, || format!("concat({parts:?}).evaluate({x:?}) = {got} want {want_e}"));
                if l.len() == 2 && parts[0].0 == parts[1].0 {
                    // documented: f(x, x_n) = (1 - x_n) f1(x) + x_n f2(x)
                    let m = parts[0].0;
                    let (e1, e2) = (m_eval(p, &parts[0].1, &x[..m]), m_eval(p, &parts[1].1, &x[..m]));
                    let w = ((1 + p - x[m]) * e1 + x[m] * e2) % p;
                    chk(loc, "dense_concat", got == w, || format!("concat({parts:?}).evaluate({x:?}) = {got} want (1-x_n) f1 + x_n f2 = {w}"));
                }
            }
        }
    });
}

fn construction_panics<F: PrimeField>(ctx: &mut Ctx, p: u64) {
    // malformed constructor / evaluation arguments: well-formed ones must be accepted; for malformed ones the
    // property demands nothing (the library asserts today) - the observed behaviour is counted as a class
    fn observe<T>(loc: &mut Loc, malformed: bool, r: &std::thread::Result<T>) {
        if malformed {
            loc.class(if r.is_ok() { "observed:malformed_input_returns_a_value" } else { "observed:malformed_input_panics" });
        }
    }
    ctx.sweep(&format!("documented_asserts.F{p}"), 4 * 10, |i, loc| {
        let [n, len] = unrank(i, [4, 10]);
        let (n, len) = (n as usize, len as usize);
        let v: Vec<F> = vec![F::one(); len];
        let r = catch_unwind(AssertUnwindSafe(|| Dense::<F>::from_evaluations_vec(n, v.clone())));
        let legal = len == 1 << n;
        loc.class_if(!legal, "assert:table_length");
        observe(loc, !legal, &r);
        chk(loc, "dense_construct", !legal || r.is_ok(), || format!("from_evaluations_vec(n={n}, len={len}) panics although 2^n = {}", 1 << n));
        // sparse index range
        let r = catch_unwind(AssertUnwindSafe(|| Sparse::<F>::from_evaluations(n, &vec![(len, F::one())])));
        loc.class_if(len >= 1 << n, "assert:sparse_index_range");
        observe(loc, len >= 1 << n, &r);
        chk(loc, "sparse_construct", len >= 1 << n || r.is_ok(), || format!("Sparse::from_evaluations(n={n}, index {len}) panics on an index < 2^n"));
        // point / partial point length
        if len <= 5 {
            let t = vec![1u64; 1 << n];
            let d = <Dense<F> as Tab<F>>::build(n, &t);
            let s = <Sparse<F> as Tab<F>>::build(n, &t);
            let x: Vec<F> = vec![F::one(); len];
            loc.class_if(len != n, "assert:point_length");
            let rd = catch_unwind(AssertUnwindSafe(|| d.evaluate(&x)));
            let rs = catch_unwind(AssertUnwindSafe(|| s.evaluate(&x)));
            observe(loc, len != n, &rd);
            observe(loc, len != n, &rs);
            chk(loc, "dense_evaluate", len != n || rd.is_ok(), || format!("dense n={n} evaluate at a point of length {len} panics"));
            chk(loc, "sparse_evaluate", len != n || rs.is_ok(), || format!("sparse n={n} evaluate at a point of length {len} panics"));
            let rd = catch_unwind(AssertUnwindSafe(|| d.fix_variables(&x)));
            let rs = catch_unwind(AssertUnwindSafe(|| s.fix_variables(&x)));
            observe(loc, len > n, &rd);
            observe(loc, len > n, &rs);
            chk(loc, "dense_fix_variables", len > n || rd.is_ok(), || format!("dense n={n} fix_variables with {len} values panics"));
            chk(loc, "sparse_fix_variables", len > n || rs.is_ok(), || format!("sparse n={n} fix_variables with {len} values panics"));
        }
    });
}

// ---------------------------------------------------------------- sparse MLE from (index, value) lists
fn sparse_list_sweep<F: PrimeField>(ctx: &mut Ctx, p: u64, n: usize, max_len: usize) {
    let size = 1u64 << n;
    let a = size * p; // (index, value) alphabet
    ctx.sweep(&format!("sparse_mle.F{p}.n={n}.pairs<={max_len}"), lists_count(a, max_len), |i, loc| {
        let l = list_get(i, a, max_len);
        let pairs: Vec<(usize, u64)> = l.iter().map(|d| ((d % size) as usize, d / size)).collect();
        let mut t = vec![0u64; size as usize];
        let mut seen = BTreeSet::new();
        let mut dup = false;
        for (ix, v) in &pairs {
            dup |= !seen.insert(*ix);
            t[*ix] = *v; // (a later pair overrides: only used to LABEL what is observed for lists with a repeated index)
        }
        loc.class_if(dup, "sparse:duplicate_index");
        loc.class_if(pairs.iter().any(|x| x.1 == 0), "sparse:explicit_zero_value");
        loc.class_if(pairs.is_empty(), "sparse:no_entries");
        // fix_variables folds log2(#entries) variables per batch: partial points longer than that take several batches
        let window = {
            let e = seen.len();
            let mut w = 0usize;
            while (1usize << w) < e {
                w += 1;
            }
            w.max(1)
        };
        loc.class_if(n > window, "sparse_fix:several_batches");
        if loc.sampling() {
            loc.sample(format!("F_{p} sparse MLE n={n} from pairs {pairs:?} (table {t:?})"));
        }
        let fp: Vec<(usize, F)> = pairs.iter().map(|(ix, v)| (*ix, fe(*v))).collect();
        let s = Sparse::<F>::from_evaluations(n, &fp);
        if dup {
            // a list that names an index twice is not a table: nothing is demanded (the rustdoc is silent); the
            // observed behaviour is counted, and the object is only used further when it is the "later pair
            // overrides" table
            let later = s.num_vars == n && s.table().as_deref() == Some(&t[..]);
            loc.class(if later { "observed:duplicate_index_later_pair_overrides" } else { "observed:duplicate_index_other_outcome" });
            loc.op();
            if !later {
                return;
            }
        } else if !chk(loc, "sparse_construct", s.num_vars == n && s.table().as_deref() == Some(&t[..]), || format!("Sparse::from_evaluations(n={n}, {pairs:?}) = {} want table {t:?}", s.describe())) {
            return;
        }
        if !mle_common(loc, p, n, &t, &s) {
            return;
        }
        let d = s.to_dense_multilinear_extension();
        chk(loc, "sparse_to_dense", d.num_vars == n && d.table().as_deref() == Some(&t[..]), || format!("{}.to_dense_multilinear_extension() = {}", s.describe(), d.describe()));
        mle_neg(loc, p, n, &t, &s);
        mle_zero_operand(loc, p, n, &t, &s);
    });
}

/// Sparse MLEs with MORE variables than the enumerated universes (n = 4, 5) and 3..5 non-zero entries at
/// structured indices: `fix_variables` folds ceil(log2(#entries)) variables per batch, so partial points that
/// are longer than one batch, not a multiple of it, and leave variables free only exist from n = 4 on.
fn sparse_wide_sweep<F: PrimeField>(ctx: &mut Ctx, p: u64, n: usize) {
    let alpha: Vec<usize> = if n == 4 { vec![0, 1, 2, 5, 8, 15] } else { vec![0, 1, 3, 6, 12, 21, 31] };
    let mut sets: Vec<Vec<usize>> = Vec::new();
    for mask in 0u32..(1 << alpha.len()) {
        let c = mask.count_ones();
        if (3..=5).contains(&c) {
            sets.push((0..alpha.len()).filter(|i| mask >> i & 1 == 1).map(|i| alpha[i]).collect());
        }
    }
    ctx.sweep(&format!("sparse_mle_wide.F{p}.n={n}"), sets.len() as u64, |i, loc| {
        let idx = &sets[i as usize];
        let size = 1usize << n;
        let mut t = vec![0u64; size];
        let pairs: Vec<(usize, u64)> = idx.iter().enumerate().map(|(k, ix)| (*ix, (k as u64 % (p - 1)) + 1)).collect();
        for (ix, v) in &pairs {
            t[*ix] = *v;
        }
        let window = {
            let mut w = 0usize;
            while (1usize << w) < idx.len() {
                w += 1;
            }
            w.max(1)
        };
        loc.class_if(n > window, "sparse_fix:several_batches");
        // some partial length is > window, not a multiple of it, and < n
        loc.class_if((window + 1..n).any(|l| l % window != 0), "sparse_fix:partial_longer_than_batch_not_multiple");
        if loc.sampling() {
            loc.sample(format!("F_{p} sparse MLE n={n} entries {pairs:?}"));
        }
        let fp: Vec<(usize, F)> = pairs.iter().map(|(ix, v)| (*ix, fe(*v))).collect();
        let s = Sparse::<F>::from_evaluations(n, &fp);
        if !chk(loc, "sparse_construct", s.num_vars == n && s.table().as_deref() == Some(&t[..]), || format!("Sparse::from_evaluations(n={n}, {pairs:?}) = {}", s.describe())) {
            return;
        }
        mle_common(loc, p, n, &t, &s);
    });
}

/// Sparse MLEs with n = 5, 6 (7 in thorough) and entry counts on both sides of every power of two from 1 to 33:
/// `fix_variables` folds ceil(log2(#entries)) variables per batch, so batch windows of 4 and 5 variables need
/// >= 9 / >= 17 entries and n >= 5 / 6 to be followed by another batch.  Every prefix length, every partial point
/// over a 3-letter alphabet; the dense form of the same table is put through the same calls.
fn sparse_batch_sweep<F: PrimeField>(ctx: &mut Ctx, p: u64, ns: &[usize]) {
    let counts = [1usize, 2, 3, 4, 5, 7, 8, 9, 15, 16, 17, 31, 32, 33, 63, 64, 65];
    let mut cases: Vec<(usize, usize, usize)> = Vec::new();
    for n in ns {
        for c in counts {
            if c <= 1 << n {
                for pat in 0..3 {
                    cases.push((*n, c, pat));
                }
            }
        }
    }
    let alpha: Vec<u64> = dedup_sorted(vec![0, 1, p - 1]);
    let alpha2: Vec<u64> = dedup_sorted(vec![2 % p, p - 2]);
    let tag: Vec<String> = ns.iter().map(|n| n.to_string()).collect();
    ctx.sweep(&format!("sparse_mle_batches.F{p}.n={}", tag.join("+")), cases.len() as u64, |i, loc| {
        let (n, c, pat) = cases[i as usize];
        let size = 1usize << n;
        let idx: Vec<usize> = (0..c)
            .map(|j| match pat {
                0 => j,
                1 => (j * 7 + 3) % size, // 7 is odd: a bijection of 0..2^n
                _ => size - 1 - j,
            })
            .collect();
        let pairs: Vec<(usize, u64)> = idx.iter().enumerate().map(|(j, ix)| (*ix, (j as u64 % (p - 1)) + 1)).collect();
        let mut t = vec![0u64; size];
        for (ix, v) in &pairs {
            t[*ix] = *v;
        }
        // replica of the batch-window rule (labels only; entry counts straddle every power of two so that any
        // window rule is exercised with and without a following batch)
        let window = {
            let mut w = 0usize;
            while (1usize << w) < c {
                w += 1;
            }
            w.max(1)
        };
        loc.class_if(n > window, "sparse_fix:several_batches");
        loc.class_if(window >= 4, "sparse_fix:batch_window>=4");
        loc.class_if(window >= 4 && n > window, "sparse_fix:batch_window>=4_several_batches");
        loc.class_if(window >= 5 && n > window, "sparse_fix:batch_window>=5_several_batches");
        loc.class_if(c.is_power_of_two(), "sparse:entries=2^k");
        loc.class_if((c - 1).is_power_of_two() && c > 2, "sparse:entries=2^k+1");
        loc.class_if((c + 1).is_power_of_two() && c > 2, "sparse:entries=2^k-1");
        loc.class("mle:n>=5");
        if loc.sampling() {
            loc.sample(format!("F_{p} sparse MLE n={n} with {c} entries {pairs:?}: evaluate, fix_variables (all prefix lengths), to_dense; same for the dense form"));
        }
        let fp: Vec<(usize, F)> = pairs.iter().map(|(ix, v)| (*ix, fe(*v))).collect();
        let s = Sparse::<F>::from_evaluations(n, &fp);
        if !chk(loc, "sparse_construct", s.num_vars == n && s.table().as_deref() == Some(&t[..]), || format!("Sparse::from_evaluations(n={n}, {pairs:?}) = {}", s.describe())) {
            return;
        }
        let d = Dense::<F>::from_evaluations_vec(n, fv(&t));
        let back = s.to_dense_multilinear_extension();
        chk(loc, "sparse_to_dense", back.num_vars == n && back.table().as_deref() == Some(&t[..]), || format!("{}.to_dense_multilinear_extension() = {}", s.describe(), back.describe()));
        let te = uv(&s.to_evaluations());
        chk(loc, "sparse_to_evaluations", te == t, || format!("{}.to_evaluations() = {te:?}", s.describe()));
        // points: {0,1,p-1}^n and {2,p-2}^n
        let mut pts: Vec<Vec<u64>> = (0..ipow(alpha.len() as u64, n)).map(|pi| digits(pi, alpha.len() as u64, n).iter().map(|k| alpha[*k as usize]).collect()).collect();
        pts.extend((0..ipow(alpha2.len() as u64, n)).map(|pi| digits(pi, alpha2.len() as u64, n).iter().map(|k| alpha2[*k as usize]).collect::<Vec<u64>>()));
        for x in &pts {
            let want = m_eval(p, &t, x);
            let fx = fv::<F>(x);
            let (gs, gd) = (un(&s.evaluate(&fx)), un(&d.evaluate(&fx)));
            chk(loc, "sparse_evaluate", gs == want, || format!("{}.evaluate({x:?}) = {gs} want {want} (mod {p})", s.describe()));
            chk(loc, "dense_evaluate", gd == want, || format!("{}.evaluate({x:?}) = {gd} want {want} (mod {p})", d.describe()));
        }
        for dl in 0..=n {
            loc.class_if(dl > window && dl % window != 0 && dl < n, "sparse_fix:partial_longer_than_batch_not_multiple");
            for ri in 0..ipow(alpha.len() as u64, dl) {
                let r: Vec<u64> = digits(ri, alpha.len() as u64, dl).iter().map(|k| if ri % 2 == 1 && *k == 0 { 2 % p } else { alpha[*k as usize] }).collect();
                let want = m_fix(p, &t, &r);
                let fr = fv::<F>(&r);
                let (xs, xd) = (s.fix_variables(&fr), d.fix_variables(&fr));
                chk(loc, "sparse_fix_variables", xs.num_vars == n - dl && xs.table().as_deref() == Some(&want[..]), || {
                    format!("{}.fix_variables({r:?}) = {} want n={} table={want:?} (mod {p})", s.describe(), xs.describe(), n - dl)
                });
                chk(loc, "dense_fix_variables", xd.num_vars == n - dl && xd.table().as_deref() == Some(&want[..]), || {
                    format!("{}.fix_variables({r:?}) = {} want n={} table={want:?} (mod {p})", d.describe(), xd.describe(), n - dl)
                });
            }
        }
    });
}

/// Sparse MLEs with more than 1024 / 2048 non-zero entries (n = 11, 12; 13 in thorough): the batch window
/// ceil(log2(#entries)) reaches 11 and 12 coordinates, i.e. equality tables of 2^11 / 2^12 weights.  `evaluate`
/// at a few points and `fix_variables` for the prefix lengths around the window, against the u64 model.
fn sparse_large_window_sweep<F: PrimeField>(ctx: &mut Ctx, p: u64, ns: &[usize]) {
    let mut cases: Vec<(usize, usize, usize)> = Vec::new();
    for n in ns {
        for c in [1025usize, 2047, 2048, 2049, 4097] {
            if c <= 1 << n {
                for pat in 0..2 {
                    cases.push((*n, c, pat));
                }
            }
        }
    }
    let tag: Vec<String> = ns.iter().map(|n| n.to_string()).collect();
    ctx.sweep(&format!("sparse_mle_large_windows.F{p}.n={}", tag.join("+")), cases.len() as u64, |i, loc| {
        let (n, c, pat) = cases[i as usize];
        let size = 1usize << n;
        let idx: Vec<usize> = (0..c).map(|j| if pat == 0 { (j * 5 + 1) % size } else { size - 1 - j }).collect();
        let pairs: Vec<(usize, u64)> = idx.iter().enumerate().map(|(j, ix)| (*ix, (j as u64 * 3 % (p - 1)) + 1)).collect();
        let mut t = vec![0u64; size];
        for (ix, v) in &pairs {
            t[*ix] = *v;
        }
        let window = {
            let mut w = 0usize;
            while (1usize << w) < c {
                w += 1;
            }
            w
        };
        loc.class_if(window >= 11, "sparse:batch_window>=11");
        loc.class_if(window >= 11 && window % 2 == 1, "sparse:batch_window_odd>=11");
        loc.class_if(window >= 12, "sparse:batch_window>=12");
        loc.class("sparse:entries>1024");
        if loc.sampling() {
            loc.sample(format!("F_{p} sparse MLE n={n} with {c} entries (pattern {pat}): evaluate at 4 points, fix_variables for prefix lengths {}..={n}", n.saturating_sub(3)));
        }
        let fp: Vec<(usize, F)> = pairs.iter().map(|(ix, v)| (*ix, fe(*v))).collect();
        let s = Sparse::<F>::from_evaluations(n, &fp);
        if !chk(loc, "sparse_construct", s.num_vars == n && s.table().as_deref() == Some(&t[..]), || format!("Sparse::from_evaluations(n={n}, {c} entries, pattern {pat}) has another table")) {
            return;
        }
        let pts: Vec<Vec<u64>> = vec![
            (0..n).map(|_| 2 % p).collect(),
            (0..n).map(|k| [p - 1, 2 % p, 1, 0][k % 4]).collect(),
            (0..n).map(|k| (k as u64 * k as u64 + 2) % p).collect(),
            (0..n).map(|k| if k == n - 1 { 2 % p } else { 1 }).collect(),
        ];
        for x in &pts {
            let want = m_eval(p, &t, x);
            let got = un(&s.evaluate(&fv::<F>(x)));
            chk(loc, "sparse_evaluate", got == want, || format!("sparse MLE n={n}, {c} entries, pattern {pat}: evaluate({x:?}) = {got} want {want} (mod {p})"));
        }
        for dl in [1usize, n.saturating_sub(3), n - 2, n - 1, n] {
            for x in &pts[..3] {
                let r = &x[..dl];
                let want = m_fix(p, &t, r);
                let xs = s.fix_variables(&fv::<F>(r));
                chk(loc, "sparse_fix_variables", xs.num_vars == n - dl && xs.table().as_deref() == Some(&want[..]), || {
                    format!("sparse MLE n={n}, {c} entries, pattern {pat}: fix_variables({r:?}) = {} want n={} table={want:?} (mod {p})", xs.describe(), n - dl)
                });
            }
        }
    });
}

fn sparse_pair_sweep<F: PrimeField>(ctx: &mut Ctx, p: u64, n: usize, max_len: usize) {
    let size = 1u64 << n;
    let a = size * p;
    let cnt = lists_count(a, max_len);
    let scalars: Vec<u64> = (0..p).collect();
    ctx.sweep(&format!("sparse_mle_binary.F{p}.n={n}.pairs<={max_len}"), cnt * cnt, |i, loc| {
        let [ia, ib] = unrank(i, [cnt, cnt]);
        let mk = |ix: u64| -> (MV, Sparse<F>, Vec<(usize, u64)>) {
            let l = list_get(ix, a, max_len);
            let pairs: Vec<(usize, u64)> = l.iter().map(|d| ((d % size) as usize, d / size)).collect();
            let mut t = vec![0u64; size as usize];
            for (k, v) in &pairs {
                t[*k] = *v;
            }
            let fp: Vec<(usize, F)> = pairs.iter().map(|(k, v)| (*k, fe(*v))).collect();
            ((n, t), Sparse::<F>::from_evaluations(n, &fp), pairs)
        };
        let (a_m, a_s, a_p) = mk(ia);
        let (b_m, b_s, b_p) = mk(ib);
        if loc.sampling() {
            loc.sample(format!("F_{p} sparse n={n}: {a_p:?} (+,-,+=,-=,+=(f,.) all f) {b_p:?}"));
        }
        loc.class_if(all_zero(&m_add(p, &a_m, &b_m).1), "sum_identically_zero");
        loc.class_if(a_m.1 == b_m.1, "difference_identically_zero");
        if a_s.table().as_deref() != Some(&a_m.1[..]) || b_s.table().as_deref() != Some(&b_m.1[..]) {
            return; // reported by the construction sweep
        }
        mle_binary(loc, p, &a_m, &a_s, &b_m, &b_s, &scalars);
    });
}

// ---------------------------------------------------------------- sparse multivariate polynomials
type RawTerm = Vec<(usize, usize)>;
fn m_pow(p: u64, x: u64, e: usize) -> u64 {
    let mut r = 1u64;
    for _ in 0..e {
        r = r * x % p;
    }
    r
}
fn m_term_eval(p: u64, term: &RawTerm, x: &[u64]) -> u64 {
    let mut r = 1u64;
    for (v, e) in term {
        if *e > 0 {
            r = r * m_pow(p, x[*v], *e) % p;
        }
    }
    r
}
fn m_poly_eval(p: u64, terms: &[(u64, RawTerm)], x: &[u64]) -> u64 {
    let mut acc = 0u64;
    for (c, t) in terms {
        acc = (acc + c * m_term_eval(p, t, x)) % p;
    }
    acc
}
/// formal polynomial: exponent vector -> non-zero coefficient
fn m_formal(p: u64, n: usize, terms: &[(u64, RawTerm)]) -> BTreeMap<Vec<usize>, u64> {
    let mut m: BTreeMap<Vec<usize>, u64> = BTreeMap::new();
    for (c, t) in terms {
        let mut e = vec![0usize; n];
        for (v, pw) in t {
            if *pw > 0 {
                e[*v] += pw;
            }
        }
        let x = m.entry(e).or_insert(0);
        *x = (*x + c) % p;
    }
    m.retain(|_, c| *c != 0);
    m
}
fn m_degree(f: &BTreeMap<Vec<usize>, u64>) -> usize {
    f.keys().map(|e| e.iter().sum::<usize>()).max().unwrap_or(0)
}
/// raw terms: lists of <= 2 (variable, power) pairs, power in 0..=2, total degree <= 2;
/// includes descending variables, a repeated variable and zero-power entries
fn raw_terms(n: usize) -> Vec<RawTerm> {
    let mut out: Vec<RawTerm> = vec![vec![]];
    for v in 0..n {
        for e in 0..=2usize {
            out.push(vec![(v, e)]);
        }
    }
    for v1 in 0..n {
        for v2 in 0..n {
            for e1 in 0..=2usize {
                for e2 in 0..=2usize {
                    if e1 + e2 <= 2 {
                        out.push(vec![(v1, e1), (v2, e2)]);
                    }
                }
            }
        }
    }
    out
}
/// normal-form monomials of total degree <= 2
fn monomials(n: usize) -> Vec<RawTerm> {
    let mut out: Vec<RawTerm> = vec![vec![]];
    for v in 0..n {
        out.push(vec![(v, 1)]);
        out.push(vec![(v, 2)]);
    }
    for v1 in 0..n {
        for v2 in v1 + 1..n {
            out.push(vec![(v1, 1), (v2, 1)]);
        }
    }
    out
}
fn mk_poly<F: PrimeField>(n: usize, terms: &[(u64, RawTerm)]) -> MvPoly<F> {
    MvPoly::<F>::from_coefficients_vec(n, terms.iter().map(|(c, t)| (fe::<F>(*c), SparseTerm::new(t.clone()))).collect())
}
fn mv_describe<F: PrimeField>(q: &MvPoly<F>) -> String {
    let t: Vec<(u64, Vec<(usize, usize)>)> = q.terms.iter().map(|(c, t)| (un(c), t.to_vec())).collect();
    format!("poly(num_vars={}, terms={:?})", q.num_vars, t)
}

fn mv_term_sweep(ctx: &mut Ctx, n: usize, max_len: usize, max_pow: usize) {
    let a = (n * (max_pow + 1)) as u64;
    ctx.sweep(&format!("mv_sparse_term_new.n={n}.pairs<={max_len}.pow<={max_pow}"), lists_count(a.max(1), if n == 0 { 0 } else { max_len }), |i, loc| {
        let raw: RawTerm = if n == 0 { vec![] } else { list_get(i, a, max_len).iter().map(|d| ((*d as usize) % n, (*d as usize) / n)).collect() };
        let mut exps = vec![0usize; n];
        for (v, e) in &raw {
            exps[*v] += e;
        }
        let want: Vec<(usize, usize)> = exps.iter().enumerate().filter(|(_, e)| **e > 0).map(|(v, e)| (v, *e)).collect();
        loc.class_if(raw.windows(2).any(|w| w[0].0 > w[1].0), "unsorted_vars");
        loc.class_if((0..n).any(|v| raw.iter().filter(|x| x.0 == v).count() > 1), "repeated_var_in_term");
        loc.class_if(raw.iter().any(|x| x.1 == 0), "zero_power_entry");
        if loc.sampling() {
            loc.sample(format!("SparseTerm::new({raw:?}) want {want:?}"));
        }
        let t = SparseTerm::new(raw.clone());
        let deg: usize = exps.iter().sum();
        // the exact internal normal form (sorted, merged, no zero powers) is not part of the property: observed only.
        // degree() / is_constant() are functions of the monomial, not of its representation (documented: sum of powers)
        let normal = t.to_vec() == want && t.vars() == want.iter().map(|x| x.0).collect::<Vec<_>>() && t.powers() == want.iter().map(|x| x.1).collect::<Vec<_>>();
        loc.class(if normal { "observed:sparse_term_in_normal_form" } else { "observed:sparse_term_not_in_normal_form" });
        let ok = t.degree() == deg && t.is_constant() == (deg == 0);
        chk(loc, "mv_term_degree", ok, || format!("SparseTerm::new({raw:?}) = {:?}: degree {}, constant {}; want degree {deg}", t.to_vec(), t.degree(), t.is_constant()));
        fn evals<F: PrimeField>(loc: &mut Loc, p: u64, n: usize, raw: &RawTerm, t: &SparseTerm) {
            for pi in 0..ipow(p, n) {
                let x = digits(pi, p, n);
                let want = m_term_eval(p, raw, &x);
                let got = un(&t.evaluate::<F>(&fv::<F>(&x)));
                chk(loc, "mv_term_evaluate", got == want, || format!("SparseTerm::new({raw:?}).evaluate({x:?}) = {got} want {want} (mod {p})"));
            }
        }
        evals::<D3>(loc, 3, n, &raw, &t);
        evals::<D5>(loc, 5, n, &raw, &t);
        evals::<D7>(loc, 7, n, &raw, &t);
    });
}

fn mv_poly_sweep<F: PrimeField>(ctx: &mut Ctx, p: u64, n: usize, max_len: usize, raw: bool) {
    let rts = if raw { raw_terms(n) } else { monomials(n) };
    let coefs = [0u64, 1, p - 1];
    let a = (rts.len() * coefs.len()) as u64;
    ctx.sweep(&format!("mv_poly.F{p}.n={n}.terms<={max_len}.{}", if raw { "raw_terms" } else { "normal_form_monomials" }), lists_count(a, max_len), |i, loc| {
        let l = list_get(i, a, max_len);
        let terms: Vec<(u64, RawTerm)> = l.iter().map(|d| (coefs[(*d % 3) as usize], rts[(*d / 3) as usize].clone())).collect();
        let formal = m_formal(p, n, &terms);
        // classes from the input list
        let keys: Vec<Vec<usize>> = terms
            .iter()
            .map(|(_, t)| {
                let mut e = vec![0usize; n];
                for (v, pw) in t {
                    e[*v] += pw;
                }
                e
            })
            .collect();
        let has_dup = (0..keys.len()).any(|x| (0..x).any(|y| keys[x] == keys[y]));
        loc.class_if(has_dup, "duplicate_terms");
        loc.class_if(terms.iter().any(|x| x.0 == 0), "zero_coefficient_term");
        loc.class_if(terms.iter().any(|(_, t)| t.windows(2).any(|w| w[0].0 > w[1].0)), "unsorted_vars");
        loc.class_if(terms.iter().any(|(_, t)| t.len() == 2 && t[0].0 == t[1].0), "repeated_var_in_term");
        loc.class_if(terms.iter().any(|(_, t)| t.iter().any(|x| x.1 == 0)), "zero_power_entry");
        let cancels = (0..keys.len()).any(|x| terms[x].0 != 0 && !formal.contains_key(&keys[x]));
        loc.class_if(cancels, "duplicates_cancel");
        loc.class_if(formal.is_empty() && !terms.is_empty(), "mv:zero_polynomial_from_terms");
        loc.class_if(n == 0, "n=0");
        if loc.sampling() {
            loc.sample(format!("F_{p} mv poly n={n} terms {terms:?}: all {} points", ipow(p, n)));
        }
        let q = mk_poly::<F>(n, &terms);
        let q2 = MvPoly::<F>::from_coefficients_slice(n, &terms.iter().map(|(c, t)| (fe::<F>(*c), SparseTerm::new(t.clone()))).collect::<Vec<_>>());
        chk(loc, "mv_construct", q == q2 && q.num_vars() == n && q.num_vars == n && q.terms() == &q.terms[..], || {
            format!("from_coefficients_vec/slice({terms:?}) = {} / {}", mv_describe(&q), mv_describe(&q2))
        });
        let wd = m_degree(&formal);
        chk(loc, "mv_degree", q.degree() == wd, || format!("{} from {terms:?}: degree() = {} want {wd}", mv_describe(&q), q.degree()));
        chk(loc, "mv_is_zero", q.is_zero() == formal.is_empty(), || format!("{} from {terms:?}: is_zero() = {} want {}", mv_describe(&q), q.is_zero(), formal.is_empty()));
        let nq = q.clone().neg();
        chk(loc, "mv_neg", nq.degree() == wd && nq.is_zero() == formal.is_empty() && nq.num_vars == n, || format!("-({}) = {}: degree/is_zero/num_vars", mv_describe(&q), mv_describe(&nq)));
        for pi in 0..ipow(p, n) {
            let x = digits(pi, p, n);
            let fx: Vec<F> = fv(&x);
            let want = m_poly_eval(p, &terms, &x);
            let got = un(&q.evaluate(&fx));
            chk(loc, "mv_evaluate", got == want, || format!("{} from {terms:?}: evaluate({x:?}) = {got} want {want} (mod {p})", mv_describe(&q)));
            let gn = un(&nq.evaluate(&fx));
            chk(loc, "mv_neg", gn == (p - want) % p, || format!("-({}).evaluate({x:?}) = {gn} want {}", mv_describe(&q), (p - want) % p));
        }
    });
}

fn mv_binary_sweep<F: PrimeField>(ctx: &mut Ctx, p: u64, max_n: usize, len_for_n: &dyn Fn(usize) -> usize) {
    // operand alphabet: every term list (length <= len_for_n(n)) over the normal-form monomials of
    // degree <= 2 with coefficients {0, 1, p-1}, for every n in 0..=max_n; plus Zero::zero()
    struct Opnd<F: PrimeField> {
        n: usize,
        terms: Vec<(u64, RawTerm)>,
        poly: MvPoly<F>,
        vals: Vec<Vec<u64>>, // vals[L] = model values at all points of length L >= n (empty for L < n)
        literal_zero: bool,
    }
    let coefs = [0u64, 1, p - 1];
    let mut ops: Vec<Opnd<F>> = Vec::new();
    let vals_of = |n: usize, terms: &[(u64, RawTerm)]| -> Vec<Vec<u64>> {
        (0..=max_n).map(|l| if l < n { vec![] } else { (0..ipow(p, l)).map(|pi| m_poly_eval(p, terms, &digits(pi, p, l))).collect() }).collect()
    };
    for n in 0..=max_n {
        let ms = monomials(n);
        let a = (ms.len() * 3) as u64;
        let ml = len_for_n(n);
        for i in 0..lists_count(a, ml) {
            let terms: Vec<(u64, RawTerm)> = list_get(i, a, ml).iter().map(|d| (coefs[(*d % 3) as usize], ms[(*d / 3) as usize].clone())).collect();
            ops.push(Opnd { n, poly: mk_poly::<F>(n, &terms), vals: vals_of(n, &terms), terms, literal_zero: false });
        }
    }
    ops.push(Opnd { n: 0, terms: vec![], poly: MvPoly::<F>::zero(), vals: vals_of(0, &[]), literal_zero: true });
    let cnt = ops.len() as u64;
    let lens: String = (0..=max_n).map(|n| len_for_n(n).to_string()).collect::<Vec<_>>().join("-");
    ctx.sweep(&format!("mv_poly_binary.F{p}.n<={max_n}.terms<={lens}"), cnt * cnt, |i, loc| {
        let [ia, ib] = unrank(i, [cnt, cnt]);
        let (a, b) = (&ops[ia as usize], &ops[ib as usize]);
        let l = a.n.max(b.n);
        loc.class_if(a.n != b.n, "mv:mixed_num_vars");
        loc.class_if(a.literal_zero || b.literal_zero, "mv:literal_zero_operand");
        if loc.sampling() {
            loc.sample(format!("F_{p} mv (n={}) {:?} (+,-,+=,-=,+=(f,.) all f) (n={}) {:?}", a.n, a.terms, b.n, b.terms));
        }
        let fa = m_formal(p, l, &a.terms);
        let fb = m_formal(p, l, &b.terms);
        let combine = |f: u64| -> BTreeMap<Vec<usize>, u64> {
            let mut m = fa.clone();
            for (e, c) in &fb {
                let x = m.entry(e.clone()).or_insert(0);
                *x = (*x + f * c) % p;
            }
            m.retain(|_, c| *c != 0);
            m
        };
        let pts: Vec<Vec<F>> = (0..ipow(p, l)).map(|pi| fv(&digits(pi, p, l))).collect();
        let check = |loc: &mut Loc, site: &str, r: &MvPoly<F>, f: u64, op: &str| {
            // f: result = a + f*b (f = p-1 for subtraction)
            let formal = combine(f);
            loc.class_if(formal.is_empty() && !(fa.is_empty() && fb.is_empty()), "mv:cancels_to_zero");
            // operands with different num_vars: only the pointwise values (at points long enough for both) are
            // demanded; which num_vars the result reports is observed
            loc.class_if(a.n != b.n && r.num_vars != l, "observed:mixed_num_vars_result_is_not_the_max");
            let ok = (a.n != b.n || r.num_vars == l) && r.degree() == m_degree(&formal) && r.is_zero() == formal.is_empty();
            chk(loc, site, ok, || {
                format!("(n={}) {:?} {op} (n={}) {:?} = {}: want num_vars {l} (equal-num_vars operands), degree {}, is_zero {}", a.n, a.terms, b.n, b.terms, mv_describe(r), m_degree(&formal), formal.is_empty())
            });
            for (pi, x) in pts.iter().enumerate() {
                let want = (a.vals[l][pi] + f * b.vals[l][pi]) % p;
                let got = un(&r.evaluate(x));
                chk(loc, site, got == want, || format!("((n={}) {:?} {op} (n={}) {:?}).evaluate({:?}) = {got} want {want} (mod {p}); result {}", a.n, a.terms, b.n, b.terms, uv(x), mv_describe(r)));
            }
        };
        check(loc, "mv_add", &(&a.poly + &b.poly), 1, "&+&");
        check(loc, "mv_add", &(a.poly.clone() + b.poly.clone()), 1, "+");
        let mut x = a.poly.clone();
        x += &b.poly;
        check(loc, "mv_add_assign", &x, 1, "+= &");
        check(loc, "mv_sub", &(&a.poly - &b.poly), p - 1, "&-&");
        let mut x = a.poly.clone();
        x -= &b.poly;
        check(loc, "mv_sub_assign", &x, p - 1, "-= &");
        for f in 0..p {
            let mut x = a.poly.clone();
            x += (fe::<F>(f), &b.poly);
            check(loc, "mv_add_assign_scaled", &x, f, &format!("+= ({f}, &)"));
        }
    });
}

/// n = 4 universe: monomials with up to 4 variables and total degree up to 4, written with unordered and
/// repeated variables
fn wide_monomials() -> Vec<RawTerm> {
    vec![
        vec![],                               // 1
        vec![(0, 1)],                         // x0
        vec![(2, 1), (1, 1)],                 // x1 x2
        vec![(0, 1), (1, 1), (2, 1)],         // x0 x1 x2
        vec![(3, 1), (0, 1), (1, 1)],         // x0 x1 x3
        vec![(0, 1), (1, 1), (0, 1)],         // x0^2 x1
        vec![(1, 2), (0, 1)],                 // x0 x1^2
        vec![(3, 3)],                         // x3^3
        vec![(3, 1), (1, 1), (2, 1), (0, 1)], // x0 x1 x2 x3
    ]
}
fn small_points(n: usize) -> Vec<Vec<u64>> {
    (0..ipow(3, n)).map(|pi| digits(pi, 3, n)).collect()
}
/// constructor, degree, is_zero, evaluate, neg and scaling (0 += (f, q)) on term lists of 3 and 4 terms
fn mv_wide_sweep<F: PrimeField>(ctx: &mut Ctx, p: u64, all_len4: bool, all_points: bool) {
    let n = 4usize;
    let ms = wide_monomials();
    let coefs = [1u64, p - 1, 0, 2];
    let nm = ms.len() as u64;
    let a = nm * 4;
    let n3 = ipow(a, 3);
    // length 4 in quick: every ordered list of 4 monomials x 6 coefficient vectors
    let cvs: [[u64; 4]; 6] = [[1, 1, 1, 1], [1, p - 1, 2, 0], [2, 1, p - 1, p - 1], [p - 1, 1, 0, 1], [1, p - 1, 1, p - 1], [2, 2, 1, 0]];
    let n4 = if all_len4 { ipow(a, 4) } else { ipow(nm, 4) * cvs.len() as u64 };
    // 3-term lists: every point of F_p^4 (thorough) / of {0,1,2,p-1}^4 (quick); 4-term lists: {0,1,2}^4
    let all_pts: Vec<Vec<u64>> = if all_points {
        (0..ipow(p, n)).map(|pi| digits(pi, p, n)).collect()
    } else {
        (0..ipow(4, n)).map(|pi| digits(pi, 4, n).iter().map(|d| [0, 1, 2, p - 1][*d as usize]).collect()).collect()
    };
    let few_pts = small_points(n);
    ctx.sweep(&format!("mv_poly_wide.F{p}.n=4.terms=3..4{}", if all_len4 { ".all" } else { "" }), n3 + n4, |i, loc| {
        let terms: Vec<(u64, RawTerm)> = if i < n3 {
            digits(i, a, 3).iter().map(|d| (coefs[(*d % 4) as usize], ms[(*d / 4) as usize].clone())).collect()
        } else if all_len4 {
            digits(i - n3, a, 4).iter().map(|d| (coefs[(*d % 4) as usize], ms[(*d / 4) as usize].clone())).collect()
        } else {
            let j = i - n3;
            let cv = cvs[(j % cvs.len() as u64) as usize];
            digits(j / cvs.len() as u64, nm, 4).iter().enumerate().map(|(k, d)| (cv[k], ms[*d as usize].clone())).collect()
        };
        let pts = if terms.len() == 3 { &all_pts } else { &few_pts };
        let formal = m_formal(p, n, &terms);
        let keys: Vec<&RawTerm> = terms.iter().map(|x| &x.1).collect();
        let ndup = (0..keys.len()).map(|x| (0..keys.len()).filter(|y| keys[x] == keys[*y]).count()).max().unwrap_or(0);
        loc.class("mv:wide_universe");
        loc.class_if(terms.len() == 4, "mv:4_term_list");
        loc.class_if(ndup >= 2, "duplicate_terms");
        loc.class_if(ndup >= 3, "mv:term_given_three_times");
        loc.class_if(terms.iter().any(|x| x.0 == 0), "zero_coefficient_term");
        loc.class_if(formal.len() < terms.iter().filter(|x| x.0 != 0).map(|x| &x.1).collect::<BTreeSet<_>>().len(), "duplicates_cancel");
        loc.class_if(formal.is_empty(), "mv:zero_polynomial_from_terms");
        loc.class_if(m_degree(&formal) >= 3, "mv:degree>=3");
        loc.class_if(formal.keys().any(|e| e.iter().filter(|x| **x > 0).count() >= 3), "mv:term_with_>=3_variables");
        if loc.sampling() {
            loc.sample(format!("F_{p} mv poly n=4 terms {terms:?}: {} points", pts.len()));
        }
        let q = mk_poly::<F>(n, &terms);
        let q2 = MvPoly::<F>::from_coefficients_slice(n, &terms.iter().map(|(c, t)| (fe::<F>(*c), SparseTerm::new(t.clone()))).collect::<Vec<_>>());
        chk(loc, "mv_construct", q == q2 && q.num_vars() == n && q.num_vars == n, || format!("from_coefficients_vec/slice({terms:?}) = {} / {}", mv_describe(&q), mv_describe(&q2)));
        let wd = m_degree(&formal);
        chk(loc, "mv_degree", q.degree() == wd, || format!("{} from {terms:?}: degree() = {} want {wd}", mv_describe(&q), q.degree()));
        chk(loc, "mv_is_zero", q.is_zero() == formal.is_empty(), || format!("{} from {terms:?}: is_zero() = {} want {}", mv_describe(&q), q.is_zero(), formal.is_empty()));
        let nq = q.clone().neg();
        let scaled: Vec<(u64, MvPoly<F>)> = [0u64, 2, p - 1]
            .iter()
            .map(|f| {
                let mut z = MvPoly::<F>::zero();
                z += (fe::<F>(*f), &q);
                (*f, z)
            })
            .collect();
        for x in pts {
            let fx: Vec<F> = fv(x);
            let want = m_poly_eval(p, &terms, x);
            let got = un(&q.evaluate(&fx));
            chk(loc, "mv_evaluate", got == want, || format!("{} from {terms:?}: evaluate({x:?}) = {got} want {want} (mod {p})", mv_describe(&q)));
            let gn = un(&nq.evaluate(&fx));
            chk(loc, "mv_neg", gn == (p - want) % p, || format!("-({}).evaluate({x:?}) = {gn} want {}", mv_describe(&q), (p - want) % p));
        }
        for x in &few_pts {
            let fx: Vec<F> = fv(x);
            let want = m_poly_eval(p, &terms, x);
            for (f, z) in &scaled {
                let g = un(&z.evaluate(&fx));
                chk(loc, "mv_add_assign_scaled", g == f * want % p, || format!("(0 += ({f}, {})).evaluate({x:?}) = {g} want {}; result {}", mv_describe(&q), f * want % p, mv_describe(z)));
            }
        }
    });
}
/// `+`, `-`, `+=`, `-=`, `+= (f, .)` on operands with 3..4 terms each (every 3- and 4-subset of the 9 monomials)
fn mv_wide_binary_sweep<F: PrimeField>(ctx: &mut Ctx, p: u64, all_points: bool) {
    let n = 4usize;
    let ms = wide_monomials();
    let pts: Vec<Vec<u64>> = if all_points { (0..ipow(p, n)).map(|pi| digits(pi, p, n)).collect() } else { small_points(n) };
    let fpts: Vec<Vec<F>> = pts.iter().map(|x| fv(x)).collect();
    struct Opnd<F: PrimeField> {
        terms: Vec<(u64, RawTerm)>,
        poly: MvPoly<F>,
        vals: Vec<u64>,
    }
    let mk = |mask: u32, pat: &[u64]| -> Opnd<F> {
        let terms: Vec<(u64, RawTerm)> = (0..ms.len()).filter(|j| mask >> j & 1 == 1).enumerate().map(|(k, j)| (pat[k % pat.len()], ms[j].clone())).collect();
        Opnd { poly: mk_poly::<F>(n, &terms), vals: pts.iter().map(|x| m_poly_eval(p, &terms, x)).collect(), terms }
    };
    let masks: Vec<u32> = (0u32..1 << ms.len()).filter(|m| (3..=4).contains(&m.count_ones())).collect();
    let mut lhs: Vec<Opnd<F>> = Vec::new();
    let mut rhs: Vec<Opnd<F>> = Vec::new();
    for m in &masks {
        // quick: all-ones coefficients on the 3-subsets, mixed ones on the 4-subsets; thorough: both on all
        if all_points || m.count_ones() == 3 {
            lhs.push(mk(*m, &[1]));
        }
        if all_points || m.count_ones() == 4 {
            lhs.push(mk(*m, &[1, p - 1, 2, 1]));
        }
        rhs.push(mk(*m, &[1, 1, p - 1, 2]));
    }
    let (nl, nr) = (lhs.len() as u64, rhs.len() as u64);
    ctx.sweep(&format!("mv_poly_wide_binary.F{p}.n=4.terms=3..4"), nl * nr, |i, loc| {
        let [ib, ia] = unrank(i, [nr, nl]);
        let (a, b) = (&lhs[ia as usize], &rhs[ib as usize]);
        if loc.sampling() {
            loc.sample(format!("F_{p} mv n=4 {:?} (+,-,+=,-=,+=(f,.) all f) {:?}", a.terms, b.terms));
        }
        let fa = m_formal(p, n, &a.terms);
        let fb = m_formal(p, n, &b.terms);
        let shared = fa.keys().filter(|k| fb.contains_key(*k)).count();
        loc.class("mv:wide_universe");
        loc.class_if(shared >= 2, "mv:operands_share_>=2_monomials");
        loc.class_if(shared == 0, "mv:operands_share_no_monomial");
        let check = |loc: &mut Loc, site: &str, r: &MvPoly<F>, f: u64, op: &str| {
            let mut formal = fa.clone();
            for (e, c) in &fb {
                let x = formal.entry(e.clone()).or_insert(0);
                *x = (*x + f * c) % p;
            }
            formal.retain(|_, c| *c != 0);
            loc.class_if(formal.len() < fa.len().max(fb.len()), "mv:some_terms_cancel");
            loc.class_if(formal.is_empty(), "mv:cancels_to_zero");
            let ok = r.num_vars == n && r.degree() == m_degree(&formal) && r.is_zero() == formal.is_empty();
            chk(loc, site, ok, || format!("{:?} {op} {:?} = {}: want num_vars {n}, degree {}, is_zero {}", a.terms, b.terms, mv_describe(r), m_degree(&formal), formal.is_empty()));
            for (pi, x) in fpts.iter().enumerate() {
                let want = (a.vals[pi] + f * b.vals[pi]) % p;
                let got = un(&r.evaluate(x));
                chk(loc, site, got == want, || format!("({:?} {op} {:?}).evaluate({:?}) = {got} want {want} (mod {p}); result {}", a.terms, b.terms, pts[pi], mv_describe(r)));
            }
        };
        check(loc, "mv_add", &(&a.poly + &b.poly), 1, "&+&");
        check(loc, "mv_add", &(a.poly.clone() + b.poly.clone()), 1, "+");
        let mut x = a.poly.clone();
        x += &b.poly;
        check(loc, "mv_add_assign", &x, 1, "+= &");
        check(loc, "mv_sub", &(&a.poly - &b.poly), p - 1, "&-&");
        let mut x = a.poly.clone();
        x -= &b.poly;
        check(loc, "mv_sub_assign", &x, p - 1, "-= &");
        for f in 0..p {
            let mut x = a.poly.clone();
            x += (fe::<F>(f), &b.poly);
            check(loc, "mv_add_assign_scaled", &x, f, &format!("+= ({f}, &)"));
        }
    });
}

fn mv_asserts<F: PrimeField>(ctx: &mut Ctx, p: u64) {
    ctx.sweep(&format!("mv_documented_asserts.F{p}"), 4 * 5, |i, loc| {
        let [n, v] = unrank(i, [4, 5]);
        let (n, v) = (n as usize, v as usize);
        // malformed inputs (a variable outside 0..n, a point whose length is not num_vars): nothing is demanded,
        // the observed behaviour is counted; the well-formed neighbours must be accepted
        let r = catch_unwind(AssertUnwindSafe(|| MvPoly::<F>::from_coefficients_vec(n, vec![(F::one(), SparseTerm::new(vec![(v, 1)]))])));
        loc.class_if(v >= n, "assert:mv_variable_range");
        if v >= n {
            loc.class(if r.is_ok() { "observed:malformed_input_returns_a_value" } else { "observed:malformed_input_panics" });
        }
        chk(loc, "mv_construct", v >= n || r.is_ok(), || format!("from_coefficients_vec(n={n}, x_{v}) panics although {v} < {n}"));
        let q = MvPoly::<F>::from_coefficients_vec(n, vec![(F::one(), SparseTerm::new(vec![]))]);
        let x: Vec<F> = vec![F::one(); v];
        let r = catch_unwind(AssertUnwindSafe(|| q.evaluate(&x)));
        loc.class_if(v < n, "assert:mv_point_length");
        loc.class_if(v > n, "mv:point_longer_than_num_vars");
        if v != n {
            loc.class(if r.is_ok() { "observed:malformed_input_returns_a_value" } else { "observed:malformed_input_panics" });
        }
        chk(loc, "mv_evaluate", v != n || r.as_ref().ok() == Some(&F::one()), || format!("constant 1 with num_vars={n} at a point of length {v}: {:?}", r.as_ref().map(un).ok()));
    });
}

// ---------------------------------------------------------------- S: operation sequences over F_3
#[derive(Clone, Debug, Hash, PartialEq, Eq, PartialOrd, Ord)]
struct SeqSt {
    /// model: number of variables and table
    mn: u8,
    mt: Vec<u8>,
    /// implementation snapshot: number of variables and (index, value) entries of its representation
    inn: u8,
    ie: Vec<(u8, u8)>,
}
#[derive(Clone, Debug)]
enum Act {
    Add(usize),
    Sub(usize),
    AddScaled(u64, usize),
    Mul(u64),
    Fix(u64),
    Relabel(usize, usize, usize),
    Neg,
}
/// operand alphabet of the sequence models: (n, table); the last one is `Zero::zero()`
fn seq_operands() -> Vec<MV> {
    vec![(2, vec![1, 2, 0, 1]), (2, vec![0, 1, 0, 0]), (1, vec![1, 2]), (1, vec![0, 1]), (0, vec![1]), (0, vec![2]), (0, vec![0])]
}
fn seq_actions(with_mul: bool) -> Vec<Act> {
    let nops = seq_operands().len();
    let mut v = Vec::new();
    for k in 0..nops {
        v.push(Act::Add(k));
        v.push(Act::Sub(k));
        for f in 0..3 {
            v.push(Act::AddScaled(f, k));
        }
    }
    if with_mul {
        for f in 0..3 {
            v.push(Act::Mul(f));
        }
    }
    for r in 0..3 {
        v.push(Act::Fix(r));
    }
    for w in [(0, 1, 1), (1, 0, 1), (0, 0, 1), (1, 1, 1), (0, 1, 0), (2, 0, 0)] {
        v.push(Act::Relabel(w.0, w.1, w.2));
    }
    v.push(Act::Neg);
    v
}

trait SeqForm: Tab<D3> {
    fn snapshot(&self) -> (u8, Vec<(u8, u8)>);
    fn restore(n: u8, e: &[(u8, u8)]) -> Self;
    fn operand(v: &MV, literal_zero: bool) -> Self;
    fn mul(&self, f: u64) -> Option<Self>;
}
impl SeqForm for Dense<D3> {
    fn snapshot(&self) -> (u8, Vec<(u8, u8)>) {
        (self.num_vars as u8, self.evaluations.iter().enumerate().map(|(i, v)| (i as u8, un(v) as u8)).collect())
    }
    fn restore(n: u8, e: &[(u8, u8)]) -> Self {
        Dense { num_vars: n as usize, evaluations: e.iter().map(|x| fe(x.1 as u64)).collect() }
    }
    fn operand(v: &MV, literal_zero: bool) -> Self {
        if literal_zero {
            Dense::zero()
        } else {
            Self::build(v.0, &v.1)
        }
    }
    fn mul(&self, f: u64) -> Option<Self> {
        let mut x = self.clone();
        x *= fe::<D3>(f);
        Some(x)
    }
}
impl SeqForm for Sparse<D3> {
    fn snapshot(&self) -> (u8, Vec<(u8, u8)>) {
        (self.num_vars as u8, self.evaluations.iter().map(|(i, v)| (*i as u8, un(v) as u8)).collect())
    }
    fn restore(n: u8, e: &[(u8, u8)]) -> Self {
        let v: Vec<(usize, D3)> = e.iter().map(|x| (x.0 as usize, fe(x.1 as u64))).collect();
        Sparse::from_evaluations(n as usize, &v)
    }
    fn operand(v: &MV, literal_zero: bool) -> Self {
        if literal_zero {
            Sparse::zero()
        } else {
            // only the non-zero entries, as a sparse user would
            let e: Vec<(usize, D3)> = v.1.iter().enumerate().filter(|x| *x.1 != 0).map(|(i, x)| (i, fe(*x))).collect();
            Sparse::from_evaluations(v.0, &e)
        }
    }
    fn mul(&self, _f: u64) -> Option<Self> {
        None
    }
}

fn seq_model<M: SeqForm + Send + Sync + 'static>(ctx: &mut Ctx, name: &str, init_tables: Vec<Vec<u64>>, depth: u8, with_mul: bool) {
    const P: u64 = 3;
    let acts = Arc::new(seq_actions(with_mul));
    let ops = Arc::new(seq_operands());
    let special_states: Arc<Mutex<BTreeSet<(u8, Vec<(u8, u8)>)>>> = Arc::new(Mutex::new(BTreeSet::new()));
    let mixed_dim: Arc<Mutex<BTreeSet<(SeqSt, usize)>>> = Arc::new(Mutex::new(BTreeSet::new()));
    let init: Vec<SeqSt> = init_tables
        .iter()
        .map(|t| {
            let m = M::operand(&(2, t.clone()), false);
            let (inn, ie) = m.snapshot();
            SeqSt { mn: 2, mt: t.iter().map(|v| *v as u8).collect(), inn, ie }
        })
        .collect();
    let acts_n = acts.clone();
    let n_actions = acts.len();
    let action_name = move |a: usize| -> String {
        match &acts_n[a] {
            Act::Add(k) => format!("add_assign(op{k})"),
            Act::Sub(k) => format!("sub_assign(op{k})"),
            Act::AddScaled(f, k) => format!("add_assign_scaled({f},op{k})"),
            Act::Mul(f) => format!("mul_assign({f})"),
            Act::Fix(r) => format!("fix_variables([{r}])"),
            Act::Relabel(a, b, k) => format!("relabel({a},{b},{k})"),
            Act::Neg => "neg".to_string(),
        }
    };
    let sp2 = special_states.clone();
    let md2 = mixed_dim.clone();
    let nops = ops.len();
    let step = move |s: &SeqSt, ai: usize| -> Result<Option<SeqSt>, String> {
        let cur = M::restore(s.inn, &s.ie);
        let model: MV = (s.mn as usize, s.mt.iter().map(|v| *v as u64).collect());
        let n = model.0;
        // the state is the special zero: it has no dimension of its own any more
        let state_special = cur.special_zero();
        let operand = |k: usize| -> Option<(MV, M)> {
            let v = &ops[k];
            let literal = k + 1 == nops;
            // enabled iff same dimension, or one side is the special zero (documented neutral element)
            if v.0 == n || literal || state_special {
                Some((v.clone(), M::operand(v, literal)))
            } else {
                None
            }
        };
        let (r, want): (M, MV) = match &acts[ai] {
            Act::Add(k) => {
                let Some((ov, o)) = operand(*k) else { return Ok(None) };
                if ov.0 != n {
                    md2.lock().unwrap().insert((s.clone(), ai));
                }
                let mut x = cur.clone();
                x += &o;
                let ms: MV = if state_special { (0, vec![0]) } else { model.clone() };
                (x, m_add(P, &ms, &ov))
            }
            Act::Sub(k) => {
                let Some((ov, o)) = operand(*k) else { return Ok(None) };
                if ov.0 != n {
                    md2.lock().unwrap().insert((s.clone(), ai));
                }
                let mut x = cur.clone();
                x -= &o;
                let ms: MV = if state_special { (0, vec![0]) } else { model.clone() };
                (x, m_add(P, &ms, &(ov.0, m_neg(P, &ov.1))))
            }
            Act::AddScaled(f, k) => {
                let Some((ov, o)) = operand(*k) else { return Ok(None) };
                if ov.0 != n {
                    md2.lock().unwrap().insert((s.clone(), ai));
                }
                let mut x = cur.clone();
                x += (fe::<D3>(*f), &o);
                let ms: MV = if state_special { (0, vec![0]) } else { model.clone() };
                (x, m_add(P, &ms, &(ov.0, m_scale(P, *f, &ov.1))))
            }
            Act::Mul(f) => {
                let Some(x) = cur.mul(*f) else { return Ok(None) };
                (x, (n, m_scale(P, *f, &model.1)))
            }
            Act::Fix(r) => {
                if n < 1 {
                    return Ok(None); // partial point longer than the number of variables: documented assert
                }
                (cur.fix_variables(&[fe::<D3>(*r)]), (n - 1, m_fix(P, &model.1, &[*r])))
            }
            Act::Relabel(a, b, k) => {
                if relabel_kind(n, *a, *b, *k) != RL::Legal {
                    return Ok(None);
                }
                (cur.relabel(*a, *b, *k), (n, m_relabel(&model.1, *a, *b, *k)))
            }
            Act::Neg => (cur.clone().neg(), (n, m_neg(P, &model.1))),
        };
        // conformance of the new state
        let exact = r.num_vars() == want.0 && r.table().as_deref() == Some(&want.1[..]);
        let special = !exact && r.special_zero() && all_zero(&want.1);
        if !exact && !special {
            return Err(format!("got {} want n={} table={:?}", r.describe(), want.0, want.1));
        }
        let next_model: MV = if special {
            if !(r.is_zero() && r.evaluate(&vec![]).is_zero()) {
                return Err(format!("special zero {} is not is_zero()/0 at the empty point", r.describe()));
            }
            sp2.lock().unwrap().insert(r.snapshot());
            (0, vec![0])
        } else {
            want
        };
        if r.special_zero() {
            sp2.lock().unwrap().insert(r.snapshot());
        }
        let idx: Vec<u64> = (0..next_model.1.len()).map(|i| un(&r[i])).collect();
        if idx != next_model.1 {
            return Err(format!("Index over {} = {idx:?} want {:?}", r.describe(), next_model.1));
        }
        for pi in 0..ipow(P, next_model.0) {
            let x = digits(pi, P, next_model.0);
            let got = un(&r.evaluate(&fv(&x)));
            let w = m_eval(P, &next_model.1, &x);
            if got != w {
                return Err(format!("{}.evaluate({x:?}) = {got} want {w}", r.describe()));
            }
        }
        let (inn, ie) = r.snapshot();
        Ok(Some(SeqSt { mn: next_model.0 as u8, mt: next_model.1.iter().map(|v| *v as u8).collect(), inn, ie }))
    };
    run_seq(ctx, name, init, n_actions, depth, action_name, step);
    let skipped = ctx.only.as_ref().map(|o| !name.contains(o.as_str())).unwrap_or(false) || ctx.replay.as_ref().map(|r| r.0 != name).unwrap_or(false);
    if !skipped {
        let ns = special_states.lock().unwrap().len() as u64;
        let nm = mixed_dim.lock().unwrap().len() as u64;
        ctx.add_class("seq:state_is_special_zero", ns);
        ctx.add_class("seq:special_zero_meets_other_dimension", nm);
        ctx.bound(&format!("{name}.actions"), n_actions as u64);
    }
}

// ---------------------------------------------------------------- per field driver
fn validate_field<F: PrimeField>(ctx: &mut Ctx, p: u64) {
    let prime = p >= 2 && (2..p).all(|d| p % d != 0);
    ctx.validate(prime, &format!("{p} is prime"));
    ctx.validate(F::MODULUS.as_ref()[0] == p && F::MODULUS.as_ref().iter().skip(1).all(|l| *l == 0), &format!("toy field modulus is {p}"));
    let mut ok = true;
    for v in 0..p {
        ok &= un(&fe::<F>(v)) == v;
    }
    ok &= (fe::<F>(p - 1) + F::one()).is_zero() && fe::<F>(p) == F::zero();
    ctx.validate(ok, &format!("F_{p}: From<u64>/into_bigint round-trip on 0..p"));
}

fn full(n: usize, p: u64) -> TableSpace {
    TableSpace { n, alpha: (0..p).collect() }
}
fn tri(n: usize, p: u64) -> TableSpace {
    TableSpace { n, alpha: vec![0, 1, p - 1] }
}

fn per_field<F: PrimeField>(ctx: &mut Ctx, p: u64) {
    validate_field::<F>(ctx, p);
    let quick = ctx.quick();
    // dense: all tables n <= 2; n = 3 all tables over F_3, 3-value alphabet over F_5 / F_7
    let mut spaces = vec![full(0, p), full(1, p), full(2, p)];
    if p == 3 {
        spaces.push(full(3, p));
    } else if p == 5 || !quick {
        spaces.push(tri(3, p));
    }
    dense_sweeps::<F>(ctx, p, &spaces);
    // n = 4 (relabel windows of width 2) and n = 5
    match (p, quick) {
        (3, _) | (5, _) => dense_wide_sweep::<F>(ctx, p, &[4, 5]),
        (_, false) => dense_wide_sweep::<F>(ctx, p, &[4]),
        _ => {}
    }
    construction_panics::<F>(ctx, p);
    // dense binary operators
    for n in 0..=2usize {
        let all: Vec<Vec<u64>> = (0..full(n, p).len()).map(|i| full(n, p).get(i)).collect();
        if n == 2 && p == 7 && quick {
            let r: Vec<Vec<u64>> = (0..tri(n, p).len()).map(|i| tri(n, p).get(i)).collect();
            mle_pair_sweep::<F, Dense<F>>(ctx, p, n, &full(n, p), &r, "all_x_alphabet3");
        } else {
            mle_pair_sweep::<F, Dense<F>>(ctx, p, n, &full(n, p), &all, "all_pairs");
        }
    }
    {
        let lhs = if p == 3 { full(3, p) } else { tri(3, p) };
        if p == 3 && !quick {
            let all: Vec<Vec<u64>> = (0..lhs.len()).map(|i| lhs.get(i)).collect();
            mle_pair_sweep::<F, Dense<F>>(ctx, p, 3, &lhs, &all, "all_pairs");
        } else {
            let few = few_nonzero_tables(3, &[1, p - 1], 2);
            mle_pair_sweep::<F, Dense<F>>(ctx, p, 3, &lhs, &few, "all_x_le2_nonzero");
        }
    }
    // concat
    let cl = ctx.t(2, 3);
    match p {
        3 => concat_sweep::<F>(ctx, p, 2, cl),
        _ => concat_sweep::<F>(ctx, p, 1, 3),
    }
    if p == 3 && quick {
        concat_sweep::<F>(ctx, p, 1, 3);
    }
    if p != 7 || !quick {
        concat_wide_sweep::<F>(ctx, p);
    }
    // sparse MLE from (index, value) lists
    for n in 0..=3usize {
        let ml = if n == 3 && p != 3 && quick { 2 } else { 3 };
        sparse_list_sweep::<F>(ctx, p, n, ml);
    }
    if p == 3 {
        sparse_wide_sweep::<F>(ctx, p, 4);
        sparse_wide_sweep::<F>(ctx, p, 5);
    } else if p == 5 {
        sparse_wide_sweep::<F>(ctx, p, 4);
    }
    if quick {
        if p != 7 {
            sparse_batch_sweep::<F>(ctx, p, &[5, 6]);
        }
    } else {
        sparse_batch_sweep::<F>(ctx, p, &[5, 6, 7]);
    }
    if p == 5 {
        if quick {
            sparse_large_window_sweep::<F>(ctx, p, &[11, 12]);
        } else {
            sparse_large_window_sweep::<F>(ctx, p, &[11, 12, 13]);
        }
    }
    for n in 0..=3usize {
        // pairs of sparse operands
        let ml = match (n, p) {
            (0, _) | (1, _) => 2,
            (2, 3) => 2,
            (2, _) => ctx.t(1, 2),
            (3, 3) => ctx.t(1, 2),
            (_, _) => 1,
        };
        sparse_pair_sweep::<F>(ctx, p, n, ml);
    }
    // sparse multivariate polynomials
    for n in 0..=3usize {
        // n = 3, length 3 over the raw-term alphabet is 7.1M lists x p^3 points: F_3 and F_5 in thorough only
        let short = n == 3 && (quick || p == 7);
        let ml = if short { 2 } else { 3 };
        mv_poly_sweep::<F>(ctx, p, n, ml, true);
        if short {
            mv_poly_sweep::<F>(ctx, p, n, 3, false);
        }
    }
    match (p, quick) {
        (3, true) => mv_binary_sweep::<F>(ctx, p, 3, &|n| if n <= 2 { 2 } else { 1 }),
        (3, false) => mv_binary_sweep::<F>(ctx, p, 3, &|_| 2),
        (_, true) => mv_binary_sweep::<F>(ctx, p, 3, &|n| if n <= 1 { 2 } else { 1 }),
        (_, false) => mv_binary_sweep::<F>(ctx, p, 3, &|n| if n <= 2 { 2 } else { 1 }),
    }
    // n = 4 universe (terms with up to 4 variables, degree up to 4, operands of 3..4 terms)
    if p == 5 || (p == 7 && !quick) {
        mv_wide_sweep::<F>(ctx, p, false, !quick);
        mv_wide_binary_sweep::<F>(ctx, p, !quick);
    }
    if p == 5 && !quick {
        mv_wide_sweep::<F>(ctx, p, true, true);
    }
    mv_asserts::<F>(ctx, p);
}

fn main() {
    let mut ctx = Ctx::from_args("C17");
    ctx.require(&["sparse_fix:partial_longer_than_batch_not_multiple", 
        "n=0",
        "zero_special_repr",
        "zero_special_repr:times_zero",
        "zero_special_repr:operand",
        "zero_special_repr:returned",
        "partial_point_full_length",
        "relabel:k=0",
        "relabel:a>b",
        "relabel:top_window",
        "relabel:illegal_window",
        "duplicate_terms",
        "zero_coefficient_term",
        "unsorted_vars",
        "repeated_var_in_term",
        "sparse_vs_dense",
        "sparse:duplicate_index",
        "sparse:explicit_zero_value",
        "sparse_fix:several_batches",
        "point:non_boolean",
        "point:boolean",
        "concat:padded",
        "concat:mixed_sizes",
        "sum_identically_zero",
        "seq:state_is_special_zero",
        "seq:special_zero_meets_other_dimension",
        "relabel:window_width>=2",
        "relabel:window_width>=2_with_gap",
        "mle:n>=4",
        "mle:n>=5",
        "concat:result_n>=4",
        "sparse_fix:batch_window>=4_several_batches",
        "sparse_fix:batch_window>=5_several_batches",
        "sparse:entries>1024",
        "sparse:batch_window_odd>=11",
        "sparse:batch_window>=12",
        "sparse:entries=2^k",
        "sparse:entries=2^k+1",
        "sparse:entries=2^k-1",
        "mv:wide_universe",
        "mv:4_term_list",
        "mv:term_given_three_times",
        "mv:degree>=3",
        "mv:term_with_>=3_variables",
        "mv:operands_share_>=2_monomials",
        "mv:some_terms_cancel",
    ]);
    ctx.assume("oracle: u64 arithmetic mod p written in this file (sum over the Boolean hypercube weighted by eq; monomial sums); conversions F::from(u64) / into_bigint are trusted (property C01)");
    ctx.assume("variable order: index bit i (bit 0 least significant) is variable x_i, the documented little-endian convention; fix_variables binds x_0.. first, the remaining variables are renumbered from 0");
    ctx.assume("special zero: Zero::zero() has num_vars = 0 and is the documented neutral element for every dimension; a result in this representation is accepted only if the model table is identically zero, and must then be is_zero(), 0 at the empty point and neutral in a following +/-. Its original dimension is lost (evaluating it at an n-variable point asserts); this is accepted as the library convention and counted in class zero_special_repr:evaluate_at_original_dimension_panics");
    ctx.assume("relabel: legal iff max(a,b)+k <= num_vars and (a == b or k == 0 or the windows do not overlap); overlapping or out-of-range windows with something to exchange are malformed arguments: nothing is demanded, the behaviour is counted in classes observed:*; a == b or k == 0 with an out-of-range window may either panic or return the unchanged table");
    ctx.assume("malformed inputs (table length != 2^n, sparse index >= 2^n, a repeated index in SparseMultilinearExtension::from_evaluations, point length != num_vars, partial point longer than num_vars, multivariate variable >= num_vars) are outside the property: nothing is demanded for them, what the library does is counted in classes observed:*; every well-formed neighbour must be accepted");
    ctx.assume("operands of different dimensions are only combined when one of them is the special zero (anything else is a documented assert)");
    ctx.bound("fields", "F_3, F_5, F_7 (derived Montgomery configs D3, D5, D7)");
    ctx.bound("dense_tables", "all tables n=0,1,2 over each field; n=3: all 6561 over F_3, alphabet {0,1,p-1} over F_5 (and over F_7 in thorough)");
    ctx.bound("points", "every point of F^n, every partial point of every length 0..=n followed by every remaining point");
    ctx.bound("relabel_windows", "every (a,b,k) in 0..=n+1 cubed, legal and illegal");
    ctx.bound("sparse_mle", "every ordered list of <= 3 (index,value) pairs, index < 2^n, every value, n <= 3 (quick: <= 2 pairs for n=3 over F_5, F_7)");
    ctx.bound("mv_poly", "n <= 3, term lists of length <= 3 over raw terms (<= 2 (var,pow) pairs, pow <= 2, degree <= 2, unsorted/repeated/zero-power included), coefficients {0,1,p-1}; (n=3 in quick, and over F_7 in thorough: length <= 2 over raw terms plus length <= 3 over the 10 normal-form monomials)");
    ctx.bound("mv_poly_binary", "operands: term lists over the normal-form monomials of degree <= 2 with coefficients {0,1,p-1}, every n in 0..=3 (mixed num_vars included) plus Zero::zero(); all ordered pairs; list length <= 2 (F_3 thorough), else <= 1 for n=3 (and for n=2 in quick over F_5, F_7); every scalar f for +=(f,.)");
    ctx.bound("mle_binary", "dense: all ordered pairs of tables for n <= 2 (quick F_7 n=2: all x alphabet-3 tables), n=3: all 6561^2 pairs over F_3 in thorough, otherwise all (alphabet) tables x tables with <= 2 non-zero entries; sparse: all ordered pairs of (index,value) lists of length <= 2 (n <= 1; n=2 over F_3; thorough n=2 all fields and n=3 over F_3), else <= 1; every scalar f");
    ctx.bound("concat", "F_3: every list of <= 3 (quick 2) tables with 0..=2 variables each (quick also <= 3 tables with <= 1 variable); F_5, F_7: every list of <= 3 tables with <= 1 variable");
    ctx.bound("wide_universes", "dense MLE n=4 (unit tables, e_i + 2 e_(i+1), 3 dense tables over {0,1,2}) and n=5 (unit + 3 dense tables) over F_3, F_5 (n=4 over F_7 in thorough): everything the n<=3 sweeps do, incl. all relabel windows; concat of lists of <= 3 parts with 0..4 variables; sparse MLE n=5,6 (7 in thorough) with 1,2,3,4,5,7,8,9,15,16,17,31,32,33,63,64,65 entries in 3 index patterns: evaluate at {0,1,p-1}^n and {2,p-2}^n, fix_variables at every prefix length over a 3-letter alphabet, also for the dense form; multivariate n=4 over F_5 (F_7 thorough): 9 monomials up to x0x1x2x3 / x3^3, coefficients {1,-1,0,2}, every ordered list of 3 terms (points {0,1,2,p-1}^4 in quick, all of F_p^4 in thorough), lists of 4 terms (every monomial list x 6 coefficient vectors in quick, all in thorough; points {0,1,2}^4); binary operators on all pairs of 3..4-term operands (every 3- and 4-subset of the monomials; one coefficient pattern per operand in quick, two for the left operand in thorough)");
    ctx.bound("sequence_models", "dense and sparse over F_3 starting from n=2, operands of every dimension plus Zero::zero()");
    per_field::<D3>(&mut ctx, 3);
    per_field::<D5>(&mut ctx, 5);
    per_field::<D7>(&mut ctx, 7);
    // SparseTerm::new normal form (field independent construction, evaluated over all three fields)
    for n in 0..=3usize {
        let (ml, mp) = (ctx.t(3, 4), ctx.t(2, 3));
        mv_term_sweep(&mut ctx, n, ml, mp);
    }
    // S: operation sequences over F_3 starting from every 2-variable table
    let depth = ctx.t(4u8, 5u8);
    let all2: Vec<Vec<u64>> = (0..full(2, 3).len()).map(|i| full(2, 3).get(i)).collect();
    seq_model::<Dense<D3>>(&mut ctx, "seq_dense_mle.F3.n=2", all2.clone(), depth, true);
    seq_model::<Sparse<D3>>(&mut ctx, "seq_sparse_mle.F3.n=2", all2, depth, false);
    std::process::exit(ctx.finish());
}
