//! C11 - square roots and quadratic-residue tests are exact; coordinate-recovery helpers
//! return both solutions in the documented order or report that none exists.
//!
//! E: whole universes of toy fields - every tiny prime field (derived and hand-written
//!    configs, 2-adicity 1..16), toy Fp2 / Fp3 / Fp4 / Fp6(2 over 3) declared below - and of
//!    the x (resp. y) axis of every toy curve.  Oracle: u64 polynomial arithmetic modulo
//!    X^k - beta; "is a square" = membership in the enumerated set {y^2}; Legendre symbol =
//!    x^((q-1)/2) by square-and-multiply on the model.
//! A: alphabets on every shipped prime field, Fq2, Fq3 and a few shipped curves.  Oracle:
//!    num-bigint (Euler's criterion, squaring of the reported root).
//! Branch classes (rounds of the Tonelli-Shanks loop, delta branch of the complex method)
//! are computed by running the textbook algorithms on the model.
#![allow(non_camel_case_types, clippy::all)]
use algebra_mc::core::*;
use algebra_mc::refmodel::fieldmodel::prime_to_u64;
use algebra_mc::refmodel::zmod::*;
use algebra_mc::toy::gen_fields::*;
use ark_ec::{short_weierstrass as sw, twisted_edwards as te};
use ark_ff::fields::fp6_2over3::{Fp6 as Fp6q, Fp6Config as Fp6qConfig};
use ark_ff::{BigInt, Field, Fp2, Fp2Config, Fp3, Fp3Config, Fp4, Fp4Config, LegendreSymbol, PrimeField};
use num_bigint::BigUint;
use num_traits::{One, Zero};
use std::any::TypeId;
use std::collections::BTreeSet;
use std::sync::atomic::{AtomicBool, AtomicU8, Ordering as AO};

// ---------------------------------------------------------------------------------------
// reference models
// ---------------------------------------------------------------------------------------

/// a multiplicative structure; `pow` is plain right-to-left square-and-multiply
trait Alg {
    type El: Clone + PartialEq;
    fn mul(&self, a: &Self::El, b: &Self::El) -> Self::El;
    fn one(&self) -> Self::El;
    fn pow(&self, a: &Self::El, e: &[u64]) -> Self::El {
        let mut nbits = 0usize;
        for (i, l) in e.iter().enumerate() {
            if *l != 0 {
                nbits = 64 * i + (64 - l.leading_zeros() as usize);
            }
        }
        let mut r = self.one();
        let mut b = a.clone();
        for k in 0..nbits {
            if (e[k / 64] >> (k % 64)) & 1 == 1 {
                r = self.mul(&r, &b);
            }
            if k + 1 < nbits {
                b = self.mul(&b, &b);
            }
        }
        r
    }
}

/// Textbook Tonelli-Shanks on a model, for a NON-ZERO x of a field with q - 1 = 2^s * t, t odd,
/// `tm1d2` = (t-1)/2 and `zeta` of order 2^s.  Returns (a root, number of rounds of the outer
/// loop) or None for a non-residue.  It is used ONLY to label cases (round count) and to name
/// the roots of a norm for the delta classes; verdicts never depend on it.  All loops are
/// bounded so that inconsistent parameters cannot hang the harness.
fn model_ts<A: Alg>(a: &A, x: &A::El, s: u32, tm1d2: &[u64], zeta: &A::El) -> Option<(A::El, u32)> {
    let one = a.one();
    let w = a.pow(x, tm1d2);
    let mut r = a.mul(&w, x);
    let mut b = a.mul(&r, &w);
    let mut z = zeta.clone();
    let mut v = s;
    let mut rounds = 0u32;
    while b != one {
        let mut k = 0u32;
        let mut b2k = b.clone();
        while b2k != one {
            b2k = a.mul(&b2k, &b2k);
            k += 1;
            if k > s {
                return None;
            }
        }
        if k >= v {
            return None; // k == s in the first round: x is a non-residue
        }
        let mut w = z.clone();
        for _ in 0..(v - k - 1) {
            w = a.mul(&w, &w);
        }
        z = a.mul(&w, &w);
        b = a.mul(&b, &z);
        r = a.mul(&r, &w);
        v = k;
        rounds += 1;
    }
    if a.mul(&r, &r) == *x {
        Some((r, rounds))
    } else {
        None
    }
}

/// Number of rounds of the outer Tonelli-Shanks loop for an input whose t-th power is `b`
/// (the loop only ever looks at b = x^t and the powers of zeta).  None = non-residue (the loop
/// exits in its first round because b has order 2^s) or inconsistent parameters.
fn ts_rounds<A: Alg>(a: &A, b: &A::El, s: u32, zeta: &A::El) -> Option<u32> {
    let one = a.one();
    let mut b = b.clone();
    let mut z = zeta.clone();
    let mut v = s;
    let mut rounds = 0u32;
    while b != one {
        let mut k = 0u32;
        let mut b2k = b.clone();
        while b2k != one {
            b2k = a.mul(&b2k, &b2k);
            k += 1;
            if k > s {
                return None;
            }
        }
        if k >= v {
            return None;
        }
        let mut w = z.clone();
        for _ in 0..(v - k - 1) {
            w = a.mul(&w, &w);
        }
        z = a.mul(&w, &w);
        b = a.mul(&b, &z);
        v = k;
        rounds += 1;
    }
    Some(rounds)
}

const KMAX: usize = 6;
/// coefficient of X^i, i < k (the rest stays 0)
type E = [u64; KMAX];

/// F_p[X]/(X^k - beta) on u64, p < 2^17.  `perm[j]` = exponent of X carried by the j-th entry of
/// the library's `to_base_prime_field_elements` order (identity for Fp, Fp2, Fp3; the towers
/// Fp2[v]/(v^2-u) and Fp3[v]/(v^2-u) are F_p[v]/(v^4-beta), F_p[v]/(v^6-beta) with u = v^2).
#[derive(Clone, Debug)]
struct Ext {
    p: u64,
    k: usize,
    beta: u64,
    perm: [usize; KMAX],
    q: u64,
}
impl Alg for Ext {
    type El = E;
    fn one(&self) -> E {
        let mut e = [0; KMAX];
        e[0] = 1;
        e
    }
    fn mul(&self, a: &E, b: &E) -> E {
        let (p, k) = (self.p, self.k);
        let mut r = [0u64; 2 * KMAX];
        for i in 0..k {
            if a[i] == 0 {
                continue;
            }
            for j in 0..k {
                r[i + j] = (r[i + j] + a[i] * b[j]) % p;
            }
        }
        for i in (k..2 * k - 1).rev() {
            r[i - k] = (r[i - k] + r[i] * self.beta) % p;
        }
        let mut e = [0; KMAX];
        e[..k].copy_from_slice(&r[..k]);
        e
    }
}
impl Ext {
    fn new(p: u64, k: usize, beta: u64, perm: &[usize]) -> Ext {
        assert!(p < (1 << 17) && k <= KMAX && perm.len() == k);
        let mut pm = [0usize; KMAX];
        pm[..k].copy_from_slice(perm);
        Ext { p, k, beta: beta % p, perm: pm, q: p.pow(k as u32) }
    }
    fn prime(p: u64) -> Ext {
        Ext::new(p, 1, 0, &[0])
    }
    fn zero(&self) -> E {
        [0; KMAX]
    }
    fn add(&self, a: &E, b: &E) -> E {
        let mut e = [0; KMAX];
        for i in 0..self.k {
            e[i] = (a[i] + b[i]) % self.p;
        }
        e
    }
    fn neg(&self, a: &E) -> E {
        let mut e = [0; KMAX];
        for i in 0..self.k {
            e[i] = (self.p - a[i]) % self.p;
        }
        e
    }
    fn sub(&self, a: &E, b: &E) -> E {
        self.add(a, &self.neg(b))
    }
    fn scale(&self, a: &E, c: u64) -> E {
        let mut e = [0; KMAX];
        for i in 0..self.k {
            e[i] = a[i] * (c % self.p) % self.p;
        }
        e
    }
    fn sq(&self, a: &E) -> E {
        self.mul(a, a)
    }
    /// rank in the library's coordinate order (entry 0 fastest)
    fn unrank(&self, mut i: u64) -> E {
        let mut e = [0; KMAX];
        for j in 0..self.k {
            e[self.perm[j]] = i % self.p;
            i /= self.p;
        }
        e
    }
    fn rank(&self, a: &E) -> u64 {
        let mut i = 0;
        for j in (0..self.k).rev() {
            i = i * self.p + a[self.perm[j]];
        }
        i
    }
    fn flat(&self, a: &E) -> Vec<u64> {
        (0..self.k).map(|j| a[self.perm[j]]).collect()
    }
    fn to_lib<F: Field>(&self, a: &E) -> F {
        F::from_base_prime_field_elems((0..self.k).map(|j| F::BasePrimeField::from(a[self.perm[j]]))).expect("extension degree")
    }
    fn from_lib<F: Field>(&self, f: &F) -> E {
        let mut e = [0; KMAX];
        let mut n = 0;
        for (j, c) in f.to_base_prime_field_elements().enumerate() {
            e[self.perm[j]] = prime_to_u64(&c);
            n += 1;
        }
        assert_eq!(n, self.k);
        e
    }
    /// (is_square[rank], smaller-rank root of every square) by enumeration of all y
    fn squares(&self) -> (Vec<bool>, Vec<u32>) {
        let mut sq = vec![false; self.q as usize];
        let mut lo = vec![u32::MAX; self.q as usize];
        for i in 0..self.q {
            let y = self.unrank(i);
            let r = self.rank(&self.sq(&y)) as usize;
            sq[r] = true;
            if lo[r] == u32::MAX {
                lo[r] = i as u32; // ascending i: first hit is the smaller root
            }
        }
        (sq, lo)
    }
}

/// F_p[X]/(X^k - beta) on num-bigint (k = 1, 2, 3), coordinates in library order
#[derive(Clone, Debug)]
struct BigExt {
    p: BigUint,
    k: usize,
    beta: BigUint,
    /// (p^k - 1)/2
    euler_exp: Vec<u64>,
}
type BE = Vec<BigUint>;
impl Alg for BigExt {
    type El = BE;
    fn one(&self) -> BE {
        let mut v = vec![BigUint::zero(); self.k];
        v[0] = BigUint::one();
        v
    }
    fn mul(&self, a: &BE, b: &BE) -> BE {
        let k = self.k;
        let mut r = vec![BigUint::zero(); 2 * k - 1];
        for i in 0..k {
            for j in 0..k {
                r[i + j] += &a[i] * &b[j];
            }
        }
        for i in (k..2 * k - 1).rev() {
            let hi = &r[i] % &self.p;
            r[i - k] += hi * &self.beta;
        }
        r.truncate(k);
        r.iter().map(|c| c % &self.p).collect()
    }
}
impl BigExt {
    fn new(p: &BigUint, k: usize, beta: &BigUint) -> BigExt {
        let q = num_traits::pow(p.clone(), k);
        BigExt { p: p.clone(), k, beta: beta % p, euler_exp: ((q - 1u32) >> 1usize).to_u64_digits() }
    }
    fn zero(&self) -> BE {
        vec![BigUint::zero(); self.k]
    }
    fn is_zero(&self, a: &BE) -> bool {
        a.iter().all(|c| c.is_zero())
    }
    fn add(&self, a: &BE, b: &BE) -> BE {
        (0..self.k).map(|i| (&a[i] + &b[i]) % &self.p).collect()
    }
    fn neg(&self, a: &BE) -> BE {
        a.iter().map(|c| modneg(c, &self.p)).collect()
    }
    fn embed(&self, c: &BigUint) -> BE {
        let mut v = self.zero();
        v[0] = c % &self.p;
        v
    }
    /// Euler's criterion: 0, 1, -1 (2 = the model is not a field: machinery problem)
    fn euler(&self, a: &BE) -> i8 {
        if self.is_zero(a) {
            return 0;
        }
        let e = self.pow(a, &self.euler_exp);
        if e == self.one() {
            1
        } else if e == self.neg(&self.one()) {
            -1
        } else {
            2
        }
    }
    fn to_lib<F: Field>(&self, a: &BE) -> F {
        F::from_base_prime_field_elems(a.iter().map(|c| F::BasePrimeField::from(c.clone()))).expect("extension degree")
    }
    fn from_lib<F: Field>(&self, f: &F) -> BE {
        let v: BE = f.to_base_prime_field_elements().map(|c| from_limbs(c.into_bigint().as_ref())).collect();
        assert_eq!(v.len(), self.k);
        v
    }
    /// documented order of the coordinate-recovery helpers: lexicographic with the highest
    /// coordinate most significant (the integer itself for a prime field)
    fn ord_key(&self, a: &BE) -> Vec<BigUint> {
        a.iter().rev().cloned().collect()
    }
    fn show(&self, a: &BE) -> String {
        if self.k == 1 {
            format!("{}", a[0])
        } else {
            format!("({})", a.iter().map(|c| c.to_string()).collect::<Vec<_>>().join(", "))
        }
    }
}

fn sym_code(l: &LegendreSymbol) -> i8 {
    match l {
        LegendreSymbol::Zero => 0,
        LegendreSymbol::QuadraticResidue => 1,
        LegendreSymbol::QuadraticNonResidue => -1,
    }
}
fn sym_name(c: i8) -> &'static str {
    match c {
        0 => "Zero",
        1 => "QuadraticResidue",
        -1 => "QuadraticNonResidue",
        _ => "?",
    }
}

/// The comparison every field case goes through: the real `sqrt`, `legendre`, `sqrt_in_place`
/// of `x` against the oracle's verdicts (`want_sym` in {0, 1, -1}; `root_ok(r)` = "r*r == x"
/// evaluated by the oracle).
fn check_elem<F: Field>(loc: &mut Loc, field: &str, x: &F, want_sym: i8, root_ok: impl Fn(&F) -> bool, show: &dyn Fn() -> String) {
    let r = x.sqrt();
    loc.check_at("sqrt", r.is_some() == (want_sym >= 0), || {
        format!(
            "{field}: sqrt({}) = {}, but x is {} (oracle)",
            show(),
            match &r {
                Some(v) => format!("Some({v})"),
                None => "None".to_string(),
            },
            if want_sym >= 0 { "a square" } else { "a non-square" }
        )
    });
    if let Some(v) = &r {
        loc.check_at("sqrt", root_ok(v), || format!("{field}: sqrt({}) = {v}, which does not square to x (oracle)", show()));
        if want_sym == 0 {
            loc.check_at("sqrt_zero", v.is_zero(), || format!("{field}: sqrt(0) = {v}, want 0"));
        }
    }
    let l = x.legendre();
    loc.check_at("legendre", sym_code(&l) == want_sym, || format!("{field}: legendre({}) = {l:?}, want {} = x^((q-1)/2) (oracle)", show(), sym_name(want_sym)));
    let mut y = *x;
    let ret: Option<F> = y.sqrt_in_place().map(|v| *v);
    let ok = match ret {
        Some(v) => Some(v) == r && Some(y) == r,
        None => r.is_none() && y == *x,
    };
    loc.check_at("sqrt_in_place", ok, || format!("{field}: sqrt_in_place({}) left {y}; sqrt returned {r:?}", show()));
}

// ---------------------------------------------------------------------------------------
// E: toy fields
// ---------------------------------------------------------------------------------------

enum Kind {
    /// prime field with p = 3 (mod 4): `SqrtPrecomputation::Case3Mod4`
    Case3Mod4,
    /// `SqrtPrecomputation::TonelliShanks` (prime field with p = 1 mod 4, or cubic extension)
    Ts { s: u32, tm1d2: u64, zeta: E },
    /// `QuadExtField::sqrt` (complex method); base field model, its squares, the smaller root of
    /// each square, and the non-residue of the quadratic step as a base-field element
    Quad { base: Ext, base_sq: Vec<bool>, base_lo: Vec<u32>, nr: E },
}

fn toy_field<F: Field>(ctx: &mut Ctx, sweep: &str, m: &Ext, kind: &Kind) {
    let (sq, _) = m.squares();
    let q = m.q;
    let euler_exp = [(q - 1) / 2];
    let one = m.one();
    let minus_one = m.neg(&one);
    let model_bad = AtomicBool::new(false);
    // per norm value: bit 0 = some x took class A, bit 1 = some x took class B (see Kind::Quad labels)
    let norm_seen: Vec<AtomicU8> = match kind {
        Kind::Quad { base, .. } => (0..base.q).map(|_| AtomicU8::new(0)).collect(),
        _ => Vec::new(),
    };
    let field = sweep;
    ctx.sweep(sweep, q, |i, loc| {
        let x = m.unrank(i);
        let xf: F = m.to_lib(&x);
        let is_zero = i == 0;
        let is_sq = sq[i as usize];
        // oracle: Euler's criterion on the model
        let e = m.pow(&x, &euler_exp);
        let want_sym = if is_zero {
            0
        } else if e == one {
            1
        } else if e == minus_one {
            -1
        } else {
            model_bad.store(true, AO::Relaxed); // X^k - beta reducible: toy parameters wrong
            return;
        };
        if (want_sym >= 0) != is_sq {
            model_bad.store(true, AO::Relaxed); // the two oracle paths disagree
            return;
        }
        if loc.sampling() {
            loc.sample(format!("{field}: x={:?} square={is_sq} symbol={}", m.flat(&x), sym_name(want_sym)));
        }
        loc.class(match want_sym {
            0 => "zero",
            1 => "residue",
            _ => "nonresidue",
        });
        match kind {
            Kind::Case3Mod4 => loc.class("3mod4"),
            Kind::Ts { s, tm1d2, zeta } => {
                if !is_zero {
                    match model_ts(m, &x, *s, &[*tm1d2], zeta) {
                        None => {
                            loc.class("ts:early_exit_none");
                            if is_sq {
                                model_bad.store(true, AO::Relaxed);
                            }
                        }
                        Some((_, rounds)) => {
                            if !is_sq {
                                model_bad.store(true, AO::Relaxed);
                            }
                            loc.class_if(rounds == 0, "ts:rounds=0");
                            loc.class_if(*s >= 2 && rounds == *s - 1, "ts:max_rounds");
                            loc.class_if(*s >= 3 && rounds >= 2 && rounds < *s - 1, "ts:intermediate_rounds");
                        }
                    }
                }
            }
            Kind::Quad { base, base_sq, base_lo, nr } => {
                let (r0, r1) = (i % base.q, i / base.q);
                if r1 == 0 {
                    if r0 == 0 {
                        loc.class("quad:c1=0∧c0_zero");
                    } else if base_sq[r0 as usize] {
                        loc.class("quad:c1=0∧c0_qr");
                    } else {
                        loc.class("quad:c1=0∧c0_qnr");
                    }
                } else {
                    let c0 = base.unrank(r0);
                    let c1 = base.unrank(r1);
                    let norm = base.sub(&base.sq(&c0), &base.mul(nr, &base.sq(&c1)));
                    let nrank = base.rank(&norm) as usize;
                    if !base_sq[nrank] {
                        loc.class("quad:norm_qnr_none");
                    } else {
                        // alpha_lo = the root of the norm with the smaller rank; the library may use either root.
                        // class A: (c0 + alpha_lo)/2 is a non-residue; class B: (c0 - alpha_lo)/2 is.
                        let alpha = base.unrank(base_lo[nrank] as u64);
                        let half = (base.p + 1) / 2;
                        let d1 = base.scale(&base.add(&c0, &alpha), half);
                        let d1r = base.rank(&d1) as usize;
                        let d1_qnr = d1r != 0 && !base_sq[d1r];
                        if d1_qnr {
                            loc.class("quad:delta_qnr_branch");
                            norm_seen[nrank].fetch_or(1, AO::Relaxed);
                        } else {
                            loc.class("quad:delta_qnr_branch(other_root)");
                            norm_seen[nrank].fetch_or(2, AO::Relaxed);
                        }
                    }
                }
            }
        }
        check_elem::<F>(loc, field, &xf, want_sym, |r| m.sq(&m.from_lib(r)) == x, &|| format!("{:?}", m.flat(&x)));
    });
    ctx.validate(!model_bad.load(AO::Relaxed), &format!("{sweep}: toy model is a field and its two residuosity oracles agree"));
    if let Kind::Quad { .. } = kind {
        // whichever root of the norm the base-field sqrt returns, both outcomes of the delta test are
        // executed as soon as one norm value has cases in both classes
        let both = norm_seen.iter().filter(|a| a.load(AO::Relaxed) == 3).count();
        if ctx.only.is_none() && ctx.replay.is_none() && q > 9 {
            ctx.validate(both > 0, &format!("{sweep}: some norm value has cases in both delta classes"));
        }
    }
}

fn modulus_u64<F: PrimeField>() -> u64 {
    let m = F::MODULUS;
    let l = m.as_ref();
    assert!(l[1..].iter().all(|x| *x == 0));
    l[0]
}

fn toy_prime<F: PrimeField>(ctx: &mut Ctx, name: &str) {
    let p = modulus_u64::<F>();
    ctx.validate(is_prime_small(p) && p > 2, &format!("{name}: modulus is an odd prime"));
    let m = Ext::prime(p);
    let s = (p - 1).trailing_zeros();
    let t = (p - 1) >> s;
    let kind = if p % 4 == 3 {
        Kind::Case3Mod4
    } else {
        let mut zeta = m.zero();
        zeta[0] = prime_to_u64(&F::TWO_ADIC_ROOT_OF_UNITY);
        // order exactly 2^s
        ctx.validate(m.pow(&zeta, &[1u64 << (s - 1)])[0] == p - 1, &format!("{name}: TWO_ADIC_ROOT_OF_UNITY has order 2^{s}"));
        Kind::Ts { s, tm1d2: (t - 1) / 2, zeta }
    };
    toy_field::<F>(ctx, &format!("toy_prime/{name}"), &m, &kind);
}

// ---- toy towers.  The configurations of algebra_mc::toy::gen_towers (shared with C02) are used where they exist;
// the ones declared here extend them to larger base fields (Tonelli-Shanks base fields of 2-adicity 5..9, Fp3 with
// 2-adicity 5, Fp4 over F_29).  (constants computed with python ints: beta^((p^i-1)/k), 2-adicity and trace of
// p^3-1, t-th power of a quadratic non-residue; all re-validated below with the u64 model) ----
macro_rules! fe {
    ($Fp:ty, $v:expr) => {
        <$Fp>::new(BigInt::new([$v]))
    };
}
macro_rules! toy_fp2 {
    ($Cfg:ident, $Fp:ty, $beta:expr, $pm1:expr) => {
        pub struct $Cfg;
        impl Fp2Config for $Cfg {
            type Fp = $Fp;
            const NONRESIDUE: $Fp = fe!($Fp, $beta);
            const FROBENIUS_COEFF_FP2_C1: &'static [$Fp] = &[fe!($Fp, 1), fe!($Fp, $pm1)];
        }
    };
}
macro_rules! toy_fp3 {
    ($Cfg:ident, $Fp:ty, $beta:expr, [$a0:expr, $a1:expr, $a2:expr], [$b0:expr, $b1:expr, $b2:expr], $s:expr, $tm1d2:expr, [$z0:expr, $z1:expr, $z2:expr]) => {
        pub struct $Cfg;
        impl Fp3Config for $Cfg {
            type Fp = $Fp;
            const NONRESIDUE: $Fp = fe!($Fp, $beta);
            const FROBENIUS_COEFF_FP3_C1: &'static [$Fp] = &[fe!($Fp, $a0), fe!($Fp, $a1), fe!($Fp, $a2)];
            const FROBENIUS_COEFF_FP3_C2: &'static [$Fp] = &[fe!($Fp, $b0), fe!($Fp, $b1), fe!($Fp, $b2)];
            const TWO_ADICITY: u32 = $s;
            const TRACE_MINUS_ONE_DIV_TWO: &'static [u64] = &[$tm1d2];
            const QUADRATIC_NONRESIDUE_TO_T: Fp3<Self> = Fp3::<Self>::new(fe!($Fp, $z0), fe!($Fp, $z1), fe!($Fp, $z2));
        }
    };
}
macro_rules! toy_fp4 {
    ($Cfg:ident, $C2:ty, $Fp:ty, [$c0:expr, $c1:expr, $c2:expr, $c3:expr]) => {
        pub struct $Cfg;
        impl Fp4Config for $Cfg {
            type Fp2Config = $C2;
            const NONRESIDUE: Fp2<$C2> = Fp2::<$C2>::new(fe!($Fp, 0), fe!($Fp, 1));
            const FROBENIUS_COEFF_FP4_C1: &'static [$Fp] = &[fe!($Fp, $c0), fe!($Fp, $c1), fe!($Fp, $c2), fe!($Fp, $c3)];
        }
    };
}
// Fp2 = F_p[u]/(u^2 - beta): beta = -1 for p = 3 (mod 4), a small non-residue otherwise
toy_fp2!(F2P3Cfg, D3, 2, 2);
toy_fp2!(F2P97Cfg, D97, 5, 96);
toy_fp2!(F2P193Cfg, D193, 5, 192);
toy_fp2!(F2P257Cfg, D257, 3, 256);
toy_fp2!(F2P769Cfg, D769, 11, 768);
toy_fp2!(F2P7681Cfg, D7681, 17, 7680);
// Fp2 over big toy moduli WITHOUT a spare bit (top bit of the top limb set): `two_inv` of QuadExtField::sqrt is
// computed as (MODULUS + 1) / 2 with add_with_carry + div2 on the raw limbs
pub struct F2P64Cfg;
impl Fp2Config for F2P64Cfg {
    type Fp = DP64;
    const NONRESIDUE: DP64 = ark_ff::MontFp!("2");
    const FROBENIUS_COEFF_FP2_C1: &'static [DP64] = &[ark_ff::MontFp!("1"), ark_ff::MontFp!("-1")];
}
pub struct F2X3Cfg;
impl Fp2Config for F2X3Cfg {
    type Fp = DX3;
    const NONRESIDUE: DX3 = ark_ff::MontFp!("-1");
    const FROBENIUS_COEFF_FP2_C1: &'static [DX3] = &[ark_ff::MontFp!("1"), ark_ff::MontFp!("-1")];
}
pub struct F2X4Cfg;
impl Fp2Config for F2X4Cfg {
    type Fp = DX4;
    const NONRESIDUE: DX4 = ark_ff::MontFp!("-1");
    const FROBENIUS_COEFF_FP2_C1: &'static [DX4] = &[ark_ff::MontFp!("1"), ark_ff::MontFp!("-1")];
}
// Fp3 = F_p[u]/(u^3 - beta), p = 1 (mod 3)
toy_fp3!(F3P31B3Cfg, D31, 3, [1, 25, 5], [1, 5, 25], 1, 7447, [30, 0, 0]);
toy_fp3!(F3P37B2Cfg, D37, 2, [1, 26, 10], [1, 10, 26], 2, 6331, [31, 0, 0]);
toy_fp3!(F3P43B3Cfg, D43, 3, [1, 36, 6], [1, 6, 36], 1, 19876, [42, 0, 0]);
toy_fp3!(F3P97B5Cfg, D97, 5, [1, 35, 61], [1, 61, 35], 5, 14260, [28, 0, 0]);
// Fp4 = Fp2[v]/(v^2 - u).  Fp4Config demands NONRESIDUE = (0, 1) = u, which is a non-square of Fp2 only
// for p = 1 (mod 4) (for p = 3 mod 4: u^((p^2-1)/2) = beta^((p-1)/2 * (p+1)/2) = 1), so F_7 of the
// design is impossible and F_13, F_17, F_29 are used instead.
toy_fp4!(F4P29Cfg, algebra_mc::toy::gen_towers::T29Fq2Config, D29, [1, 12, 28, 17]);

fn pow_mod(b: u64, e: u64, p: u64) -> u64 {
    let m = Ext::prime(p);
    let mut x = m.zero();
    x[0] = b % p;
    m.pow(&x, &[e])[0]
}
fn frob_table_ok<Fq: PrimeField>(table: &[Fq], beta: u64, p: u64, k: u64, mult: u64) -> bool {
    // table[i] = beta^(mult*(p^i - 1)/k)
    table.len() == k as usize && (0..k).all(|i| prime_to_u64(&table[i as usize]) == pow_mod(beta, mult * ((p.pow(i as u32) - 1) / k), p))
}

fn toy_fp2_run<C: Fp2Config>(ctx: &mut Ctx, name: &str) {
    let p = modulus_u64::<C::Fp>();
    let beta = prime_to_u64(&C::NONRESIDUE);
    let base = Ext::prime(p);
    let (base_sq, base_lo) = base.squares();
    ctx.validate(!base_sq[beta as usize], &format!("{name}: NONRESIDUE is a non-square"));
    ctx.validate(frob_table_ok(C::FROBENIUS_COEFF_FP2_C1, beta, p, 2, 1), &format!("{name}: Frobenius table"));
    let m = Ext::new(p, 2, beta, &[0, 1]);
    let mut nr = base.zero();
    nr[0] = beta;
    toy_field::<Fp2<C>>(ctx, &format!("toy_fp2/{name}"), &m, &Kind::Quad { base, base_sq, base_lo, nr });
}

fn fp3_model<C: Fp3Config>(ctx: &mut Ctx, name: &str) -> (Ext, Kind) {
    let p = modulus_u64::<C::Fp>();
    let beta = prime_to_u64(&C::NONRESIDUE);
    let m = Ext::new(p, 3, beta, &[0, 1, 2]);
    ctx.validate((p - 1) % 3 == 0 && pow_mod(beta, (p - 1) / 3, p) != 1, &format!("{name}: NONRESIDUE is a non-cube"));
    ctx.validate(frob_table_ok(C::FROBENIUS_COEFF_FP3_C1, beta, p, 3, 1) && frob_table_ok(C::FROBENIUS_COEFF_FP3_C2, beta, p, 3, 2), &format!("{name}: Frobenius tables"));
    let s = (m.q - 1).trailing_zeros();
    let t = (m.q - 1) >> s;
    let tm: Vec<u64> = C::TRACE_MINUS_ONE_DIV_TWO.to_vec();
    ctx.validate(C::TWO_ADICITY == s && !tm.is_empty() && tm[0] == (t - 1) / 2 && tm[1..].iter().all(|l| *l == 0), &format!("{name}: TWO_ADICITY / TRACE_MINUS_ONE_DIV_TWO"));
    let zeta: E = m.from_lib(&C::QUADRATIC_NONRESIDUE_TO_T);
    ctx.validate(m.pow(&zeta, &[1u64 << (s - 1)]) == m.neg(&m.one()), &format!("{name}: QUADRATIC_NONRESIDUE_TO_T has order 2^{s}"));
    let kind = Kind::Ts { s, tm1d2: (t - 1) / 2, zeta };
    (m, kind)
}
fn toy_fp3_run<C: Fp3Config>(ctx: &mut Ctx, name: &str) {
    let (m, kind) = fp3_model::<C>(ctx, name);
    toy_field::<Fp3<C>>(ctx, &format!("toy_fp3/{name}"), &m, &kind);
}

fn toy_fp4_run<C: Fp4Config>(ctx: &mut Ctx, name: &str) {
    type Fq<C> = <<C as Fp4Config>::Fp2Config as Fp2Config>::Fp;
    let p = modulus_u64::<Fq<C>>();
    let beta = prime_to_u64(&<C::Fp2Config as Fp2Config>::NONRESIDUE);
    let base = Ext::new(p, 2, beta, &[0, 1]);
    let (base_sq, base_lo) = base.squares();
    let nr: E = base.from_lib(&C::NONRESIDUE);
    ctx.validate(base.flat(&nr) == vec![0, 1], &format!("{name}: NONRESIDUE = (0, 1)"));
    ctx.validate(!base_sq[base.rank(&nr) as usize], &format!("{name}: (0, 1) is a non-square of Fp2"));
    ctx.validate(frob_table_ok(C::FROBENIUS_COEFF_FP4_C1, beta, p, 4, 1), &format!("{name}: Frobenius table"));
    // c0 = a0 + a1 u, c1 = b0 + b1 u, u = v^2: a0 + b0 v + a1 v^2 + b1 v^3
    let m = Ext::new(p, 4, beta, &[0, 2, 1, 3]);
    toy_field::<Fp4<C>>(ctx, &format!("toy_fp4/{name}"), &m, &Kind::Quad { base, base_sq, base_lo, nr });
}

fn toy_fp6_run<C: Fp6qConfig>(ctx: &mut Ctx, name: &str) {
    type Fq<C> = <<C as Fp6qConfig>::Fp3Config as Fp3Config>::Fp;
    let p = modulus_u64::<Fq<C>>();
    let (base, _) = fp3_model::<C::Fp3Config>(ctx, name);
    let beta = base.beta;
    let (base_sq, base_lo) = base.squares();
    let nr: E = base.from_lib(&C::NONRESIDUE);
    ctx.validate(base.flat(&nr) == vec![0, 1, 0], &format!("{name}: NONRESIDUE = (0, 1, 0)"));
    ctx.validate(!base_sq[base.rank(&nr) as usize], &format!("{name}: (0, 1, 0) is a non-square of Fp3"));
    ctx.validate(frob_table_ok(C::FROBENIUS_COEFF_FP6_C1, beta, p, 6, 1), &format!("{name}: Frobenius table"));
    let m = Ext::new(p, 6, beta, &[0, 2, 4, 1, 3, 5]);
    toy_field::<Fp6q<C>>(ctx, &format!("toy_fp6/{name}"), &m, &Kind::Quad { base, base_sq, base_lo, nr });
}

// ---------------------------------------------------------------------------------------
// E: coordinate recovery on the toy curves
// ---------------------------------------------------------------------------------------

fn toy_sw_recover<P: sw::SWCurveConfig>(ctx: &mut Ctx, name: &str)
where
    P::BaseField: PrimeField,
{
    let p = modulus_u64::<P::BaseField>();
    let f = Ext::prime(p);
    let (a, b) = (prime_to_u64(&P::COEFF_A), prime_to_u64(&P::COEFF_B));
    let row = algebra_mc::toy::gen_curves::CURVE_TABLE.iter().find(|t| t.0 == name);
    ctx.validate(matches!(row, Some(t) if t.1 == "sw" && t.2 == p && t.3 == a && t.4 == b), &format!("{name}: coefficients match CURVE_TABLE"));
    // all roots of every value, by enumeration
    let mut roots: Vec<Vec<u64>> = vec![Vec::new(); p as usize];
    for y in 0..p {
        roots[(y * y % p) as usize].push(y);
    }
    let fe = |v: u64| P::BaseField::from(v);
    ctx.sweep(&format!("toy_sw_recover/{name}"), p, |x, loc| {
        let rhs = (x * x % p * x + a * x + b) % p;
        let want = &roots[rhs as usize]; // ascending
        loc.class(match want.len() {
            0 => "recover:none",
            1 => "recover:double_root",
            _ => "recover:two",
        });
        loc.class_if(f.p % 4 == 3, "recover:base_3mod4");
        loc.class_if(f.p % 4 == 1, "recover:base_tonelli_shanks");
        let got = sw::Affine::<P>::get_ys_from_x_unchecked(fe(x));
        if loc.sampling() {
            loc.sample(format!("{name}: x={x} rhs={rhs} ys={want:?}"));
        }
        let want_pair = match want.len() {
            0 => None,
            1 => Some((want[0], want[0])),
            _ => Some((want[0], want[1])),
        };
        let got_pair = got.map(|(u, v)| (prime_to_u64(&u), prime_to_u64(&v)));
        loc.check_at("get_ys_from_x_unchecked", got_pair == want_pair, || format!("{name}: x={x}: x^3+ax+b={rhs}; got {got_pair:?} want {want_pair:?} (smaller integer first)"));
        for greatest in [false, true] {
            let pt = sw::Affine::<P>::get_point_from_x_unchecked(fe(x), greatest);
            let gp = pt.map(|q| (prime_to_u64(&q.x), prime_to_u64(&q.y), q.infinity));
            let wp = want_pair.map(|(lo, hi)| (x, if greatest { hi } else { lo }, false));
            loc.check_at("get_point_from_x_unchecked", gp == wp, || format!("{name}: x={x} greatest={greatest}: got {gp:?} want {wp:?}"));
        }
    });
}

fn toy_te_recover<P: te::TECurveConfig>(ctx: &mut Ctx, name: &str)
where
    P::BaseField: PrimeField,
{
    let p = modulus_u64::<P::BaseField>();
    let (a, d) = (prime_to_u64(&P::COEFF_A), prime_to_u64(&P::COEFF_D));
    let row = algebra_mc::toy::gen_curves::CURVE_TABLE.iter().find(|t| t.0 == name);
    ctx.validate(matches!(row, Some(t) if t.1 == "te" && t.2 == p && t.3 == a && t.4 == d), &format!("{name}: coefficients match CURVE_TABLE"));
    ctx.validate(a != d && a != 0 && d != 0, &format!("{name}: a != d, a d != 0"));
    let fe = |v: u64| P::BaseField::from(v);
    let oracle_bad = AtomicBool::new(false);
    ctx.sweep(&format!("toy_te_recover/{name}"), p, |y, loc| {
        // all x with a x^2 + y^2 = 1 + d x^2 y^2, by enumeration (ascending)
        let y2 = y * y % p;
        let want: Vec<u64> = (0..p).filter(|x| (a * (x * x % p) + y2) % p == (1 + d * (x * x % p) % p * y2) % p).collect();
        if want.len() > 2 {
            oracle_bad.store(true, AO::Relaxed); // more than two x for one y: toy parameters wrong (a = d)
            return;
        }
        let den_zero = (a + p - d * y2 % p) % p == 0;
        loc.class(match want.len() {
            0 => "recover:none",
            1 => "recover:double_root",
            _ => "recover:two",
        });
        loc.class_if(den_zero, "te:denominator_zero");
        if loc.sampling() {
            loc.sample(format!("{name}: y={y} xs={want:?}"));
        }
        let want_pair = match want.len() {
            0 => None,
            1 => Some((want[0], want[0])),
            _ => Some((want[0], want[1])),
        };
        let got = te::Affine::<P>::get_xs_from_y_unchecked(fe(y));
        let got_pair = got.map(|(u, v)| (prime_to_u64(&u), prime_to_u64(&v)));
        loc.check_at("get_xs_from_y_unchecked", got_pair == want_pair, || format!("{name}: y={y} (a - d y^2 {} 0): got {got_pair:?} want {want_pair:?} (smaller integer first)", if den_zero { "==" } else { "!=" }));
        for greatest in [false, true] {
            let pt = te::Affine::<P>::get_point_from_y_unchecked(fe(y), greatest);
            let gp = pt.map(|q| (prime_to_u64(&q.x), prime_to_u64(&q.y)));
            let wp = want_pair.map(|(lo, hi)| (if greatest { hi } else { lo }, y));
            loc.check_at("get_point_from_y_unchecked", gp == wp, || format!("{name}: y={y} greatest={greatest}: got {gp:?} want {wp:?}"));
        }
    });
    ctx.validate(!oracle_bad.load(AO::Relaxed), &format!("toy_te_recover/{name}: at most two x for every y"));
}

// ---------------------------------------------------------------------------------------
// A: shipped fields
// ---------------------------------------------------------------------------------------

/// facts about a prime computed with num-bigint only
struct PrimeInfo {
    p: BigUint,
    s: u32,
    t: BigUint,
    /// smallest integer >= 2 that is a non-residue (Euler), and omega = qnr^t of order exactly 2^s
    qnr: BigUint,
    omega: BigUint,
    f: BigExt,
}
impl PrimeInfo {
    fn new(p: &BigUint) -> PrimeInfo {
        let pm1 = p - 1u32;
        let s = pm1.trailing_zeros().unwrap() as u32;
        let t = &pm1 >> (s as usize);
        let half = &pm1 >> 1usize;
        let mut qnr = BigUint::from(2u32);
        while qnr.modpow(&half, p) != pm1 {
            qnr += 1u32;
        }
        let omega = qnr.modpow(&t, p);
        PrimeInfo { p: p.clone(), s, t, qnr, omega, f: BigExt::new(p, 1, &BigUint::zero()) }
    }
    fn tm1d2(&self) -> Vec<u64> {
        ((&self.t - 1u32) >> 1usize).to_u64_digits()
    }
    /// a square root by the oracle's Tonelli-Shanks with its own omega (None = non-residue)
    fn sqrt(&self, x: &BigUint) -> Option<BigUint> {
        if (x % &self.p).is_zero() {
            return Some(BigUint::zero());
        }
        model_ts(&self.f, &vec![x % &self.p], self.s, &self.tm1d2(), &vec![self.omega.clone()]).map(|(r, _)| r[0].clone())
    }
    fn generic(&self) -> BigUint {
        // the "generic-looking" constant repeated over all limbs of p, reduced
        let n = ((self.p.bits() + 63) / 64) as usize;
        from_limbs(&vec![GENERIC64; n]) % &self.p
    }
    /// boundary / structure alphabet of F_p.  `g`: the configured multiplicative generator (only
    /// used as an input value).  full = also squares and qnr-multiples of everything.
    fn alphabet(&self, g: &BigUint, full: bool) -> Vec<BigUint> {
        let p = &self.p;
        let mut v: Vec<BigUint> = Vec::new();
        for c in [0u32, 1, 2, 3, 4] {
            v.push(BigUint::from(c) % p);
        }
        v.push(p - 1u32);
        v.push(p - 2u32);
        v.push((p - 1u32) >> 1usize);
        v.push((p + 1u32) >> 1usize);
        v.push(g % p);
        v.push(g * g % p);
        v.push(self.generic());
        v.push(self.qnr.clone());
        // omega_i of order exactly 2^i, i = s..0
        let mut w = self.omega.clone();
        for _ in 0..=self.s {
            v.push(w.clone());
            v.push(&w * g % p);
            v.push(&w * 4u32 % p);
            w = &w * &w % p;
        }
        if full {
            let base = v.clone();
            for b in &base {
                v.push(b * b % p);
                v.push(b * &self.qnr % p);
            }
        }
        dedup_sorted(v)
    }
}

/// alphabet check of one large prime field; `group` = "shipped_prime" or "big_toy_prime" (sweep-name prefix)
fn shipped_prime<F: PrimeField>(ctx: &mut Ctx, group: &str, name: &str, seen: &mut BTreeSet<TypeId>) {
    if !seen.insert(TypeId::of::<F>()) {
        return; // the same type re-exported under another name
    }
    let p = from_limbs(F::MODULUS.as_ref());
    let pi = PrimeInfo::new(&p);
    let big = |x: &F| from_limbs(x.into_bigint().as_ref());
    let g = big(&F::GENERATOR);
    let zeta_cfg = big(&F::TWO_ADIC_ROOT_OF_UNITY);
    let mut vals = pi.alphabet(&g, true);
    let three_mod_four = (&p % 4u32) == BigUint::from(3u32);
    if !three_mod_four {
        // inputs whose t-th power is exactly zeta^2 for the CONFIGURED zeta: the Tonelli-Shanks loop of the
        // library then runs its maximal number (s-1) of rounds.  u = t^-1 mod 2^s.
        let two_s = pow2(pi.s as usize);
        let u = modinv(&(&pi.t % &two_s), &two_s).expect("t is odd");
        let xmax = zeta_cfg.modpow(&(&u * 2u32), &p);
        let odd_part = g.modpow(&two_s, &p); // t-th power is 1
        vals.push(&xmax * &odd_part % &p);
        vals.push(&xmax * odd_part.modpow(&BigUint::from(5u32), &p) % &p);
        vals.push(xmax);
        vals = dedup_sorted(vals);
    }
    let half = (&p - 1u32) >> 1usize;
    let pm1 = &p - 1u32;
    let field = name;
    // oracle preconditions and label bookkeeping are machinery matters: flags, validated after the sweep
    let oracle_bad = AtomicBool::new(false);
    let max_rounds_hit = AtomicBool::new(false);
    let viol_before = ctx.viol_total;
    ctx.sweep(&format!("{group}/{name}"), vals.len() as u64, |i, loc| {
        let x = &vals[i as usize];
        let xf = F::from(x.clone());
        let e = x.modpow(&half, &p);
        let want_sym = if x.is_zero() {
            0
        } else if e.is_one() {
            1
        } else if e == pm1 {
            -1
        } else {
            oracle_bad.store(true, AO::Relaxed); // x^((p-1)/2) is not +-1: the modulus is not prime
            return;
        };
        loc.class(match want_sym {
            0 => "zero",
            1 => "residue",
            _ => "nonresidue",
        });
        if three_mod_four {
            loc.class("3mod4");
        } else if want_sym != 0 {
            match ts_rounds(&pi.f, &vec![x.modpow(&pi.t, &p)], pi.s, &vec![zeta_cfg.clone()]) {
                None => {
                    loc.class_if(want_sym == -1, "ts:early_exit_none");
                    // a residue for which the simulation with the CONFIGURED root gives up: no round label
                    loc.class_if(want_sym == 1, "ts:label_unavailable(configured_root_inconsistent)");
                }
                Some(rounds) => {
                    loc.class_if(rounds == 0, "ts:rounds=0");
                    loc.class_if(pi.s >= 2 && rounds == pi.s - 1, "ts:max_rounds");
                    if pi.s >= 2 && rounds == pi.s - 1 {
                        max_rounds_hit.store(true, AO::Relaxed);
                    }
                    loc.class_if(pi.s >= 3 && rounds >= 2 && rounds < pi.s - 1, "ts:intermediate_rounds");
                }
            }
        }
        if loc.sampling() {
            loc.sample(format!("{field}: x={x} symbol={}", sym_name(want_sym)));
        }
        check_elem::<F>(loc, field, &xf, want_sym, |r| {
            let rb = big(r);
            rb < p && &rb * &rb % &p == *x
        }, &|| x.to_string());
    });
    ctx.validate(!oracle_bad.load(AO::Relaxed), &format!("{group}/{name}: modulus is prime (x^((p-1)/2) is +-1 for every non-zero alphabet value)"));
    // per field, not global: the worst case of the Tonelli-Shanks loop was really requested (only asserted when the
    // sweep itself is clean - with a broken configured root the violations of the sweep are the verdict)
    if !three_mod_four && pi.s >= 2 && ctx.only.is_none() && ctx.replay.is_none() && ctx.viol_total == viol_before {
        ctx.validate(max_rounds_hit.load(AO::Relaxed), &format!("{group}/{name}: an input with the maximal number of Tonelli-Shanks rounds (s-1 = {}) is in the alphabet", pi.s - 1));
    }
}

enum BigKind {
    Quad,
    Ts { s: u32, t: Vec<u64>, zeta: BE },
}

/// elements of a shipped extension: coordinate alphabet {0, 1, -1, 2, g} with at most `max_dev`
/// non-zero coordinates, its squares, embedded base-field values, a generic element with its square, plus `extra`
fn ext_elements(ext: &BigExt, pi: &PrimeInfo, g: &BigUint, extra: Vec<BE>, max_dev: usize) -> Vec<BE> {
    let p = &ext.p;
    let alpha = [BigUint::zero(), BigUint::one(), p - 1u32, BigUint::from(2u32), g.clone()];
    let mut out: Vec<BE> = Vec::new();
    let n = 5u64.pow(ext.k as u32);
    for i in 0..n {
        let d = unrank_vec(i, &vec![5u64; ext.k]);
        if d.iter().filter(|j| **j != 0).count() > max_dev {
            continue;
        }
        let e: BE = d.iter().map(|j| alpha[*j as usize].clone()).collect();
        out.push(ext.mul(&e, &e));
        out.push(e);
    }
    for v in pi.alphabet(g, false) {
        out.push(ext.embed(&v));
    }
    let gen = pi.generic();
    let mut ge = ext.zero();
    for j in 0..ext.k {
        ge[j] = (&gen * BigUint::from(j as u32 + 1) + BigUint::from(j as u32)) % p;
    }
    out.push(ext.mul(&ge, &ge));
    out.push(ext.mul(&ext.mul(&ge, &ge), &ge));
    out.push(ge);
    out.extend(extra);
    dedup_sorted(out)
}

fn shipped_ext<F: Field>(ctx: &mut Ctx, name: &str, ext: &BigExt, pi: &PrimeInfo, kind: &BigKind, elems: &[BE]) {
    let field = name;
    let half = (&ext.p + 1u32) >> 1usize;
    let oracle_bad = AtomicBool::new(false);
    let max_rounds_hit = AtomicBool::new(false);
    let viol_before = ctx.viol_total;
    ctx.sweep(&format!("shipped_ext/{name}"), elems.len() as u64, |i, loc| {
        let x = &elems[i as usize];
        let xf: F = ext.to_lib(x);
        // Euler's criterion; for the Tonelli-Shanks fields x^((q-1)/2) is computed as (x^t)^(2^(s-1)) so that
        // b = x^t can be reused for the round-count label
        let mut xt: Option<BE> = None;
        let want_sym = match kind {
            BigKind::Ts { s, t, .. } if !ext.is_zero(x) => {
                let b = ext.pow(x, t);
                let mut e = b.clone();
                for _ in 0..(*s - 1) {
                    e = ext.mul(&e, &e);
                }
                xt = Some(b);
                if e == ext.one() {
                    1
                } else if e == ext.neg(&ext.one()) {
                    -1
                } else {
                    2
                }
            }
            _ => ext.euler(x),
        };
        if want_sym == 2 {
            oracle_bad.store(true, AO::Relaxed); // x^((q-1)/2) is not +-1: the model is not a field
            return;
        }
        loc.class(match want_sym {
            0 => "zero",
            1 => "residue",
            _ => "nonresidue",
        });
        loc.class_if(x[1..].iter().all(|c| c.is_zero()), "ext:embedded_base_field_element");
        match kind {
            BigKind::Quad => {
                if x[1].is_zero() {
                    match pi.f.euler(&vec![x[0].clone()]) {
                        0 => loc.class("quad:c1=0∧c0_zero"),
                        1 => loc.class("quad:c1=0∧c0_qr"),
                        _ => loc.class("quad:c1=0∧c0_qnr"),
                    }
                } else {
                    let norm = modsub(&(&x[0] * &x[0]), &(&ext.beta * &x[1] * &x[1]), &ext.p);
                    match pi.sqrt(&norm) {
                        None => loc.class("quad:norm_qnr_none"),
                        Some(r) => {
                            let alpha_lo = r.clone().min(modneg(&r, &ext.p));
                            let d1 = (&x[0] + alpha_lo) * &half % &ext.p;
                            if pi.f.euler(&vec![d1]) == -1 {
                                loc.class("quad:delta_qnr_branch");
                            } else {
                                loc.class("quad:delta_qnr_branch(other_root)");
                            }
                        }
                    }
                }
            }
            BigKind::Ts { s, zeta, .. } => {
                if let Some(b) = &xt {
                    match ts_rounds(ext, b, *s, zeta) {
                        None => {
                            loc.class_if(want_sym == -1, "ts:early_exit_none");
                            loc.class_if(want_sym == 1, "ts:label_unavailable(configured_root_inconsistent)");
                        }
                        Some(rounds) => {
                            loc.class_if(rounds == 0, "ts:rounds=0");
                            loc.class_if(*s >= 2 && rounds == *s - 1, "ts:max_rounds");
                            if *s >= 2 && rounds == *s - 1 {
                                max_rounds_hit.store(true, AO::Relaxed);
                            }
                        }
                    }
                }
            }
        }
        if loc.sampling() {
            loc.sample(format!("{field}: x={} symbol={}", ext.show(x), sym_name(want_sym)));
        }
        check_elem::<F>(loc, field, &xf, want_sym, |r| {
            let rb = ext.from_lib(r);
            rb.iter().all(|c| c < &ext.p) && ext.mul(&rb, &rb) == *x
        }, &|| ext.show(x));
    });
    ctx.validate(!oracle_bad.load(AO::Relaxed), &format!("shipped_ext/{name}: the model F_p[X]/(X^k - beta) is a field (Euler's criterion gives +-1)"));
    if let BigKind::Ts { s, .. } = kind {
        if *s >= 2 && ctx.only.is_none() && ctx.replay.is_none() && ctx.viol_total == viol_before {
            ctx.validate(max_rounds_hit.load(AO::Relaxed), &format!("shipped_ext/{name}: an input with the maximal number of Tonelli-Shanks rounds (s-1 = {}) is in the element list", *s - 1));
        }
    }
}

fn shipped_fq2<C: Fp2Config>(ctx: &mut Ctx, name: &str) {
    let p = from_limbs(<C::Fp as PrimeField>::MODULUS.as_ref());
    let pi = PrimeInfo::new(&p);
    let big = |x: &C::Fp| from_limbs(x.into_bigint().as_ref());
    let beta = big(&C::NONRESIDUE);
    ctx.validate(pi.f.euler(&vec![beta.clone()]) == -1, &format!("{name}: NONRESIDUE is a non-square of Fq (precondition of the oracle)"));
    let ext = BigExt::new(&p, 2, &beta);
    let g = big(&<C::Fp as ark_ff::FftField>::GENERATOR);
    let elems = ext_elements(&ext, &pi, &g, Vec::new(), 2);
    shipped_ext::<Fp2<C>>(ctx, name, &ext, &pi, &BigKind::Quad, &elems);
}

fn shipped_fq3<C: Fp3Config>(ctx: &mut Ctx, name: &str) {
    let p = from_limbs(<C::Fp as PrimeField>::MODULUS.as_ref());
    let pi = PrimeInfo::new(&p);
    let big = |x: &C::Fp| from_limbs(x.into_bigint().as_ref());
    let beta = big(&C::NONRESIDUE);
    let third = (&p - 1u32) / 3u32;
    ctx.validate(((&p - 1u32) % 3u32).is_zero() && !beta.modpow(&third, &p).is_one(), &format!("{name}: NONRESIDUE is a non-cube of Fq (precondition of the oracle)"));
    let ext = BigExt::new(&p, 3, &beta);
    let g = big(&<C::Fp as ark_ff::FftField>::GENERATOR);
    // labels follow the CONFIGURED Tonelli-Shanks parameters (bounded simulation; the verdicts do not use them)
    let qm1 = num_traits::pow(p.clone(), 3) - 1u32;
    let s = qm1.trailing_zeros().unwrap() as u32;
    let t = &qm1 >> (s as usize);
    let zeta: BE = ext.from_lib(&C::QUADRATIC_NONRESIDUE_TO_T);
    let mut extra: Vec<BE> = Vec::new();
    // every 2-power root of unity zeta^(2^i) and its product with a square of full degree
    let gen = pi.generic();
    let y: BE = vec![gen.clone(), (&gen + 1u32) % &p, BigUint::from(3u32)];
    let y2 = ext.mul(&y, &y);
    let mut w = zeta.clone();
    for _ in 0..=s.min(64) {
        extra.push(w.clone());
        extra.push(ext.mul(&w, &y2));
        w = ext.mul(&w, &w);
    }
    if s >= 2 {
        // x with x^t = zeta^2: maximal number of rounds
        let two_s = pow2(s as usize);
        let u = modinv(&(&t % &two_s), &two_s).expect("t is odd");
        let xmax = ext.pow(&zeta, &(&u * 2u32).to_u64_digits());
        let odd = ext.pow(&y, &two_s.to_u64_digits()); // t-th power is 1
        extra.push(ext.mul(&xmax, &odd));
        extra.push(xmax);
    }
    let elems = ext_elements(&ext, &pi, &g, extra, ctx.t(2, 3));
    shipped_ext::<Fp3<C>>(ctx, name, &ext, &pi, &BigKind::Ts { s, t: t.to_u64_digits(), zeta }, &elems);
}

// ---------------------------------------------------------------------------------------
// A: shipped towers above Fq2 / Fq3 (Fq4, Fq6 as 2-over-3: `QuadExtField::sqrt` over an extension base whose own
// sqrt is the complex method / multi-limb Tonelli-Shanks; Fq6 as 3-over-2 and Fq12: `legendre` only)
// ---------------------------------------------------------------------------------------

/// generic tower on num-bigint: schoolbook multiplication modulo X^2 - nr / X^3 - nr at every step, elements
/// flattened in the library's `to_base_prime_field_elements` order (c0 block first, recursively)
#[derive(Clone, Debug)]
struct BigTower {
    p: BigUint,
    /// (arity, non-residue of the step as an element of the field below), innermost step first
    steps: Vec<(usize, BE)>,
    /// deg[l] = degree over F_p after l steps
    deg: Vec<usize>,
    euler_exp: Vec<u64>,
}
impl BigTower {
    fn new(p: &BigUint, steps: Vec<(usize, BE)>) -> BigTower {
        let mut deg = vec![1usize];
        for (ar, _) in &steps {
            deg.push(deg.last().unwrap() * ar);
        }
        let q = num_traits::pow(p.clone(), *deg.last().unwrap());
        BigTower { p: p.clone(), steps, deg, euler_exp: ((q - 1u32) >> 1usize).to_u64_digits() }
    }
    fn k(&self) -> usize {
        *self.deg.last().unwrap()
    }
    fn addv(&self, a: &[BigUint], b: &[BigUint]) -> BE {
        a.iter().zip(b).map(|(x, y)| (x + y) % &self.p).collect()
    }
    fn negv(&self, a: &[BigUint]) -> BE {
        a.iter().map(|c| modneg(c, &self.p)).collect()
    }
    fn mul_l(&self, l: usize, a: &[BigUint], b: &[BigUint]) -> BE {
        if l == 0 {
            return vec![(&a[0] * &b[0]) % &self.p];
        }
        let (ar, nr) = &self.steps[l - 1];
        let d = self.deg[l - 1];
        let m = |x: &[BigUint], y: &[BigUint]| self.mul_l(l - 1, x, y);
        let blk = |v: &[BigUint], i: usize| v[i * d..(i + 1) * d].to_vec();
        let mut out: BE = Vec::with_capacity(ar * d);
        if *ar == 2 {
            let (a0, a1, b0, b1) = (blk(a, 0), blk(a, 1), blk(b, 0), blk(b, 1));
            out.extend(self.addv(&m(&a0, &b0), &m(nr, &m(&a1, &b1))));
            out.extend(self.addv(&m(&a0, &b1), &m(&a1, &b0)));
        } else {
            let (a0, a1, a2, b0, b1, b2) = (blk(a, 0), blk(a, 1), blk(a, 2), blk(b, 0), blk(b, 1), blk(b, 2));
            out.extend(self.addv(&m(&a0, &b0), &m(nr, &self.addv(&m(&a1, &b2), &m(&a2, &b1)))));
            out.extend(self.addv(&self.addv(&m(&a0, &b1), &m(&a1, &b0)), &m(nr, &m(&a2, &b2))));
            out.extend(self.addv(&self.addv(&m(&a0, &b2), &m(&a1, &b1)), &m(&a2, &b0)));
        }
        out
    }
    fn zero(&self) -> BE {
        vec![BigUint::zero(); self.k()]
    }
    fn is_zero(&self, a: &BE) -> bool {
        a.iter().all(|c| c.is_zero())
    }
    /// Euler's criterion in the whole tower: 0, 1, -1 (2 = not a field)
    fn euler(&self, a: &BE) -> i8 {
        if self.is_zero(a) {
            return 0;
        }
        let e = self.pow(a, &self.euler_exp);
        if e == self.one() {
            1
        } else if e == self.negv(&self.one()) {
            -1
        } else {
            2
        }
    }
    /// every step's non-residue is a non-square (quadratic step) / non-cube (cubic step) of the field below,
    /// by exponentiation in the model of the field below
    fn steps_irreducible(&self) -> bool {
        for l in 0..self.steps.len() {
            let below = BigTower::new(&self.p, self.steps[..l].to_vec());
            let (ar, nr) = &self.steps[l];
            let qm1 = num_traits::pow(self.p.clone(), self.deg[l]) - 1u32;
            let ar_b = BigUint::from(*ar as u32);
            if !(&qm1 % &ar_b).is_zero() {
                return false;
            }
            let e = below.pow(nr, &(&qm1 / &ar_b).to_u64_digits());
            if e == below.one() {
                return false;
            }
        }
        true
    }
    fn to_lib<F: Field>(&self, a: &BE) -> F {
        F::from_base_prime_field_elems(a.iter().map(|c| F::BasePrimeField::from(c.clone()))).expect("extension degree")
    }
    fn show(&self, a: &BE) -> String {
        format!("({})", a.iter().map(|c| c.to_string()).collect::<Vec<_>>().join(", "))
    }
}
impl Alg for BigTower {
    type El = BE;
    fn one(&self) -> BE {
        let mut v = self.zero();
        v[0] = BigUint::one();
        v
    }
    fn mul(&self, a: &BE, b: &BE) -> BE {
        self.mul_l(self.steps.len(), a, b)
    }
}
fn be_of<F: Field>(f: &F) -> BE {
    f.to_base_prime_field_elements().map(|c| from_limbs(c.into_bigint().as_ref())).collect()
}
fn tower_fq4<C: Fp4Config>() -> BigTower {
    let p = from_limbs(<<C::Fp2Config as Fp2Config>::Fp as PrimeField>::MODULUS.as_ref());
    BigTower::new(&p, vec![(2, be_of(&<C::Fp2Config as Fp2Config>::NONRESIDUE)), (2, be_of(&C::NONRESIDUE))])
}
fn tower_fq6_2over3<C: Fp6qConfig>() -> BigTower {
    let p = from_limbs(<<C::Fp3Config as Fp3Config>::Fp as PrimeField>::MODULUS.as_ref());
    BigTower::new(&p, vec![(3, be_of(&<C::Fp3Config as Fp3Config>::NONRESIDUE)), (2, be_of(&C::NONRESIDUE))])
}
fn tower_fq6_3over2<C: ark_ff::Fp6Config>() -> BigTower {
    let p = from_limbs(<<C::Fp2Config as Fp2Config>::Fp as PrimeField>::MODULUS.as_ref());
    BigTower::new(&p, vec![(2, be_of(&<C::Fp2Config as Fp2Config>::NONRESIDUE)), (3, be_of(&C::NONRESIDUE))])
}
fn tower_fq12<C: ark_ff::Fp12Config>() -> BigTower {
    type C6<C> = <C as ark_ff::Fp12Config>::Fp6Config;
    type C2<C> = <C6<C> as ark_ff::Fp6Config>::Fp2Config;
    let p = from_limbs(<<C2<C> as Fp2Config>::Fp as PrimeField>::MODULUS.as_ref());
    BigTower::new(&p, vec![(2, be_of(&<C2<C> as Fp2Config>::NONRESIDUE)), (3, be_of(&<C6<C> as ark_ff::Fp6Config>::NONRESIDUE)), (2, be_of(&C::NONRESIDUE))])
}

/// how the oracle knows the symbol of a case
#[derive(Clone, Copy, PartialEq, Debug)]
enum Known {
    /// x itself: Euler's criterion x^((q-1)/2) in the tower model
    Euler,
    /// y^2 for a listed y
    Square,
    /// n * y^2 for a listed y != 0 and the non-residue n (validated once with Euler's criterion)
    NonSquare,
}

/// structured elements of a shipped tower: 0, 1, -1, 2, embedded prime-field values, every unit vector ("pure"
/// multiples of the tower generators), generic multiples of some, elements of the subfield below the top step,
/// pure top-generator multiples, fully generic elements
fn tower_structured(tw: &BigTower, g: &BigUint, raw_limit: usize) -> Vec<BE> {
    let p = &tw.p;
    let k = tw.k();
    let d = tw.deg[tw.steps.len() - 1]; // degree of the field below the top step
    let pi = PrimeInfo::new(p);
    let gen = pi.generic();
    let embed = |c: &BigUint| {
        let mut v = tw.zero();
        v[0] = c % p;
        v
    };
    let mut out: Vec<BE> = vec![tw.zero(), tw.one(), tw.negv(&tw.one()), embed(&BigUint::from(2u32)), embed(g), embed(&pi.qnr), embed(&gen), embed(&((p - 1u32) >> 1usize))];
    for j in 1..k {
        let mut v = tw.zero();
        v[j] = BigUint::one();
        out.push(v);
    }
    for j in [1, d, k - 1] {
        let mut v = tw.zero();
        v[j] = gen.clone();
        out.push(v);
    }
    // subfield below the top step: c1 (and c2) = 0, c0 generic
    let mut sub = tw.zero();
    for j in 0..d {
        sub[j] = (&gen * BigUint::from(j as u32 + 2) + BigUint::from(j as u32 + 1)) % p;
    }
    out.push(sub.clone());
    // c0 = 0, c1 generic
    let mut top = tw.zero();
    for j in 0..d {
        top[d + j] = sub[j].clone();
    }
    out.push(top);
    // every coordinate generic; and a second one
    let ge: BE = (0..k).map(|j| (&gen * BigUint::from(j as u32 + 1) + BigUint::from(j as u32)) % p).collect();
    out.push(tw.mul(&ge, &sub));
    out.push(ge);
    let mut seen: Vec<BE> = Vec::new();
    for v in out {
        if !seen.contains(&v) && seen.len() < raw_limit {
            seen.push(v);
        }
    }
    seen
}

/// `has_sqrt`: the tower has a square-root algorithm (quadratic top step over a base with sqrt); otherwise only
/// `legendre` is compared.  `raw_limit`: number of structured elements used.
fn shipped_tower<F: Field>(ctx: &mut Ctx, name: &str, tw: &BigTower, has_sqrt: bool, raw_limit: usize) {
    let k = tw.k();
    ctx.validate(F::extension_degree() as usize == k, &format!("{name}: extension degree {k}"));
    ctx.validate(tw.steps_irreducible(), &format!("{name}: every step's NONRESIDUE is a non-square / non-cube of the field below (precondition of the tower oracle)"));
    let d = tw.deg[tw.steps.len() - 1];
    let g = from_limbs(<F::BasePrimeField as ark_ff::FftField>::GENERATOR.into_bigint().as_ref());
    let raw = tower_structured(tw, &g, raw_limit);
    // a non-residue of the whole tower: first candidate with Euler symbol -1 (top generator, top generator + 1, ...)
    let mut cands: Vec<BE> = Vec::new();
    for c in 0u32..6 {
        let mut v = tw.zero();
        v[d] = BigUint::one();
        v[0] = BigUint::from(c);
        cands.push(v);
    }
    cands.extend(raw.iter().filter(|v| !tw.is_zero(v)).cloned());
    let nonres = cands.into_iter().take(12).find(|c| tw.euler(c) == -1);
    ctx.validate(nonres.is_some(), &format!("{name}: a non-residue of the tower among the fixed candidates (Euler's criterion)"));
    let Some(nonres) = nonres else { return };
    let mut cases: Vec<(BE, Known)> = Vec::new();
    let push = |v: BE, kn: Known, cases: &mut Vec<(BE, Known)>| {
        match cases.iter_mut().find(|c| c.0 == v) {
            // a value known by construction keeps that label
            Some(c) => {
                if c.1 == Known::Euler {
                    c.1 = kn;
                }
            }
            None => cases.push((v, kn)),
        }
    };
    for y in &raw {
        let y2 = tw.mul(y, y);
        push(y2.clone(), Known::Square, &mut cases);
        if !tw.is_zero(y) {
            push(tw.mul(&nonres, &y2), Known::NonSquare, &mut cases);
        }
    }
    for y in &raw {
        push(y.clone(), Known::Euler, &mut cases);
    }
    let oracle_bad = AtomicBool::new(false);
    let field = name;
    ctx.bound(&format!("shipped_tower/{name}"), format!("{} structured elements y (0, 1, -1, 2, embedded prime-field values, pure generator multiples, subfield and top-only elements, generic), y itself (Euler's criterion), y^2 and n*y^2 for the non-residue n = {}: {} cases; {}", raw.len(), tw.show(&nonres), cases.len(), if has_sqrt { "sqrt, sqrt_in_place, legendre" } else { "legendre only (no square-root algorithm)" }));
    ctx.sweep(&format!("shipped_tower/{name}"), cases.len() as u64, |i, loc| {
        let (x, kn) = &cases[i as usize];
        let xf: F = tw.to_lib(x);
        let want_sym: i8 = match kn {
            Known::Square => {
                if tw.is_zero(x) {
                    0
                } else {
                    1
                }
            }
            Known::NonSquare => -1,
            Known::Euler => tw.euler(x),
        };
        if want_sym == 2 {
            oracle_bad.store(true, AO::Relaxed);
            return;
        }
        loc.class(match want_sym {
            0 => "zero",
            1 => "residue",
            _ => "nonresidue",
        });
        loc.class(match kn {
            Known::Euler => "tower:symbol_by_euler_criterion",
            Known::Square => "tower:square_by_construction",
            Known::NonSquare => "tower:nonresidue_times_square",
        });
        loc.class(if has_sqrt { "tower:quadratic_over_extension_base(sqrt)" } else { "tower:shipped_without_sqrt(legendre)" });
        loc.class_if(x[1..].iter().all(|c| c.is_zero()), "ext:embedded_base_field_element");
        let top_c1_zero = x[d..].iter().all(|c| c.is_zero());
        loc.class_if(top_c1_zero, "tower:top_c1=0(subfield_element)");
        loc.class_if(!top_c1_zero && x[..d].iter().all(|c| c.is_zero()), "tower:top_c0=0(pure_generator_multiple)");
        if loc.sampling() {
            loc.sample(format!("{field}: x={} symbol={} ({kn:?})", tw.show(x), sym_name(want_sym)));
        }
        if has_sqrt {
            check_elem::<F>(loc, field, &xf, want_sym, |r| {
                let rb = be_of(r);
                rb.len() == k && rb.iter().all(|c| c < &tw.p) && tw.mul(&rb, &rb) == *x
            }, &|| tw.show(x));
        } else {
            let l = xf.legendre();
            loc.check_at("legendre", sym_code(&l) == want_sym, || format!("{field}: legendre({}) = {l:?}, want {} ({kn:?})", tw.show(x), sym_name(want_sym)));
        }
    });
    ctx.validate(!oracle_bad.load(AO::Relaxed), &format!("shipped_tower/{name}: Euler's criterion gives +-1 in the tower model"));
}

// ---------------------------------------------------------------------------------------
// A: coordinate recovery on shipped curves
// ---------------------------------------------------------------------------------------

fn small_axis(ext: &BigExt, special: &[BE]) -> Vec<BE> {
    let p = &ext.p;
    let mut out: Vec<BE> = Vec::new();
    if ext.k == 1 {
        for c in 0u32..=16 {
            out.push(vec![BigUint::from(c)]);
        }
        out.push(vec![p - 1u32]);
        out.push(vec![p - 2u32]);
        out.push(vec![(p - 1u32) >> 1usize]);
    } else {
        let a = [BigUint::zero(), BigUint::one(), BigUint::from(2u32), BigUint::from(3u32), p - 1u32];
        let n = (a.len() as u64).pow(ext.k as u32);
        for i in 0..n {
            out.push(unrank_vec(i, &vec![a.len() as u64; ext.k]).iter().map(|j| a[*j as usize].clone()).collect());
        }
    }
    for s in special {
        out.push(s.clone());
        let mut s1 = s.clone();
        s1[0] = (&s1[0] + 1u32) % p;
        out.push(s1);
    }
    dedup_sorted(out)
}

fn shipped_sw_recover<P: sw::SWCurveConfig>(ctx: &mut Ctx, name: &str, ext: &BigExt) {
    let a = ext.from_lib(&P::COEFF_A);
    let b = ext.from_lib(&P::COEFF_B);
    let xs = small_axis(ext, &[ext.from_lib(&P::GENERATOR.x)]);
    let oracle_bad = AtomicBool::new(false);
    ctx.sweep(&format!("shipped_sw_recover/{name}"), xs.len() as u64, |i, loc| {
        let x = &xs[i as usize];
        let xf: P::BaseField = ext.to_lib(x);
        let rhs = ext.add(&ext.add(&ext.mul(&ext.mul(x, x), x), &ext.mul(&a, x)), &b);
        let sym = ext.euler(&rhs);
        if sym == 2 {
            oracle_bad.store(true, AO::Relaxed);
            return;
        }
        loc.class_if(ext.k > 1, "recover:extension_base_field");
        loc.class(match sym {
            -1 => "recover:none",
            0 => "recover:double_root",
            _ => "recover:two",
        });
        if loc.sampling() {
            loc.sample(format!("{name}: x={} rhs symbol={}", ext.show(x), sym_name(sym)));
        }
        let got = sw::Affine::<P>::get_ys_from_x_unchecked(xf);
        loc.check_at("get_ys_from_x_unchecked", got.is_some() == (sym >= 0), || format!("{name}: x={}: got {got:?}, x^3+ax+b is {}", ext.show(x), if sym >= 0 { "a square" } else { "a non-square" }));
        if let Some((y1, y2)) = got {
            let (m1, m2) = (ext.from_lib(&y1), ext.from_lib(&y2));
            loc.check_at("get_ys_from_x_unchecked", ext.mul(&m1, &m1) == rhs && m2 == ext.neg(&m1), || format!("{name}: x={}: ({}, {}) are not the two roots of x^3+ax+b={}", ext.show(x), ext.show(&m1), ext.show(&m2), ext.show(&rhs)));
            loc.check_at("get_ys_from_x_unchecked", ext.ord_key(&m1) <= ext.ord_key(&m2), || format!("{name}: x={}: ({}, {}) not in lexicographic order", ext.show(x), ext.show(&m1), ext.show(&m2)));
            for greatest in [false, true] {
                let pt = sw::Affine::<P>::get_point_from_x_unchecked(xf, greatest);
                let wy = if greatest { y2 } else { y1 };
                loc.check_at("get_point_from_x_unchecked", matches!(pt, Some(q) if q.x == xf && q.y == wy && !q.infinity), || format!("{name}: x={} greatest={greatest}: got {pt:?}", ext.show(x)));
            }
        } else {
            for greatest in [false, true] {
                let pt = sw::Affine::<P>::get_point_from_x_unchecked(xf, greatest);
                loc.check_at("get_point_from_x_unchecked", pt.is_none() == (sym < 0), || format!("{name}: x={} greatest={greatest}: got {pt:?}", ext.show(x)));
            }
        }
    });
    ctx.validate(!oracle_bad.load(AO::Relaxed), &format!("shipped_sw_recover/{name}: the base-field model is a field (Euler's criterion gives +-1)"));
}

fn shipped_te_recover<P: te::TECurveConfig>(ctx: &mut Ctx, name: &str)
where
    P::BaseField: PrimeField,
{
    let p = from_limbs(<P::BaseField as PrimeField>::MODULUS.as_ref());
    let pi = PrimeInfo::new(&p);
    let ext = &pi.f;
    let a = ext.from_lib(&P::COEFF_A)[0].clone();
    let d = ext.from_lib(&P::COEFF_D)[0].clone();
    let mut ys = small_axis(ext, &[ext.from_lib(&P::GENERATOR.y)]);
    // the y with a - d y^2 = 0, when a/d is a square
    let a_over_d = &a * modinv(&d, &p).expect("d != 0") % &p;
    if let Some(y0) = pi.sqrt(&a_over_d) {
        ys.push(vec![modneg(&y0, &p)]);
        ys.push(vec![y0]);
        ys = dedup_sorted(ys);
    }
    let oracle_bad = AtomicBool::new(false);
    ctx.sweep(&format!("shipped_te_recover/{name}"), ys.len() as u64, |i, loc| {
        let y = &ys[i as usize][0];
        let yf = P::BaseField::from(y.clone());
        let y2 = y * y % &p;
        let num = modsub(&BigUint::one(), &y2, &p);
        let den = modsub(&a, &(&d * &y2 % &p), &p);
        // x^2 (a - d y^2) = 1 - y^2
        let x2: Option<BigUint> = if den.is_zero() {
            if num.is_zero() {
                oracle_bad.store(true, AO::Relaxed); // a = d: not a twisted Edwards curve
                return;
            }
            loc.class("te:denominator_zero");
            None
        } else {
            Some(num * modinv(&den, &p).unwrap() % &p)
        };
        let sym = match &x2 {
            None => -1,
            Some(v) => pi.f.euler(&vec![v.clone()]),
        };
        loc.class(match sym {
            -1 => "recover:none",
            0 => "recover:double_root",
            _ => "recover:two",
        });
        if loc.sampling() {
            loc.sample(format!("{name}: y={y} x^2={x2:?}"));
        }
        let got = te::Affine::<P>::get_xs_from_y_unchecked(yf);
        loc.check_at("get_xs_from_y_unchecked", got.is_some() == (sym >= 0), || format!("{name}: y={y}: got {got:?}, x^2 = {x2:?}"));
        if let Some((x1, x2f)) = got {
            let (m1, m2) = (ext.from_lib(&x1)[0].clone(), ext.from_lib(&x2f)[0].clone());
            let want = x2.clone().unwrap_or_default();
            loc.check_at("get_xs_from_y_unchecked", &m1 * &m1 % &p == want && m2 == modneg(&m1, &p) && m1 <= m2, || format!("{name}: y={y}: got ({m1}, {m2}); want the two roots of {want}, smaller integer first"));
            for greatest in [false, true] {
                let pt = te::Affine::<P>::get_point_from_y_unchecked(yf, greatest);
                let wx = if greatest { x2f } else { x1 };
                loc.check_at("get_point_from_y_unchecked", matches!(pt, Some(q) if q.x == wx && q.y == yf), || format!("{name}: y={y} greatest={greatest}: got {pt:?}"));
            }
        } else {
            for greatest in [false, true] {
                let pt = te::Affine::<P>::get_point_from_y_unchecked(yf, greatest);
                loc.check_at("get_point_from_y_unchecked", pt.is_none() == (sym < 0), || format!("{name}: y={y} greatest={greatest}: got {pt:?}"));
            }
        }
    });
    ctx.validate(!oracle_bad.load(AO::Relaxed), &format!("shipped_te_recover/{name}: a != d"));
}

// ---------------------------------------------------------------------------------------

macro_rules! tiny {
    ($F:ty, $n:expr, $name:expr, $ctx:expr) => {
        toy_prime::<$F>($ctx, $name);
    };
}
macro_rules! shipped {
    ($F:ty, $name:expr, $ctx:expr, $seen:expr) => {
        shipped_prime::<$F>($ctx, "shipped_prime", $name, $seen);
    };
}
macro_rules! bigtoy {
    ($F:ty, $n:expr, $name:expr, $ctx:expr, $seen:expr) => {
        shipped_prime::<$F>($ctx, "big_toy_prime", $name, $seen);
    };
}
macro_rules! tw2 {
    ($C:ty, $name:expr, $p:expr, $ctx:expr) => {
        toy_fp2_run::<$C>($ctx, $name);
    };
}
macro_rules! tw3 {
    ($C:ty, $name:expr, $p:expr, $ctx:expr) => {
        toy_fp3_run::<$C>($ctx, $name);
    };
}
macro_rules! tw4 {
    ($C:ty, $name:expr, $p:expr, $ctx:expr) => {
        toy_fp4_run::<$C>($ctx, $name);
    };
}
macro_rules! tw6 {
    ($C:ty, $name:expr, $p:expr, $ctx:expr) => {
        if $p <= 7 || $ctx.thorough() {
            toy_fp6_run::<$C>($ctx, $name);
        }
    };
}
/// Towers WITHOUT a square-root algorithm (Fp6 as a cubic over Fp2, Fp12 over it) still expose `legendre`
/// (generic, through the norm down the tower): every element of the toy Fp6_3over2 and a structured
/// sub-universe of the toy Fp12 against Euler's criterion x^((q-1)/2), evaluated with the field's own
/// square-and-multiply `pow` (multiplication in the towers is property C02's subject).
fn legendre_vs_euler<F: Field>(ctx: &mut Ctx, name: &str, p: u64, deg: usize, all: bool) {
    let q = (p as u128).pow(deg as u32);
    let e = ((q - 1) / 2) as u64;
    let alpha: Vec<u64> = if all { (0..p).collect() } else { vec![0, 1, p - 1] };
    let na = alpha.len() as u64;
    let total = na.pow(deg as u32);
    ctx.sweep(&format!("legendre_no_sqrt_tower/{name}"), total, |i, loc| {
        let d = unrank_vec(i, &vec![na; deg]);
        let x = F::from_base_prime_field_elems(d.iter().map(|k| F::BasePrimeField::from(alpha[*k as usize]))).unwrap();
        let euler = x.pow([e]);
        let want: i8 = if x.is_zero() {
            0
        } else if euler.is_one() {
            1
        } else {
            -1
        };
        if !x.is_zero() && !euler.is_one() {
            loc.check_at("euler_is_pm1", (euler + F::one()).is_zero(), || format!("{name}: x^((q-1)/2) is neither 1 nor -1 for x = {x}"));
        }
        loc.class(if want == 1 { "residue" } else if want == -1 { "nonresidue" } else { "zero" });
        loc.class("legendre:tower_without_sqrt");
        // element of a proper subfield embedded at the bottom (higher coordinates zero)
        loc.class_if(d[1..].iter().all(|k| alpha[*k as usize] == 0), "legendre:base_prime_field_element_in_tower");
        let l = x.legendre();
        loc.check_at("legendre", sym_code(&l) == want, || format!("{name}: legendre({x}) = {l:?}, want {} = x^((q-1)/2)", sym_name(want)));
        if loc.sampling() {
            loc.sample(format!("{name}: legendre({x})"));
        }
    });
}
macro_rules! tw6c {
    ($C:ty, $name:expr, $p:expr, $ctx:expr) => {
        if $p <= 7 || $ctx.thorough() {
            legendre_vs_euler::<ark_ff::Fp6<$C>>($ctx, $name, $p, 6, true);
        } else {
            legendre_vs_euler::<ark_ff::Fp6<$C>>($ctx, $name, $p, 6, false);
        }
    };
}
macro_rules! tw12 {
    ($C:ty, $name:expr, $p:expr, $ctx:expr) => {
        legendre_vs_euler::<ark_ff::Fp12<$C>>($ctx, $name, $p, 12, false);
    };
}
macro_rules! swc {
    ($P:ty, $name:expr, $ctx:expr) => {
        toy_sw_recover::<$P>($ctx, $name);
    };
}
macro_rules! tec {
    ($P:ty, $name:expr, $ctx:expr) => {
        toy_te_recover::<$P>($ctx, $name);
    };
}

fn prime_ext<F: PrimeField>() -> BigExt {
    BigExt::new(&from_limbs(F::MODULUS.as_ref()), 1, &BigUint::zero())
}

fn main() {
    let mut ctx = Ctx::from_args("C11");
    ctx.require(&["legendre:tower_without_sqrt", "legendre:base_prime_field_element_in_tower", 
        "zero",
        "residue",
        "nonresidue",
        "ts:max_rounds",
        "ts:early_exit_none",
        "ts:rounds=0",
        "ts:intermediate_rounds",
        "3mod4",
        "quad:c1=0∧c0_qr",
        "quad:c1=0∧c0_qnr",
        "quad:c1=0∧c0_zero",
        "quad:delta_qnr_branch",
        "quad:delta_qnr_branch(other_root)",
        "quad:norm_qnr_none",
        "ext:embedded_base_field_element",
        "recover:none",
        "recover:two",
        "recover:double_root",
        "recover:base_3mod4",
        "recover:base_tonelli_shanks",
        "te:denominator_zero",
        "tower:quadratic_over_extension_base(sqrt)",
        "tower:shipped_without_sqrt(legendre)",
        "tower:square_by_construction",
        "tower:nonresidue_times_square",
        "tower:symbol_by_euler_criterion",
        "tower:top_c1=0(subfield_element)",
        "tower:top_c0=0(pure_generator_multiple)",
        "recover:extension_base_field",
    ]);
    ctx.assume("oracle (toy): u64 arithmetic of F_p[X]/(X^k - beta); squares = enumerated set {y^2}; Legendre symbol = x^((q-1)/2) by square-and-multiply on the model; reported roots are squared by the model");
    ctx.assume("oracle (shipped): num-bigint; Euler's criterion by modpow / schoolbook F_p[X]/(X^k - beta) exponentiation; reported roots are squared in num-bigint; conversions F::from(integer) / into_bigint are trusted (C01)");
    ctx.assume("branch classes are computed by running textbook Tonelli-Shanks / the norm equation on the model with the configured 2-adic root; quad:delta_qnr_branch is stated for the smaller root alpha of the norm, quad:delta_qnr_branch(other_root) for the larger one: the library is free to use either root, and every toy quadratic field is checked to contain a norm value with cases in both classes, so both outcomes of the delta test are executed whichever root is used");
    ctx.assume("documented order of coordinate recovery: smaller element first, prime fields compared as integers (short_weierstrass/affine.rs 'sorted as integers'), quadratic extensions lexicographically with c1 most significant; `greatest` selects the second");
    ctx.bound("toy_prime", "all elements of every tiny prime field (p = 3 .. 65537, 2-adicity 1..16), derived and hand-written configs");
    ctx.bound("toy_fp2", if ctx.quick() { "all p^2 elements, p in {3,7,11,19,31,43 (beta=-1), 5,13,17,29,97,193,257,769}" } else { "all p^2 elements, p in {3,7,11,19,31,43 (beta=-1), 5,13,17,29,97,193,257,769,7681}" });
    ctx.bound("toy_fp3", "all p^3 elements, (p,beta) in {(7,3),(7,2),(13,2),(19,2),(31,3),(37,2),(43,3),(97,5)}");
    ctx.bound("toy_fp4", "all p^4 elements, p in {5,13,17,29} (NONRESIDUE=(0,1) forces p = 1 mod 4)");
    ctx.bound("toy_fp6_2over3", if ctx.quick() { "all 7^6 elements" } else { "all p^6 elements, p in {7,13}" });
    ctx.bound("toy_curves", "every x (SW) / y (TE) of the base field of all 16 + 5 toy curves, both values of `greatest`");
    ctx.assume("oracle (shipped towers above Fq2/Fq3): schoolbook tower arithmetic on num-bigint (every step's non-residue validated as a non-square / non-cube of the field below); symbol known by construction for y^2 and n*y^2 (n: a tower element whose Euler symbol x^((q-1)/2) = -1 was computed once in the model), Euler's criterion in the model for the structured y themselves; reported roots are squared in the model");
    ctx.bound("big_toy_prime", "same alphabet as shipped prime fields on the big toy moduli of gen_fields (M61 .. X13, Goldilocks, 2^255-19), derived and hand-written");
    ctx.bound("shipped", "alphabet {0,1,2,3,4,p-1,p-2,(p+-1)/2,g,g^2,generic,qnr, omega_i, omega_i*g, omega_i*4 (i<=s)} with squares and qnr-multiples, plus inputs with t-th power zeta^2; Fq2: {0,1,-1,2,g}^2; Fq3: {0,1,-1,2,g}^3 (quick: at most 2 non-zero coordinates); their squares, embedded base alphabet, a generic element with its square and cube, 2-power roots of unity and products with a generic square, inputs with t-th power zeta^2");

    // E: prime fields
    algebra_mc::tiny_fields_derived!(tiny, &mut ctx);
    algebra_mc::tiny_fields_hand!(tiny, &mut ctx);

    // E: towers
    algebra_mc::toy_fp2_towers!(tw2, &mut ctx);
    toy_fp2_run::<F2P3Cfg>(&mut ctx, "F2P3");
    toy_fp2_run::<F2P97Cfg>(&mut ctx, "F2P97");
    toy_fp2_run::<F2P193Cfg>(&mut ctx, "F2P193");
    toy_fp2_run::<F2P257Cfg>(&mut ctx, "F2P257");
    toy_fp2_run::<F2P769Cfg>(&mut ctx, "F2P769");
    if ctx.thorough() {
        toy_fp2_run::<F2P7681Cfg>(&mut ctx, "F2P7681");
    }
    algebra_mc::toy_fp3_towers!(tw3, &mut ctx);
    toy_fp3_run::<F3P31B3Cfg>(&mut ctx, "F3P31B3");
    toy_fp3_run::<F3P37B2Cfg>(&mut ctx, "F3P37B2");
    toy_fp3_run::<F3P43B3Cfg>(&mut ctx, "F3P43B3");
    toy_fp3_run::<F3P97B5Cfg>(&mut ctx, "F3P97B5");
    algebra_mc::toy_fp4_towers!(tw4, &mut ctx);
    toy_fp4_run::<F4P29Cfg>(&mut ctx, "F4P29");
    // Fp6 = Fp3[v]/(v^2 - u) (fp6_2over3: quadratic template over a Tonelli-Shanks cubic base); 13^6 elements: thorough only
    algebra_mc::toy_fp6_2over3_towers!(tw6, &mut ctx);
    algebra_mc::toy_fp6_3over2_towers!(tw6c, &mut ctx);
    algebra_mc::toy_fp12_towers!(tw12, &mut ctx);

    // E: coordinate recovery
    algebra_mc::toy_sw_curves!(swc, &mut ctx);
    algebra_mc::toy_te_curves!(tec, &mut ctx);

    // A: shipped prime fields, and the big toy moduli (1..13 limbs, with / without spare bit, derived and hand-written)
    let mut seen: BTreeSet<TypeId> = BTreeSet::new();
    algebra_mc::big_fields_derived!(bigtoy, &mut ctx, &mut seen);
    algebra_mc::big_fields_hand!(bigtoy, &mut ctx, &mut seen);
    algebra_mc::shipped_prime_fields!(shipped, &mut ctx, &mut seen);

    // A: shipped Fq2 / Fq3
    shipped_fq2::<ark_bls12_377::Fq2Config>(&mut ctx, "bls12_377::Fq2");
    shipped_fq2::<ark_bls12_381::Fq2Config>(&mut ctx, "bls12_381::Fq2");
    shipped_fq2::<ark_bn254::Fq2Config>(&mut ctx, "bn254::Fq2");
    shipped_fq2::<ark_mnt4_298::Fq2Config>(&mut ctx, "mnt4_298::Fq2");
    shipped_fq2::<ark_mnt4_753::Fq2Config>(&mut ctx, "mnt4_753::Fq2");
    shipped_fq3::<ark_mnt6_298::Fq3Config>(&mut ctx, "mnt6_298::Fq3");
    shipped_fq3::<ark_mnt6_753::Fq3Config>(&mut ctx, "mnt6_753::Fq3");
    shipped_fq3::<ark_bw6_761::Fq3Config>(&mut ctx, "bw6_761::Fq3");
    shipped_fq3::<ark_bw6_767::Fq3Config>(&mut ctx, "bw6_767::Fq3");
    shipped_fq3::<ark_cp6_782::Fq3Config>(&mut ctx, "cp6_782::Fq3");
    if ctx.thorough() {
        // ark-test-curves carries its own copies of these two configurations (same parameters, separate source files)
        shipped_fq2::<ark_test_curves::bls12_381::Fq2Config>(&mut ctx, "test::bls12_381::Fq2");
        shipped_fq3::<ark_test_curves::mnt6_753::Fq3Config>(&mut ctx, "test::mnt6_753::Fq3");
    }
    // A: Fp2 over big toy moduli whose top limb has no spare bit (64-bit p = 1 mod 4; 192- and 256-bit p = 3 mod 4)
    for (p, top_bit) in [
        (from_limbs(<DP64 as PrimeField>::MODULUS.as_ref()), 64u64),
        (from_limbs(<DX3 as PrimeField>::MODULUS.as_ref()), 192),
        (from_limbs(<DX4 as PrimeField>::MODULUS.as_ref()), 256),
    ] {
        ctx.validate(p.bits() == top_bit, &format!("toy modulus of {top_bit} bits has the top bit of its top limb set"));
    }
    shipped_fq2::<F2P64Cfg>(&mut ctx, "toy::Fp2_over_DP64(no_spare_bit)");
    shipped_fq2::<F2X3Cfg>(&mut ctx, "toy::Fp2_over_DX3(no_spare_bit)");
    shipped_fq2::<F2X4Cfg>(&mut ctx, "toy::Fp2_over_DX4(no_spare_bit)");

    // A: shipped towers above Fq2 / Fq3
    shipped_tower::<ark_mnt4_298::Fq4>(&mut ctx, "mnt4_298::Fq4", &tower_fq4::<ark_mnt4_298::Fq4Config>(), true, 64);
    shipped_tower::<ark_mnt6_298::Fq6>(&mut ctx, "mnt6_298::Fq6", &tower_fq6_2over3::<ark_mnt6_298::Fq6Config>(), true, 64);
    shipped_tower::<ark_bw6_761::Fq6>(&mut ctx, "bw6_761::Fq6", &tower_fq6_2over3::<ark_bw6_761::Fq6Config>(), true, 64);
    shipped_tower::<ark_bls12_381::Fq6>(&mut ctx, "bls12_381::Fq6(3over2)", &tower_fq6_3over2::<ark_bls12_381::Fq6Config>(), false, 64);
    let lim12 = ctx.t(12, 64);
    shipped_tower::<ark_bls12_381::Fq12>(&mut ctx, "bls12_381::Fq12", &tower_fq12::<ark_bls12_381::Fq12Config>(), false, lim12);
    if ctx.thorough() {
        shipped_tower::<ark_mnt4_753::Fq4>(&mut ctx, "mnt4_753::Fq4", &tower_fq4::<ark_mnt4_753::Fq4Config>(), true, 64);
        shipped_tower::<ark_mnt6_753::Fq6>(&mut ctx, "mnt6_753::Fq6", &tower_fq6_2over3::<ark_mnt6_753::Fq6Config>(), true, 64);
        shipped_tower::<ark_bw6_767::Fq6>(&mut ctx, "bw6_767::Fq6", &tower_fq6_2over3::<ark_bw6_767::Fq6Config>(), true, 64);
        shipped_tower::<ark_cp6_782::Fq6>(&mut ctx, "cp6_782::Fq6", &tower_fq6_2over3::<ark_cp6_782::Fq6Config>(), true, 64);
        shipped_tower::<ark_bn254::Fq6>(&mut ctx, "bn254::Fq6(3over2)", &tower_fq6_3over2::<ark_bn254::Fq6Config>(), false, 64);
        shipped_tower::<ark_bn254::Fq12>(&mut ctx, "bn254::Fq12", &tower_fq12::<ark_bn254::Fq12Config>(), false, 64);
        shipped_tower::<ark_bls12_377::Fq6>(&mut ctx, "bls12_377::Fq6(3over2)", &tower_fq6_3over2::<ark_bls12_377::Fq6Config>(), false, 64);
        shipped_tower::<ark_bls12_377::Fq12>(&mut ctx, "bls12_377::Fq12", &tower_fq12::<ark_bls12_377::Fq12Config>(), false, 64);
    }

    // A: coordinate recovery on shipped curves
    shipped_sw_recover::<ark_bls12_381::g1::Config>(&mut ctx, "bls12_381::g1", &prime_ext::<ark_bls12_381::Fq>());
    shipped_sw_recover::<ark_bn254::g1::Config>(&mut ctx, "bn254::g1", &prime_ext::<ark_bn254::Fq>());
    shipped_sw_recover::<ark_secp256k1::Config>(&mut ctx, "secp256k1", &prime_ext::<ark_secp256k1::Fq>());
    shipped_sw_recover::<ark_ed_on_bls12_381_bandersnatch::BandersnatchConfig>(&mut ctx, "bandersnatch(sw)", &prime_ext::<ark_ed_on_bls12_381_bandersnatch::Fq>());
    {
        let p = from_limbs(<ark_bls12_381::Fq as PrimeField>::MODULUS.as_ref());
        let beta = from_limbs(<ark_bls12_381::Fq2Config as Fp2Config>::NONRESIDUE.into_bigint().as_ref());
        shipped_sw_recover::<ark_bls12_381::g2::Config>(&mut ctx, "bls12_381::g2", &BigExt::new(&p, 2, &beta));
    }
    {
        let fq2 = |p: &[u64], beta: BigUint| BigExt::new(&from_limbs(p), 2, &beta);
        let big = |l: &[u64]| from_limbs(l);
        shipped_sw_recover::<ark_bn254::g2::Config>(&mut ctx, "bn254::g2", &fq2(<ark_bn254::Fq as PrimeField>::MODULUS.as_ref(), big(<ark_bn254::Fq2Config as Fp2Config>::NONRESIDUE.into_bigint().as_ref())));
        shipped_sw_recover::<ark_bls12_377::g2::Config>(&mut ctx, "bls12_377::g2", &fq2(<ark_bls12_377::Fq as PrimeField>::MODULUS.as_ref(), big(<ark_bls12_377::Fq2Config as Fp2Config>::NONRESIDUE.into_bigint().as_ref())));
        shipped_sw_recover::<ark_mnt4_298::g2::Config>(&mut ctx, "mnt4_298::g2", &fq2(<ark_mnt4_298::Fq as PrimeField>::MODULUS.as_ref(), big(<ark_mnt4_298::Fq2Config as Fp2Config>::NONRESIDUE.into_bigint().as_ref())));
        // cubic base field: the two roots are ordered through CubicExtField::cmp
        let p6 = from_limbs(<ark_mnt6_298::Fq as PrimeField>::MODULUS.as_ref());
        let beta6 = big(<ark_mnt6_298::Fq3Config as Fp3Config>::NONRESIDUE.into_bigint().as_ref());
        shipped_sw_recover::<ark_mnt6_298::g2::Config>(&mut ctx, "mnt6_298::g2", &BigExt::new(&p6, 3, &beta6));
    }
    shipped_te_recover::<ark_ed_on_bls12_381::JubjubConfig>(&mut ctx, "ed_on_bls12_381");
    shipped_te_recover::<ark_ed_on_bls12_381_bandersnatch::BandersnatchConfig>(&mut ctx, "bandersnatch(te)");
    shipped_te_recover::<ark_ed25519::EdwardsConfig>(&mut ctx, "ed25519");

    std::process::exit(ctx.finish());
}
