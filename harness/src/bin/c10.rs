//! C10 - checked deserialization only yields valid group elements and never panics.
//!
//! Oracle: the byte-level format model of C09 (u64 / num-bigint) decodes every input string and
//! classifies it (truncated, illegal flags, integer >= p, no square root, off the curve, outside the
//! subgroup, infinity flag with junk, valid); validity of a returned point is decided by the
//! brute-force toy group (toycurve) resp. by the textbook affine law + plain double-and-add with r
//! written here (never by the curve's own, possibly overridden, subgroup test or scalar mul).
#![allow(clippy::all)]
#![allow(dead_code)]
use algebra_mc::core::*;
use algebra_mc::fpaccess::FpAccess;
use algebra_mc::refmodel::curve::{GroupTable, Pt, SwModel};
use algebra_mc::refmodel::fieldmodel::{prime_to_u64, FieldModel, Fp2Model};
use algebra_mc::refmodel::zmod::*;
use algebra_mc::toy::gen_fields::*;
use algebra_mc::toy::gen_towers::{T13Fq2, T5Fq2, T7Fq2};
use algebra_mc::toycurve::{SwToy, TeToy};
use ark_ec::pairing::{Pairing, PairingOutput};
use ark_ec::short_weierstrass::{self as sw, SWCurveConfig, SWFlags};
use ark_ec::twisted_edwards::{self as te, TECurveConfig, TEFlags};
use ark_ec::{AffineRepr, CurveConfig, CurveGroup};
use ark_ff::{AdditiveGroup, BigInteger, Field, Fp2, Fp2Config, Fp3, Fp3Config, MontFp, One, PrimeField, Zero};
use ark_serialize::{
    CanonicalDeserialize, CanonicalDeserializeWithFlags, CanonicalSerialize, CanonicalSerializeWithFlags, Compress, EmptyFlags, Flags, Valid, Validate,
};
use num_bigint::BigUint;
use num_traits::{One as NOne, Zero as NZero};
use std::panic::{catch_unwind, AssertUnwindSafe};

// ------------------------------------------------------------------------------------------
// helpers
// ------------------------------------------------------------------------------------------
fn hex(b: &[u8]) -> String {
    let mut s = String::with_capacity(2 * b.len());
    for x in b {
        s.push_str(&format!("{x:02x}"));
    }
    s
}

/// hex, abbreviated in the middle for long strings
fn hexs(b: &[u8]) -> String {
    if b.len() <= 100 {
        hex(b)
    } else {
        format!("{}..[{} bytes]..{}", hex(&b[..8]), b.len(), hex(&b[b.len() - 40..]))
    }
}

/// reader that counts the bytes handed out
struct CountReader<'a> {
    data: &'a [u8],
    pos: usize,
}
impl<'a> CountReader<'a> {
    fn new(data: &'a [u8]) -> Self {
        CountReader { data, pos: 0 }
    }
}
impl<'a> std::io::Read for CountReader<'a> {
    fn read(&mut self, buf: &mut [u8]) -> std::io::Result<usize> {
        let n = buf.len().min(self.data.len() - self.pos);
        buf[..n].copy_from_slice(&self.data[self.pos..self.pos + n]);
        self.pos += n;
        Ok(n)
    }
}

const MODES: [(Compress, Validate); 4] = [(Compress::Yes, Validate::Yes), (Compress::Yes, Validate::No), (Compress::No, Validate::Yes), (Compress::No, Validate::No)];
fn mode_name(m: usize) -> &'static str {
    ["compressed/checked", "compressed/unchecked", "uncompressed/checked", "uncompressed/unchecked"][m]
}
const SPARE: [&str; 8] = ["spare_bits_0", "spare_bits_1", "spare_bits_2", "spare_bits_3", "spare_bits_4", "spare_bits_5", "spare_bits_6", "spare_bits_7"];


/// the model's view of a flag type (independent of `u8_bitmask` / `from_u8`)
trait TestFlag: Flags + Send + Sync + 'static {
    const NAME: &'static str;
    /// number of flag bits according to the model
    const NB: usize;
    /// the flag denoted by this pattern of the top NB bits of the last byte (lower bits are zero)
    fn of_mask(m: u8) -> Option<Self>;
    /// the bits this flag contributes to the last byte
    fn mask(&self) -> u8;
    /// every pattern of the top NB bits (legal or not) used by the alphabet sweeps
    fn raw_masks() -> Vec<u8> {
        if Self::NB == 0 {
            vec![0]
        } else if Self::NB <= 3 {
            (0..(1u16 << Self::NB)).map(|k| (k << (8 - Self::NB)) as u8).collect()
        } else {
            vec![0, 1, 0x80, 0xa5, 0xfe, 0xff]
        }
    }
    fn all() -> Vec<Self> {
        let step = if Self::NB == 0 { 256 } else { 1usize << (8 - Self::NB) };
        (0..256usize).step_by(step).filter_map(|m| Self::of_mask(m as u8)).collect()
    }
}
fn topmask(nb: usize) -> u8 {
    if nb == 0 {
        0
    } else {
        (0xffu16 << (8 - nb)) as u8
    }
}
impl TestFlag for EmptyFlags {
    const NAME: &'static str = "EmptyFlags";
    const NB: usize = 0;
    fn of_mask(_: u8) -> Option<Self> {
        Some(EmptyFlags)
    }
    fn mask(&self) -> u8 {
        0
    }
}
impl TestFlag for SWFlags {
    const NAME: &'static str = "SWFlags";
    const NB: usize = 2;
    fn of_mask(m: u8) -> Option<Self> {
        match m {
            0x00 => Some(SWFlags::YIsPositive),
            0x40 => Some(SWFlags::PointAtInfinity),
            0x80 => Some(SWFlags::YIsNegative),
            _ => None,
        }
    }
    fn mask(&self) -> u8 {
        match self {
            SWFlags::YIsPositive => 0,
            SWFlags::PointAtInfinity => 0x40,
            SWFlags::YIsNegative => 0x80,
        }
    }
}
impl TestFlag for TEFlags {
    const NAME: &'static str = "TEFlags";
    const NB: usize = 1;
    fn of_mask(m: u8) -> Option<Self> {
        match m {
            0x00 => Some(TEFlags::XIsPositive),
            0x80 => Some(TEFlags::XIsNegative),
            _ => None,
        }
    }
    fn mask(&self) -> u8 {
        match self {
            TEFlags::XIsPositive => 0,
            TEFlags::XIsNegative => 0x80,
        }
    }
}

// ------------------------------------------------------------------------------------------
// toy extension fields (serialization does not use the Frobenius / sqrt constants; they are
// validated anyway)
// ------------------------------------------------------------------------------------------
macro_rules! toy_fp2 {
    ($cfg:ident, $ty:ident, $f:ty, $minus1:expr) => {
        pub struct $cfg;
        impl Fp2Config for $cfg {
            type Fp = $f;
            const NONRESIDUE: $f = MontFp!($minus1);
            const FROBENIUS_COEFF_FP2_C1: &'static [$f] = &[MontFp!("1"), MontFp!($minus1)];
        }
        pub type $ty = Fp2<$cfg>;
    };
}
toy_fp2!(F7x2Cfg, F7x2, D7, "6");
toy_fp2!(F251x2Cfg, F251x2, D251, "250");
toy_fp2!(F2039x2Cfg, F2039x2, D2039, "2038");

pub struct F7x3Cfg;
impl Fp3Config for F7x3Cfg {
    type Fp = D7;
    const NONRESIDUE: D7 = MontFp!("2");
    const TWO_ADICITY: u32 = 1;
    const TRACE_MINUS_ONE_DIV_TWO: &'static [u64] = &[85];
    const QUADRATIC_NONRESIDUE_TO_T: Fp3<Self> = Fp3::new(MontFp!("6"), MontFp!("0"), MontFp!("0"));
    const FROBENIUS_COEFF_FP3_C1: &'static [D7] = &[MontFp!("1"), MontFp!("4"), MontFp!("2")];
    const FROBENIUS_COEFF_FP3_C2: &'static [D7] = &[MontFp!("1"), MontFp!("2"), MontFp!("4")];
}
pub type F7x3 = Fp3<F7x3Cfg>;
pub struct F61x3Cfg;
impl Fp3Config for F61x3Cfg {
    type Fp = D61;
    const NONRESIDUE: D61 = MontFp!("2");
    const TWO_ADICITY: u32 = 2;
    const TRACE_MINUS_ONE_DIV_TWO: &'static [u64] = &[28372];
    const QUADRATIC_NONRESIDUE_TO_T: Fp3<Self> = Fp3::new(MontFp!("50"), MontFp!("0"), MontFp!("0"));
    const FROBENIUS_COEFF_FP3_C1: &'static [D61] = &[MontFp!("1"), MontFp!("47"), MontFp!("13")];
    const FROBENIUS_COEFF_FP3_C2: &'static [D61] = &[MontFp!("1"), MontFp!("13"), MontFp!("47")];
}
pub type F61x3 = Fp3<F61x3Cfg>;

fn powmod(mut b: u64, mut e: u64, p: u64) -> u64 {
    let mut r = 1u64;
    b %= p;
    while e > 0 {
        if e & 1 == 1 {
            r = r * b % p;
        }
        b = b * b % p;
        e >>= 1;
    }
    r
}
fn validate_toy_towers(ctx: &mut Ctx) {
    // Fp2: beta = -1 is a non-residue iff p = 3 mod 4; Frobenius coefficient beta^((p-1)/2) = -1
    for p in [7u64, 251, 2039] {
        ctx.validate(is_prime_small(p) && p % 4 == 3 && powmod(p - 1, (p - 1) / 2, p) == p - 1, &format!("toy Fp2 over F_{p}: -1 is a non-residue"));
    }
    // Fp3 over F_7 and F_61 with beta = 2
    for (p, c1, c2, s, tm1d2, qnr_t) in [(7u64, [1u64, 4, 2], [1u64, 2, 4], 1u32, 85u64, 6u64), (61, [1, 47, 13], [1, 13, 47], 2, 28372, 50)] {
        let q3 = p * p * p - 1;
        let ok_nr = p % 3 == 1 && powmod(2, (p - 1) / 3, p) != 1;
        let e1 = (p - 1) / 3;
        let e2 = (p * p - 1) / 3;
        let ok_c1 = c1 == [1, powmod(2, e1, p), powmod(2, e2 % (p - 1), p)];
        let ok_c2 = c2 == [1, powmod(2, 2 * e1, p), powmod(2, (2 * e2) % (p - 1), p)];
        let t = q3 >> s;
        let ok_t = q3 % (1 << s) == 0 && t % 2 == 1 && (t - 1) / 2 == tm1d2;
        // a quadratic non-residue of F_p stays one in the cubic extension; its t-th power lies in F_p
        let g = (2..p).find(|g| powmod(*g, (p - 1) / 2, p) == p - 1).unwrap();
        let ok_q = powmod(g, t % (p - 1), p) == qnr_t;
        ctx.validate(ok_nr && ok_c1 && ok_c2 && ok_t && ok_q, &format!("toy Fp3 over F_{p}: constants ({ok_nr} {ok_c1} {ok_c2} {ok_t} {ok_q})"));
    }
}

// ------------------------------------------------------------------------------------------
// byte-level model on u64 for toy fields F_p^d (p < 2^16, d <= 3)
// ------------------------------------------------------------------------------------------
#[derive(Clone, Copy, Debug)]
struct Small {
    p: u64,
    bits: usize,
    d: usize,
}
#[derive(Clone, Copy, Debug, PartialEq, Eq)]
enum SDec {
    Short,
    BadFlags,
    /// a bit above the modulus bit length (and below the flag bits) is set
    Stray,
    /// some coefficient is an integer in p .. 2^bits
    GeP,
    Ok([u64; 4], u8),
}
impl Small {
    fn new(p: u64, d: usize) -> Small {
        Small { p, bits: 64 - p.leading_zeros() as usize, d }
    }
    fn of<E: Field>() -> Small {
        let m = <E::BasePrimeField as PrimeField>::MODULUS;
        let l = m.as_ref();
        assert!(l[1..].iter().all(|x| *x == 0) && l[0] < 1 << 16);
        Small::new(l[0], E::extension_degree() as usize)
    }
    fn blen(&self) -> usize {
        (self.bits + 7) / 8
    }
    fn llen(&self, nb: usize) -> usize {
        (self.bits + nb + 7) / 8
    }
    fn total(&self, nb: usize) -> usize {
        (self.d - 1) * self.blen() + self.llen(nb)
    }
    fn spare(&self) -> usize {
        (8 - self.bits % 8) % 8
    }
    fn enc(&self, c: &[u64], nb: usize, mask: u8, out: &mut [u8]) -> usize {
        let mut pos = 0;
        for j in 0..self.d {
            let len = if j == self.d - 1 { self.llen(nb) } else { self.blen() };
            for k in 0..len {
                out[pos + k] = (c[j] >> (8 * k)) as u8;
            }
            pos += len;
        }
        out[pos - 1] |= mask;
        pos
    }
    fn dec<Fl: TestFlag>(&self, b: &[u8]) -> SDec {
        let nb = Fl::NB;
        let total = self.total(nb);
        if b.len() < total {
            return SDec::Short;
        }
        let fm = b[total - 1] & topmask(nb);
        if Fl::of_mask(fm).is_none() {
            return SDec::BadFlags;
        }
        let mut c = [0u64; 4];
        let mut pos = 0;
        let (mut stray, mut gep) = (false, false);
        for j in 0..self.d {
            let len = if j == self.d - 1 { self.llen(nb) } else { self.blen() };
            let mut v = 0u64;
            for k in 0..len {
                let mut byte = b[pos + k];
                if j == self.d - 1 && k == len - 1 {
                    byte &= !topmask(nb);
                }
                v |= (byte as u64) << (8 * k);
            }
            pos += len;
            if v >> self.bits != 0 {
                stray = true;
            } else if v >= self.p {
                gep = true;
            }
            c[j] = v;
        }
        if stray {
            SDec::Stray
        } else if gep {
            SDec::GeP
        } else {
            SDec::Ok(c, fm)
        }
    }
}
fn small_from<E: Field>(c: &[u64]) -> E {
    E::from_base_prime_field_elems(c.iter().map(|x| E::BasePrimeField::from(*x))).expect("degree")
}
fn small_coeffs<E: Field>(e: &E) -> [u64; 4] {
    let mut out = [0u64; 4];
    for (j, c) in e.to_base_prime_field_elements().enumerate() {
        out[j] = prime_to_u64(&c);
    }
    out
}


// ------------------------------------------------------------------------------------------
// byte-level model on num-bigint for shipped fields / towers
// ------------------------------------------------------------------------------------------
#[derive(Clone, Debug)]
struct Big {
    p: BigUint,
    bits: usize,
    d: usize,
}
#[derive(Clone, Debug, PartialEq, Eq)]
enum BDec {
    Short,
    BadFlags,
    Stray,
    GeP,
    Ok(Vec<BigUint>, u8),
}
impl Big {
    fn of<E: Field>() -> Big {
        let p = from_limbs(<E::BasePrimeField as PrimeField>::MODULUS.as_ref());
        let bits = p.bits() as usize;
        Big { p, bits, d: E::extension_degree() as usize }
    }
    fn blen(&self) -> usize {
        (self.bits + 7) / 8
    }
    fn llen(&self, nb: usize) -> usize {
        (self.bits + nb + 7) / 8
    }
    fn total(&self, nb: usize) -> usize {
        (self.d - 1) * self.blen() + self.llen(nb)
    }
    fn spare(&self) -> usize {
        (8 - self.bits % 8) % 8
    }
    fn slot_len(&self, j: usize, nb: usize) -> usize {
        if j == self.d - 1 {
            self.llen(nb)
        } else {
            self.blen()
        }
    }
    /// little-endian slots; `mask` is OR-ed into the very last byte
    fn enc(&self, ints: &[BigUint], nb: usize, mask: u8) -> Vec<u8> {
        assert_eq!(ints.len(), self.d);
        let mut out = Vec::with_capacity(self.total(nb));
        for (j, v) in ints.iter().enumerate() {
            let len = self.slot_len(j, nb);
            let mut b = v.to_bytes_le();
            assert!(b.len() <= len || v.is_zero(), "model: integer does not fit its slot");
            b.resize(len, 0);
            out.extend_from_slice(&b);
        }
        *out.last_mut().unwrap() |= mask;
        out
    }
    fn dec<Fl: TestFlag>(&self, b: &[u8]) -> BDec {
        let nb = Fl::NB;
        let total = self.total(nb);
        if b.len() < total {
            return BDec::Short;
        }
        let fm = b[total - 1] & topmask(nb);
        if Fl::of_mask(fm).is_none() {
            return BDec::BadFlags;
        }
        let mut ints = Vec::with_capacity(self.d);
        let mut pos = 0;
        let (mut stray, mut gep) = (false, false);
        for j in 0..self.d {
            let len = self.slot_len(j, nb);
            let mut s = b[pos..pos + len].to_vec();
            if j == self.d - 1 {
                s[len - 1] &= !topmask(nb);
            }
            pos += len;
            let v = BigUint::from_bytes_le(&s);
            if v.bits() as usize > self.bits {
                stray = true;
            } else if v >= self.p {
                gep = true;
            }
            ints.push(v);
        }
        if stray {
            BDec::Stray
        } else if gep {
            BDec::GeP
        } else {
            BDec::Ok(ints, fm)
        }
    }
}
fn coeffs<E: Field>(e: &E) -> Vec<BigUint> {
    e.to_base_prime_field_elements().map(|c| from_limbs(c.into_bigint().as_ref())).collect()
}
fn from_coeffs<E: Field>(c: &[BigUint]) -> E {
    E::from_base_prime_field_elems(c.iter().map(|x| E::BasePrimeField::from(x.clone()))).expect("degree")
}
fn show(c: &[BigUint]) -> String {
    let v: Vec<String> = c.iter().map(|x| format!("{x:#x}")).collect();
    format!("[{}]", v.join(","))
}


// ------------------------------------------------------------------------------------------
// Points (A): shipped curves.  Oracle group law: textbook affine formulas over the (C01/C02
// checked) field operations, plain double-and-add.
// ------------------------------------------------------------------------------------------
#[derive(Clone, Copy, PartialEq, Eq, Debug)]
enum AP<E> {
    O,
    A(E, E),
}
fn sw_add<E: Field>(a: &E, p: &AP<E>, q: &AP<E>) -> AP<E> {
    match (p, q) {
        (AP::O, _) => *q,
        (_, AP::O) => *p,
        (AP::A(x1, y1), AP::A(x2, y2)) => {
            let l = if x1 == x2 {
                if (*y1 + y2).is_zero() {
                    return AP::O;
                }
                let x1s = x1.square();
                (x1s.double() + x1s + a) * y1.double().inverse().unwrap()
            } else {
                (*y2 - y1) * (*x2 - x1).inverse().unwrap()
            };
            let x3 = l.square() - x1 - x2;
            let y3 = l * (*x1 - x3) - y1;
            AP::A(x3, y3)
        }
    }
}
fn sw_mul<E: Field>(a: &E, p: &AP<E>, k: &BigUint) -> AP<E> {
    let mut acc = AP::O;
    for i in (0..k.bits()).rev() {
        acc = sw_add(a, &acc, &acc);
        if k.bit(i) {
            acc = sw_add(a, &acc, p);
        }
    }
    acc
}
fn sw_neg<E: Field>(p: &AP<E>) -> AP<E> {
    match p {
        AP::O => AP::O,
        AP::A(x, y) => AP::A(*x, -*y),
    }
}
fn sw_on_curve<E: Field>(a: &E, b: &E, p: &AP<E>) -> bool {
    match p {
        AP::O => true,
        AP::A(x, y) => y.square() == x.square() * x + *a * x + b,
    }
}
fn te_add<E: Field>(a: &E, d: &E, p: &(E, E), q: &(E, E)) -> Option<(E, E)> {
    let t = *d * p.0 * q.0 * p.1 * q.1;
    let dx = (E::one() + t).inverse()?;
    let dy = (E::one() - t).inverse()?;
    Some(((p.0 * q.1 + p.1 * q.0) * dx, (p.1 * q.1 - *a * p.0 * q.0) * dy))
}
fn te_mul<E: Field>(a: &E, d: &E, p: &(E, E), k: &BigUint) -> Option<(E, E)> {
    let mut acc = (E::zero(), E::one());
    for i in (0..k.bits()).rev() {
        acc = te_add(a, d, &acc, &acc)?;
        if k.bit(i) {
            acc = te_add(a, d, &acc, p)?;
        }
    }
    Some(acc)
}
fn te_on_curve<E: Field>(a: &E, d: &E, p: &(E, E)) -> bool {
    let (x2, y2) = (p.0.square(), p.1.square());
    *a * x2 + y2 == E::one() + *d * x2 * y2
}
/// e > -e in the library's documented order (lexicographic, highest coefficient first); -e by the model
fn is_larger<E: Field>(m: &Big, e: &E) -> bool {
    let c = coeffs(e);
    for j in (0..m.d).rev() {
        let n = (&m.p - &c[j]) % &m.p;
        if c[j] != n {
            return c[j] > n;
        }
    }
    false
}

#[derive(Clone, Copy, PartialEq, Eq, Debug)]
enum Fmt {
    /// ark-serialize default: little-endian, flags in the top bits of the last byte
    Default,
    /// BLS12-381 zcash format: big-endian 48-byte coefficients, highest coefficient first, 3 flag bits in byte 0
    Zcash,
}
fn sw_big_bytes<E: Field>(m: &Big, fmt: Fmt, pt: &AP<E>, compress: bool) -> Vec<u8> {
    match fmt {
        Fmt::Default => {
            let zeros = vec![BigUint::zero(); m.d];
            let (cx, cy, mask) = match pt {
                AP::O => (zeros.clone(), zeros, 0x40u8),
                AP::A(x, y) => (coeffs(x), coeffs(y), if is_larger(m, y) { 0x80 } else { 0 }),
            };
            if compress {
                m.enc(&cx, 2, mask)
            } else {
                let mut out = m.enc(&cx, 0, 0);
                out.extend(m.enc(&cy, 2, mask));
                out
            }
        }
        Fmt::Zcash => {
            let be = |c: &[BigUint]| -> Vec<u8> {
                let mut out = Vec::new();
                for v in c.iter().rev() {
                    let mut b = v.to_bytes_le();
                    b.resize(48, 0);
                    b.reverse();
                    out.extend(b);
                }
                out
            };
            let zeros = vec![BigUint::zero(); m.d];
            let mut out;
            match pt {
                AP::O => {
                    out = be(&zeros);
                    if !compress {
                        out.extend(be(&zeros));
                    }
                    out[0] |= 0x40;
                }
                AP::A(x, y) => {
                    out = be(&coeffs(x));
                    if !compress {
                        out.extend(be(&coeffs(y)));
                    } else if is_larger(m, y) {
                        out[0] |= 0x20;
                    }
                }
            }
            if compress {
                out[0] |= 0x80;
            }
            out
        }
    }
}
fn te_big_bytes<E: Field>(m: &Big, pt: &(E, E), compress: bool) -> Vec<u8> {
    if compress {
        m.enc(&coeffs(&pt.1), 1, if is_larger(m, &pt.0) { 0x80 } else { 0 })
    } else {
        let mut out = m.enc(&coeffs(&pt.0), 0, 0);
        out.extend(m.enc(&coeffs(&pt.1), 0, 0));
        out
    }
}


fn generic_elem<E: Field>() -> E {
    // a fixed generic-looking non-zero element with every coefficient populated
    let d = E::extension_degree() as usize;
    from_coeffs::<E>(&(0..d).map(|j| BigUint::from(GENERIC64) + BigUint::from(j as u64 + 2)).collect::<Vec<_>>())
}


// ------------------------------------------------------------------------------------------
// panic capture per library call (a panic is a violation of this property, with a precise site)
// ------------------------------------------------------------------------------------------
fn guard<T>(f: impl FnOnce() -> T) -> Result<T, String> {
    catch_unwind(AssertUnwindSafe(f)).map_err(|p| {
        let at = LAST_PANIC_LOC.with(|c| c.borrow().clone());
        let msg = if let Some(s) = p.downcast_ref::<&str>() {
            s.to_string()
        } else if let Some(s) = p.downcast_ref::<String>() {
            s.clone()
        } else {
            "<non-string panic>".to_string()
        };
        format!("panic at {at}: {msg}")
    })
}
const TRUNC: [&str; 5] = ["truncated_len_0", "truncated_len_1", "truncated_len_2", "truncated_len_3", "truncated_len_4"];

/// index -> byte string, enumerating lengths 0, 1, 2, .. in turn
fn nth_string(i: u64) -> (usize, [u8; 8]) {
    let mut len = 0usize;
    let mut r = i;
    while r >= 1u64 << (8 * len) {
        r -= 1u64 << (8 * len);
        len += 1;
    }
    (len, r.to_le_bytes())
}
fn count_strings(max_len: usize) -> u64 {
    (0..=max_len).map(|l| 1u64 << (8 * l)).sum()
}

/// the model's classification of an input offered as a point encoding
#[derive(Clone, Copy, Debug, PartialEq, Eq)]
enum Cls {
    Trunc,
    BadFlags,
    /// some coordinate integer is >= p (or has a stray high bit)
    BadInt,
    /// infinity flag together with non-zero coordinate bytes
    InfinityJunk,
    Identity,
    NoSqrt,
    OffCurve,
    OutSub(usize),
    /// curve point outside the subgroup generated by G on an INCOMPLETE Edwards curve: whether the library's
    /// r*P test answers "no" there is not decided by the property (it speaks about complete curves and the
    /// prime-order subgroup): only no-panic, no over-read and "a returned point is on the curve" are demanded
    Undecided(usize),
    Valid(usize),
}
impl Cls {
    /// C10 names encodings of off-curve points, of points outside the subgroup and of x without a root (and inputs
    /// shorter than the encoding) as "rejected".  A non-canonical integer or an illegal flag pattern is not named for
    /// points: there the property only demands "an error or a valid group element" (validity is judged by the model
    /// at `checked_returns_invalid_point`); that such inputs are refused is C09's uniqueness claim for FIELD encodings.
    fn may_accept_checked(&self) -> bool {
        !matches!(self, Cls::Trunc | Cls::NoSqrt | Cls::OffCurve | Cls::OutSub(_))
    }
    fn label(&self, loc: &mut Loc, len: usize) {
        match self {
            Cls::Trunc => loc.class(TRUNC[len.min(4)]),
            Cls::BadFlags => loc.class("flags_11"),
            Cls::BadInt => loc.class("field_int>=p"),
            Cls::InfinityJunk => loc.class("infinity_flag_with_nonzero_x"),
            Cls::Identity => loc.class("identity_encoding"),
            Cls::NoSqrt => loc.class("no_sqrt"),
            Cls::OffCurve => loc.class("off_curve_rejected"),
            Cls::OutSub(_) => loc.class("out_of_subgroup_rejected"),
            Cls::Undecided(_) => loc.class("te_incomplete:outside_subgroup_undecided"),
            Cls::Valid(_) => loc.class("valid_subgroup_point"),
        }
    }
}

/// common verdict: `res` = outcome of the guarded library call: Ok(Ok((oracle index of the returned
/// point or None if it is not a curve point, is it the identity, the value))) / Ok(Err(())) / Err(panic).
/// `sites` = [read_past_advertised_size, panic, checked_returns_invalid_point, checked_accepts_bad_encoding,
/// infinity_flag_returns_non_identity, trailing_bytes/read_past_advertised_size, trailing_bytes/result_changes]
/// (static strings: no allocation on the hot path).
/// `again` = the same library call on `input ++ [0xA5, 0x5A]` (run only when `input` itself was accepted): the
/// sweeps enumerate inputs up to the encoding length only, where a reader cannot physically take more than it is
/// given - so the "does not read past the advertised size" clause is decided on the extended input: it must be
/// accepted with the same value, having consumed exactly the bytes of the original input (never more than the
/// advertised size).
type PointRes<T> = Result<Result<(Option<usize>, bool, T), ()>, String>;
fn judge_point<T: std::fmt::Debug + PartialEq>(
    loc: &mut Loc,
    sites: &[&str; 7],
    what: &dyn Fn() -> String,
    cls: Cls,
    checked: bool,
    in_subgroup: &dyn Fn(usize) -> bool,
    res: PointRes<T>,
    consumed: usize,
    advertised: usize,
    input_len: usize,
    again: &dyn Fn() -> (PointRes<T>, usize),
) {
    loc.check_at(sites[0], consumed <= advertised, || format!("{}: consumed {consumed} bytes, advertised size {advertised}", what()));
    match res {
        Err(p) => loc.fail_at(sites[1], format!("{}: {p}", what())),
        Ok(Err(())) => loc.op(),
        Ok(Ok((idx, is_id, val))) => {
            if checked {
                let valid = matches!(idx, Some(i) if in_subgroup(i));
                loc.check_at(sites[2], valid, || {
                    format!("{}: checked deserialization returned {val:?}, which is {} (model class of the input: {cls:?})", what(), if idx.is_none() { "not on the curve" } else { "outside the prime-order subgroup" })
                });
                loc.check_at(sites[3], cls.may_accept_checked(), || format!("{}: input of model class {cls:?} accepted as {val:?}", what()));
                loc.class_if(matches!(cls, Cls::BadInt), "observed:checked_accepts_noncanonical_integer_as_valid_point");
                loc.class_if(matches!(cls, Cls::BadFlags), "observed:checked_accepts_illegal_flags_as_valid_point");
            }
            if matches!(cls, Cls::InfinityJunk | Cls::Identity) {
                loc.check_at(sites[4], is_id, || format!("{}: infinity flag set but the returned value is {val:?}", what()));
            }
            // ---- the accepted input again, followed by two more bytes
            loc.class("accepted_input_fed_again_with_trailing_bytes");
            let (res2, consumed2) = again();
            loc.check_at(sites[5], consumed2 <= advertised && consumed2 == input_len, || {
                format!("{} followed by a55a: consumed {consumed2} bytes; the accepted input has {input_len}, the advertised size is {advertised}", what())
            });
            match res2 {
                Err(p) => loc.fail_at(sites[1], format!("{} followed by a55a: {p}", what())),
                Ok(Err(())) => loc.fail_at(sites[6], format!("{}: accepted as {val:?}, but rejected when followed by a55a (the result depends on bytes after the encoding)", what())),
                Ok(Ok((_, _, val2))) => {
                    loc.check_at(sites[6], val2 == val, || format!("{}: returned {val:?}, but {val2:?} when followed by a55a (the result depends on bytes after the encoding)", what()));
                }
            }
        }
    }
}
/// `b ++ [0xA5, 0x5A]` (toy inputs have at most 6 bytes)
fn with_trailing(b: &[u8]) -> ([u8; 10], usize) {
    let mut e = [0u8; 10];
    e[..b.len()].copy_from_slice(b);
    e[b.len()] = 0xa5;
    e[b.len() + 1] = 0x5a;
    (e, b.len() + 2)
}
const SW_TOY_SITES: [&str; 7] = [
    "sw_toy/read_past_advertised_size",
    "sw_toy/panic",
    "sw_toy/checked_returns_invalid_point",
    "sw_toy/checked_accepts_bad_encoding",
    "sw_toy/infinity_flag_returns_non_identity",
    "sw_toy/trailing_bytes/read_past_advertised_size",
    "sw_toy/trailing_bytes/result_changes",
];
const TE_TOY_SITES: [&str; 7] = [
    "te_toy/read_past_advertised_size",
    "te_toy/panic",
    "te_toy/checked_returns_invalid_point",
    "te_toy/checked_accepts_bad_encoding",
    "te_toy/infinity_flag_returns_non_identity",
    "te_toy/trailing_bytes/read_past_advertised_size",
    "te_toy/trailing_bytes/result_changes",
];

// ------------------------------------------------------------------------------------------
// (E) every byte string of every length 0..=L on toy curves
// ------------------------------------------------------------------------------------------
fn sw_toy_bytes<P: SWCurveConfig>(ctx: &mut Ctx, name: &str)
where
    P::BaseField: PrimeField,
    P::ScalarField: PrimeField,
{
    let t = SwToy::<P>::new(name);
    t.validate(ctx);
    let m = Small::new(t.p, 1);
    let mut by_x: Vec<Vec<(u64, usize)>> = vec![Vec::new(); t.p as usize];
    for (i, pt) in t.g.pts.iter().enumerate() {
        if let Pt::A(x, y) = pt {
            by_x[*x as usize].push((*y, i));
        }
    }
    for compress in [true, false] {
        let cm = if compress { Compress::Yes } else { Compress::No };
        let l_model = if compress { m.llen(2) } else { m.blen() + m.llen(2) };
        let advertised = sw::Affine::<P>::identity().serialized_size(cm);
        let max_len = l_model.max(advertised);
        if max_len > 3 {
            ctx.bound(&format!("bytes_toy/{name}/{}", if compress { "compressed" } else { "uncompressed" }), format!("not enumerated ({max_len}-byte encoding)"));
            continue;
        }
        let ns = count_strings(max_len);
        ctx.sweep(&format!("bytes_toy/{name}/{}", if compress { "compressed" } else { "uncompressed" }), ns * 4, |i, loc| {
            let [is, vt] = unrank(i, [ns, 4]);
            let checked = vt & 1 == 0;
            let as_proj = vt & 2 != 0;
            let vm = if checked { Validate::Yes } else { Validate::No };
            let (len, bytes) = nth_string(is);
            let b = &bytes[..len];
            // ---- model classification
            let cls = if len < l_model {
                Cls::Trunc
            } else if compress {
                match m.dec::<SWFlags>(b) {
                    SDec::Short => Cls::Trunc,
                    SDec::BadFlags => Cls::BadFlags,
                    SDec::Stray | SDec::GeP => Cls::BadInt,
                    SDec::Ok(c, 0x40) => {
                        if c[0] == 0 {
                            Cls::Identity
                        } else {
                            Cls::InfinityJunk
                        }
                    }
                    SDec::Ok(c, fm) => {
                        let ys = &by_x[c[0] as usize];
                        if ys.is_empty() {
                            Cls::NoSqrt
                        } else {
                            // flag 0x80 = the larger root
                            let pick = if fm == 0x80 { ys.iter().max().unwrap() } else { ys.iter().min().unwrap() };
                            if t.in_subgroup[pick.1] {
                                Cls::Valid(pick.1)
                            } else {
                                Cls::OutSub(pick.1)
                            }
                        }
                    }
                }
            } else {
                match (m.dec::<EmptyFlags>(&b[..m.blen()]), m.dec::<SWFlags>(&b[m.blen()..])) {
                    (_, SDec::BadFlags) => Cls::BadFlags,
                    (SDec::Ok(cx, _), SDec::Ok(cy, fm)) => {
                        if fm == 0x40 {
                            if cx[0] == 0 && cy[0] == 0 {
                                Cls::Identity
                            } else {
                                Cls::InfinityJunk
                            }
                        } else {
                            match t.g.index.get(&Pt::A(cx[0], cy[0])) {
                                None => Cls::OffCurve,
                                Some(i) if t.in_subgroup[*i] => Cls::Valid(*i),
                                Some(i) => Cls::OutSub(*i),
                            }
                        }
                    }
                    _ => Cls::BadInt,
                }
            };
            cls.label(loc, len);
            loc.class_if(m.llen(2) > m.blen(), "flags_spill_to_extra_byte");
            let what = || format!("{name} {} {} as {} input {} ({len} bytes)", if compress { "compressed" } else { "uncompressed" }, if checked { "checked" } else { "unchecked" }, if as_proj { "Projective" } else { "Affine" }, hex(b));
            if loc.sampling() {
                loc.sample(format!("{} model class {cls:?}", what()));
            }
            let call = |input: &[u8]| {
                let mut rd = CountReader::new(input);
                let res = guard(|| {
                    if as_proj {
                        sw::Projective::<P>::deserialize_with_mode(&mut rd, cm, vm).map(|q| (t.idx_proj(&q), q.z.is_zero(), (q.x, q.y, q.z))).map_err(|_| ())
                    } else {
                        sw::Affine::<P>::deserialize_with_mode(&mut rd, cm, vm).map(|a| (t.idx_aff(&a), a.infinity, (a.x, a.y, P::BaseField::from(!a.infinity)))).map_err(|_| ())
                    }
                });
                (res, rd.pos)
            };
            let (res, consumed) = call(b);
            let (eb, el) = with_trailing(b);
            judge_point(loc, &SW_TOY_SITES, &what, cls, checked, &|i| t.in_subgroup[i], res, consumed, advertised, len, &|| call(&eb[..el]));
        });
    }
    if t.h > 1 {
        sw_toy_valid_trait(ctx, &t, name);
    }
}

// ------------------------------------------------------------------------------------------
// (V) the validation entry points themselves - `Valid::check` / `Valid::batch_check` of Projective and
// Affine (the containers of C18 hand their elements to batch_check; Projective normalizes the batch
// first) - and the four named wrappers `deserialize_{compressed,uncompressed}[_unchecked]`.
// Toy curves with cofactor > 1: batches of 1..=4 members, none / exactly one / exactly two of them
// invalid (a curve point outside the prime-order subgroup, or a pair off the curve), every invalid
// member of the curve in every position; projective members in representations with Z != 1.
// Expectation from the model only: Err iff some member is invalid.
// ------------------------------------------------------------------------------------------
struct Member<G: CurveGroup> {
    aff: G::Affine,
    /// the same point with three different Z (Z = 1 and two generic ones); identity: three junk forms
    reps: [G; 3],
    /// 0 = in the prime-order subgroup, 1 = on the curve, outside the subgroup, 2 = off the curve
    kind: u8,
    is_identity: bool,
    label: String,
}
/// batches as lists of (position, index into `bad`); the remaining positions hold valid members
fn batch_plans(nbad: usize, small: &[usize]) -> Vec<(usize, Vec<(usize, usize)>)> {
    let mut set: std::collections::BTreeSet<(usize, Vec<(usize, usize)>)> = std::collections::BTreeSet::new();
    for l in 1..=4usize {
        set.insert((l, vec![]));
        for k in 0..l {
            for b in 0..nbad {
                set.insert((l, vec![(k, b)]));
            }
        }
        for j in 0..l {
            for k in j + 1..l {
                for b in 0..nbad {
                    for s in small {
                        set.insert((l, vec![(j, b), (k, *s)]));
                        set.insert((l, vec![(j, *s), (k, b)]));
                    }
                }
            }
        }
    }
    set.into_iter().collect()
}
fn valid_trait_batches<G: CurveGroup>(ctx: &mut Ctx, name: &str, good: Vec<Member<G>>, bad: Vec<Member<G>>)
where
    G::Affine: std::fmt::Debug,
{
    if good.is_empty() || bad.is_empty() {
        ctx.machinery_error(format!("{name}: validity batches need valid and invalid members ({} / {})", good.len(), bad.len()));
        return;
    }
    // the second invalid member of a pair: the first point outside the subgroup and the first pair off the curve
    let small: Vec<usize> = [1u8, 2].iter().filter_map(|k| bad.iter().position(|m| m.kind == *k)).collect();
    let plans = batch_plans(bad.len(), &small);
    let ng = good.len();
    // (quick tier: 8 offsets when the product is large - the cubic-extension curve)
    let nv = if plans.len() * ng > 300_000 { ctx.t(8usize.min(ng), ng) } else { ng };
    ctx.bound(
        &format!("valid_trait/{name}"),
        format!(
            "batches of 1..=4 members: all valid; exactly one invalid member (each of the {} invalid members = every curve point outside the subgroup + {} pairs off the curve) in every position; exactly two invalid members in every pair of positions (one of them ranging over all invalid members, the other over {} fixed ones); valid positions filled from the {} subgroup points at {nv} offsets; projective members with Z = 1 and two generic Z",
            bad.len(),
            bad.iter().filter(|m| m.kind == 2).count(),
            small.len(),
            ng
        ),
    );
    let (good, bad, plans) = (&good, &bad, &plans);
    ctx.sweep(&format!("valid_trait/{name}"), (plans.len() * nv) as u64, |i, loc| {
        let (pi, v) = ((i as usize) / nv, (i as usize) % nv);
        let (l, bads) = &plans[pi];
        let stride = ng / 4 + 1;
        let members: Vec<&Member<G>> = (0..*l)
            .map(|k| match bads.iter().find(|(pos, _)| *pos == k) {
                Some((_, b)) => &bad[*b],
                None => &good[(v + k * stride + pi) % ng],
            })
            .collect();
        let projs: Vec<G> = members.iter().enumerate().map(|(k, m)| m.reps[(v + k + pi) % 3]).collect();
        let affs: Vec<G::Affine> = members.iter().map(|m| m.aff).collect();
        let any_bad = !bads.is_empty();
        match bads.len() {
            0 => loc.class("valid_trait:batch_all_valid"),
            1 => loc.class("valid_trait:batch_one_invalid"),
            _ => loc.class("valid_trait:batch_two_invalid"),
        }
        loc.class_if(bads.iter().any(|(k, _)| *k == 0) && *l > 1, "valid_trait:invalid_member_first");
        loc.class_if(bads.iter().any(|(k, _)| *k + 1 == *l) && *l > 1, "valid_trait:invalid_member_last");
        loc.class_if(bads.iter().any(|(k, _)| *k > 0 && *k + 1 < *l), "valid_trait:invalid_member_in_the_middle");
        loc.class_if(members.iter().any(|m| m.kind == 1), "valid_trait:member_outside_subgroup");
        loc.class_if(members.iter().any(|m| m.kind == 2), "valid_trait:member_off_curve");
        loc.class_if(members.iter().any(|m| m.is_identity), "valid_trait:identity_member");
        loc.class_if(*l == 1, "valid_trait:batch_of_one");
        let what = || format!("{name} batch [{}] (projective members as {:?})", members.iter().map(|m| m.label.as_str()).collect::<Vec<_>>().join(", "), projs);
        if loc.sampling() {
            loc.sample(format!("{} expect {}", what(), if any_bad { "Err" } else { "Ok" }));
        }
        // every member on its own
        for (k, m) in members.iter().enumerate() {
            let want_err = m.kind != 0;
            match guard(|| projs[k].check().is_err()) {
                Err(p) => loc.fail_at("valid_trait/panic", format!("{}: Projective::check of member {k}: {p}", what())),
                Ok(got) => {
                    loc.check_at("valid_trait/projective_check", got == want_err, || format!("{}: Projective::check of member {k} ({}) returned {}", what(), m.label, if got { "Err" } else { "Ok" }));
                }
            }
            match guard(|| affs[k].check().is_err()) {
                Err(p) => loc.fail_at("valid_trait/panic", format!("{}: Affine::check of member {k}: {p}", what())),
                Ok(got) => {
                    loc.check_at("valid_trait/affine_check", got == want_err, || format!("{}: Affine::check of member {k} ({}) returned {}", what(), m.label, if got { "Err" } else { "Ok" }));
                }
            }
        }
        // the batch
        match guard(|| G::batch_check(projs.iter()).is_err()) {
            Err(p) => loc.fail_at("valid_trait/panic", format!("{}: Projective::batch_check: {p}", what())),
            Ok(got) => {
                loc.check_at("valid_trait/projective_batch_check", got == any_bad, || format!("{}: Projective::batch_check returned {}", what(), if got { "Err" } else { "Ok" }));
            }
        }
        match guard(|| <G::Affine as Valid>::batch_check(affs.iter()).is_err()) {
            Err(p) => loc.fail_at("valid_trait/panic", format!("{}: Affine::batch_check: {p}", what())),
            Ok(got) => {
                loc.check_at("valid_trait/affine_batch_check", got == any_bad, || format!("{}: Affine::batch_check returned {}", what(), if got { "Err" } else { "Ok" }));
            }
        }
    });
}

/// the four named wrappers against `deserialize_with_mode` with the mode they stand for: same verdict, same
/// value, same number of bytes taken.  `inputs` = (compressed?, model class, bytes), built from the model.
fn wrappers_vs_mode<A, G>(ctx: &mut Ctx, label: &str, inputs: &[(bool, &'static str, Vec<u8>)])
where
    A: CanonicalDeserialize + PartialEq + std::fmt::Debug,
    G: CanonicalDeserialize + PartialEq + std::fmt::Debug,
{
    fn one<T: CanonicalDeserialize + PartialEq + std::fmt::Debug>(loc: &mut Loc, label: &str, ty: &str, compress: bool, checked: bool, kind: &str, b: &[u8]) {
        let (cm, vm) = (if compress { Compress::Yes } else { Compress::No }, if checked { Validate::Yes } else { Validate::No });
        let wname = match (compress, checked) {
            (true, true) => "deserialize_compressed",
            (true, false) => "deserialize_compressed_unchecked",
            (false, true) => "deserialize_uncompressed",
            (false, false) => "deserialize_uncompressed_unchecked",
        };
        let what = || format!("{label} {ty}::{wname} input {} (model class {kind})", hex(b));
        if loc.sampling() {
            loc.sample(what());
        }
        let mut r1 = CountReader::new(b);
        let by_mode = guard(|| T::deserialize_with_mode(&mut r1, cm, vm).map_err(|_| ()));
        let mut r2 = CountReader::new(b);
        let by_name = guard(|| {
            match (compress, checked) {
                (true, true) => T::deserialize_compressed(&mut r2),
                (true, false) => T::deserialize_compressed_unchecked(&mut r2),
                (false, true) => T::deserialize_uncompressed(&mut r2),
                (false, false) => T::deserialize_uncompressed_unchecked(&mut r2),
            }
            .map_err(|_| ())
        });
        match (by_mode, by_name) {
            (Err(p), _) | (_, Err(p)) => loc.fail_at("wrappers/panic", format!("{}: {p}", what())),
            (Ok(a), Ok(w)) => {
                loc.check_at("wrappers/differs_from_deserialize_with_mode", a == w && r1.pos == r2.pos, || {
                    format!("{}: {wname} returned {w:?} after {} bytes, deserialize_with_mode in that mode returned {a:?} after {} bytes", what(), r2.pos, r1.pos)
                });
            }
        }
    }
    ctx.sweep(&format!("wrappers/{label}"), 4 * inputs.len() as u64, |i, loc| {
        let (compress, kind, b) = &inputs[(i / 4) as usize];
        let checked = i % 2 == 0;
        let as_proj = i % 4 >= 2;
        loc.class(match (*compress, checked) {
            (true, true) => "wrapper:deserialize_compressed",
            (true, false) => "wrapper:deserialize_compressed_unchecked",
            (false, true) => "wrapper:deserialize_uncompressed",
            (false, false) => "wrapper:deserialize_uncompressed_unchecked",
        });
        loc.class(kind);
        if as_proj {
            one::<G>(loc, label, "Projective", *compress, checked, kind, b)
        } else {
            one::<A>(loc, label, "Affine", *compress, checked, kind, b)
        }
    });
}
const WK_VALID: &str = "wrapper_input:valid_subgroup_point";
const WK_OUTSUB: &str = "wrapper_input:outside_subgroup";
const WK_OFF: &str = "wrapper_input:off_curve_or_no_root";
const WK_ID: &str = "wrapper_input:identity";
const WK_JUNK: &str = "wrapper_input:malformed";

fn sw_toy_valid_trait<P: SWCurveConfig>(ctx: &mut Ctx, t: &SwToy<P>, name: &str)
where
    P::BaseField: PrimeField,
    P::ScalarField: PrimeField,
{
    let p = t.p;
    let zs = [1u64, 2 + (p / 3), p - 2];
    let mut good: Vec<Member<sw::Projective<P>>> = Vec::new();
    let mut bad: Vec<Member<sw::Projective<P>>> = Vec::new();
    for i in 0..t.n() {
        let is_identity = i == t.g.id;
        let reps = if is_identity { [t.proj_identity_junk(1, 1), t.proj_identity_junk(0, 1), t.proj_identity_junk(p - 1, 3 % p)] } else { [t.proj(i, zs[0]), t.proj(i, zs[1]), t.proj(i, zs[2])] };
        let m = Member { aff: t.aff(i), reps, kind: if t.in_subgroup[i] { 0 } else { 1 }, is_identity, label: format!("{:?}{}", t.g.pts[i], if t.in_subgroup[i] { "" } else { " (outside the subgroup)" }) };
        if t.in_subgroup[i] {
            good.push(m)
        } else {
            bad.push(m)
        }
    }
    // pairs off the curve: the first six of (x, 0), (x, 1), (x, p-1), x = 0, 1, ..
    let mut off: Vec<(u64, u64)> = Vec::new();
    'o: for x in 0..p {
        for y in [0, 1, p - 1] {
            if !t.g.index.contains_key(&Pt::A(x, y)) {
                off.push((x, y));
                if off.len() == 6 {
                    break 'o;
                }
            }
        }
    }
    let f = &t.f;
    for (x, y) in &off {
        let rep = |z: u64| {
            let z2 = f.mul(z, z);
            sw::Projective::<P>::new_unchecked(t.fe(f.mul(*x, z2)), t.fe(f.mul(*y, f.mul(z2, z))), t.fe(z))
        };
        bad.push(Member { aff: sw::Affine::new_unchecked(t.fe(*x), t.fe(*y)), reps: [rep(zs[0]), rep(zs[1]), rep(zs[2])], kind: 2, is_identity: false, label: format!("({x},{y}) off the curve") });
    }
    valid_trait_batches(ctx, name, good, bad);
    // ---- the named wrappers: model-built encodings of every curve point (both sign flags), the identity, pairs
    // off the curve, and malformed strings
    let m = Small::new(p, 1);
    let mut inputs: Vec<(bool, &'static str, Vec<u8>)> = Vec::new();
    let mut buf = [0u8; 8];
    for (i, pt) in t.g.pts.iter().enumerate() {
        let kind = if t.in_subgroup[i] { WK_VALID } else { WK_OUTSUB };
        match pt {
            Pt::O => {
                let n = m.enc(&[0], 2, 0x40, &mut buf);
                inputs.push((true, WK_ID, buf[..n].to_vec()));
                let n0 = m.enc(&[0], 0, 0, &mut buf);
                let n1 = m.enc(&[0], 2, 0x40, &mut buf[n0..]);
                inputs.push((false, WK_ID, buf[..n0 + n1].to_vec()));
            }
            Pt::A(x, y) => {
                let n = m.enc(&[*x], 2, if *y > p - *y { 0x80 } else { 0 }, &mut buf);
                inputs.push((true, kind, buf[..n].to_vec()));
                for mask in [0u8, 0x80] {
                    let n0 = m.enc(&[*x], 0, 0, &mut buf);
                    let n1 = m.enc(&[*y], 2, mask, &mut buf[n0..]);
                    inputs.push((false, kind, buf[..n0 + n1].to_vec()));
                }
            }
        }
    }
    for (x, y) in &off {
        let n0 = m.enc(&[*x], 0, 0, &mut buf);
        let n1 = m.enc(&[*y], 2, 0, &mut buf[n0..]);
        inputs.push((false, WK_OFF, buf[..n0 + n1].to_vec()));
    }
    if let Some(x) = (0..p).find(|x| !t.g.pts.iter().any(|q| matches!(q, Pt::A(a, _) if a == x))) {
        let n = m.enc(&[x], 2, 0, &mut buf);
        inputs.push((true, WK_OFF, buf[..n].to_vec()));
    }
    for c in [true, false] {
        inputs.push((c, WK_JUNK, vec![]));
        inputs.push((c, WK_JUNK, vec![1]));
        inputs.push((c, WK_JUNK, vec![0xff; 6]));
        let n = m.enc(&[1], 2, 0xc0, &mut buf);
        inputs.push((c, WK_JUNK, [&vec![0u8; if c { 0 } else { m.blen() }][..], &buf[..n]].concat()));
    }
    wrappers_vs_mode::<sw::Affine<P>, sw::Projective<P>>(ctx, name, &inputs);
}

fn te_toy_bytes<P: TECurveConfig>(ctx: &mut Ctx, name: &str)
where
    P::BaseField: PrimeField,
    P::ScalarField: PrimeField,
{
    let t = TeToy::<P>::new(name);
    t.validate(ctx);
    // incomplete parameters (a non-square): inputs that decode to a curve point outside <G> are "undecided"
    let complete = t.complete;
    let m = Small::new(t.p, 1);
    let mut by_y: Vec<Vec<(u64, usize)>> = vec![Vec::new(); t.p as usize];
    for i in 0..t.n() {
        let (x, y) = t.xy(i);
        by_y[y as usize].push((x, i));
    }
    for compress in [true, false] {
        let cm = if compress { Compress::Yes } else { Compress::No };
        let l_model = if compress { m.llen(1) } else { 2 * m.blen() };
        let advertised = t.aff(t.g.id).serialized_size(cm);
        let max_len = l_model.max(advertised);
        if max_len > 3 {
            ctx.bound(&format!("bytes_toy/{name}/{}", if compress { "compressed" } else { "uncompressed" }), format!("not enumerated ({max_len}-byte encoding)"));
            continue;
        }
        let ns = count_strings(max_len);
        ctx.sweep(&format!("bytes_toy/{name}/{}", if compress { "compressed" } else { "uncompressed" }), ns * 4, |i, loc| {
            let [is, vt] = unrank(i, [ns, 4]);
            let checked = vt & 1 == 0;
            let as_proj = vt & 2 != 0;
            let vm = if checked { Validate::Yes } else { Validate::No };
            let (len, bytes) = nth_string(is);
            let b = &bytes[..len];
            let cls = if len < l_model {
                Cls::Trunc
            } else if compress {
                match m.dec::<TEFlags>(b) {
                    SDec::Short => Cls::Trunc,
                    SDec::BadFlags => Cls::BadFlags,
                    SDec::Stray | SDec::GeP => Cls::BadInt,
                    SDec::Ok(c, fm) => {
                        let xs = &by_y[c[0] as usize];
                        if xs.is_empty() {
                            Cls::NoSqrt
                        } else {
                            let pick = if fm == 0x80 { xs.iter().max().unwrap() } else { xs.iter().min().unwrap() };
                            loc.class_if(pick.0 == 0, "x=0_tie");
                            if t.in_subgroup[pick.1] {
                                Cls::Valid(pick.1)
                            } else if complete {
                                Cls::OutSub(pick.1)
                            } else {
                                Cls::Undecided(pick.1)
                            }
                        }
                    }
                }
            } else {
                match (m.dec::<EmptyFlags>(&b[..m.blen()]), m.dec::<EmptyFlags>(&b[m.blen()..])) {
                    (SDec::Ok(cx, _), SDec::Ok(cy, _)) => match t.g.index.get(&Pt::A(cx[0], cy[0])) {
                        None => Cls::OffCurve,
                        Some(i) if t.in_subgroup[*i] => Cls::Valid(*i),
                        Some(i) if complete => Cls::OutSub(*i),
                        Some(i) => Cls::Undecided(*i),
                    },
                    _ => Cls::BadInt,
                }
            };
            cls.label(loc, len);
            let what = || format!("{name} {} {} as {} input {} ({len} bytes)", if compress { "compressed" } else { "uncompressed" }, if checked { "checked" } else { "unchecked" }, if as_proj { "Projective" } else { "Affine" }, hex(b));
            if loc.sampling() {
                loc.sample(format!("{} model class {cls:?}", what()));
            }
            let call = |input: &[u8]| {
                let mut rd = CountReader::new(input);
                let res = guard(|| {
                    if as_proj {
                        te::Projective::<P>::deserialize_with_mode(&mut rd, cm, vm).map(|q| (t.idx_proj(&q), false, (q.x, q.y, q.t, q.z))).map_err(|_| ())
                    } else {
                        te::Affine::<P>::deserialize_with_mode(&mut rd, cm, vm).map(|a| (t.idx_aff(&a), false, (a.x, a.y, a.x * a.y, P::BaseField::one()))).map_err(|_| ())
                    }
                });
                (res, rd.pos)
            };
            let (res, consumed) = call(b);
            let (eb, el) = with_trailing(b);
            judge_point(loc, &TE_TOY_SITES, &what, cls, checked, &|i| t.in_subgroup[i] || !complete, res, consumed, advertised, len, &|| call(&eb[..el]));
        });
    }
    te_toy_valid_trait(ctx, &t, name);
}

fn te_toy_valid_trait<P: TECurveConfig>(ctx: &mut Ctx, t: &TeToy<P>, name: &str)
where
    P::BaseField: PrimeField,
    P::ScalarField: PrimeField,
{
    let p = t.p;
    let zs = [1u64, 2 + (p / 3), p - 2];
    let mut good: Vec<Member<te::Projective<P>>> = Vec::new();
    let mut bad: Vec<Member<te::Projective<P>>> = Vec::new();
    for i in 0..t.n() {
        // incomplete parameters: whether a curve point outside <G> fails the r*P test is not decided by the property
        if !t.in_subgroup[i] && !t.complete {
            continue;
        }
        let m = Member {
            aff: t.aff(i),
            reps: [t.proj(i, zs[0]), t.proj(i, zs[1]), t.proj(i, zs[2])],
            kind: if t.in_subgroup[i] { 0 } else { 1 },
            is_identity: i == t.g.id,
            label: format!("{:?}{}", t.xy(i), if t.in_subgroup[i] { "" } else { " (outside the subgroup)" }),
        };
        if t.in_subgroup[i] {
            good.push(m)
        } else {
            bad.push(m)
        }
    }
    let mut off: Vec<(u64, u64)> = Vec::new();
    'o: for x in 0..p {
        for y in [0, 1, 2, p - 1] {
            if !t.m.on_curve(Pt::A(x, y)) {
                off.push((x, y));
                if off.len() == 6 {
                    break 'o;
                }
            }
        }
    }
    let f = &t.f;
    for (x, y) in &off {
        let rep = |z: u64| te::Projective::<P>::new_unchecked(t.fe(f.mul(*x, z)), t.fe(f.mul(*y, z)), t.fe(f.mul(f.mul(*x, *y), z)), t.fe(z));
        bad.push(Member { aff: te::Affine::new_unchecked(t.fe(*x), t.fe(*y)), reps: [rep(zs[0]), rep(zs[1]), rep(zs[2])], kind: 2, is_identity: false, label: format!("({x},{y}) off the curve") });
    }
    valid_trait_batches(ctx, name, good, bad);
    // ---- the named wrappers
    let m = Small::new(p, 1);
    let mut inputs: Vec<(bool, &'static str, Vec<u8>)> = Vec::new();
    let mut buf = [0u8; 8];
    for i in 0..t.n() {
        let (x, y) = t.xy(i);
        let kind = if i == t.g.id {
            WK_ID
        } else if t.in_subgroup[i] {
            WK_VALID
        } else {
            WK_OUTSUB
        };
        let n = m.enc(&[y], 1, if x > p - x { 0x80 } else { 0 }, &mut buf);
        inputs.push((true, kind, buf[..n].to_vec()));
        let n0 = m.enc(&[x], 0, 0, &mut buf);
        let n1 = m.enc(&[y], 0, 0, &mut buf[n0..]);
        inputs.push((false, kind, buf[..n0 + n1].to_vec()));
    }
    for (x, y) in &off {
        let n0 = m.enc(&[*x], 0, 0, &mut buf);
        let n1 = m.enc(&[*y], 0, 0, &mut buf[n0..]);
        inputs.push((false, WK_OFF, buf[..n0 + n1].to_vec()));
    }
    if let Some(y) = (0..p).find(|y| !(0..t.n()).any(|i| t.xy(i).1 == *y)) {
        let n = m.enc(&[y], 1, 0, &mut buf);
        inputs.push((true, WK_OFF, buf[..n].to_vec()));
    }
    for c in [true, false] {
        inputs.push((c, WK_JUNK, vec![]));
        inputs.push((c, WK_JUNK, vec![1]));
        inputs.push((c, WK_JUNK, vec![0xff; 6]));
    }
    wrappers_vs_mode::<te::Affine<P>, te::Projective<P>>(ctx, name, &inputs);
}

// ------------------------------------------------------------------------------------------
// (E2) toy short-Weierstrass curves over toy quadratic extension fields F_p[u]/(u^2 - beta):
// every byte string of the compressed encoding length (2 bytes) and shorter.  Decompression takes
// a square root in F_p^2 (QuadExtField::sqrt: shortcut for rhs in F_p with its residue /
// non-residue split, "complex method" otherwise) - a code path no prime-field curve reaches.
//
// Format model read off the library (ff/src/fields/models/quadratic_extension.rs
// serialize_with_flags / deserialize_with_flags): c0 as a plain base-field element (no flag bits),
// then c1 with the flag bits in the top bits of ITS last byte (= the last byte of the element);
// a point is x [|| y] with the SWFlags on the last coefficient written.  Order used for the sign
// flag (QuadExtField::cmp): c1 first, then c0.
// Parameters found by brute force outside the harness; everything is re-validated below with the
// u64 model (Fp2Model / SwModel / GroupTable).
// ------------------------------------------------------------------------------------------
macro_rules! ext_sw {
    ($name:ident, $F:ty, $R:ty, $h:expr, $hinv:expr, $a:expr, $b:expr, $gx:expr, $gy:expr) => {
        #[derive(Clone, Copy, Debug, Default, PartialEq, Eq)]
        pub struct $name;
        impl CurveConfig for $name {
            type BaseField = $F;
            type ScalarField = $R;
            const COFACTOR: &'static [u64] = &[$h];
            const COFACTOR_INV: $R = MontFp!($hinv);
        }
        impl SWCurveConfig for $name {
            const COEFF_A: $F = $a;
            const COEFF_B: $F = $b;
            const GENERATOR: sw::Affine<Self> = sw::Affine::new_unchecked($gx, $gy);
        }
    };
}
macro_rules! q2 {
    ($F:ty, $c0:expr, $c1:expr) => {
        <$F>::new(MontFp!($c0), MontFp!($c1))
    };
}
// y^2 = x^3 + (3+2u) over F_7[u]/(u^2+1): 52 = 4 * 13 points (a = 0, 2-torsion: three points with y = 0)
ext_sw!(SwQ7A0B32, T7Fq2, D13, 4, "10", q2!(T7Fq2, "0", "0"), q2!(T7Fq2, "3", "2"), q2!(T7Fq2, "5", "1"), q2!(T7Fq2, "4", "6"));
// y^2 = x^3 + (1+2u) over F_7[u]/(u^2+1): 61 points, prime order (a = 0, cofactor 1)
ext_sw!(SwQ7A0B12, T7Fq2, D61, 1, "1", q2!(T7Fq2, "0", "0"), q2!(T7Fq2, "1", "2"), q2!(T7Fq2, "1", "0"), q2!(T7Fq2, "5", "3"));
// y^2 = x^3 + u x + (1+u) over F_5[u]/(u^2-2): 34 = 2 * 17 points (a != 0, general non-residue)
ext_sw!(SwQ5AuB11, T5Fq2, D17, 2, "9", q2!(T5Fq2, "0", "1"), q2!(T5Fq2, "1", "1"), q2!(T5Fq2, "2", "3"), q2!(T5Fq2, "1", "4"));
// y^2 = x^3 + u x + (2+2u) over F_13[u]/(u^2-2): 172 = 4 * 43 points (a != 0, general non-residue; = SwQ13A of c03.rs)
ext_sw!(SwQ13AuB22, T13Fq2, D43, 4, "11", q2!(T13Fq2, "0", "1"), q2!(T13Fq2, "2", "2"), q2!(T13Fq2, "9", "12"), q2!(T13Fq2, "4", "0"));

/// model class of rhs(x) = x^3 + a x + b, the argument of the square root taken by decompression
#[derive(Clone, Copy, Debug, PartialEq, Eq)]
enum RhsCls {
    Zero,
    /// (c0, 0) with c0 a non-zero square of F_p: root (s, 0)
    BaseResidue,
    /// (c0, 0) with c0 a non-residue of F_p: still a square of F_p^2, root (0, s) with s^2 = c0 / beta
    BaseNonResidue,
    /// c1 != 0, a square of F_p^2
    GeneralSquare,
    /// c1 != 0, not a square
    GeneralNonSquare,
}

struct ExtToy<P: SWCurveConfig> {
    name: String,
    f: Fp2Model,
    m: SwModel<Fp2Model>,
    g: GroupTable<(u64, u64)>,
    r: u64,
    h: u64,
    gen: usize,
    in_subgroup: Vec<bool>,
    /// per x (index c0 + p c1): the points (y, oracle index) with that x
    by_x: Vec<Vec<((u64, u64), usize)>>,
    rhs_cls: Vec<RhsCls>,
    _p: std::marker::PhantomData<P>,
}
impl<P: SWCurveConfig> ExtToy<P>
where
    P::ScalarField: PrimeField,
{
    fn fe(e: (u64, u64)) -> P::BaseField {
        small_from::<P::BaseField>(&[e.0, e.1])
    }
    fn co(x: &P::BaseField) -> (u64, u64) {
        let c = small_coeffs(x);
        (c[0], c[1])
    }
    fn xi(&self, x: (u64, u64)) -> usize {
        (x.0 + self.f.p * x.1) as usize
    }
    /// builds the oracle group and validates every toy parameter (None: unusable, a validation failed)
    fn new(ctx: &mut Ctx, name: &str, f: Fp2Model) -> Option<Self> {
        let p = f.p;
        let sm = Small::of::<P::BaseField>();
        ctx.validate(sm.p == p && sm.d == 2 && p > 2 && is_prime_small(p), &format!("{name}: base field is a quadratic extension of the prime field F_{p}"));
        ctx.validate(f.beta > 0 && f.beta < p && powmod(f.beta, (p - 1) / 2, p) == p - 1, &format!("{name}: beta = {} is a non-residue of F_{p}", f.beta));
        // the bridge model <-> library field: u^2 = beta, a few sums and products (typo guard; field arithmetic is C02's subject)
        ctx.validate(Self::fe((0, 1)).square() == Self::fe((f.beta, 0)), &format!("{name}: u^2 = beta in the library field"));
        let els = f.elements();
        let probe = [els[1], els[els.len() - 1], els[els.len() / 2 + 3], (0, 1), (p - 1, 2)];
        for a in probe {
            for b in probe {
                ctx.validate(Self::co(&(Self::fe(a) * Self::fe(b))) == f.mul(a, b) && Self::co(&(Self::fe(a) + Self::fe(b))) == f.add(a, b), &format!("{name}: field bridge on {a:?},{b:?}"));
            }
        }
        let m = SwModel { f, a: Self::co(&P::COEFF_A), b: Self::co(&P::COEFF_B) };
        // non-singular: 4 a^3 + 27 b^2 != 0
        let disc = f.add(f.mul(f.from_u64(4), f.mul(m.a, f.sq(m.a))), f.mul(f.from_u64(27), f.sq(m.b)));
        ctx.validate(!f.is_zero(disc), &format!("{name}: discriminant non-zero"));
        let pts = m.points();
        let n = pts.len() as u64;
        let q = f.order();
        let mm = m.clone();
        let g = GroupTable::build(pts, Pt::O, move |a, b| Some(mm.add(a, b)));
        let rl = <P::ScalarField as PrimeField>::MODULUS;
        let r = rl.as_ref()[0];
        ctx.validate(rl.as_ref()[1..].iter().all(|x| *x == 0) && P::COFACTOR.len() == 1, &format!("{name}: r and h fit one limb"));
        let h = P::COFACTOR[0];
        let d = n as i64 - (q as i64 + 1);
        ctx.validate((d * d) as u64 <= 4 * q, &format!("{name}: Hasse bound, #E={n} q={q}"));
        ctx.validate(is_prime_small(r) && n == h * r && h % r != 0, &format!("{name}: #E = {n} = h*r = {h}*{r}, r prime, r does not divide h"));
        let gen_pt = Pt::A(Self::co(&P::GENERATOR.x), Self::co(&P::GENERATOR.y));
        let Some(gen) = g.index.get(&gen_pt).copied() else {
            ctx.validate(false, &format!("{name}: generator on the curve"));
            return None;
        };
        ctx.validate(g.order(gen) == Some(r), &format!("{name}: generator has order r"));
        let hinv = prime_to_u64(&P::COFACTOR_INV);
        ctx.validate((hinv * h) % r == 1 % r, &format!("{name}: COFACTOR_INV = {hinv} inverts h = {h} mod r = {r}"));
        let k = g.n().min(12);
        let mut ok = true;
        for a in 0..k {
            for b in 0..k {
                for c in 0..k {
                    ok &= g.add[g.add[a][b]][c] == g.add[a][g.add[b][c]];
                }
            }
        }
        ctx.validate(ok, &format!("{name}: oracle law associative"));
        let in_subgroup: Vec<bool> = (0..g.n()).map(|i| g.mul(r, i) == Some(g.id)).collect();
        ctx.validate(in_subgroup.iter().filter(|b| **b).count() as u64 == r, &format!("{name}: subgroup has r elements"));
        ctx.validate(h == 1 || in_subgroup.iter().any(|b| !*b), &format!("{name}: cofactor > 1 => points outside the subgroup exist"));
        let mut by_x: Vec<Vec<((u64, u64), usize)>> = vec![Vec::new(); q as usize];
        for (i, pt) in g.pts.iter().enumerate() {
            if let Pt::A(x, y) = pt {
                by_x[(x.0 + p * x.1) as usize].push((*y, i));
            }
        }
        // class of rhs(x), from the model only: residues of F_p by listing the squares
        let base_squares: Vec<bool> = (0..p).map(|c| (1..p).any(|z| z * z % p == c)).collect();
        let mut rhs_cls = vec![RhsCls::Zero; q as usize];
        let mut ok_roots = true;
        for x in &els {
            let i = (x.0 + p * x.1) as usize;
            let rhs = m.rhs(*x);
            let c = if rhs == (0, 0) {
                RhsCls::Zero
            } else if rhs.1 == 0 {
                if base_squares[rhs.0 as usize] {
                    RhsCls::BaseResidue
                } else {
                    RhsCls::BaseNonResidue
                }
            } else if by_x[i].is_empty() {
                RhsCls::GeneralNonSquare
            } else {
                RhsCls::GeneralSquare
            };
            // every element of F_p is a square in F_p^2: a non-residue c0 has the roots (0, +-s), a residue (+-s, 0)
            ok_roots &= match c {
                RhsCls::Zero => by_x[i].len() == 1 && by_x[i][0].0 == (0, 0),
                RhsCls::BaseResidue => by_x[i].len() == 2 && by_x[i].iter().all(|(y, _)| y.1 == 0 && y.0 != 0),
                RhsCls::BaseNonResidue => by_x[i].len() == 2 && by_x[i].iter().all(|(y, _)| y.0 == 0 && y.1 != 0),
                RhsCls::GeneralSquare => by_x[i].len() == 2 && by_x[i].iter().all(|(y, _)| y.0 != 0 && y.1 != 0),
                RhsCls::GeneralNonSquare => true,
            };
            rhs_cls[i] = c;
        }
        ctx.validate(ok_roots, &format!("{name}: shape of the roots of rhs(x) per class (base-field rhs always has a root in F_p^2)"));
        Some(ExtToy { name: name.to_string(), f, m, g, r, h, gen, in_subgroup, by_x, rhs_cls, _p: std::marker::PhantomData })
    }
    fn idx_aff(&self, a: &sw::Affine<P>) -> Option<usize> {
        if a.infinity {
            return Some(self.g.id);
        }
        self.g.index.get(&Pt::A(Self::co(&a.x), Self::co(&a.y))).copied()
    }
    /// decodes X/Z^2, Y/Z^3 with MODEL arithmetic
    fn idx_proj(&self, q: &sw::Projective<P>) -> Option<usize> {
        let (x, y, z) = (Self::co(&q.x), Self::co(&q.y), Self::co(&q.z));
        if z == (0, 0) {
            return Some(self.g.id);
        }
        let f = &self.f;
        let zi = f.inv(z);
        let zi2 = f.sq(zi);
        self.g.index.get(&Pt::A(f.mul(x, zi2), f.mul(y, f.mul(zi2, zi)))).copied()
    }
    /// the root selected by the sign flag: 0x80 = the larger of {y, -y} in the order (c1, then c0)
    fn pick(&self, x: (u64, u64), fm: u8) -> Option<((u64, u64), usize)> {
        let ys = &self.by_x[self.xi(x)];
        let key = |e: &&((u64, u64), usize)| (e.0 .1, e.0 .0);
        if fm == 0x80 {
            ys.iter().max_by_key(key).copied()
        } else {
            ys.iter().min_by_key(key).copied()
        }
    }
}
const SW_EXT_SITES: [&str; 7] = [
    "sw_ext_toy/read_past_advertised_size",
    "sw_ext_toy/panic",
    "sw_ext_toy/checked_returns_invalid_point",
    "sw_ext_toy/checked_accepts_bad_encoding",
    "sw_ext_toy/infinity_flag_returns_non_identity",
    "sw_ext_toy/trailing_bytes/read_past_advertised_size",
    "sw_ext_toy/trailing_bytes/result_changes",
];

fn sw_ext_bytes<P: SWCurveConfig>(ctx: &mut Ctx, name: &str, f: Fp2Model)
where
    P::ScalarField: PrimeField,
{
    let Some(t) = ExtToy::<P>::new(ctx, name, f) else { return };
    let t = &t;
    let p = f.p;
    if t.h > 1 {
        // (V) Valid::check / batch_check on batches with invalid members (see valid_trait_batches)
        let zs = [(1u64, 0u64), (2, 1), (0, p - 2)];
        let rep = |x: (u64, u64), y: (u64, u64), z: (u64, u64)| {
            let z2 = f.sq(z);
            sw::Projective::<P>::new_unchecked(ExtToy::<P>::fe(f.mul(x, z2)), ExtToy::<P>::fe(f.mul(y, f.mul(z2, z))), ExtToy::<P>::fe(z))
        };
        let idj = |x: (u64, u64), y: (u64, u64)| sw::Projective::<P>::new_unchecked(ExtToy::<P>::fe(x), ExtToy::<P>::fe(y), ExtToy::<P>::fe((0, 0)));
        let mut good: Vec<Member<sw::Projective<P>>> = Vec::new();
        let mut bad: Vec<Member<sw::Projective<P>>> = Vec::new();
        for (i, pt) in t.g.pts.iter().enumerate() {
            let (aff, reps) = match pt {
                Pt::O => (sw::Affine::<P>::identity(), [idj((1, 0), (1, 0)), idj((0, 0), (1, 1)), idj((p - 1, 2), (3 % p, 0))]),
                Pt::A(x, y) => (sw::Affine::<P>::new_unchecked(ExtToy::<P>::fe(*x), ExtToy::<P>::fe(*y)), [rep(*x, *y, zs[0]), rep(*x, *y, zs[1]), rep(*x, *y, zs[2])]),
            };
            let m = Member { aff, reps, kind: if t.in_subgroup[i] { 0 } else { 1 }, is_identity: i == t.g.id, label: format!("{pt:?}{}", if t.in_subgroup[i] { "" } else { " (outside the subgroup)" }) };
            if t.in_subgroup[i] {
                good.push(m)
            } else {
                bad.push(m)
            }
        }
        let mut n_off = 0;
        'o: for x in f.elements() {
            for y in [(0, 0), (1, 0), (0, 1), (p - 1, p - 1)] {
                if !t.g.index.contains_key(&Pt::A(x, y)) {
                    bad.push(Member { aff: sw::Affine::<P>::new_unchecked(ExtToy::<P>::fe(x), ExtToy::<P>::fe(y)), reps: [rep(x, y, zs[0]), rep(x, y, zs[1]), rep(x, y, zs[2])], kind: 2, is_identity: false, label: format!("({x:?},{y:?}) off the curve") });
                    n_off += 1;
                    if n_off == 6 {
                        break 'o;
                    }
                }
            }
        }
        valid_trait_batches(ctx, name, good, bad);
    }
    let m = Small::new(p, 2);
    let (xlen, plen) = (m.total(0), m.total(2)); // x without flags; last coordinate with the 2 SW flag bits
    let beta_minus_one = f.beta == p - 1;
    // the library call + verdict, shared by all sweeps below
    let run = |loc: &mut Loc, b: &[u8], cls: Cls, compress: bool, vt: u64, advertised: usize| {
        let checked = vt & 1 == 0;
        let as_proj = vt & 2 != 0;
        let cm = if compress { Compress::Yes } else { Compress::No };
        let vm = if checked { Validate::Yes } else { Validate::No };
        let len = b.len();
        cls.label(loc, len);
        match cls {
            Cls::Valid(_) => loc.class("ext:valid_subgroup_point"),
            Cls::OutSub(_) => loc.class("ext:out_of_subgroup_rejected"),
            Cls::OffCurve => loc.class("ext:off_curve_rejected"),
            Cls::NoSqrt => loc.class("ext:no_sqrt"),
            Cls::BadInt => loc.class("ext:field_int>=p"),
            _ => {}
        }
        loc.class_if(beta_minus_one, "ext:beta=-1");
        loc.class_if(!beta_minus_one, "ext:beta!=-1");
        let what = || format!("{name} {} {} as {} input {} ({len} bytes)", if compress { "compressed" } else { "uncompressed" }, if checked { "checked" } else { "unchecked" }, if as_proj { "Projective" } else { "Affine" }, hex(b));
        if loc.sampling() {
            loc.sample(format!("{} model class {cls:?}", what()));
        }
        let call = |input: &[u8]| {
            let mut rd = CountReader::new(input);
            let res = guard(|| {
                if as_proj {
                    sw::Projective::<P>::deserialize_with_mode(&mut rd, cm, vm).map(|q| (t.idx_proj(&q), q.z.is_zero(), (q.x, q.y, q.z))).map_err(|_| ())
                } else {
                    sw::Affine::<P>::deserialize_with_mode(&mut rd, cm, vm).map(|a| (t.idx_aff(&a), a.infinity, (a.x, a.y, P::BaseField::from(!a.infinity)))).map_err(|_| ())
                }
            });
            (res, rd.pos)
        };
        let (res, consumed) = call(b);
        let (eb, el) = with_trailing(b);
        judge_point(loc, &SW_EXT_SITES, &what, cls, checked, &|i| t.in_subgroup[i], res, consumed, advertised, len, &|| call(&eb[..el]));
    };
    // ---- compressed: every byte string of every length 0..=2
    {
        let advertised = sw::Affine::<P>::identity().serialized_size(Compress::Yes);
        let max_len = plen.max(advertised);
        if max_len > 2 {
            ctx.bound(&format!("bytes_ext_toy/{name}/compressed"), format!("not enumerated ({max_len}-byte encoding)"));
        } else {
            let ns = count_strings(max_len);
            ctx.sweep(&format!("bytes_ext_toy/{name}/compressed"), ns * 4, |i, loc| {
                let [is, vt] = unrank(i, [ns, 4]);
                let (len, bytes) = nth_string(is);
                let b = &bytes[..len];
                let cls = if len < plen {
                    Cls::Trunc
                } else {
                    match m.dec::<SWFlags>(b) {
                        SDec::Short => Cls::Trunc,
                        SDec::BadFlags => Cls::BadFlags,
                        SDec::Stray | SDec::GeP => {
                            // which coefficient is out of range (flag bits masked off the c1 byte)
                            loc.class_if(b[0] as u64 >= p, "ext:field_int>=p_in_c0");
                            loc.class_if((b[1] & !topmask(2)) as u64 >= p, "ext:field_int>=p_in_c1");
                            Cls::BadInt
                        }
                        SDec::Ok(c, 0x40) => {
                            if c[0] == 0 && c[1] == 0 {
                                Cls::Identity
                            } else {
                                Cls::InfinityJunk
                            }
                        }
                        SDec::Ok(c, fm) => {
                            let x = (c[0], c[1]);
                            // the library takes sqrt(rhs(x)) for exactly these inputs
                            match t.rhs_cls[t.xi(x)] {
                                RhsCls::Zero => loc.class("ext:rhs=0"),
                                RhsCls::BaseResidue => loc.class("ext:rhs_c1=0_and_c0_residue"),
                                RhsCls::BaseNonResidue => loc.class("ext:rhs_c1=0_and_c0_nonresidue"),
                                RhsCls::GeneralSquare => loc.class("ext:rhs_c1!=0_square"),
                                RhsCls::GeneralNonSquare => loc.class("ext:rhs_c1!=0_nonsquare"),
                            }
                            match t.pick(x, fm) {
                                None => Cls::NoSqrt,
                                Some((y, i)) => {
                                    loc.class_if(y.1 != 0, "ext:y_sign_decided_by_c1");
                                    loc.class_if(y.1 == 0 && y.0 != 0, "ext:y_sign_decided_by_c0");
                                    if t.in_subgroup[i] {
                                        Cls::Valid(i)
                                    } else {
                                        Cls::OutSub(i)
                                    }
                                }
                            }
                        }
                    }
                };
                run(loc, b, cls, true, vt, advertised);
            });
        }
    }
    // ---- uncompressed (2 * 2 bytes): the model class of a full-length input
    let ulen = xlen + plen;
    let advertised_u = sw::Affine::<P>::identity().serialized_size(Compress::No);
    let classify_u = |loc: &mut Loc, b: &[u8]| -> Cls {
        if b.len() < ulen {
            return Cls::Trunc;
        }
        match (m.dec::<EmptyFlags>(&b[..xlen]), m.dec::<SWFlags>(&b[xlen..])) {
            (_, SDec::BadFlags) => Cls::BadFlags,
            (SDec::Ok(cx, _), SDec::Ok(cy, fm)) => {
                let (x, y) = ((cx[0], cx[1]), (cy[0], cy[1]));
                if fm == 0x40 {
                    if x == (0, 0) && y == (0, 0) {
                        Cls::Identity
                    } else {
                        Cls::InfinityJunk
                    }
                } else {
                    match t.g.index.get(&Pt::A(x, y)) {
                        None => Cls::OffCurve,
                        Some(i) if t.in_subgroup[*i] => Cls::Valid(*i),
                        Some(i) => Cls::OutSub(*i),
                    }
                }
            }
            (dx, _) => {
                loc.class_if(!matches!(dx, SDec::Ok(..)), "ext:field_int>=p_in_x");
                loc.class_if(matches!(dx, SDec::Ok(..)), "ext:field_int>=p_in_y");
                Cls::BadInt
            }
        }
    };
    if ulen.max(advertised_u) > 4 || xlen != 2 {
        ctx.bound(&format!("bytes_ext_toy/{name}/uncompressed"), format!("not enumerated ({}-byte encoding)", ulen.max(advertised_u)));
        return;
    }
    // (U1) every pair of canonical coordinates x every pattern of the two flag bits (model-built bytes):
    // all curve points, all off-curve pairs, identity, infinity flag + junk, both flags
    let q = f.order();
    ctx.sweep(&format!("bytes_ext_toy/{name}/uncompressed_canonical_xy"), q * q * 4 * 4, |i, loc| {
        let [ix, iy, ifl, vt] = unrank(i, [q, q, 4, 4]);
        let mut bytes = [0u8; 8];
        let n0 = m.enc(&[ix % p, ix / p], 0, 0, &mut bytes);
        let n1 = m.enc(&[iy % p, iy / p], 2, (ifl << 6) as u8, &mut bytes[n0..]);
        let b = &bytes[..n0 + n1];
        let cls = classify_u(loc, b);
        run(loc, b, cls, false, vt, advertised_u);
    });
    // (U2) raw byte strings: every string of length 0..=2, and for a set of x parts (some of every model
    // class, incl. non-canonical ones) every continuation of 1 and 2 bytes
    let per_class = ctx.t(4usize, 24usize);
    let mut xparts: Vec<[u8; 2]> = Vec::new();
    {
        let mut seen: std::collections::BTreeMap<u32, usize> = std::collections::BTreeMap::new();
        for i in 0..(1u32 << (8 * xlen)) {
            let b = (i as u16).to_le_bytes();
            let key = match m.dec::<EmptyFlags>(&b) {
                SDec::Ok(c, _) => {
                    let xi = t.xi((c[0], c[1]));
                    let pts = &t.by_x[xi];
                    let membership: u32 = if pts.is_empty() {
                        0
                    } else if pts.iter().all(|(_, i)| t.in_subgroup[*i]) {
                        1
                    } else {
                        2
                    };
                    let x_is_zero: u32 = if i == 0 { 1000 } else { 0 };
                    100 + 10 * (t.rhs_cls[xi] as u32) + membership + x_is_zero
                }
                // which coefficient(s) are out of range
                _ => (b[0] as u64 >= p) as u32 + 2 * ((b[1] as u64 >= p) as u32),
            };
            let c = seen.entry(key).or_insert(0);
            if *c < per_class {
                *c += 1;
                xparts.push(b);
            }
        }
    }
    ctx.bound(&format!("bytes_ext_toy/{name}/uncompressed_bytes"), format!("all strings of length 0..=2; {} x parts (first {per_class} of every model class of the 2-byte x part) x all continuations of 1 and 2 bytes", xparts.len()));
    let n_short = count_strings(xlen);
    let n_tail = count_strings(plen) - 1; // continuations of length 1..=plen
    let nx = xparts.len() as u64;
    let xparts = &xparts;
    ctx.sweep(&format!("bytes_ext_toy/{name}/uncompressed_bytes"), (n_short + nx * n_tail) * 4, |i, loc| {
        let [is, vt] = unrank(i, [n_short + nx * n_tail, 4]);
        let mut bytes = [0u8; 8];
        let len = if is < n_short {
            let (len, s) = nth_string(is);
            bytes = s;
            len
        } else {
            let j = is - n_short;
            let (tl, ts) = nth_string(1 + j % n_tail);
            bytes[..xlen].copy_from_slice(&xparts[(j / n_tail) as usize]);
            bytes[xlen..xlen + tl].copy_from_slice(&ts[..tl]);
            xlen + tl
        };
        let b = &bytes[..len];
        let cls = classify_u(loc, b);
        run(loc, b, cls, false, vt, advertised_u);
    });
}

// ------------------------------------------------------------------------------------------
// (E3) ONE toy short-Weierstrass curve over a CUBIC extension field, F_343 = F_7[u]/(u^3 - 2):
// y^2 = x^3 + u x + (1 + u + u^2), 366 = 6 * 61 points (= SwC7A of c03.rs).  Decompression takes
// the square root with CubicExtField::sqrt (generic Tonelli-Shanks on the Fp3Config constants), the
// sign flag compares y with -y through CubicExtField::cmp (c2 first, then c1, then c0).
// Format model read off ff/src/fields/models/cubic_extension.rs: c0, c1 as plain base-field
// elements, then c2 carrying the flag bits in the top bits of its last byte.
// Compressed encoding = 3 bytes: every byte string of every length 0..=3 is offered.
// ------------------------------------------------------------------------------------------
/// F_p[u]/(u^3 - beta), elements (c0, c1, c2), schoolbook (same model as c03.rs)
#[derive(Clone, Copy, Debug)]
struct Fp3Model {
    p: u64,
    beta: u64,
}
impl FieldModel for Fp3Model {
    type E = (u64, u64, u64);
    fn zero(&self) -> Self::E {
        (0, 0, 0)
    }
    fn one(&self) -> Self::E {
        (1, 0, 0)
    }
    fn add(&self, a: Self::E, b: Self::E) -> Self::E {
        ((a.0 + b.0) % self.p, (a.1 + b.1) % self.p, (a.2 + b.2) % self.p)
    }
    fn sub(&self, a: Self::E, b: Self::E) -> Self::E {
        let p = self.p;
        ((a.0 + p - b.0) % p, (a.1 + p - b.1) % p, (a.2 + p - b.2) % p)
    }
    fn neg(&self, a: Self::E) -> Self::E {
        let p = self.p;
        ((p - a.0) % p, (p - a.1) % p, (p - a.2) % p)
    }
    fn mul(&self, a: Self::E, b: Self::E) -> Self::E {
        let (p, be) = (self.p, self.beta);
        let c0 = (a.0 * b.0 + be * ((a.1 * b.2 + a.2 * b.1) % p)) % p;
        let c1 = (a.0 * b.1 + a.1 * b.0 + be * (a.2 * b.2 % p)) % p;
        let c2 = (a.0 * b.2 + a.1 * b.1 + a.2 * b.0) % p;
        (c0, c1, c2)
    }
    fn inv(&self, a: Self::E) -> Self::E {
        assert!(a != (0, 0, 0), "model: inverse of zero");
        self.pow(a, self.p * self.p * self.p - 2)
    }
    fn from_u64(&self, x: u64) -> Self::E {
        (x % self.p, 0, 0)
    }
    fn elements(&self) -> Vec<Self::E> {
        let p = self.p;
        let mut v = Vec::with_capacity((p * p * p) as usize);
        for c2 in 0..p {
            for c1 in 0..p {
                for c0 in 0..p {
                    v.push((c0, c1, c2));
                }
            }
        }
        v
    }
    fn order(&self) -> u64 {
        self.p * self.p * self.p
    }
}
ext_sw!(
    SwC7AuB111,
    F7x3,
    D61,
    6,
    "51",
    F7x3::new(MontFp!("0"), MontFp!("1"), MontFp!("0")),
    F7x3::new(MontFp!("1"), MontFp!("1"), MontFp!("1")),
    F7x3::new(MontFp!("0"), MontFp!("1"), MontFp!("0")),
    F7x3::new(MontFp!("0"), MontFp!("3"), MontFp!("2"))
);
type E3 = (u64, u64, u64);
struct Ext3Toy<P: SWCurveConfig> {
    f: Fp3Model,
    m: SwModel<Fp3Model>,
    g: GroupTable<E3>,
    r: u64,
    h: u64,
    in_subgroup: Vec<bool>,
    /// per x (index c0 + p c1 + p^2 c2): the points (y, oracle index) with that x
    by_x: Vec<Vec<(E3, usize)>>,
    _p: std::marker::PhantomData<P>,
}
impl<P: SWCurveConfig> Ext3Toy<P>
where
    P::ScalarField: PrimeField,
{
    fn fe(e: E3) -> P::BaseField {
        small_from::<P::BaseField>(&[e.0, e.1, e.2])
    }
    fn co(x: &P::BaseField) -> E3 {
        let c = small_coeffs(x);
        (c[0], c[1], c[2])
    }
    fn xi(&self, x: E3) -> usize {
        let p = self.f.p;
        (x.0 + p * x.1 + p * p * x.2) as usize
    }
    fn new(ctx: &mut Ctx, name: &str, f: Fp3Model) -> Option<Self> {
        let p = f.p;
        let sm = Small::of::<P::BaseField>();
        ctx.validate(sm.p == p && sm.d == 3 && is_prime_small(p), &format!("{name}: base field is a cubic extension of the prime field F_{p}"));
        ctx.validate(p % 3 == 1 && powmod(f.beta, (p - 1) / 3, p) != 1, &format!("{name}: beta = {} is a cubic non-residue of F_{p}", f.beta));
        ctx.validate(Self::fe((0, 1, 0)) * Self::fe((0, 0, 1)) == Self::fe((f.beta, 0, 0)), &format!("{name}: u^3 = beta in the library field"));
        let els = f.elements();
        let probe = [els[1], els[els.len() - 1], els[els.len() / 2 + 3], (0, 1, 0), (p - 1, 2, 3), (0, 0, 1)];
        for a in probe {
            for b in probe {
                ctx.validate(Self::co(&(Self::fe(a) * Self::fe(b))) == f.mul(a, b) && Self::co(&(Self::fe(a) + Self::fe(b))) == f.add(a, b), &format!("{name}: field bridge on {a:?},{b:?}"));
            }
        }
        let m = SwModel { f, a: Self::co(&P::COEFF_A), b: Self::co(&P::COEFF_B) };
        let disc = f.add(f.mul(f.from_u64(4), f.mul(m.a, f.sq(m.a))), f.mul(f.from_u64(27), f.sq(m.b)));
        ctx.validate(!f.is_zero(disc), &format!("{name}: discriminant non-zero"));
        let pts = m.points();
        let n = pts.len() as u64;
        let q = f.order();
        let mm = m.clone();
        let g = GroupTable::build(pts, Pt::O, move |a, b| Some(mm.add(a, b)));
        let rl = <P::ScalarField as PrimeField>::MODULUS;
        let r = rl.as_ref()[0];
        ctx.validate(rl.as_ref()[1..].iter().all(|x| *x == 0) && P::COFACTOR.len() == 1, &format!("{name}: r and h fit one limb"));
        let h = P::COFACTOR[0];
        let d = n as i64 - (q as i64 + 1);
        ctx.validate((d * d) as u64 <= 4 * q, &format!("{name}: Hasse bound, #E={n} q={q}"));
        ctx.validate(is_prime_small(r) && n == h * r && h % r != 0 && h > 1, &format!("{name}: #E = {n} = h*r = {h}*{r}, r prime, r does not divide h, h > 1"));
        let gen_pt = Pt::A(Self::co(&P::GENERATOR.x), Self::co(&P::GENERATOR.y));
        let Some(gen) = g.index.get(&gen_pt).copied() else {
            ctx.validate(false, &format!("{name}: generator on the curve"));
            return None;
        };
        ctx.validate(g.order(gen) == Some(r), &format!("{name}: generator has order r"));
        let hinv = prime_to_u64(&P::COFACTOR_INV);
        ctx.validate((hinv * h) % r == 1 % r, &format!("{name}: COFACTOR_INV = {hinv} inverts h = {h} mod r = {r}"));
        let k = g.n().min(12);
        let mut ok = true;
        for a in 0..k {
            for b in 0..k {
                for c in 0..k {
                    ok &= g.add[g.add[a][b]][c] == g.add[a][g.add[b][c]];
                }
            }
        }
        ctx.validate(ok, &format!("{name}: oracle law associative"));
        let in_subgroup: Vec<bool> = (0..g.n()).map(|i| g.mul(r, i) == Some(g.id)).collect();
        ctx.validate(in_subgroup.iter().filter(|b| **b).count() as u64 == r, &format!("{name}: subgroup has r elements"));
        ctx.validate(in_subgroup.iter().any(|b| !*b), &format!("{name}: points outside the subgroup exist"));
        let mut by_x: Vec<Vec<(E3, usize)>> = vec![Vec::new(); q as usize];
        for (i, pt) in g.pts.iter().enumerate() {
            if let Pt::A(x, y) = pt {
                by_x[(x.0 + p * x.1 + p * p * x.2) as usize].push((*y, i));
            }
        }
        Some(Ext3Toy { f, m, g, r, h, in_subgroup, by_x, _p: std::marker::PhantomData })
    }
    fn idx_aff(&self, a: &sw::Affine<P>) -> Option<usize> {
        if a.infinity {
            return Some(self.g.id);
        }
        self.g.index.get(&Pt::A(Self::co(&a.x), Self::co(&a.y))).copied()
    }
    /// decodes X/Z^2, Y/Z^3 with MODEL arithmetic
    fn idx_proj(&self, q: &sw::Projective<P>) -> Option<usize> {
        let (x, y, z) = (Self::co(&q.x), Self::co(&q.y), Self::co(&q.z));
        if z == (0, 0, 0) {
            return Some(self.g.id);
        }
        let f = &self.f;
        let zi = f.inv(z);
        let zi2 = f.sq(zi);
        self.g.index.get(&Pt::A(f.mul(x, zi2), f.mul(y, f.mul(zi2, zi)))).copied()
    }
    /// the root selected by the sign flag: 0x80 = the larger of {y, -y} in the order (c2, then c1, then c0)
    fn pick(&self, x: E3, fm: u8) -> Option<(E3, usize)> {
        let ys = &self.by_x[self.xi(x)];
        let key = |e: &&(E3, usize)| (e.0 .2, e.0 .1, e.0 .0);
        if fm == 0x80 {
            ys.iter().max_by_key(key).copied()
        } else {
            ys.iter().min_by_key(key).copied()
        }
    }
}
const SW_EXT3_SITES: [&str; 7] = [
    "sw_ext3_toy/read_past_advertised_size",
    "sw_ext3_toy/panic",
    "sw_ext3_toy/checked_returns_invalid_point",
    "sw_ext3_toy/checked_accepts_bad_encoding",
    "sw_ext3_toy/infinity_flag_returns_non_identity",
    "sw_ext3_toy/trailing_bytes/read_past_advertised_size",
    "sw_ext3_toy/trailing_bytes/result_changes",
];

fn sw_ext3_bytes<P: SWCurveConfig>(ctx: &mut Ctx, name: &str, f: Fp3Model)
where
    P::ScalarField: PrimeField,
{
    let Some(t) = Ext3Toy::<P>::new(ctx, name, f) else { return };
    let t = &t;
    let p = f.p;
    let m = Small::new(p, 3);
    let (xlen, plen) = (m.total(0), m.total(2));
    // ---- (V) Valid::check / batch_check on batches with invalid members
    {
        let zs = [(1u64, 0u64, 0u64), (2, 1, 0), (0, p - 2, 3)];
        let rep = |x: E3, y: E3, z: E3| {
            let z2 = f.sq(z);
            sw::Projective::<P>::new_unchecked(Ext3Toy::<P>::fe(f.mul(x, z2)), Ext3Toy::<P>::fe(f.mul(y, f.mul(z2, z))), Ext3Toy::<P>::fe(z))
        };
        let idj = |x: E3, y: E3| sw::Projective::<P>::new_unchecked(Ext3Toy::<P>::fe(x), Ext3Toy::<P>::fe(y), Ext3Toy::<P>::fe((0, 0, 0)));
        let mut good: Vec<Member<sw::Projective<P>>> = Vec::new();
        let mut bad: Vec<Member<sw::Projective<P>>> = Vec::new();
        for (i, pt) in t.g.pts.iter().enumerate() {
            let (aff, reps) = match pt {
                Pt::O => (sw::Affine::<P>::identity(), [idj((1, 0, 0), (1, 0, 0)), idj((0, 0, 0), (1, 1, 1)), idj((p - 1, 2, 0), (3 % p, 0, 5 % p))]),
                Pt::A(x, y) => (sw::Affine::<P>::new_unchecked(Ext3Toy::<P>::fe(*x), Ext3Toy::<P>::fe(*y)), [rep(*x, *y, zs[0]), rep(*x, *y, zs[1]), rep(*x, *y, zs[2])]),
            };
            let mb = Member { aff, reps, kind: if t.in_subgroup[i] { 0 } else { 1 }, is_identity: i == t.g.id, label: format!("{pt:?}{}", if t.in_subgroup[i] { "" } else { " (outside the subgroup)" }) };
            if t.in_subgroup[i] {
                good.push(mb)
            } else {
                bad.push(mb)
            }
        }
        let mut n_off = 0;
        'o: for x in f.elements() {
            for y in [(0, 0, 0), (1, 0, 0), (0, 1, 0), (0, 0, 1), (p - 1, p - 1, p - 1)] {
                if !t.g.index.contains_key(&Pt::A(x, y)) {
                    bad.push(Member { aff: sw::Affine::<P>::new_unchecked(Ext3Toy::<P>::fe(x), Ext3Toy::<P>::fe(y)), reps: [rep(x, y, zs[0]), rep(x, y, zs[1]), rep(x, y, zs[2])], kind: 2, is_identity: false, label: format!("({x:?},{y:?}) off the curve") });
                    n_off += 1;
                    if n_off == 6 {
                        break 'o;
                    }
                }
            }
        }
        valid_trait_batches(ctx, name, good, bad);
    }
    let run = |loc: &mut Loc, b: &[u8], cls: Cls, compress: bool, vt: u64, advertised: usize| {
        let checked = vt & 1 == 0;
        let as_proj = vt & 2 != 0;
        let cm = if compress { Compress::Yes } else { Compress::No };
        let vm = if checked { Validate::Yes } else { Validate::No };
        let len = b.len();
        cls.label(loc, len);
        match cls {
            Cls::Valid(_) => loc.class("ext3:valid_subgroup_point"),
            Cls::OutSub(_) => loc.class("ext3:out_of_subgroup_rejected"),
            Cls::OffCurve => loc.class("ext3:off_curve_rejected"),
            Cls::NoSqrt => loc.class("ext3:no_sqrt"),
            Cls::BadInt => loc.class("ext3:field_int>=p"),
            Cls::BadFlags => loc.class("ext3:flags_11"),
            Cls::Identity => loc.class("ext3:identity_encoding"),
            Cls::InfinityJunk => loc.class("ext3:infinity_flag_with_nonzero_x"),
            Cls::Trunc => loc.class("ext3:truncated"),
            _ => {}
        }
        let what = || format!("{name} {} {} as {} input {} ({len} bytes)", if compress { "compressed" } else { "uncompressed" }, if checked { "checked" } else { "unchecked" }, if as_proj { "Projective" } else { "Affine" }, hex(b));
        if loc.sampling() {
            loc.sample(format!("{} model class {cls:?}", what()));
        }
        // (the third component only makes the Affine and Projective results the same type; `BaseField::from(bool)` is not
        // used here: CubicExtField's From<bool> calls itself and never returns - ff/src/fields/models/cubic_extension.rs)
        let call = |input: &[u8]| {
            let mut rd = CountReader::new(input);
            let res = guard(|| {
                if as_proj {
                    sw::Projective::<P>::deserialize_with_mode(&mut rd, cm, vm).map(|q| (t.idx_proj(&q), q.z.is_zero(), (q.x, q.y, q.z))).map_err(|_| ())
                } else {
                    sw::Affine::<P>::deserialize_with_mode(&mut rd, cm, vm).map(|a| (t.idx_aff(&a), a.infinity, (a.x, a.y, if a.infinity { P::BaseField::zero() } else { P::BaseField::one() }))).map_err(|_| ())
                }
            });
            (res, rd.pos)
        };
        let (res, consumed) = call(b);
        let (eb, el) = with_trailing(b);
        judge_point(loc, &SW_EXT3_SITES, &what, cls, checked, &|i| t.in_subgroup[i], res, consumed, advertised, len, &|| call(&eb[..el]));
    };
    // ---- compressed: every byte string of every length 0..=3
    {
        let advertised = sw::Affine::<P>::identity().serialized_size(Compress::Yes);
        let max_len = plen.max(advertised);
        if max_len != 3 {
            ctx.machinery_error(format!("{name}: compressed encoding of {max_len} bytes (model {plen}, advertised {advertised}); the sweep is written for 3"));
            return;
        }
        let ns = count_strings(max_len);
        ctx.sweep(&format!("bytes_ext3_toy/{name}/compressed"), ns * 4, |i, loc| {
            let [is, vt] = unrank(i, [ns, 4]);
            let (len, bytes) = nth_string(is);
            let b = &bytes[..len];
            let cls = if len < plen {
                Cls::Trunc
            } else {
                match m.dec::<SWFlags>(b) {
                    SDec::Short => Cls::Trunc,
                    SDec::BadFlags => Cls::BadFlags,
                    SDec::Stray | SDec::GeP => {
                        loc.class_if(b[0] as u64 >= p, "ext3:field_int>=p_in_c0");
                        loc.class_if(b[1] as u64 >= p, "ext3:field_int>=p_in_c1");
                        loc.class_if((b[2] & !topmask(2)) as u64 >= p, "ext3:field_int>=p_in_c2");
                        Cls::BadInt
                    }
                    SDec::Ok(c, 0x40) => {
                        if c[0] == 0 && c[1] == 0 && c[2] == 0 {
                            Cls::Identity
                        } else {
                            Cls::InfinityJunk
                        }
                    }
                    SDec::Ok(c, fm) => {
                        let x = (c[0], c[1], c[2]);
                        loc.class_if(t.m.rhs(x) == (0, 0, 0), "ext3:rhs=0");
                        match t.pick(x, fm) {
                            None => Cls::NoSqrt,
                            Some((y, i)) => {
                                loc.class_if(y.2 != 0, "ext3:y_sign_decided_by_c2");
                                loc.class_if(y.2 == 0 && y.1 != 0, "ext3:y_sign_decided_by_c1");
                                loc.class_if(y.2 == 0 && y.1 == 0 && y.0 != 0, "ext3:y_sign_decided_by_c0");
                                loc.class_if(y == (0, 0, 0), "ext3:y=0_tie");
                                loc.class_if(fm == 0x80, "ext3:sign_flag_set");
                                if t.in_subgroup[i] {
                                    Cls::Valid(i)
                                } else {
                                    Cls::OutSub(i)
                                }
                            }
                        }
                    }
                }
            };
            run(loc, b, cls, true, vt, advertised);
        });
    }
    // ---- uncompressed (2 * 3 bytes)
    let ulen = xlen + plen;
    let advertised_u = sw::Affine::<P>::identity().serialized_size(Compress::No);
    if ulen.max(advertised_u) != 6 {
        ctx.machinery_error(format!("{name}: uncompressed encoding of {} bytes; the sweep is written for 6", ulen.max(advertised_u)));
        return;
    }
    let classify_u = |loc: &mut Loc, b: &[u8]| -> Cls {
        if b.len() < ulen {
            return Cls::Trunc;
        }
        match (m.dec::<EmptyFlags>(&b[..xlen]), m.dec::<SWFlags>(&b[xlen..])) {
            (_, SDec::BadFlags) => Cls::BadFlags,
            (SDec::Ok(cx, _), SDec::Ok(cy, fm)) => {
                let (x, y) = ((cx[0], cx[1], cx[2]), (cy[0], cy[1], cy[2]));
                if fm == 0x40 {
                    if x == (0, 0, 0) && y == (0, 0, 0) {
                        Cls::Identity
                    } else {
                        Cls::InfinityJunk
                    }
                } else {
                    match t.g.index.get(&Pt::A(x, y)) {
                        None => Cls::OffCurve,
                        Some(i) if t.in_subgroup[*i] => Cls::Valid(*i),
                        Some(i) => Cls::OutSub(*i),
                    }
                }
            }
            (dx, _) => {
                loc.class_if(!matches!(dx, SDec::Ok(..)), "ext3:field_int>=p_in_x");
                loc.class_if(matches!(dx, SDec::Ok(..)), "ext3:field_int>=p_in_y");
                Cls::BadInt
            }
        }
    };
    // (U1) every pair of canonical coordinates x every pattern of the two flag bits (model-built bytes)
    let q = f.order();
    let p2 = p * p;
    ctx.sweep(&format!("bytes_ext3_toy/{name}/uncompressed_canonical_xy"), q * q * 4 * 4, |i, loc| {
        let [ix, iy, ifl, vt] = unrank(i, [q, q, 4, 4]);
        let mut bytes = [0u8; 8];
        let n0 = m.enc(&[ix % p, ix / p % p, ix / p2], 0, 0, &mut bytes);
        let n1 = m.enc(&[iy % p, iy / p % p, iy / p2], 2, (ifl << 6) as u8, &mut bytes[n0..]);
        let b = &bytes[..n0 + n1];
        let cls = classify_u(loc, b);
        run(loc, b, cls, false, vt, advertised_u);
    });
    // (U2) raw byte strings: every string of length 0..=2 (truncated), and the canonical encoding of every curve point
    // with ONE byte replaced by every value (non-canonical coefficients in every slot, all flag patterns) and cut at every length
    let n_short = count_strings(2);
    let npts = t.g.n() as u64;
    ctx.bound(&format!("bytes_ext3_toy/{name}/uncompressed_bytes"), "all strings of length 0..=2; the 6-byte encoding of every point of the curve with one byte (every position) replaced by every value, and every proper prefix of it");
    ctx.sweep(&format!("bytes_ext3_toy/{name}/uncompressed_bytes"), (n_short + npts * (6 * 256 + 6)) * 4, |i, loc| {
        let [is, vt] = unrank(i, [n_short + npts * (6 * 256 + 6), 4]);
        let mut bytes = [0u8; 8];
        let len = if is < n_short {
            let (len, s) = nth_string(is);
            bytes = s;
            len
        } else {
            let j = is - n_short;
            let (ip, k) = ((j / (6 * 256 + 6)) as usize, j % (6 * 256 + 6));
            let (x, y) = match t.g.pts[ip] {
                Pt::O => ((0, 0, 0), (0, 0, 0)),
                Pt::A(x, y) => (x, y),
            };
            let n0 = m.enc(&[x.0, x.1, x.2], 0, 0, &mut bytes);
            m.enc(&[y.0, y.1, y.2], 2, if ip == t.g.id { 0x40 } else { 0 }, &mut bytes[n0..]);
            if k < 6 * 256 {
                bytes[(k / 256) as usize] = (k % 256) as u8;
                6
            } else {
                (k - 6 * 256) as usize
            }
        };
        let b = &bytes[..len];
        let cls = classify_u(loc, b);
        run(loc, b, cls, false, vt, advertised_u);
    });
}

// ------------------------------------------------------------------------------------------
// (E) field elements: every byte string of the element length and shorter
// ------------------------------------------------------------------------------------------
/// Ok(v) must be canonical: every base-prime-field coefficient has raw (Montgomery) limbs < p and
/// denotes exactly the integer found in the bytes
fn field_bytes<E: Field, Fl: TestFlag>(ctx: &mut Ctx, name: &str)
where
    E::BasePrimeField: FpAccess,
{
    let m = Small::of::<E>();
    let nb = Fl::NB;
    let total = m.total(nb);
    if total > ctx.t(3, 4) {
        ctx.bound(&format!("bytes_field/{name}/{}", Fl::NAME), format!("not enumerated in this tier ({total}-byte encoding)"));
        return;
    }
    let ns = count_strings(total);
    ctx.sweep(&format!("bytes_field/{name}/{}", Fl::NAME), ns, |i, loc| {
        let (len, bytes) = nth_string(i);
        let b = &bytes[..len];
        let want = m.dec::<Fl>(b);
        match want {
            SDec::Short => loc.class(TRUNC[len.min(4)]),
            SDec::BadFlags => loc.class("flags_11"),
            SDec::Stray | SDec::GeP => loc.class("field_int>=p"),
            SDec::Ok(..) => loc.class("canonical_field_bytes"),
        }
        if loc.sampling() {
            loc.sample(format!("{name}/{} input {} model {want:?}", Fl::NAME, hex(b)));
        }
        let canonical = |v: &E| -> (bool, [u64; 4]) {
            let mut ok = true;
            let mut c = [0u64; 4];
            for (j, x) in v.to_base_prime_field_elements().enumerate() {
                ok &= x.raw()[0] < m.p;
                c[j] = prime_to_u64(&x);
            }
            (ok, c)
        };
        // `again` = the same call on `b ++ [0xA5, 0x5A]`, run when `b` itself is accepted (see judge_point)
        let judge = |loc: &mut Loc, sites: &[&str; 6], res: Result<Result<E, ()>, String>, consumed: usize, again: &dyn Fn() -> (Result<Result<E, ()>, String>, usize)| {
            loc.check_at(sites[0], consumed <= total, || format!("{name}/{} input {}: consumed {consumed} > {total}", Fl::NAME, hex(b)));
            match res {
                Err(p) => loc.fail_at(sites[1], format!("{name}/{} input {}: {p}", Fl::NAME, hex(b))),
                Ok(Err(())) => loc.op(),
                Ok(Ok(v)) => {
                    let (raw_ok, c) = canonical(&v);
                    let want_c = match want {
                        SDec::Ok(wc, _) => Some(wc),
                        _ => None,
                    };
                    // the property's own words: the returned element is below the modulus (every coefficient's stored limbs)
                    loc.check_at(sites[2], raw_ok, || format!("{name}/{} input {} (model {want:?}) returned coefficients {:?} whose stored limbs are not all below p", Fl::NAME, hex(b), &c[..m.d]));
                    // more than C10 says, kept under its own name: the element is the one the bytes denote (a decoder
                    // returning another value is wrong under C09's round trip / uniqueness anyway)
                    loc.check_at(sites[3], want_c == Some(c), || format!("{name}/{} input {} (model {want:?}) returned coefficients {:?}", Fl::NAME, hex(b), &c[..m.d]));
                    loc.class("accepted_input_fed_again_with_trailing_bytes");
                    let (res2, consumed2) = again();
                    loc.check_at(sites[4], consumed2 <= total && consumed2 == len, || format!("{name}/{} input {} followed by a55a: consumed {consumed2} bytes; the accepted input has {len}, the advertised size is {total}", Fl::NAME, hex(b)));
                    match res2 {
                        Err(p) => loc.fail_at(sites[1], format!("{name}/{} input {} followed by a55a: {p}", Fl::NAME, hex(b))),
                        Ok(Err(())) => loc.fail_at(sites[5], format!("{name}/{} input {}: accepted, but rejected when followed by a55a", Fl::NAME, hex(b))),
                        Ok(Ok(v2)) => {
                            loc.check_at(sites[5], v2 == v, || format!("{name}/{} input {}: returned {:?}, but {:?} when followed by a55a", Fl::NAME, hex(b), &c[..m.d], &canonical(&v2).1[..m.d]));
                        }
                    }
                }
            }
        };
        const WF: [&str; 6] = [
            "field/deserialize_with_flags/read_past_advertised_size",
            "field/deserialize_with_flags/panic",
            "field/deserialize_with_flags/returned_element_not_below_modulus",
            "field/deserialize_with_flags/field_value",
            "field/deserialize_with_flags/trailing_bytes/read_past_advertised_size",
            "field/deserialize_with_flags/trailing_bytes/result_changes",
        ];
        const WM: [&str; 6] = [
            "field/deserialize_with_mode/read_past_advertised_size",
            "field/deserialize_with_mode/panic",
            "field/deserialize_with_mode/returned_element_not_below_modulus",
            "field/deserialize_with_mode/field_value",
            "field/deserialize_with_mode/trailing_bytes/read_past_advertised_size",
            "field/deserialize_with_mode/trailing_bytes/result_changes",
        ];
        let (eb, el) = with_trailing(b);
        let with_flags = |input: &[u8]| {
            let mut rd = CountReader::new(input);
            let res = guard(|| E::deserialize_with_flags::<_, Fl>(&mut rd).map(|(v, _)| v).map_err(|_| ()));
            (res, rd.pos)
        };
        let (res, pos) = with_flags(b);
        judge(loc, &WF, res, pos, &|| with_flags(&eb[..el]));
        if nb == 0 {
            for (cm, vm) in MODES.iter() {
                let with_mode = |input: &[u8]| {
                    let mut rd = CountReader::new(input);
                    let res = guard(|| E::deserialize_with_mode(&mut rd, *cm, *vm).map_err(|_| ()));
                    (res, rd.pos)
                };
                let (res, pos) = with_mode(b);
                judge(loc, &WM, res, pos, &|| with_mode(&eb[..el]));
            }
        }
    });
}
fn field_bytes_all<E: Field>(ctx: &mut Ctx, name: &str)
where
    E::BasePrimeField: FpAccess,
{
    field_bytes::<E, EmptyFlags>(ctx, name);
    field_bytes::<E, TEFlags>(ctx, name);
    field_bytes::<E, SWFlags>(ctx, name);
}

// ------------------------------------------------------------------------------------------
// PairingOutput: checked deserialization accepts exactly the r-torsion of the target field
// ------------------------------------------------------------------------------------------
/// x^e by plain square-and-multiply on the field operations (not `pow`)
fn fpow<E: Field>(x: &E, e: &BigUint) -> E {
    let mut acc = E::one();
    for i in (0..e.bits()).rev() {
        acc = acc.square();
        if e.bit(i) {
            acc *= x;
        }
    }
    acc
}
fn pairing_cases<P: Pairing>(name: &'static str) -> (Vec<Case>, Vec<String>) {
    let mut notes = Vec::new();
    let m = std::sync::Arc::new(Big::of::<P::TargetField>());
    let k = m.d;
    let q = m.p.clone();
    let r = from_limbs(<P::ScalarField as PrimeField>::MODULUS.as_ref());
    let qk1 = q.pow(k as u32) - 1u32;
    let phi = match k {
        12 => q.pow(4) - q.pow(2) + 1u32,
        6 => q.pow(2) - &q + 1u32,
        4 => q.pow(2) + 1u32,
        _ => {
            notes.push(format!("{name}: unexpected embedding degree {k}"));
            BigUint::one()
        }
    };
    if !(&qk1 % &r).is_zero() || !(&qk1 % &phi).is_zero() || !(&phi % &r).is_zero() {
        notes.push(format!("{name}: r | Phi_k(q) | q^k - 1 does not hold"));
        return (Vec::new(), notes);
    }
    let one = P::TargetField::one();
    let gen: P::TargetField = generic_elem();
    let two = P::TargetField::from(2u64);
    let mut small = vec![BigUint::zero(); k];
    small[0] = BigUint::from(3u32);
    small[k - 1] = BigUint::one();
    let w: P::TargetField = from_coeffs(&small);
    // (label, element)
    let mut elems: Vec<(String, P::TargetField)> = vec![
        ("1".into(), one),
        ("0".into(), P::TargetField::zero()),
        ("-1".into(), -one),
        ("2".into(), two),
        ("generic".into(), gen),
        ("3+w^(k-1)".into(), w),
    ];
    let e_r = &qk1 / &r;
    let e_c = &qk1 / &phi;
    for (l, x) in [("generic", gen), ("2", two), ("3+w^(k-1)", w)] {
        let t = fpow(&x, &e_r);
        elems.push((format!("{l}^((q^k-1)/r)"), t));
        elems.push((format!("-({l}^((q^k-1)/r))"), -t));
        elems.push((format!("({l}^((q^k-1)/r))^2"), t.square()));
        // cyclotomic subgroup element (order divides Phi_k(q)), generically not of order dividing r
        elems.push((format!("{l}^((q^k-1)/Phi_k(q))"), fpow(&x, &e_c)));
    }
    let e = P::pairing(P::G1Affine::generator(), P::G2Affine::generator());
    elems.push(("e(G1,G2)".into(), e.0));
    elems.push(("e(G1,G2)^-1".into(), e.0.inverse().unwrap_or(one)));
    elems.push(("2*e(G1,G2)".into(), e.0 * two));
    let mut cases: Vec<Case> = Vec::new();
    let mut n_tors = 0;
    let mut n_cyc_not = 0;
    for (label, x) in elems {
        let torsion = fpow(&x, &r) == one;
        if torsion {
            n_tors += 1;
        }
        if label.contains("Phi_k") && !torsion {
            n_cyc_not += 1;
        }
        let enc = m.enc(&coeffs(&x), 0, 0);
        let total = enc.len();
        // mutations: none, every single-bit flip of the last byte and of the first byte, every truncation, one extra byte
        let mut inputs: Vec<(String, Vec<u8>)> = vec![("as is".into(), enc.clone())];
        for bit in 0..8 {
            let mut v = enc.clone();
            v[total - 1] ^= 1 << bit;
            inputs.push((format!("bit {bit} of the last byte flipped"), v));
            let mut v = enc.clone();
            v[0] ^= 1 << bit;
            inputs.push((format!("bit {bit} of the first byte flipped"), v));
        }
        for l in 0..total {
            inputs.push((format!("truncated to {l}"), enc[..l].to_vec()));
        }
        let mut v = enc.clone();
        v.push(0x5a);
        inputs.push(("one extra byte".into(), v));
        for (mutation, input) in inputs {
            let (m, label) = (m.clone(), label.clone());
            let r = r.clone();
            let unmutated = mutation == "as is" || mutation == "one extra byte";
            cases.push(Box::new(move |loc: &mut Loc| {
                let dec = m.dec::<EmptyFlags>(&input);
                loc.class_if(input.len() < total, "truncated");
                loc.class_if(unmutated && torsion, "pairing_output:r_torsion");
                loc.class_if(unmutated && !torsion, "pairing_output:not_r_torsion");
                loc.class_if(unmutated && !torsion && label.contains("Phi_k"), "pairing_output:cyclotomic_not_r_torsion");
                loc.class_if(matches!(dec, BDec::GeP | BDec::Stray), "field_int>=p");
                if loc.sampling() {
                    loc.sample(format!("{name} PairingOutput {label} ({mutation}), {} bytes, r-torsion: {torsion}", input.len()));
                }
                for (mi, (cm, vm)) in MODES.iter().enumerate() {
                    let mut rd = CountReader::new(&input);
                    let res = guard(|| PairingOutput::<P>::deserialize_with_mode(&mut rd, *cm, *vm).map_err(|e| e.to_string()));
                    let consumed = rd.pos;
                    let what = || format!("{name} PairingOutput {label} ({mutation}) {}", mode_name(mi));
                    loc.check_at(&format!("PairingOutput<{name}>/read_past_advertised_size"), consumed <= total, || format!("{}: consumed {consumed} > {total}", what()));
                    match res {
                        Err(p) => loc.fail_at(&format!("PairingOutput<{name}>/panic"), format!("{}: {p}", what())),
                        Ok(Err(e)) => {
                            // the canonical encoding of an r-torsion element must be accepted (all modes); of any field element in unchecked modes
                            if unmutated && (torsion || *vm == Validate::No) {
                                loc.fail_at(&format!("PairingOutput<{name}>/valid_rejected"), format!("{}: rejected: {e}", what()));
                            } else {
                                loc.op();
                            }
                        }
                        Ok(Ok(v)) => {
                            let canon = matches!(&dec, BDec::Ok(c, _) if *c == coeffs(&v.0));
                            loc.check_at(&format!("PairingOutput<{name}>/returned_element_not_canonical"), canon, || format!("{}: returned {:?} for input of model class {dec:?}", what(), show(&coeffs(&v.0))));
                            if *vm == Validate::Yes {
                                let ok = fpow(&v.0, &r) == P::TargetField::one();
                                loc.check_at(&format!("PairingOutput<{name}>/checked_returns_non_torsion"), ok, || format!("{}: checked deserialization returned an element whose r-th power is not 1", what()));
                            }
                        }
                    }
                }
            }));
        }
    }
    if n_tors < 5 || n_cyc_not == 0 {
        notes.push(format!("{name}: degenerate element list (r-torsion {n_tors}, cyclotomic non-torsion {n_cyc_not})"));
    }
    (cases, notes)
}

// ------------------------------------------------------------------------------------------
// (A) shipped curves: constructed encodings + deviation <= 1 mutations
// ------------------------------------------------------------------------------------------
type Case = Box<dyn Fn(&mut Loc) + Send + Sync>;

/// what the harness knows about a constructed (unmutated) input
#[derive(Clone, Copy, Debug, PartialEq, Eq)]
enum Known {
    SubgroupPoint,
    Identity,
    OutOfSubgroup,
    SmallOrder,
    OffCurve,
    NoSqrt,
    IntGeP,
    Flags11,
    InfinityNonzeroX,
    /// hand-built string for the zcash readers: only the generic rules apply
    HandBuilt,
    /// mutated input: only the generic rules apply
    Mutated,
}
impl Known {
    /// (a coordinate integer >= p / an illegal flag pattern in a POINT encoding is not named by C10: "an error or a valid
    /// group element" is what is demanded there - see Cls::may_accept_checked)
    fn must_reject_checked(&self) -> bool {
        matches!(self, Known::OutOfSubgroup | Known::SmallOrder | Known::OffCurve | Known::NoSqrt)
    }
    fn label(&self, loc: &mut Loc) {
        match self {
            Known::SubgroupPoint => loc.class("valid_subgroup_point"),
            Known::Identity => loc.class("identity_encoding"),
            Known::OutOfSubgroup => loc.class("out_of_subgroup_rejected"),
            Known::SmallOrder => {
                loc.class("out_of_subgroup_rejected");
                loc.class("small_order_point");
            }
            Known::OffCurve => loc.class("off_curve_rejected"),
            Known::NoSqrt => loc.class("no_sqrt"),
            Known::IntGeP => loc.class("field_int>=p"),
            Known::Flags11 => loc.class("flags_11"),
            Known::InfinityNonzeroX => loc.class("infinity_flag_with_nonzero_x"),
            Known::HandBuilt => loc.class("zcash:hand_built_string"),
            Known::Mutated => {}
        }
    }
}
/// overwrite the c0 slot of the x coordinate (first coordinate) with `v`, keeping flag bits that live there
fn patch_first_c0(m: &Big, fmt: Fmt, nb_if_single: usize, bytes: &mut [u8], v: &BigUint) {
    match fmt {
        Fmt::Default => {
            let (len, keep) = if nb_if_single > 0 && m.d == 1 { (m.llen(nb_if_single), topmask(nb_if_single)) } else { (m.blen(), 0) };
            let flags = bytes[len - 1] & keep;
            let mut b = v.to_bytes_le();
            b.resize(len, 0);
            bytes[..len].copy_from_slice(&b);
            bytes[len - 1] |= flags;
        }
        Fmt::Zcash => {
            let start = 48 * (m.d - 1);
            let flags = if m.d == 1 { bytes[0] & 0xe0 } else { 0 };
            let mut b = v.to_bytes_le();
            b.resize(48, 0);
            b.reverse();
            bytes[start..start + 48].copy_from_slice(&b);
            bytes[start] |= flags;
        }
    }
}
fn mutations(enc: &[u8]) -> Vec<(String, Vec<u8>)> {
    let total = enc.len();
    let mut out = vec![("as is".to_string(), enc.to_vec())];
    let mut v = enc.to_vec();
    v.push(0x5a);
    out.push(("one extra byte".into(), v));
    for bit in 0..8 {
        let mut v = enc.to_vec();
        v[total - 1] ^= 1 << bit;
        out.push((format!("bit {bit} of the last byte flipped"), v));
        let mut v = enc.to_vec();
        v[0] ^= 1 << bit;
        out.push((format!("bit {bit} of the first byte flipped"), v));
    }
    for l in 0..total {
        out.push((format!("truncated to {l}"), enc[..l].to_vec()));
    }
    out
}
fn small_prime_factors(h: &BigUint) -> Vec<u32> {
    let mut out = Vec::new();
    let mut d = 2u32;
    while d < 200 {
        if (h % d).is_zero() {
            out.push(d);
        }
        d += 1;
        while !is_prime_small(d as u64) {
            d += 1;
        }
    }
    out
}
fn is_square<E: Field>(m: &Big, e: &E) -> bool {
    // Euler criterion with the harness' own exponentiation; |E| = p^d
    e.is_zero() || fpow(e, &((m.p.pow(m.d as u32) - 1u32) / 2u32)) == E::one()
}

fn sw_shipped_c10<P: SWCurveConfig>(name: &'static str, fmt: Fmt, custom: bool) -> (Vec<Case>, Vec<String>)
where
    P::ScalarField: PrimeField,
{
    let mut notes = Vec::new();
    let m = std::sync::Arc::new(Big::of::<P::BaseField>());
    let (a, b) = (P::COEFF_A, P::COEFF_B);
    let r = std::sync::Arc::new(from_limbs(<P::ScalarField as PrimeField>::MODULUS.as_ref()));
    let h = from_limbs(P::COFACTOR);
    let g = AP::A(P::GENERATOR.x, P::GENERATOR.y);
    let (gx, gy) = (P::GENERATOR.x, P::GENERATOR.y);
    if !sw_on_curve(&a, &b, &g) || sw_mul(&a, &g, &r) != AP::O {
        notes.push(format!("{name}: generator fails the oracle (on curve, r*G = O)"));
    }
    let one = P::BaseField::one();
    let zero = P::BaseField::zero();
    // ---- points
    let mut pts: Vec<(String, AP<P::BaseField>, Known)> = vec![("G".into(), g, Known::SubgroupPoint), ("2G".into(), sw_add(&a, &g, &g), Known::SubgroupPoint), ("O".into(), AP::O, Known::Identity)];
    let mut curve_pts: Vec<AP<P::BaseField>> = Vec::new(); // first curve points from x = 0, 1, 2, ...
    let mut noroot: Option<P::BaseField> = None;
    for i in 0u64..60 {
        let x = P::BaseField::from(i);
        let rhs = x.square() * x + a * x + b;
        if is_square(&m, &rhs) {
            if let Some(y) = rhs.sqrt() {
                let n = AP::A(x, y);
                if sw_on_curve(&a, &b, &n) && curve_pts.len() < 6 {
                    curve_pts.push(n);
                }
            }
        } else if noroot.is_none() {
            noroot = Some(x);
        }
    }
    if h > BigUint::one() {
        match curve_pts.iter().find(|n| sw_mul(&a, n, &r) != AP::O) {
            Some(n) => {
                pts.push(("N".into(), *n, Known::OutOfSubgroup));
                pts.push(("-N".into(), sw_neg(n), Known::OutOfSubgroup));
            }
            None => notes.push(format!("{name}: cofactor > 1 but no point outside the subgroup among the first curve points")),
        }
        let order = &h * &*r;
        for l in small_prime_factors(&h).into_iter().take(3) {
            let e = &order / l;
            if let Some(q) = curve_pts.iter().map(|n| sw_mul(&a, n, &e)).find(|q| *q != AP::O) {
                if sw_mul(&a, &q, &BigUint::from(l)) == AP::O {
                    pts.push((format!("order-{l} point"), q, Known::SmallOrder));
                }
            }
        }
    }
    // ---- base inputs (label, compress, bytes, known class)
    let mut bases: Vec<(String, bool, Vec<u8>, Known)> = Vec::new();
    for (l, p, k) in &pts {
        for c in [true, false] {
            bases.push((l.clone(), c, sw_big_bytes(&m, fmt, p, c), *k));
        }
    }
    // (x, y) off the curve (uncompressed only); includes small-order points of the curves y^2 = x^3 + a x + b' (b' != b)
    let two = P::BaseField::from(2u64);
    let three = P::BaseField::from(3u64);
    for (l, x, y) in [("(Gx,Gy+1)", gx, gy + one), ("(Gx+1,Gy)", gx + one, gy), ("(0,0)", zero, zero), ("(0,1)", zero, one), ("(0,3)", zero, three), ("(1,0)", one, zero), ("(2,0)", two, zero), ("(Gx,-Gy+1)", gx, one - gy), ("(4Gx,8Gy) = G on y^2=x^3+16ax+64b", gx.double().double(), gy.double().double().double()), ("(9Gx,27Gy)", three.square() * gx, three.square() * three * gy)] {
        let p = AP::A(x, y);
        if !sw_on_curve(&a, &b, &p) {
            bases.push((format!("off-curve {l}"), false, sw_big_bytes(&m, fmt, &p, false), Known::OffCurve));
        }
    }
    let flag_pos = |bytes: &Vec<u8>| if fmt == Fmt::Zcash { 0 } else { bytes.len() - 1 };
    // x without a square root (compressed only, both sign flags)
    if let Some(x) = noroot {
        let mut e = sw_big_bytes(&m, fmt, &AP::A(x, zero), true); // y = 0 -> sign flag clear
        bases.push(("x without root, sign 0".into(), true, e.clone(), Known::NoSqrt));
        let fp = flag_pos(&e);
        e[fp] |= if fmt == Fmt::Zcash { 0x20 } else { 0x80 };
        bases.push(("x without root, sign 1".into(), true, e, Known::NoSqrt));
    } else {
        notes.push(format!("{name}: no x without a root below 60"));
    }
    // x = p and x = p + 1 in the c0 slot
    for (l, v) in [("x.c0 = p", m.p.clone()), ("x.c0 = p+1", &m.p + 1u32)] {
        for c in [true, false] {
            let mut e = sw_big_bytes(&m, fmt, &g, c);
            patch_first_c0(&m, fmt, if c { 2 } else { 0 }, &mut e, &v);
            bases.push((l.to_string(), c, e, Known::IntGeP));
        }
    }
    // both flags (Default: infinity + negative; zcash: infinity + sort, and sort without compression)
    for c in [true, false] {
        let mut e = sw_big_bytes(&m, fmt, &g, c);
        let fp = flag_pos(&e);
        match fmt {
            Fmt::Default => e[fp] |= 0xc0,
            Fmt::Zcash => e[fp] |= 0x60,
        }
        bases.push(("both flags".into(), c, e, Known::Flags11));
    }
    // infinity flag with the coordinates of G
    for c in [true, false] {
        let mut e = sw_big_bytes(&m, fmt, &g, c);
        let fp = flag_pos(&e);
        e[fp] = (e[fp] & !(if fmt == Fmt::Zcash { 0x20 } else { 0x80 })) | 0x40;
        bases.push(("infinity flag + coordinates of G".into(), c, e, Known::InfinityNonzeroX));
    }
    // hand-built strings for the zcash readers (curves/bls12_381/src/curves/util.rs), beyond distance 1 from a built
    // encoding: in every mode only "an error or (checked) a valid subgroup point, never a panic / over-read" is demanded
    if fmt == Fmt::Zcash {
        let clen = 48 * m.d;
        let zeros = |n: usize| vec![0u8; n];
        let g_c = sw_big_bytes(&m, fmt, &g, true);
        let g_u = sw_big_bytes(&m, fmt, &g, false);
        let mut hand: Vec<(&str, bool, Vec<u8>)> = Vec::new();
        // infinity flag with only y non-zero (uncompressed): in the last byte, in the first byte of y, everywhere in y
        for (l, pos, val) in [("infinity flag, y = 1", 2 * clen - 1, 1u8), ("infinity flag, top byte of y = 1", clen, 1), ("infinity flag, y = ff..ff", usize::MAX, 0xff)] {
            let mut e = zeros(2 * clen);
            e[0] = 0x40;
            if pos == usize::MAX {
                for b in e[clen..].iter_mut() {
                    *b = val;
                }
            } else {
                e[pos] = val;
            }
            hand.push((l, false, e));
        }
        // infinity flag + sort flag on all-zero coordinates
        let mut e = zeros(clen);
        e[0] = 0xe0;
        hand.push(("compressed: infinity + sort flag, x = 0", true, e));
        let mut e = zeros(2 * clen);
        e[0] = 0x60;
        hand.push(("uncompressed: infinity + sort flag, x = y = 0", false, e));
        // compression bit clear on a compressed-length input / set on an uncompressed-length input
        let mut e = g_c.clone();
        e[0] &= 0x7f;
        hand.push(("compressed-length encoding of G with the compression bit clear", true, e));
        let mut e = zeros(clen);
        e[0] = 0x40;
        hand.push(("compressed-length encoding of O with the compression bit clear", true, e));
        let mut e = g_u.clone();
        e[0] |= 0x80;
        hand.push(("uncompressed-length encoding of G with the compression bit set", false, e));
        let mut e = zeros(2 * clen);
        e[0] = 0xc0;
        hand.push(("uncompressed-length encoding of O with the compression bit set", false, e));
        // the compressed encoding offered to the uncompressed reader and vice versa
        hand.push(("compressed encoding of G read as uncompressed", false, g_c.clone()));
        hand.push(("uncompressed encoding of G read as compressed", true, g_u.clone()));
        // x = p in EVERY coefficient slot (non-canonical), with and without the flag bits a valid encoding would carry
        let mut pbe = m.p.to_bytes_le();
        pbe.resize(48, 0);
        pbe.reverse();
        for (l, c, flags) in [("x = (p, .., p), compressed", true, 0x80u8), ("x = (p, .., p), compressed + sort", true, 0xa0), ("x = y = (p, .., p), uncompressed", false, 0)] {
            let mut e = Vec::new();
            for _ in 0..(if c { m.d } else { 2 * m.d }) {
                e.extend_from_slice(&pbe);
            }
            e[0] |= flags;
            hand.push((l, c, e));
        }
        // all 0xff, all 0x00, all 0x7f / 0x1f (every flag clear, integer far above p / just flags clear)
        for (l, v) in [("all ff", 0xffu8), ("all 00", 0), ("all 7f", 0x7f), ("all 1f", 0x1f)] {
            hand.push((l, true, vec![v; clen]));
            hand.push((l, false, vec![v; 2 * clen]));
        }
        for (l, c, e) in hand {
            bases.push((format!("hand-built: {l}"), c, e, Known::HandBuilt));
        }
    }
    let mut cases: Vec<Case> = Vec::new();
    for (label, compress, enc, known) in bases {
        for (mutation, input) in mutations(&enc) {
            let unmutated = mutation == "as is" || mutation == "one extra byte";
            let known = if unmutated { known } else { Known::Mutated };
            let (m, r, label) = (m.clone(), r.clone(), label.clone());
            let total = enc.len();
            cases.push(Box::new(move |loc: &mut Loc| {
                let cm = if compress { Compress::Yes } else { Compress::No };
                known.label(loc);
                loc.class_if(input.len() < total, "truncated");
                loc.class_if(custom, "custom_subgroup_test");
                loc.class_if(fmt == Fmt::Zcash, "zcash_format");
                loc.class_if(known == Known::Mutated && input.len() == total, "bit_flip");
                let advertised = sw::Affine::<P>::identity().serialized_size(cm);
                if loc.sampling() {
                    loc.sample(format!("{name} {} {label} ({mutation}) {} bytes, class {known:?}", if compress { "compressed" } else { "uncompressed" }, input.len()));
                }
                for checked in [true, false] {
                    for as_proj in [false, true] {
                        let vm = if checked { Validate::Yes } else { Validate::No };
                        let what = || format!("{name} {} {} as {} input [{label}; {mutation}] {}", if compress { "compressed" } else { "uncompressed" }, if checked { "checked" } else { "unchecked" }, if as_proj { "Projective" } else { "Affine" }, hexs(&input));
                        let mut rd = CountReader::new(&input);
                        let res: Result<Result<(AP<P::BaseField>, String), String>, String> = guard(|| {
                            if as_proj {
                                sw::Projective::<P>::deserialize_with_mode(&mut rd, cm, vm)
                                    .map(|q| {
                                        let v = match q.z.inverse() {
                                            None => AP::O,
                                            Some(zi) => AP::A(q.x * zi.square(), q.y * zi.square() * zi),
                                        };
                                        (v, format!("{q:?}"))
                                    })
                                    .map_err(|e| e.to_string())
                            } else {
                                sw::Affine::<P>::deserialize_with_mode(&mut rd, cm, vm).map(|p| (if p.infinity { AP::O } else { AP::A(p.x, p.y) }, format!("{p:?}"))).map_err(|e| e.to_string())
                            }
                        });
                        let consumed = rd.pos;
                        loc.check_at(&format!("{name}/read_past_advertised_size"), consumed <= advertised, || format!("{}: consumed {consumed} > advertised {advertised}", what()));
                        match res {
                            Err(p) => loc.fail_at(&format!("{name}/panic"), format!("{}: {p}", what())),
                            Ok(Err(_)) => loc.op(),
                            Ok(Ok((v, dbg))) => {
                                if checked {
                                    let on = sw_on_curve(&a, &b, &v);
                                    let sub = on && sw_mul(&a, &v, &r) == AP::O;
                                    loc.check_at(&format!("{name}/checked_returns_invalid_point"), on && sub, || format!("{}: returned {dbg}: on curve {on}, r*P = O {sub}", what()));
                                    loc.check_at(&format!("{name}/checked_accepts_bad_encoding"), !known.must_reject_checked(), || format!("{}: input of class {known:?} accepted as {dbg}", what()));
                                }
                                if known == Known::InfinityNonzeroX || known == Known::Identity {
                                    loc.check_at(&format!("{name}/infinity_flag_returns_non_identity"), v == AP::O, || format!("{}: infinity flag set but the returned value is {dbg}", what()));
                                }
                            }
                        }
                    }
                }
            }));
        }
    }
    (cases, notes)
}

fn te_shipped_c10<P: TECurveConfig>(name: &'static str) -> (Vec<Case>, Vec<String>)
where
    P::ScalarField: PrimeField,
{
    let mut notes = Vec::new();
    let m = std::sync::Arc::new(Big::of::<P::BaseField>());
    let (a, d) = (P::COEFF_A, P::COEFF_D);
    let r = std::sync::Arc::new(from_limbs(<P::ScalarField as PrimeField>::MODULUS.as_ref()));
    let h = from_limbs(P::COFACTOR);
    let one = P::BaseField::one();
    let zero = P::BaseField::zero();
    let id = (zero, one);
    let g = (P::GENERATOR.x, P::GENERATOR.y);
    if !te_on_curve(&a, &d, &g) || te_mul(&a, &d, &g, &r) != Some(id) {
        notes.push(format!("{name}: generator fails the oracle (on curve, r*G = O)"));
    }
    let mut pts: Vec<(String, (P::BaseField, P::BaseField), Known)> = vec![("G".into(), g, Known::SubgroupPoint), ("O=(0,1)".into(), id, Known::Identity), ("(0,-1) order 2".into(), (zero, -one), Known::SmallOrder)];
    if let Some(g2) = te_add(&a, &d, &g, &g) {
        pts.push(("2G".into(), g2, Known::SubgroupPoint));
    }
    let mut curve_pts: Vec<(P::BaseField, P::BaseField)> = Vec::new();
    let mut noroot: Option<P::BaseField> = None;
    for i in 2u64..60 {
        let y = P::BaseField::from(i);
        let y2 = y.square();
        match (a - d * y2).inverse() {
            None => {
                if noroot.is_none() {
                    noroot = Some(y);
                }
            }
            Some(di) => {
                let x2 = (one - y2) * di;
                if is_square(&m, &x2) {
                    if let Some(x) = x2.sqrt() {
                        if te_on_curve(&a, &d, &(x, y)) && curve_pts.len() < 6 {
                            curve_pts.push((x, y));
                        }
                    }
                } else if noroot.is_none() {
                    noroot = Some(y);
                }
            }
        }
    }
    match curve_pts.iter().find(|n| matches!(te_mul(&a, &d, n, &r), Some(q) if q != id)) {
        Some(n) => {
            pts.push(("N".into(), *n, Known::OutOfSubgroup));
            pts.push(("-N".into(), (-n.0, n.1), Known::OutOfSubgroup));
        }
        None => notes.push(format!("{name}: no point outside the subgroup among the first curve points")),
    }
    let order = &h * &*r;
    for l in small_prime_factors(&h).into_iter().take(3) {
        let e = &order / l;
        if let Some(q) = curve_pts.iter().filter_map(|n| te_mul(&a, &d, n, &e)).find(|q| *q != id) {
            if te_mul(&a, &d, &q, &BigUint::from(l)) == Some(id) {
                pts.push((format!("order-{l} point"), q, Known::SmallOrder));
            }
        }
    }
    let mut bases: Vec<(String, bool, Vec<u8>, Known)> = Vec::new();
    for (l, p, k) in &pts {
        for c in [true, false] {
            bases.push((l.clone(), c, te_big_bytes(&m, p, c), *k));
        }
    }
    for (l, x, y) in [("(Gx,Gy+1)", g.0, g.1 + one), ("(Gx+1,Gy)", g.0 + one, g.1), ("(0,0)", zero, zero), ("(1,1)", one, one), ("(0,2)", zero, one + one)] {
        if !te_on_curve(&a, &d, &(x, y)) {
            bases.push((format!("off-curve {l}"), false, te_big_bytes(&m, &(x, y), false), Known::OffCurve));
        }
    }
    if let Some(y) = noroot {
        let mut e = te_big_bytes(&m, &(zero, y), true);
        bases.push(("y without x, sign 0".into(), true, e.clone(), Known::NoSqrt));
        let n = e.len();
        e[n - 1] |= 0x80;
        bases.push(("y without x, sign 1".into(), true, e, Known::NoSqrt));
    } else {
        notes.push(format!("{name}: no y without an x below 60"));
    }
    for (l, v) in [("first coordinate c0 = p", m.p.clone()), ("first coordinate c0 = p+1", &m.p + 1u32)] {
        for c in [true, false] {
            let mut e = te_big_bytes(&m, &g, c);
            patch_first_c0(&m, Fmt::Default, if c { 1 } else { 0 }, &mut e, &v);
            bases.push((l.to_string(), c, e, Known::IntGeP));
        }
    }
    let mut cases: Vec<Case> = Vec::new();
    for (label, compress, enc, known) in bases {
        for (mutation, input) in mutations(&enc) {
            let unmutated = mutation == "as is" || mutation == "one extra byte";
            let known = if unmutated { known } else { Known::Mutated };
            let (m, r, label) = (m.clone(), r.clone(), label.clone());
            let total = enc.len();
            cases.push(Box::new(move |loc: &mut Loc| {
                let _ = &m;
                let cm = if compress { Compress::Yes } else { Compress::No };
                known.label(loc);
                loc.class_if(input.len() < total, "truncated");
                loc.class_if(known == Known::Mutated && input.len() == total, "bit_flip");
                let advertised = te::Affine::<P>::new_unchecked(P::BaseField::zero(), P::BaseField::one()).serialized_size(cm);
                if loc.sampling() {
                    loc.sample(format!("{name} {} {label} ({mutation}) {} bytes, class {known:?}", if compress { "compressed" } else { "uncompressed" }, input.len()));
                }
                for checked in [true, false] {
                    for as_proj in [false, true] {
                        let vm = if checked { Validate::Yes } else { Validate::No };
                        let what = || format!("{name} {} {} as {} input [{label}; {mutation}] {}", if compress { "compressed" } else { "uncompressed" }, if checked { "checked" } else { "unchecked" }, if as_proj { "Projective" } else { "Affine" }, hexs(&input));
                        let mut rd = CountReader::new(&input);
                        let res: Result<Result<(Option<(P::BaseField, P::BaseField)>, String), String>, String> = guard(|| {
                            if as_proj {
                                te::Projective::<P>::deserialize_with_mode(&mut rd, cm, vm)
                                    .map(|q| {
                                        let v = q.z.inverse().and_then(|zi| if q.t * q.z == q.x * q.y { Some((q.x * zi, q.y * zi)) } else { None });
                                        (v, format!("{q:?}"))
                                    })
                                    .map_err(|e| e.to_string())
                            } else {
                                te::Affine::<P>::deserialize_with_mode(&mut rd, cm, vm).map(|p| (Some((p.x, p.y)), format!("{p:?}"))).map_err(|e| e.to_string())
                            }
                        });
                        let consumed = rd.pos;
                        loc.check_at(&format!("{name}/read_past_advertised_size"), consumed <= advertised, || format!("{}: consumed {consumed} > advertised {advertised}", what()));
                        match res {
                            Err(p) => loc.fail_at(&format!("{name}/panic"), format!("{}: {p}", what())),
                            Ok(Err(_)) => loc.op(),
                            Ok(Ok((v, dbg))) => {
                                if checked {
                                    let on = matches!(&v, Some(p) if te_on_curve(&a, &d, p));
                                    let sub = on && te_mul(&a, &d, &v.unwrap(), &r) == Some((P::BaseField::zero(), P::BaseField::one()));
                                    loc.check_at(&format!("{name}/checked_returns_invalid_point"), on && sub, || format!("{}: returned {dbg}: on curve {on}, r*P = O {sub}", what()));
                                    loc.check_at(&format!("{name}/checked_accepts_bad_encoding"), !known.must_reject_checked(), || format!("{}: input of class {known:?} accepted as {dbg}", what()));
                                }
                            }
                        }
                    }
                }
            }));
        }
    }
    (cases, notes)
}

fn shipped_cases(ctx: &mut Ctx) {
    type Prep = Box<dyn FnOnce() -> (Vec<Case>, Vec<String>) + Send>;
    let mut preps: Vec<Prep> = Vec::new();
    let thorough = ctx.thorough();
    macro_rules! swc {
        ($P:ty, $n:expr, $custom:expr) => {
            preps.push(Box::new(|| sw_shipped_c10::<$P>($n, Fmt::Default, $custom)));
        };
        ($P:ty, $n:expr, $custom:expr, zcash) => {
            preps.push(Box::new(|| sw_shipped_c10::<$P>($n, Fmt::Zcash, $custom)));
        };
    }
    macro_rules! tec {
        ($P:ty, $n:expr) => {
            preps.push(Box::new(|| te_shipped_c10::<$P>($n)));
        };
    }
    macro_rules! pair {
        ($P:ty, $n:expr) => {
            preps.push(Box::new(|| pairing_cases::<$P>($n)));
        };
    }
    swc!(ark_bls12_381::g1::Config, "bls12_381/g1", true, zcash);
    swc!(ark_bls12_381::g2::Config, "bls12_381/g2", true, zcash);
    swc!(ark_bls12_377::g1::Config, "bls12_377/g1", false);
    swc!(ark_bls12_377::g2::Config, "bls12_377/g2", false);
    swc!(ark_bn254::g1::Config, "bn254/g1", true);
    swc!(ark_bn254::g2::Config, "bn254/g2", true);
    swc!(ark_bw6_761::g1::Config, "bw6_761/g1", false);
    swc!(ark_bw6_761::g2::Config, "bw6_761/g2", false);
    swc!(ark_mnt4_298::g2::Config, "mnt4_298/g2", false);
    swc!(ark_mnt6_298::g2::Config, "mnt6_298/g2", false);
    swc!(ark_cp6_782::g1::Config, "cp6_782/g1", false);
    swc!(ark_cp6_782::g2::Config, "cp6_782/g2", false);
    swc!(ark_ed_on_bls12_381::JubjubConfig, "ed_on_bls12_381/jubjub(sw)", false);
    swc!(ark_ed_on_bls12_381_bandersnatch::BandersnatchConfig, "bandersnatch(sw)", false);
    swc!(ark_test_curves::bls12_381::g1::Config, "test/bls12_381/g1", false);
    swc!(ark_test_curves::bls12_381::g2::Config, "test/bls12_381/g2", true);
    swc!(ark_secp256k1::Config, "secp256k1", false);
    swc!(ark_pallas::PallasConfig, "pallas", false);
    if thorough {
        swc!(ark_bw6_767::g1::Config, "bw6_767/g1", false);
        swc!(ark_bw6_767::g2::Config, "bw6_767/g2", false);
        swc!(ark_mnt4_753::g2::Config, "mnt4_753/g2", false);
        swc!(ark_mnt6_753::g2::Config, "mnt6_753/g2", false);
        swc!(ark_mnt4_298::g1::Config, "mnt4_298/g1", false);
        swc!(ark_mnt6_298::g1::Config, "mnt6_298/g1", false);
        swc!(ark_vesta::VestaConfig, "vesta", false);
        swc!(ark_grumpkin::GrumpkinConfig, "grumpkin", false);
        swc!(ark_secp256r1::Config, "secp256r1", false);
        swc!(ark_secp384r1::Config, "secp384r1", false);
        swc!(ark_secq256k1::Config, "secq256k1", false);
    }
    tec!(ark_ed_on_bls12_381::JubjubConfig, "ed_on_bls12_381/jubjub");
    tec!(ark_ed_on_bls12_381_bandersnatch::BandersnatchConfig, "bandersnatch");
    tec!(ark_ed_on_bls12_377::EdwardsConfig, "ed_on_bls12_377");
    tec!(ark_ed_on_bn254::EdwardsConfig, "ed_on_bn254");
    tec!(ark_ed_on_cp6_782::EdwardsConfig, "ed_on_cp6_782(=ed_on_bw6_761)");
    tec!(ark_ed_on_mnt4_298::EdwardsConfig, "ed_on_mnt4_298");
    tec!(ark_ed_on_mnt4_753::EdwardsConfig, "ed_on_mnt4_753");
    tec!(ark_curve25519::Curve25519Config, "curve25519");
    tec!(ark_ed25519::EdwardsConfig, "ed25519");
    tec!(ark_bls12_377::g1::Config, "bls12_377/g1(te)");
    tec!(ark_test_curves::ed_on_bls12_381::EdwardsConfig, "test/ed_on_bls12_381");
    pair!(ark_bls12_381::Bls12_381, "Bls12_381");
    pair!(ark_bn254::Bn254, "Bn254");
    pair!(ark_mnt4_298::MNT4_298, "MNT4_298");
    pair!(ark_mnt6_298::MNT6_298, "MNT6_298");
    pair!(ark_bw6_761::BW6_761, "BW6_761");
    if thorough {
        pair!(ark_bls12_377::Bls12_377, "Bls12_377");
        pair!(ark_mnt4_753::MNT4_753, "MNT4_753");
        pair!(ark_mnt6_753::MNT6_753, "MNT6_753");
        pair!(ark_bw6_767::BW6_767, "BW6_767");
        pair!(ark_cp6_782::CP6_782, "CP6_782");
        pair!(ark_test_curves::bls12_381::Bls12_381, "test/Bls12_381");
    }
    let n = preps.len();
    let results: Vec<(Vec<Case>, Vec<String>)> = std::thread::scope(|s| {
        let hs: Vec<_> = preps.into_iter().map(|f| s.spawn(f)).collect();
        hs.into_iter().map(|h| h.join().expect("building the shipped cases panicked")).collect()
    });
    let mut cases: Vec<Case> = Vec::new();
    for (c, notes) in results {
        cases.extend(c);
        for n in notes {
            ctx.machinery_error(format!("shipped-curve oracle self-check: {n}"));
        }
    }
    ctx.bound("bytes_shipped", format!("{n} shipped configurations (curves with cofactor > 1 / custom subgroup test / custom deserializer, pairing target groups): constructed encodings (BLS12-381 zcash readers: also hand-built strings - infinity flag with only y non-zero, infinity + sort flag, compression bit contradicting the length, the other length's encoding, x = p in every slot, constant strings) x {{as is, +1 byte, every bit flip of the first and last byte, every truncation length}} x 4 modes x {{Affine, Projective}}"));
    ctx.sweep("bytes_shipped", cases.len() as u64, |i, loc| cases[i as usize](loc));
}

macro_rules! toy_sw {
    ($P:ty, $name:expr, $ctx:expr, $sel:expr) => {
        if $sel.iter().any(|s| *s == $name) {
            sw_toy_bytes::<$P>($ctx, $name);
        }
    };
}
macro_rules! toy_te {
    ($P:ty, $name:expr, $ctx:expr, $sel:expr) => {
        if $sel.iter().any(|s| *s == $name) {
            te_toy_bytes::<$P>($ctx, $name);
        }
    };
}

fn main() {
    let mut ctx = Ctx::from_args("C10");
    ctx.require(&[
        "off_curve_rejected",
        "out_of_subgroup_rejected",
        "no_sqrt",
        "flags_11",
        "infinity_flag_with_nonzero_x",
        "truncated_len_0",
        "truncated_len_1",
        "truncated_len_2",
        "truncated",
        "custom_subgroup_test",
        "field_int>=p",
        "valid_subgroup_point",
        "identity_encoding",
        "small_order_point",
        "zcash_format",
        "zcash:hand_built_string",
        "pairing_output:r_torsion",
        "pairing_output:not_r_torsion",
        "pairing_output:cyclotomic_not_r_torsion",
        "x=0_tie",
        "flags_spill_to_extra_byte",
        // square root in a quadratic extension field (compressed points over F_p^2), classes of rhs(x) by the model
        "ext:rhs_c1=0_and_c0_nonresidue",
        "ext:rhs_c1=0_and_c0_residue",
        "ext:rhs=0",
        "ext:rhs_c1!=0_square",
        "ext:rhs_c1!=0_nonsquare",
        "ext:y_sign_decided_by_c1",
        "ext:y_sign_decided_by_c0",
        "ext:beta=-1",
        "ext:beta!=-1",
        "ext:valid_subgroup_point",
        "ext:out_of_subgroup_rejected",
        "ext:off_curve_rejected",
        "ext:no_sqrt",
        "ext:field_int>=p_in_c0",
        "ext:field_int>=p_in_c1",
        "ext:field_int>=p_in_x",
        "ext:field_int>=p_in_y",
        // square root / sign rule in a cubic extension field (compressed points over F_343)
        "ext3:valid_subgroup_point",
        "ext3:out_of_subgroup_rejected",
        "ext3:off_curve_rejected",
        "ext3:no_sqrt",
        "ext3:field_int>=p",
        "ext3:field_int>=p_in_c0",
        "ext3:field_int>=p_in_c1",
        "ext3:field_int>=p_in_c2",
        "ext3:field_int>=p_in_x",
        "ext3:field_int>=p_in_y",
        "ext3:flags_11",
        "ext3:identity_encoding",
        "ext3:infinity_flag_with_nonzero_x",
        "ext3:truncated",
        "ext3:rhs=0",
        "ext3:y=0_tie",
        "ext3:y_sign_decided_by_c2",
        "ext3:y_sign_decided_by_c1",
        "ext3:y_sign_decided_by_c0",
        "ext3:sign_flag_set",
        // over-read: every accepted input of the exhaustive sweeps is fed again followed by two more bytes
        "accepted_input_fed_again_with_trailing_bytes",
        // Valid::check / batch_check of Projective and Affine on batches with invalid members, named wrappers
        "valid_trait:batch_all_valid",
        "valid_trait:batch_one_invalid",
        "valid_trait:batch_two_invalid",
        "valid_trait:invalid_member_first",
        "valid_trait:invalid_member_last",
        "valid_trait:invalid_member_in_the_middle",
        "valid_trait:member_outside_subgroup",
        "valid_trait:member_off_curve",
        "valid_trait:identity_member",
        "valid_trait:batch_of_one",
        "wrapper:deserialize_compressed",
        "wrapper:deserialize_compressed_unchecked",
        "wrapper:deserialize_uncompressed",
        "wrapper:deserialize_uncompressed_unchecked",
        "wrapper_input:valid_subgroup_point",
        "wrapper_input:outside_subgroup",
        "wrapper_input:off_curve_or_no_root",
        "wrapper_input:identity",
        "wrapper_input:malformed",
    ]);
    ctx.assume("oracle: byte-level format model (u64 / num-bigint) classifies every input; validity of returned points: toy curves = brute-force group table (on curve, r*P = O), shipped curves = curve equation + plain double-and-add with r on the textbook affine law over the field operations (never the curve's own subgroup test / scalar multiplication); PairingOutput: x^r = 1 by the harness' own square-and-multiply");
    ctx.assume("property reading: with validation on, Ok(P) => P on the curve and in the prime-order subgroup, and inputs of the model classes {truncated, x without root, off curve, outside subgroup} => Err; a POINT encoding with an illegal flag pattern or a coordinate integer >= p is not named by the property: an error or a valid group element is demanded there (what the library does is recorded as a class `observed:checked_accepts_..`), while a returned FIELD element must be below the modulus (site ../returned_element_not_below_modulus) and - filed separately under ../field_value - be the element the bytes denote; infinity flag with non-zero coordinates may be rejected or accepted as the identity (never as another point); with validation off only no-panic and no read past the advertised size are demanded");
    ctx.assume("over-read: the exhaustive sweeps offer inputs up to the encoding length, where reading further is physically impossible; every input that is ACCEPTED is therefore offered again followed by the bytes a5 5a: same verdict, same value, and exactly the bytes of the original input (never more than the advertised size) are taken");
    ctx.bound("valid_trait", "toy curves with cofactor > 1 (short Weierstrass over F_p and F_p^2, twisted Edwards; incomplete Edwards parameters: pairs off the curve only): Projective/Affine check and batch_check on batches of 1..=4 members with 0, 1 or 2 invalid members in every position; the four named deserialize_* wrappers against deserialize_with_mode on model-built encodings of every curve point, pairs off the curve and malformed strings");
    ctx.bound("bytes_toy", "toy curves with encodings of <= 3 bytes: every byte string of every length 0..=L x {checked, unchecked} x {Affine, Projective} x {compressed, uncompressed}");
    validate_toy_towers(&mut ctx);
    // ---- (E) toy curves
    let quick_sel = ["SwP61A0B2", "SwP61A0B8", "SwP59A1B3", "SwP59A1B8", "SwP251A1B6", "SwP127A1B2", "SwP13A0B2", "SwP13A0B4", "SwP31A2B2", "TeP127", "TeP101", "TeP13"];
    let thorough_sel = ["SwP61A0B2", "SwP61A0B8", "SwP59A1B3", "SwP59A1B8", "SwP251A1B6", "SwP127A1B2", "SwP13A0B2", "SwP13A0B4", "SwP31A2B2", "TeP127", "TeP101", "TeP13", "SwA0P103B5", "SwA0P211B2", "SwA0P103B4", "SwA0P103B3", "SwA0P103B2", "SwP223A1B1", "SwP1009A3B2", "TeP241"];
    let sel: Vec<&str> = if ctx.quick() { quick_sel.to_vec() } else { thorough_sel.to_vec() };
    ctx.assume("TeP103 (incomplete Edwards parameters): every byte string is still fed to the deserializers (no panic, no over-read, a returned point is on the curve, subgroup points accepted, malformed encodings rejected), but whether a curve point OUTSIDE the prime-order subgroup is rejected is not judged there - the property speaks about complete curves / the prime-order subgroup");
    algebra_mc::toy_sw_curves!(toy_sw, &mut ctx, sel);
    algebra_mc::toy_te_curves!(toy_te, &mut ctx, sel);
    te_toy_bytes::<algebra_mc::toy::gen_curves::TeP103>(&mut ctx, "TeP103");
    // ---- (E2) toy curves over quadratic extension fields (decompression = square root in F_p^2)
    ctx.bound(
        "bytes_ext_toy",
        "4 toy curves over F_49 = F_7[u]/(u^2+1) (a = 0: cofactor 4 with 2-torsion, and prime order 61), F_25 = F_5[u]/(u^2-2) (a = u, cofactor 2), F_169 = F_13[u]/(u^2-2) (a = u, cofactor 4): compressed = every byte string of every length 0..=2 (full encoding length) x {checked, unchecked} x {Affine, Projective}; uncompressed (4 bytes) = every pair of canonical coordinates x 4 flag patterns, every string of length 0..=2, and chosen x parts x every continuation of 1..=2 bytes",
    );
    sw_ext_bytes::<SwQ7A0B32>(&mut ctx, "SwQ7A0B32", Fp2Model { p: 7, beta: 6 });
    sw_ext_bytes::<SwQ7A0B12>(&mut ctx, "SwQ7A0B12", Fp2Model { p: 7, beta: 6 });
    sw_ext_bytes::<SwQ5AuB11>(&mut ctx, "SwQ5AuB11", Fp2Model { p: 5, beta: 2 });
    sw_ext_bytes::<SwQ13AuB22>(&mut ctx, "SwQ13AuB22", Fp2Model { p: 13, beta: 2 });
    // ---- (E3) a toy curve over the cubic extension field F_343
    ctx.bound(
        "bytes_ext3_toy",
        "1 toy curve over F_343 = F_7[u]/(u^3-2) (a = u, b = 1+u+u^2, 366 = 6 * 61 points): compressed = every byte string of every length 0..=3 (full encoding length; 2^24 + 65793 strings) x {checked, unchecked} x {Affine, Projective}; uncompressed (6 bytes) = every pair of canonical coordinates x 4 flag patterns, every string of length 0..=2, every curve point's encoding with one byte replaced by every value / cut at every length",
    );
    sw_ext3_bytes::<SwC7AuB111>(&mut ctx, "SwC7AuB111", Fp3Model { p: 7, beta: 2 });
    // ---- (E) toy field elements
    macro_rules! fb {
        ($($F:ty, $n:expr);*) => {$( field_bytes_all::<$F>(&mut ctx, $n); )*};
    }
    fb!(D13, "D13"; D61, "D61"; D127, "D127"; D251, "D251"; D509, "D509"; D8191, "D8191"; D65521, "D65521");
    fb!(F7x2, "Fp2(D7)"; F251x2, "Fp2(D251)"; F7x3, "Fp3(D7)"; F61x3, "Fp3(D61)");
    if ctx.thorough() {
        fb!(F2039x2, "Fp2(D2039)");
    }
    ctx.bound("bytes_field", "toy fields F_13,61,127,251,509,8191,65521, Fp2 over F_7,F_251 (thorough: F_2039), Fp3 over F_7,F_61 x {EmptyFlags,TEFlags,SWFlags}: every byte string of every length 0..=L (L <= 3; thorough L <= 4), deserialize_with_flags and the 4 plain modes");
    // ---- (A) shipped curves and pairing outputs
    shipped_cases(&mut ctx);
    std::process::exit(ctx.finish());
}
