//! C10 - checked deserialization only yields valid group elements and never panics.
//!
//! Oracle: the byte-level format model of C09 (u64 / num-bigint) decodes every input string and
//! classifies it (truncated, illegal flags, integer >= p, no square root, off the curve, outside the
//! subgroup, infinity flag with junk, valid); validity of a returned point is decided by the
//! brute-force toy group (toycurve) resp. by the textbook affine law + plain double-and-add with r
//! written here (never by the curve's own, possibly overridden, subgroup test or scalar mul).
#![allow(clippy::all)]
#![allow(dead_code)]
use algebra_mc::core::*;
use algebra_mc::fpaccess::FpAccess;
use algebra_mc::refmodel::curve::{GroupTable, Pt, SwModel};
use algebra_mc::refmodel::fieldmodel::{prime_to_u64, FieldModel, Fp2Model};
use algebra_mc::refmodel::zmod::*;
use algebra_mc::toy::gen_fields::*;
use algebra_mc::toy::gen_towers::{T13Fq2, T5Fq2, T7Fq2};
use algebra_mc::toycurve::{SwToy, TeToy};
use ark_ec::pairing::{Pairing, PairingOutput};
use ark_ec::short_weierstrass::{self as sw, SWCurveConfig, SWFlags};
use ark_ec::twisted_edwards::{self as te, TECurveConfig, TEFlags};
use ark_ec::{AffineRepr, CurveConfig};
use ark_ff::{AdditiveGroup, BigInteger, Field, Fp2, Fp2Config, Fp3, Fp3Config, MontFp, One, PrimeField, Zero};
use ark_serialize::{
    CanonicalDeserialize, CanonicalDeserializeWithFlags, CanonicalSerialize, CanonicalSerializeWithFlags, Compress, EmptyFlags, Flags, Validate,
};
use num_bigint::BigUint;
use num_traits::{One as NOne, Zero as NZero};
use std::panic::{catch_unwind, AssertUnwindSafe};

// ------------------------------------------------------------------------------------------
// helpers
// ------------------------------------------------------------------------------------------
fn hex(b: &[u8]) -> String {
    let mut s = String::with_capacity(2 * b.len());
    for x in b {
        s.push_str(&format!("{x:02x}"));
    }
    s
}

/// hex, abbreviated in the middle for long strings
fn hexs(b: &[u8]) -> String {
    if b.len() <= 100 {
        hex(b)
    } else {
        format!("{}..[{} bytes]..{}", hex(&b[..8]), b.len(), hex(&b[b.len() - 40..]))
    }
}

/// reader that counts the bytes handed out
struct CountReader<'a> {
    data: &'a [u8],
    pos: usize,
}
impl<'a> CountReader<'a> {
    fn new(data: &'a [u8]) -> Self {
        CountReader { data, pos: 0 }
    }
}
impl<'a> std::io::Read for CountReader<'a> {
    fn read(&mut self, buf: &mut [u8]) -> std::io::Result<usize> {
        let n = buf.len().min(self.data.len() - self.pos);
        buf[..n].copy_from_slice(&self.data[self.pos..self.pos + n]);
        self.pos += n;
        Ok(n)
    }
}

const MODES: [(Compress, Validate); 4] = [(Compress::Yes, Validate::Yes), (Compress::Yes, Validate::No), (Compress::No, Validate::Yes), (Compress::No, Validate::No)];
fn mode_name(m: usize) -> &'static str {
    ["compressed/checked", "compressed/unchecked", "uncompressed/checked", "uncompressed/unchecked"][m]
}
const SPARE: [&str; 8] = ["spare_bits_0", "spare_bits_1", "spare_bits_2", "spare_bits_3", "spare_bits_4", "spare_bits_5", "spare_bits_6", "spare_bits_7"];


/// the model's view of a flag type (independent of `u8_bitmask` / `from_u8`)
trait TestFlag: Flags + Send + Sync + 'static {
    const NAME: &'static str;
    /// number of flag bits according to the model
    const NB: usize;
    /// the flag denoted by this pattern of the top NB bits of the last byte (lower bits are zero)
    fn of_mask(m: u8) -> Option<Self>;
    /// the bits this flag contributes to the last byte
    fn mask(&self) -> u8;
    /// every pattern of the top NB bits (legal or not) used by the alphabet sweeps
    fn raw_masks() -> Vec<u8> {
        if Self::NB == 0 {
            vec![0]
        } else if Self::NB <= 3 {
            (0..(1u16 << Self::NB)).map(|k| (k << (8 - Self::NB)) as u8).collect()
        } else {
            vec![0, 1, 0x80, 0xa5, 0xfe, 0xff]
        }
    }
    fn all() -> Vec<Self> {
        let step = if Self::NB == 0 { 256 } else { 1usize << (8 - Self::NB) };
        (0..256usize).step_by(step).filter_map(|m| Self::of_mask(m as u8)).collect()
    }
}
fn topmask(nb: usize) -> u8 {
    if nb == 0 {
        0
    } else {
        (0xffu16 << (8 - nb)) as u8
    }
}
impl TestFlag for EmptyFlags {
    const NAME: &'static str = "EmptyFlags";
    const NB: usize = 0;
    fn of_mask(_: u8) -> Option<Self> {
        Some(EmptyFlags)
    }
    fn mask(&self) -> u8 {
        0
    }
}
impl TestFlag for SWFlags {
    const NAME: &'static str = "SWFlags";
    const NB: usize = 2;
    fn of_mask(m: u8) -> Option<Self> {
        match m {
            0x00 => Some(SWFlags::YIsPositive),
            0x40 => Some(SWFlags::PointAtInfinity),
            0x80 => Some(SWFlags::YIsNegative),
            _ => None,
        }
    }
    fn mask(&self) -> u8 {
        match self {
            SWFlags::YIsPositive => 0,
            SWFlags::PointAtInfinity => 0x40,
            SWFlags::YIsNegative => 0x80,
        }
    }
}
impl TestFlag for TEFlags {
    const NAME: &'static str = "TEFlags";
    const NB: usize = 1;
    fn of_mask(m: u8) -> Option<Self> {
        match m {
            0x00 => Some(TEFlags::XIsPositive),
            0x80 => Some(TEFlags::XIsNegative),
            _ => None,
        }
    }
    fn mask(&self) -> u8 {
        match self {
            TEFlags::XIsPositive => 0,
            TEFlags::XIsNegative => 0x80,
        }
    }
}

// ------------------------------------------------------------------------------------------
// toy extension fields (serialization does not use the Frobenius / sqrt constants; they are
// validated anyway)
// ------------------------------------------------------------------------------------------
macro_rules! toy_fp2 {
    ($cfg:ident, $ty:ident, $f:ty, $minus1:expr) => {
        pub struct $cfg;
        impl Fp2Config for $cfg {
            type Fp = $f;
            const NONRESIDUE: $f = MontFp!($minus1);
            const FROBENIUS_COEFF_FP2_C1: &'static [$f] = &[MontFp!("1"), MontFp!($minus1)];
        }
        pub type $ty = Fp2<$cfg>;
    };
}
toy_fp2!(F7x2Cfg, F7x2, D7, "6");
toy_fp2!(F251x2Cfg, F251x2, D251, "250");
toy_fp2!(F2039x2Cfg, F2039x2, D2039, "2038");

pub struct F7x3Cfg;
impl Fp3Config for F7x3Cfg {
    type Fp = D7;
    const NONRESIDUE: D7 = MontFp!("2");
    const TWO_ADICITY: u32 = 1;
    const TRACE_MINUS_ONE_DIV_TWO: &'static [u64] = &[85];
    const QUADRATIC_NONRESIDUE_TO_T: Fp3<Self> = Fp3::new(MontFp!("6"), MontFp!("0"), MontFp!("0"));
    const FROBENIUS_COEFF_FP3_C1: &'static [D7] = &[MontFp!("1"), MontFp!("4"), MontFp!("2")];
    const FROBENIUS_COEFF_FP3_C2: &'static [D7] = &[MontFp!("1"), MontFp!("2"), MontFp!("4")];
}
pub type F7x3 = Fp3<F7x3Cfg>;
pub struct F61x3Cfg;
impl Fp3Config for F61x3Cfg {
    type Fp = D61;
    const NONRESIDUE: D61 = MontFp!("2");
    const TWO_ADICITY: u32 = 2;
    const TRACE_MINUS_ONE_DIV_TWO: &'static [u64] = &[28372];
    const QUADRATIC_NONRESIDUE_TO_T: Fp3<Self> = Fp3::new(MontFp!("50"), MontFp!("0"), MontFp!("0"));
    const FROBENIUS_COEFF_FP3_C1: &'static [D61] = &[MontFp!("1"), MontFp!("47"), MontFp!("13")];
    const FROBENIUS_COEFF_FP3_C2: &'static [D61] = &[MontFp!("1"), MontFp!("13"), MontFp!("47")];
}
pub type F61x3 = Fp3<F61x3Cfg>;

fn powmod(mut b: u64, mut e: u64, p: u64) -> u64 {
    let mut r = 1u64;
    b %= p;
    while e > 0 {
        if e & 1 == 1 {
            r = r * b % p;
        }
        b = b * b % p;
        e >>= 1;
    }
    r
}
fn validate_toy_towers(ctx: &mut Ctx) {
    // Fp2: beta = -1 is a non-residue iff p = 3 mod 4; Frobenius coefficient beta^((p-1)/2) = -1
    for p in [7u64, 251, 2039] {
        ctx.validate(is_prime_small(p) && p % 4 == 3 && powmod(p - 1, (p - 1) / 2, p) == p - 1, &format!("toy Fp2 over F_{p}: -1 is a non-residue"));
    }
    // Fp3 over F_7 and F_61 with beta = 2
    for (p, c1, c2, s, tm1d2, qnr_t) in [(7u64, [1u64, 4, 2], [1u64, 2, 4], 1u32, 85u64, 6u64), (61, [1, 47, 13], [1, 13, 47], 2, 28372, 50)] {
        let q3 = p * p * p - 1;
        let ok_nr = p % 3 == 1 && powmod(2, (p - 1) / 3, p) != 1;
        let e1 = (p - 1) / 3;
        let e2 = (p * p - 1) / 3;
        let ok_c1 = c1 == [1, powmod(2, e1, p), powmod(2, e2 % (p - 1), p)];
        let ok_c2 = c2 == [1, powmod(2, 2 * e1, p), powmod(2, (2 * e2) % (p - 1), p)];
        let t = q3 >> s;
        let ok_t = q3 % (1 << s) == 0 && t % 2 == 1 && (t - 1) / 2 == tm1d2;
        // a quadratic non-residue of F_p stays one in the cubic extension; its t-th power lies in F_p
        let g = (2..p).find(|g| powmod(*g, (p - 1) / 2, p) == p - 1).unwrap();
        let ok_q = powmod(g, t % (p - 1), p) == qnr_t;
        ctx.validate(ok_nr && ok_c1 && ok_c2 && ok_t && ok_q, &format!("toy Fp3 over F_{p}: constants ({ok_nr} {ok_c1} {ok_c2} {ok_t} {ok_q})"));
    }
}

// ------------------------------------------------------------------------------------------
// byte-level model on u64 for toy fields F_p^d (p < 2^16, d <= 3)
// ------------------------------------------------------------------------------------------
#[derive(Clone, Copy, Debug)]
struct Small {
    p: u64,
    bits: usize,
    d: usize,
}
#[derive(Clone, Copy, Debug, PartialEq, Eq)]
enum SDec {
    Short,
    BadFlags,
    /// a bit above the modulus bit length (and below the flag bits) is set
    Stray,
    /// some coefficient is an integer in p .. 2^bits
    GeP,
    Ok([u64; 4], u8),
}
impl Small {
    fn new(p: u64, d: usize) -> Small {
        Small { p, bits: 64 - p.leading_zeros() as usize, d }
    }
    fn of<E: Field>() -> Small {
        let m = <E::BasePrimeField as PrimeField>::MODULUS;
        let l = m.as_ref();
        assert!(l[1..].iter().all(|x| *x == 0) && l[0] < 1 << 16);
        Small::new(l[0], E::extension_degree() as usize)
    }
    fn blen(&self) -> usize {
        (self.bits + 7) / 8
    }
    fn llen(&self, nb: usize) -> usize {
        (self.bits + nb + 7) / 8
    }
    fn total(&self, nb: usize) -> usize {
        (self.d - 1) * self.blen() + self.llen(nb)
    }
    fn spare(&self) -> usize {
        (8 - self.bits % 8) % 8
    }
    fn enc(&self, c: &[u64], nb: usize, mask: u8, out: &mut [u8]) -> usize {
        let mut pos = 0;
        for j in 0..self.d {
            let len = if j == self.d - 1 { self.llen(nb) } else { self.blen() };
            for k in 0..len {
                out[pos + k] = (c[j] >> (8 * k)) as u8;
            }
            pos += len;
        }
        out[pos - 1] |= mask;
        pos
    }
    fn dec<Fl: TestFlag>(&self, b: &[u8]) -> SDec {
        let nb = Fl::NB;
        let total = self.total(nb);
        if b.len() < total {
            return SDec::Short;
        }
        let fm = b[total - 1] & topmask(nb);
        if Fl::of_mask(fm).is_none() {
            return SDec::BadFlags;
        }
        let mut c = [0u64; 4];
        let mut pos = 0;
        let (mut stray, mut gep) = (false, false);
        for j in 0..self.d {
            let len = if j == self.d - 1 { self.llen(nb) } else { self.blen() };
            let mut v = 0u64;
            for k in 0..len {
                let mut byte = b[pos + k];
                if j == self.d - 1 && k == len - 1 {
                    byte &= !topmask(nb);
                }
                v |= (byte as u64) << (8 * k);
            }
            pos += len;
            if v >> self.bits != 0 {
                stray = true;
            } else if v >= self.p {
                gep = true;
            }
            c[j] = v;
        }
        if stray {
            SDec::Stray
        } else if gep {
            SDec::GeP
        } else {
            SDec::Ok(c, fm)
        }
    }
}
fn small_from<E: Field>(c: &[u64]) -> E {
    E::from_base_prime_field_elems(c.iter().map(|x| E::BasePrimeField::from(*x))).expect("degree")
}
fn small_coeffs<E: Field>(e: &E) -> [u64; 4] {
    let mut out = [0u64; 4];
    for (j, c) in e.to_base_prime_field_elements().enumerate() {
        out[j] = prime_to_u64(&c);
    }
    out
}


// ------------------------------------------------------------------------------------------
// byte-level model on num-bigint for shipped fields / towers
// ------------------------------------------------------------------------------------------
#[derive(Clone, Debug)]
struct Big {
    p: BigUint,
    bits: usize,
    d: usize,
}
#[derive(Clone, Debug, PartialEq, Eq)]
enum BDec {
    Short,
    BadFlags,
    Stray,
    GeP,
    Ok(Vec<BigUint>, u8),
}
impl Big {
    fn of<E: Field>() -> Big {
        let p = from_limbs(<E::BasePrimeField as PrimeField>::MODULUS.as_ref());
        let bits = p.bits() as usize;
        Big { p, bits, d: E::extension_degree() as usize }
    }
    fn blen(&self) -> usize {
        (self.bits + 7) / 8
    }
    fn llen(&self, nb: usize) -> usize {
        (self.bits + nb + 7) / 8
    }
    fn total(&self, nb: usize) -> usize {
        (self.d - 1) * self.blen() + self.llen(nb)
    }
    fn spare(&self) -> usize {
        (8 - self.bits % 8) % 8
    }
    fn slot_len(&self, j: usize, nb: usize) -> usize {
        if j == self.d - 1 {
            self.llen(nb)
        } else {
            self.blen()
        }
    }
    /// little-endian slots; `mask` is OR-ed into the very last byte
    fn enc(&self, ints: &[BigUint], nb: usize, mask: u8) -> Vec<u8> {
        assert_eq!(ints.len(), self.d);
        let mut out = Vec::with_capacity(self.total(nb));
        for (j, v) in ints.iter().enumerate() {
            let len = self.slot_len(j, nb);
            let mut b = v.to_bytes_le();
            assert!(b.len() <= len || v.is_zero(), "model: integer does not fit its slot");
            b.resize(len, 0);
            out.extend_from_slice(&b);
        }
        *out.last_mut().unwrap() |= mask;
        out
    }
    fn dec<Fl: TestFlag>(&self, b: &[u8]) -> BDec {
        let nb = Fl::NB;
        let total = self.total(nb);
        if b.len() < total {
            return BDec::Short;
        }
        let fm = b[total - 1] & topmask(nb);
        if Fl::of_mask(fm).is_none() {
            return BDec::BadFlags;
        }
        let mut ints = Vec::with_capacity(self.d);
        let mut pos = 0;
        let (mut stray, mut gep) = (false, false);
        for j in 0..self.d {
            let len = self.slot_len(j, nb);
            let mut s = b[pos..pos + len].to_vec();
            if j == self.d - 1 {
                s[len - 1] &= !topmask(nb);
            }
            pos += len;
            let v = BigUint::from_bytes_le(&s);
            if v.bits() as usize > self.bits {
                stray = true;
            } else if v >= self.p {
                gep = true;
            }
            ints.push(v);
        }
        if stray {
            BDec::Stray
        } else if gep {
            BDec::GeP
        } else {
            BDec::Ok(ints, fm)
        }
    }
}
fn coeffs<E: Field>(e: &E) -> Vec<BigUint> {
    e.to_base_prime_field_elements().map(|c| from_limbs(c.into_bigint().as_ref())).collect()
}
fn from_coeffs<E: Field>(c: &[BigUint]) -> E {
    E::from_base_prime_field_elems(c.iter().map(|x| E::BasePrimeField::from(x.clone()))).expect("degree")
}
fn show(c: &[BigUint]) -> String {
    let v: Vec<String> = c.iter().map(|x| format!("{x:#x}")).collect();
    format!("[{}]", v.join(","))
}


// ------------------------------------------------------------------------------------------
// Points (A): shipped curves.  Oracle group law: textbook affine formulas over the (C01/C02
// checked) field operations, plain double-and-add.
// ------------------------------------------------------------------------------------------
#[derive(Clone, Copy, PartialEq, Eq, Debug)]
enum AP<E> {
    O,
    A(E, E),
}
fn sw_add<E: Field>(a: &E, p: &AP<E>, q: &AP<E>) -> AP<E> {
    match (p, q) {
        (AP::O, _) => *q,
        (_, AP::O) => *p,
        (AP::A(x1, y1), AP::A(x2, y2)) => {
            let l = if x1 == x2 {
                if (*y1 + y2).is_zero() {
                    return AP::O;
                }
                let x1s = x1.square();
                (x1s.double() + x1s + a) * y1.double().inverse().unwrap()
            } else {
                (*y2 - y1) * (*x2 - x1).inverse().unwrap()
            };
            let x3 = l.square() - x1 - x2;
            let y3 = l * (*x1 - x3) - y1;
            AP::A(x3, y3)
        }
    }
}
fn sw_mul<E: Field>(a: &E, p: &AP<E>, k: &BigUint) -> AP<E> {
    let mut acc = AP::O;
    for i in (0..k.bits()).rev() {
        acc = sw_add(a, &acc, &acc);
        if k.bit(i) {
            acc = sw_add(a, &acc, p);
        }
    }
    acc
}
fn sw_neg<E: Field>(p: &AP<E>) -> AP<E> {
    match p {
        AP::O => AP::O,
        AP::A(x, y) => AP::A(*x, -*y),
    }
}
fn sw_on_curve<E: Field>(a: &E, b: &E, p: &AP<E>) -> bool {
    match p {
        AP::O => true,
        AP::A(x, y) => y.square() == x.square() * x + *a * x + b,
    }
}
fn te_add<E: Field>(a: &E, d: &E, p: &(E, E), q: &(E, E)) -> Option<(E, E)> {
    let t = *d * p.0 * q.0 * p.1 * q.1;
    let dx = (E::one() + t).inverse()?;
    let dy = (E::one() - t).inverse()?;
    Some(((p.0 * q.1 + p.1 * q.0) * dx, (p.1 * q.1 - *a * p.0 * q.0) * dy))
}
fn te_mul<E: Field>(a: &E, d: &E, p: &(E, E), k: &BigUint) -> Option<(E, E)> {
    let mut acc = (E::zero(), E::one());
    for i in (0..k.bits()).rev() {
        acc = te_add(a, d, &acc, &acc)?;
        if k.bit(i) {
            acc = te_add(a, d, &acc, p)?;
        }
    }
    Some(acc)
}
fn te_on_curve<E: Field>(a: &E, d: &E, p: &(E, E)) -> bool {
    let (x2, y2) = (p.0.square(), p.1.square());
    *a * x2 + y2 == E::one() + *d * x2 * y2
}
/// e > -e in the library's documented order (lexicographic, highest coefficient first); -e by the model
fn is_larger<E: Field>(m: &Big, e: &E) -> bool {
    let c = coeffs(e);
    for j in (0..m.d).rev() {
        let n = (&m.p - &c[j]) % &m.p;
        if c[j] != n {
            return c[j] > n;
        }
    }
    false
}

#[derive(Clone, Copy, PartialEq, Eq, Debug)]
enum Fmt {
    /// ark-serialize default: little-endian, flags in the top bits of the last byte
    Default,
    /// BLS12-381 zcash format: big-endian 48-byte coefficients, highest coefficient first, 3 flag bits in byte 0
    Zcash,
}
fn sw_big_bytes<E: Field>(m: &Big, fmt: Fmt, pt: &AP<E>, compress: bool) -> Vec<u8> {
    match fmt {
        Fmt::Default => {
            let zeros = vec![BigUint::zero(); m.d];
            let (cx, cy, mask) = match pt {
                AP::O => (zeros.clone(), zeros, 0x40u8),
                AP::A(x, y) => (coeffs(x), coeffs(y), if is_larger(m, y) { 0x80 } else { 0 }),
            };
            if compress {
                m.enc(&cx, 2, mask)
            } else {
                let mut out = m.enc(&cx, 0, 0);
                out.extend(m.enc(&cy, 2, mask));
                out
            }
        }
        Fmt::Zcash => {
            let be = |c: &[BigUint]| -> Vec<u8> {
                let mut out = Vec::new();
                for v in c.iter().rev() {
                    let mut b = v.to_bytes_le();
                    b.resize(48, 0);
                    b.reverse();
                    out.extend(b);
                }
                out
            };
            let zeros = vec![BigUint::zero(); m.d];
            let mut out;
            match pt {
                AP::O => {
                    out = be(&zeros);
                    if !compress {
                        out.extend(be(&zeros));
                    }
                    out[0] |= 0x40;
                }
                AP::A(x, y) => {
                    out = be(&coeffs(x));
                    if !compress {
                        out.extend(be(&coeffs(y)));
                    } else if is_larger(m, y) {
                        out[0] |= 0x20;
                    }
                }
            }
            if compress {
                out[0] |= 0x80;
            }
            out
        }
    }
}
fn te_big_bytes<E: Field>(m: &Big, pt: &(E, E), compress: bool) -> Vec<u8> {
    if compress {
        m.enc(&coeffs(&pt.1), 1, if is_larger(m, &pt.0) { 0x80 } else { 0 })
    } else {
        let mut out = m.enc(&coeffs(&pt.0), 0, 0);
        out.extend(m.enc(&coeffs(&pt.1), 0, 0));
        out
    }
}


fn generic_elem<E: Field>() -> E {
    // a fixed generic-looking non-zero element with every coefficient populated
    let d = E::extension_degree() as usize;
    from_coeffs::<E>(&(0..d).map(|j| BigUint::from(GENERIC64) + BigUint::from(j as u64 + 2)).collect::<Vec<_>>())
}


// ------------------------------------------------------------------------------------------
// panic capture per library call (a panic is a violation of this property, with a precise site)
// ------------------------------------------------------------------------------------------
fn guard<T>(f: impl FnOnce() -> T) -> Result<T, String> {
    catch_unwind(AssertUnwindSafe(f)).map_err(|p| {
        let at = LAST_PANIC_LOC.with(|c| c.borrow().clone());
        let msg = if let Some(s) = p.downcast_ref::<&str>() {
            s.to_string()
        } else if let Some(s) = p.downcast_ref::<String>() {
            s.clone()
        } else {
            "<non-string panic>".to_string()
        };
        format!("panic at {at}: {msg}")
    })
}
const TRUNC: [&str; 5] = ["truncated_len_0", "truncated_len_1", "truncated_len_2", "truncated_len_3", "truncated_len_4"];

/// index -> byte string, enumerating lengths 0, 1, 2, .. in turn
fn nth_string(i: u64) -> (usize, [u8; 8]) {
    let mut len = 0usize;
    let mut r = i;
    while r >= 1u64 << (8 * len) {
        r -= 1u64 << (8 * len);
        len += 1;
    }
    (len, r.to_le_bytes())
}
fn count_strings(max_len: usize) -> u64 {
    (0..=max_len).map(|l| 1u64 << (8 * l)).sum()
}

/// the model's classification of an input offered as a point encoding
#[derive(Clone, Copy, Debug, PartialEq, Eq)]
enum Cls {
    Trunc,
    BadFlags,
    /// some coordinate integer is >= p (or has a stray high bit)
    BadInt,
    /// infinity flag together with non-zero coordinate bytes
    InfinityJunk,
    Identity,
    NoSqrt,
    OffCurve,
    OutSub(usize),
    /// curve point outside the subgroup generated by G on an INCOMPLETE Edwards curve: whether the library's
    /// r*P test answers "no" there is not decided by the property (it speaks about complete curves and the
    /// prime-order subgroup): only no-panic, no over-read and "a returned point is on the curve" are demanded
    Undecided(usize),
    Valid(usize),
}
impl Cls {
    fn must_reject_checked(&self) -> bool {
        matches!(self, Cls::Trunc | Cls::BadFlags | Cls::BadInt | Cls::NoSqrt | Cls::OffCurve | Cls::OutSub(_))
    }
    fn label(&self, loc: &mut Loc, len: usize) {
        match self {
            Cls::Trunc => loc.class(TRUNC[len.min(4)]),
            Cls::BadFlags => loc.class("flags_11"),
            Cls::BadInt => loc.class("field_int>=p"),
            Cls::InfinityJunk => loc.class("infinity_flag_with_nonzero_x"),
            Cls::Identity => loc.class("identity_encoding"),
            Cls::NoSqrt => loc.class("no_sqrt"),
            Cls::OffCurve => loc.class("off_curve_rejected"),
            Cls::OutSub(_) => loc.class("out_of_subgroup_rejected"),
            Cls::Undecided(_) => loc.class("te_incomplete:outside_subgroup_undecided"),
            Cls::Valid(_) => loc.class("valid_subgroup_point"),
        }
    }
}

/// common verdict: `res` = outcome of the guarded library call: Ok(Ok((oracle index of the returned
/// point or None if it is not a curve point, is it the identity, the value))) / Ok(Err(())) / Err(panic).
/// `sites` = [read_past_advertised_size, panic, checked_returns_invalid_point, checked_accepts_bad_encoding,
/// infinity_flag_returns_non_identity] (static strings: no allocation on the hot path)
fn judge_point<T: std::fmt::Debug>(
    loc: &mut Loc,
    sites: &[&str; 5],
    what: &dyn Fn() -> String,
    cls: Cls,
    checked: bool,
    in_subgroup: &dyn Fn(usize) -> bool,
    res: Result<Result<(Option<usize>, bool, T), ()>, String>,
    consumed: usize,
    advertised: usize,
) {
    loc.check_at(sites[0], consumed <= advertised, || format!("{}: consumed {consumed} bytes, advertised size {advertised}", what()));
    match res {
        Err(p) => loc.fail_at(sites[1], format!("{}: {p}", what())),
        Ok(Err(())) => loc.op(),
        Ok(Ok((idx, is_id, val))) => {
            if checked {
                let valid = matches!(idx, Some(i) if in_subgroup(i));
                loc.check_at(sites[2], valid, || {
                    format!("{}: checked deserialization returned {val:?}, which is {} (model class of the input: {cls:?})", what(), if idx.is_none() { "not on the curve" } else { "outside the prime-order subgroup" })
                });
                loc.check_at(sites[3], !cls.must_reject_checked(), || format!("{}: input of model class {cls:?} accepted as {val:?}", what()));
            }
            if matches!(cls, Cls::InfinityJunk | Cls::Identity) {
                loc.check_at(sites[4], is_id, || format!("{}: infinity flag set but the returned value is {val:?}", what()));
            }
        }
    }
}
const SW_TOY_SITES: [&str; 5] = ["sw_toy/read_past_advertised_size", "sw_toy/panic", "sw_toy/checked_returns_invalid_point", "sw_toy/checked_accepts_bad_encoding", "sw_toy/infinity_flag_returns_non_identity"];
const TE_TOY_SITES: [&str; 5] = ["te_toy/read_past_advertised_size", "te_toy/panic", "te_toy/checked_returns_invalid_point", "te_toy/checked_accepts_bad_encoding", "te_toy/infinity_flag_returns_non_identity"];

// ------------------------------------------------------------------------------------------
// (E) every byte string of every length 0..=L on toy curves
// ------------------------------------------------------------------------------------------
fn sw_toy_bytes<P: SWCurveConfig>(ctx: &mut Ctx, name: &str)
where
    P::BaseField: PrimeField,
    P::ScalarField: PrimeField,
{
    let t = SwToy::<P>::new(name);
    t.validate(ctx);
    let m = Small::new(t.p, 1);
    let mut by_x: Vec<Vec<(u64, usize)>> = vec![Vec::new(); t.p as usize];
    for (i, pt) in t.g.pts.iter().enumerate() {
        if let Pt::A(x, y) = pt {
            by_x[*x as usize].push((*y, i));
        }
    }
    for compress in [true, false] {
        let cm = if compress { Compress::Yes } else { Compress::No };
        let l_model = if compress { m.llen(2) } else { m.blen() + m.llen(2) };
        let advertised = sw::Affine::<P>::identity().serialized_size(cm);
        let max_len = l_model.max(advertised);
        if max_len > 3 {
            ctx.bound(&format!("bytes_toy/{name}/{}", if compress { "compressed" } else { "uncompressed" }), format!("not enumerated ({max_len}-byte encoding)"));
            continue;
        }
        let ns = count_strings(max_len);
        ctx.sweep(&format!("bytes_toy/{name}/{}", if compress { "compressed" } else { "uncompressed" }), ns * 4, |i, loc| {
            let [is, vt] = unrank(i, [ns, 4]);
            let checked = vt & 1 == 0;
            let as_proj = vt & 2 != 0;
            let vm = if checked { Validate::Yes } else { Validate::No };
            let (len, bytes) = nth_string(is);
            let b = &bytes[..len];
            // ---- model classification
            let cls = if len < l_model {
                Cls::Trunc
            } else if compress {
                match m.dec::<SWFlags>(b) {
                    SDec::Short => Cls::Trunc,
                    SDec::BadFlags => Cls::BadFlags,
                    SDec::Stray | SDec::GeP => Cls::BadInt,
                    SDec::Ok(c, 0x40) => {
                        if c[0] == 0 {
                            Cls::Identity
                        } else {
                            Cls::InfinityJunk
                        }
                    }
                    SDec::Ok(c, fm) => {
                        let ys = &by_x[c[0] as usize];
                        if ys.is_empty() {
                            Cls::NoSqrt
                        } else {
                            // flag 0x80 = the larger root
                            let pick = if fm == 0x80 { ys.iter().max().unwrap() } else { ys.iter().min().unwrap() };
                            if t.in_subgroup[pick.1] {
                                Cls::Valid(pick.1)
                            } else {
                                Cls::OutSub(pick.1)
                            }
                        }
                    }
                }
            } else {
                match (m.dec::<EmptyFlags>(&b[..m.blen()]), m.dec::<SWFlags>(&b[m.blen()..])) {
                    (_, SDec::BadFlags) => Cls::BadFlags,
                    (SDec::Ok(cx, _), SDec::Ok(cy, fm)) => {
                        if fm == 0x40 {
                            if cx[0] == 0 && cy[0] == 0 {
                                Cls::Identity
                            } else {
                                Cls::InfinityJunk
                            }
                        } else {
                            match t.g.index.get(&Pt::A(cx[0], cy[0])) {
                                None => Cls::OffCurve,
                                Some(i) if t.in_subgroup[*i] => Cls::Valid(*i),
                                Some(i) => Cls::OutSub(*i),
                            }
                        }
                    }
                    _ => Cls::BadInt,
                }
            };
            cls.label(loc, len);
            loc.class_if(m.llen(2) > m.blen(), "flags_spill_to_extra_byte");
            let what = || format!("{name} {} {} as {} input {} ({len} bytes)", if compress { "compressed" } else { "uncompressed" }, if checked { "checked" } else { "unchecked" }, if as_proj { "Projective" } else { "Affine" }, hex(b));
            if loc.sampling() {
                loc.sample(format!("{} model class {cls:?}", what()));
            }
            let mut rd = CountReader::new(b);
            let res = guard(|| {
                if as_proj {
                    sw::Projective::<P>::deserialize_with_mode(&mut rd, cm, vm).map(|q| (t.idx_proj(&q), q.z.is_zero(), (q.x, q.y, q.z))).map_err(|_| ())
                } else {
                    sw::Affine::<P>::deserialize_with_mode(&mut rd, cm, vm).map(|a| (t.idx_aff(&a), a.infinity, (a.x, a.y, P::BaseField::from(!a.infinity)))).map_err(|_| ())
                }
            });
            let consumed = rd.pos;
            judge_point(loc, &SW_TOY_SITES, &what, cls, checked, &|i| t.in_subgroup[i], res, consumed, advertised);
        });
    }
}

fn te_toy_bytes<P: TECurveConfig>(ctx: &mut Ctx, name: &str)
where
    P::BaseField: PrimeField,
    P::ScalarField: PrimeField,
{
    let t = TeToy::<P>::new(name);
    t.validate(ctx);
    // incomplete parameters (a non-square): inputs that decode to a curve point outside <G> are "undecided"
    let complete = t.complete;
    let m = Small::new(t.p, 1);
    let mut by_y: Vec<Vec<(u64, usize)>> = vec![Vec::new(); t.p as usize];
    for i in 0..t.n() {
        let (x, y) = t.xy(i);
        by_y[y as usize].push((x, i));
    }
    for compress in [true, false] {
        let cm = if compress { Compress::Yes } else { Compress::No };
        let l_model = if compress { m.llen(1) } else { 2 * m.blen() };
        let advertised = t.aff(t.g.id).serialized_size(cm);
        let max_len = l_model.max(advertised);
        if max_len > 3 {
            ctx.bound(&format!("bytes_toy/{name}/{}", if compress { "compressed" } else { "uncompressed" }), format!("not enumerated ({max_len}-byte encoding)"));
            continue;
        }
        let ns = count_strings(max_len);
        ctx.sweep(&format!("bytes_toy/{name}/{}", if compress { "compressed" } else { "uncompressed" }), ns * 4, |i, loc| {
            let [is, vt] = unrank(i, [ns, 4]);
            let checked = vt & 1 == 0;
            let as_proj = vt & 2 != 0;
            let vm = if checked { Validate::Yes } else { Validate::No };
            let (len, bytes) = nth_string(is);
            let b = &bytes[..len];
            let cls = if len < l_model {
                Cls::Trunc
            } else if compress {
                match m.dec::<TEFlags>(b) {
                    SDec::Short => Cls::Trunc,
                    SDec::BadFlags => Cls::BadFlags,
                    SDec::Stray | SDec::GeP => Cls::BadInt,
                    SDec::Ok(c, fm) => {
                        let xs = &by_y[c[0] as usize];
                        if xs.is_empty() {
                            Cls::NoSqrt
                        } else {
                            let pick = if fm == 0x80 { xs.iter().max().unwrap() } else { xs.iter().min().unwrap() };
                            loc.class_if(pick.0 == 0, "x=0_tie");
                            if t.in_subgroup[pick.1] {
                                Cls::Valid(pick.1)
                            } else if complete {
                                Cls::OutSub(pick.1)
                            } else {
                                Cls::Undecided(pick.1)
                            }
                        }
                    }
                }
            } else {
                match (m.dec::<EmptyFlags>(&b[..m.blen()]), m.dec::<EmptyFlags>(&b[m.blen()..])) {
                    (SDec::Ok(cx, _), SDec::Ok(cy, _)) => match t.g.index.get(&Pt::A(cx[0], cy[0])) {
                        None => Cls::OffCurve,
                        Some(i) if t.in_subgroup[*i] => Cls::Valid(*i),
                        Some(i) if complete => Cls::OutSub(*i),
                        Some(i) => Cls::Undecided(*i),
                    },
                    _ => Cls::BadInt,
                }
            };
            cls.label(loc, len);
            let what = || format!("{name} {} {} as {} input {} ({len} bytes)", if compress { "compressed" } else { "uncompressed" }, if checked { "checked" } else { "unchecked" }, if as_proj { "Projective" } else { "Affine" }, hex(b));
            if loc.sampling() {
                loc.sample(format!("{} model class {cls:?}", what()));
            }
            let mut rd = CountReader::new(b);
            let res = guard(|| {
                if as_proj {
                    te::Projective::<P>::deserialize_with_mode(&mut rd, cm, vm).map(|q| (t.idx_proj(&q), false, (q.x, q.y, q.t, q.z))).map_err(|_| ())
                } else {
                    te::Affine::<P>::deserialize_with_mode(&mut rd, cm, vm).map(|a| (t.idx_aff(&a), false, (a.x, a.y, a.x * a.y, P::BaseField::one()))).map_err(|_| ())
                }
            });
            let consumed = rd.pos;
            judge_point(loc, &TE_TOY_SITES, &what, cls, checked, &|i| t.in_subgroup[i] || !complete, res, consumed, advertised);
        });
    }
}

// ------------------------------------------------------------------------------------------
// (E2) toy short-Weierstrass curves over toy quadratic extension fields F_p[u]/(u^2 - beta):
// every byte string of the compressed encoding length (2 bytes) and shorter.  Decompression takes
// a square root in F_p^2 (QuadExtField::sqrt: shortcut for rhs in F_p with its residue /
// non-residue split, "complex method" otherwise) - a code path no prime-field curve reaches.
//
// Format model read off the library (ff/src/fields/models/quadratic_extension.rs
// serialize_with_flags / deserialize_with_flags): c0 as a plain base-field element (no flag bits),
// then c1 with the flag bits in the top bits of ITS last byte (= the last byte of the element);
// a point is x [|| y] with the SWFlags on the last coefficient written.  Order used for the sign
// flag (QuadExtField::cmp): c1 first, then c0.
// Parameters found by brute force outside the harness; everything is re-validated below with the
// u64 model (Fp2Model / SwModel / GroupTable).
// ------------------------------------------------------------------------------------------
macro_rules! ext_sw {
    ($name:ident, $F:ty, $R:ty, $h:expr, $hinv:expr, $a:expr, $b:expr, $gx:expr, $gy:expr) => {
        #[derive(Clone, Copy, Debug, Default, PartialEq, Eq)]
        pub struct $name;
        impl CurveConfig for $name {
            type BaseField = $F;
            type ScalarField = $R;
            const COFACTOR: &'static [u64] = &[$h];
            const COFACTOR_INV: $R = MontFp!($hinv);
        }
        impl SWCurveConfig for $name {
            const COEFF_A: $F = $a;
            const COEFF_B: $F = $b;
            const GENERATOR: sw::Affine<Self> = sw::Affine::new_unchecked($gx, $gy);
        }
    };
}
macro_rules! q2 {
    ($F:ty, $c0:expr, $c1:expr) => {
        <$F>::new(MontFp!($c0), MontFp!($c1))
    };
}
// y^2 = x^3 + (3+2u) over F_7[u]/(u^2+1): 52 = 4 * 13 points (a = 0, 2-torsion: three points with y = 0)
ext_sw!(SwQ7A0B32, T7Fq2, D13, 4, "10", q2!(T7Fq2, "0", "0"), q2!(T7Fq2, "3", "2"), q2!(T7Fq2, "5", "1"), q2!(T7Fq2, "4", "6"));
// y^2 = x^3 + (1+2u) over F_7[u]/(u^2+1): 61 points, prime order (a = 0, cofactor 1)
ext_sw!(SwQ7A0B12, T7Fq2, D61, 1, "1", q2!(T7Fq2, "0", "0"), q2!(T7Fq2, "1", "2"), q2!(T7Fq2, "1", "0"), q2!(T7Fq2, "5", "3"));
// y^2 = x^3 + u x + (1+u) over F_5[u]/(u^2-2): 34 = 2 * 17 points (a != 0, general non-residue)
ext_sw!(SwQ5AuB11, T5Fq2, D17, 2, "9", q2!(T5Fq2, "0", "1"), q2!(T5Fq2, "1", "1"), q2!(T5Fq2, "2", "3"), q2!(T5Fq2, "1", "4"));
// y^2 = x^3 + u x + (2+2u) over F_13[u]/(u^2-2): 172 = 4 * 43 points (a != 0, general non-residue; = SwQ13A of c03.rs)
ext_sw!(SwQ13AuB22, T13Fq2, D43, 4, "11", q2!(T13Fq2, "0", "1"), q2!(T13Fq2, "2", "2"), q2!(T13Fq2, "9", "12"), q2!(T13Fq2, "4", "0"));

/// model class of rhs(x) = x^3 + a x + b, the argument of the square root taken by decompression
#[derive(Clone, Copy, Debug, PartialEq, Eq)]
enum RhsCls {
    Zero,
    /// (c0, 0) with c0 a non-zero square of F_p: root (s, 0)
    BaseResidue,
    /// (c0, 0) with c0 a non-residue of F_p: still a square of F_p^2, root (0, s) with s^2 = c0 / beta
    BaseNonResidue,
    /// c1 != 0, a square of F_p^2
    GeneralSquare,
    /// c1 != 0, not a square
    GeneralNonSquare,
}

struct ExtToy<P: SWCurveConfig> {
    name: String,
    f: Fp2Model,
    m: SwModel<Fp2Model>,
    g: GroupTable<(u64, u64)>,
    r: u64,
    h: u64,
    gen: usize,
    in_subgroup: Vec<bool>,
    /// per x (index c0 + p c1): the points (y, oracle index) with that x
    by_x: Vec<Vec<((u64, u64), usize)>>,
    rhs_cls: Vec<RhsCls>,
    _p: std::marker::PhantomData<P>,
}
impl<P: SWCurveConfig> ExtToy<P>
where
    P::ScalarField: PrimeField,
{
    fn fe(e: (u64, u64)) -> P::BaseField {
        small_from::<P::BaseField>(&[e.0, e.1])
    }
    fn co(x: &P::BaseField) -> (u64, u64) {
        let c = small_coeffs(x);
        (c[0], c[1])
    }
    fn xi(&self, x: (u64, u64)) -> usize {
        (x.0 + self.f.p * x.1) as usize
    }
    /// builds the oracle group and validates every toy parameter (None: unusable, a validation failed)
    fn new(ctx: &mut Ctx, name: &str, f: Fp2Model) -> Option<Self> {
        let p = f.p;
        let sm = Small::of::<P::BaseField>();
        ctx.validate(sm.p == p && sm.d == 2 && p > 2 && is_prime_small(p), &format!("{name}: base field is a quadratic extension of the prime field F_{p}"));
        ctx.validate(f.beta > 0 && f.beta < p && powmod(f.beta, (p - 1) / 2, p) == p - 1, &format!("{name}: beta = {} is a non-residue of F_{p}", f.beta));
        // the bridge model <-> library field: u^2 = beta, a few sums and products (typo guard; field arithmetic is C02's subject)
        ctx.validate(Self::fe((0, 1)).square() == Self::fe((f.beta, 0)), &format!("{name}: u^2 = beta in the library field"));
        let els = f.elements();
        let probe = [els[1], els[els.len() - 1], els[els.len() / 2 + 3], (0, 1), (p - 1, 2)];
        for a in probe {
            for b in probe {
                ctx.validate(Self::co(&(Self::fe(a) * Self::fe(b))) == f.mul(a, b) && Self::co(&(Self::fe(a) + Self::fe(b))) == f.add(a, b), &format!("{name}: field bridge on {a:?},{b:?}"));
            }
        }
        let m = SwModel { f, a: Self::co(&P::COEFF_A), b: Self::co(&P::COEFF_B) };
        // non-singular: 4 a^3 + 27 b^2 != 0
        let disc = f.add(f.mul(f.from_u64(4), f.mul(m.a, f.sq(m.a))), f.mul(f.from_u64(27), f.sq(m.b)));
        ctx.validate(!f.is_zero(disc), &format!("{name}: discriminant non-zero"));
        let pts = m.points();
        let n = pts.len() as u64;
        let q = f.order();
        let mm = m.clone();
        let g = GroupTable::build(pts, Pt::O, move |a, b| Some(mm.add(a, b)));
        let rl = <P::ScalarField as PrimeField>::MODULUS;
        let r = rl.as_ref()[0];
        ctx.validate(rl.as_ref()[1..].iter().all(|x| *x == 0) && P::COFACTOR.len() == 1, &format!("{name}: r and h fit one limb"));
        let h = P::COFACTOR[0];
        let d = n as i64 - (q as i64 + 1);
        ctx.validate((d * d) as u64 <= 4 * q, &format!("{name}: Hasse bound, #E={n} q={q}"));
        ctx.validate(is_prime_small(r) && n == h * r && h % r != 0, &format!("{name}: #E = {n} = h*r = {h}*{r}, r prime, r does not divide h"));
        let gen_pt = Pt::A(Self::co(&P::GENERATOR.x), Self::co(&P::GENERATOR.y));
        let Some(gen) = g.index.get(&gen_pt).copied() else {
            ctx.validate(false, &format!("{name}: generator on the curve"));
            return None;
        };
        ctx.validate(g.order(gen) == Some(r), &format!("{name}: generator has order r"));
        let hinv = prime_to_u64(&P::COFACTOR_INV);
        ctx.validate((hinv * h) % r == 1 % r, &format!("{name}: COFACTOR_INV = {hinv} inverts h = {h} mod r = {r}"));
        let k = g.n().min(12);
        let mut ok = true;
        for a in 0..k {
            for b in 0..k {
                for c in 0..k {
                    ok &= g.add[g.add[a][b]][c] == g.add[a][g.add[b][c]];
                }
            }
        }
        ctx.validate(ok, &format!("{name}: oracle law associative"));
        let in_subgroup: Vec<bool> = (0..g.n()).map(|i| g.mul(r, i) == Some(g.id)).collect();
        ctx.validate(in_subgroup.iter().filter(|b| **b).count() as u64 == r, &format!("{name}: subgroup has r elements"));
        ctx.validate(h == 1 || in_subgroup.iter().any(|b| !*b), &format!("{name}: cofactor > 1 => points outside the subgroup exist"));
        let mut by_x: Vec<Vec<((u64, u64), usize)>> = vec![Vec::new(); q as usize];
        for (i, pt) in g.pts.iter().enumerate() {
            if let Pt::A(x, y) = pt {
                by_x[(x.0 + p * x.1) as usize].push((*y, i));
            }
        }
        // class of rhs(x), from the model only: residues of F_p by listing the squares
        let base_squares: Vec<bool> = (0..p).map(|c| (1..p).any(|z| z * z % p == c)).collect();
        let mut rhs_cls = vec![RhsCls::Zero; q as usize];
        let mut ok_roots = true;
        for x in &els {
            let i = (x.0 + p * x.1) as usize;
            let rhs = m.rhs(*x);
            let c = if rhs == (0, 0) {
                RhsCls::Zero
            } else if rhs.1 == 0 {
                if base_squares[rhs.0 as usize] {
                    RhsCls::BaseResidue
                } else {
                    RhsCls::BaseNonResidue
                }
            } else if by_x[i].is_empty() {
                RhsCls::GeneralNonSquare
            } else {
                RhsCls::GeneralSquare
            };
            // every element of F_p is a square in F_p^2: a non-residue c0 has the roots (0, +-s), a residue (+-s, 0)
            ok_roots &= match c {
                RhsCls::Zero => by_x[i].len() == 1 && by_x[i][0].0 == (0, 0),
                RhsCls::BaseResidue => by_x[i].len() == 2 && by_x[i].iter().all(|(y, _)| y.1 == 0 && y.0 != 0),
                RhsCls::BaseNonResidue => by_x[i].len() == 2 && by_x[i].iter().all(|(y, _)| y.0 == 0 && y.1 != 0),
                RhsCls::GeneralSquare => by_x[i].len() == 2 && by_x[i].iter().all(|(y, _)| y.0 != 0 && y.1 != 0),
                RhsCls::GeneralNonSquare => true,
            };
            rhs_cls[i] = c;
        }
        ctx.validate(ok_roots, &format!("{name}: shape of the roots of rhs(x) per class (base-field rhs always has a root in F_p^2)"));
        Some(ExtToy { name: name.to_string(), f, m, g, r, h, gen, in_subgroup, by_x, rhs_cls, _p: std::marker::PhantomData })
    }
    fn idx_aff(&self, a: &sw::Affine<P>) -> Option<usize> {
        if a.infinity {
            return Some(self.g.id);
        }
        self.g.index.get(&Pt::A(Self::co(&a.x), Self::co(&a.y))).copied()
    }
    /// decodes X/Z^2, Y/Z^3 with MODEL arithmetic
    fn idx_proj(&self, q: &sw::Projective<P>) -> Option<usize> {
        let (x, y, z) = (Self::co(&q.x), Self::co(&q.y), Self::co(&q.z));
        if z == (0, 0) {
            return Some(self.g.id);
        }
        let f = &self.f;
        let zi = f.inv(z);
        let zi2 = f.sq(zi);
        self.g.index.get(&Pt::A(f.mul(x, zi2), f.mul(y, f.mul(zi2, zi)))).copied()
    }
    /// the root selected by the sign flag: 0x80 = the larger of {y, -y} in the order (c1, then c0)
    fn pick(&self, x: (u64, u64), fm: u8) -> Option<((u64, u64), usize)> {
        let ys = &self.by_x[self.xi(x)];
        let key = |e: &&((u64, u64), usize)| (e.0 .1, e.0 .0);
        if fm == 0x80 {
            ys.iter().max_by_key(key).copied()
        } else {
            ys.iter().min_by_key(key).copied()
        }
    }
}
const SW_EXT_SITES: [&str; 5] = ["sw_ext_toy/read_past_advertised_size", "sw_ext_toy/panic", "sw_ext_toy/checked_returns_invalid_point", "sw_ext_toy/checked_accepts_bad_encoding", "sw_ext_toy/infinity_flag_returns_non_identity"];

fn sw_ext_bytes<P: SWCurveConfig>(ctx: &mut Ctx, name: &str, f: Fp2Model)
where
    P::ScalarField: PrimeField,
{
    let Some(t) = ExtToy::<P>::new(ctx, name, f) else { return };
    let t = &t;
    let p = f.p;
    let m = Small::new(p, 2);
    let (xlen, plen) = (m.total(0), m.total(2)); // x without flags; last coordinate with the 2 SW flag bits
    let beta_minus_one = f.beta == p - 1;
    // the library call + verdict, shared by all sweeps below
    let run = |loc: &mut Loc, b: &[u8], cls: Cls, compress: bool, vt: u64, advertised: usize| {
        let checked = vt & 1 == 0;
        let as_proj = vt & 2 != 0;
        let cm = if compress { Compress::Yes } else { Compress::No };
        let vm = if checked { Validate::Yes } else { Validate::No };
        let len = b.len();
        cls.label(loc, len);
        match cls {
            Cls::Valid(_) => loc.class("ext:valid_subgroup_point"),
            Cls::OutSub(_) => loc.class("ext:out_of_subgroup_rejected"),
            Cls::OffCurve => loc.class("ext:off_curve_rejected"),
            Cls::NoSqrt => loc.class("ext:no_sqrt"),
            Cls::BadInt => loc.class("ext:field_int>=p"),
            _ => {}
        }
        loc.class_if(beta_minus_one, "ext:beta=-1");
        loc.class_if(!beta_minus_one, "ext:beta!=-1");
        let what = || format!("{name} {} {} as {} input {} ({len} bytes)", if compress { "compressed" } else { "uncompressed" }, if checked { "checked" } else { "unchecked" }, if as_proj { "Projective" } else { "Affine" }, hex(b));
        if loc.sampling() {
            loc.sample(format!("{} model class {cls:?}", what()));
        }
        let mut rd = CountReader::new(b);
        let res = guard(|| {
            if as_proj {
                sw::Projective::<P>::deserialize_with_mode(&mut rd, cm, vm).map(|q| (t.idx_proj(&q), q.z.is_zero(), (q.x, q.y, q.z))).map_err(|_| ())
            } else {
                sw::Affine::<P>::deserialize_with_mode(&mut rd, cm, vm).map(|a| (t.idx_aff(&a), a.infinity, (a.x, a.y, P::BaseField::from(!a.infinity)))).map_err(|_| ())
            }
        });
        let consumed = rd.pos;
        judge_point(loc, &SW_EXT_SITES, &what, cls, checked, &|i| t.in_subgroup[i], res, consumed, advertised);
    };
    // ---- compressed: every byte string of every length 0..=2
    {
        let advertised = sw::Affine::<P>::identity().serialized_size(Compress::Yes);
        let max_len = plen.max(advertised);
        if max_len > 2 {
            ctx.bound(&format!("bytes_ext_toy/{name}/compressed"), format!("not enumerated ({max_len}-byte encoding)"));
        } else {
            let ns = count_strings(max_len);
            ctx.sweep(&format!("bytes_ext_toy/{name}/compressed"), ns * 4, |i, loc| {
                let [is, vt] = unrank(i, [ns, 4]);
                let (len, bytes) = nth_string(is);
                let b = &bytes[..len];
                let cls = if len < plen {
                    Cls::Trunc
                } else {
                    match m.dec::<SWFlags>(b) {
                        SDec::Short => Cls::Trunc,
                        SDec::BadFlags => Cls::BadFlags,
                        SDec::Stray | SDec::GeP => {
                            // which coefficient is out of range (flag bits masked off the c1 byte)
                            loc.class_if(b[0] as u64 >= p, "ext:field_int>=p_in_c0");
                            loc.class_if((b[1] & !topmask(2)) as u64 >= p, "ext:field_int>=p_in_c1");
                            Cls::BadInt
                        }
                        SDec::Ok(c, 0x40) => {
                            if c[0] == 0 && c[1] == 0 {
                                Cls::Identity
                            } else {
                                Cls::InfinityJunk
                            }
                        }
                        SDec::Ok(c, fm) => {
                            let x = (c[0], c[1]);
                            // the library takes sqrt(rhs(x)) for exactly these inputs
                            match t.rhs_cls[t.xi(x)] {
                                RhsCls::Zero => loc.class("ext:rhs=0"),
                                RhsCls::BaseResidue => loc.class("ext:rhs_c1=0_and_c0_residue"),
                                RhsCls::BaseNonResidue => loc.class("ext:rhs_c1=0_and_c0_nonresidue"),
                                RhsCls::GeneralSquare => loc.class("ext:rhs_c1!=0_square"),
                                RhsCls::GeneralNonSquare => loc.class("ext:rhs_c1!=0_nonsquare"),
                            }
                            match t.pick(x, fm) {
                                None => Cls::NoSqrt,
                                Some((y, i)) => {
                                    loc.class_if(y.1 != 0, "ext:y_sign_decided_by_c1");
                                    loc.class_if(y.1 == 0 && y.0 != 0, "ext:y_sign_decided_by_c0");
                                    if t.in_subgroup[i] {
                                        Cls::Valid(i)
                                    } else {
                                        Cls::OutSub(i)
                                    }
                                }
                            }
                        }
                    }
                };
                run(loc, b, cls, true, vt, advertised);
            });
        }
    }
    // ---- uncompressed (2 * 2 bytes): the model class of a full-length input
    let ulen = xlen + plen;
    let advertised_u = sw::Affine::<P>::identity().serialized_size(Compress::No);
    let classify_u = |loc: &mut Loc, b: &[u8]| -> Cls {
        if b.len() < ulen {
            return Cls::Trunc;
        }
        match (m.dec::<EmptyFlags>(&b[..xlen]), m.dec::<SWFlags>(&b[xlen..])) {
            (_, SDec::BadFlags) => Cls::BadFlags,
            (SDec::Ok(cx, _), SDec::Ok(cy, fm)) => {
                let (x, y) = ((cx[0], cx[1]), (cy[0], cy[1]));
                if fm == 0x40 {
                    if x == (0, 0) && y == (0, 0) {
                        Cls::Identity
                    } else {
                        Cls::InfinityJunk
                    }
                } else {
                    match t.g.index.get(&Pt::A(x, y)) {
                        None => Cls::OffCurve,
                        Some(i) if t.in_subgroup[*i] => Cls::Valid(*i),
                        Some(i) => Cls::OutSub(*i),
                    }
                }
            }
            (dx, _) => {
                loc.class_if(!matches!(dx, SDec::Ok(..)), "ext:field_int>=p_in_x");
                loc.class_if(matches!(dx, SDec::Ok(..)), "ext:field_int>=p_in_y");
                Cls::BadInt
            }
        }
    };
    if ulen.max(advertised_u) > 4 || xlen != 2 {
        ctx.bound(&format!("bytes_ext_toy/{name}/uncompressed"), format!("not enumerated ({}-byte encoding)", ulen.max(advertised_u)));
        return;
    }
    // (U1) every pair of canonical coordinates x every pattern of the two flag bits (model-built bytes):
    // all curve points, all off-curve pairs, identity, infinity flag + junk, both flags
    let q = f.order();
    ctx.sweep(&format!("bytes_ext_toy/{name}/uncompressed_canonical_xy"), q * q * 4 * 4, |i, loc| {
        let [ix, iy, ifl, vt] = unrank(i, [q, q, 4, 4]);
        let mut bytes = [0u8; 8];
        let n0 = m.enc(&[ix % p, ix / p], 0, 0, &mut bytes);
        let n1 = m.enc(&[iy % p, iy / p], 2, (ifl << 6) as u8, &mut bytes[n0..]);
        let b = &bytes[..n0 + n1];
        let cls = classify_u(loc, b);
        run(loc, b, cls, false, vt, advertised_u);
    });
    // (U2) raw byte strings: every string of length 0..=2, and for a set of x parts (some of every model
    // class, incl. non-canonical ones) every continuation of 1 and 2 bytes
    let per_class = ctx.t(4usize, 24usize);
    let mut xparts: Vec<[u8; 2]> = Vec::new();
    {
        let mut seen: std::collections::BTreeMap<u32, usize> = std::collections::BTreeMap::new();
        for i in 0..(1u32 << (8 * xlen)) {
            let b = (i as u16).to_le_bytes();
            let key = match m.dec::<EmptyFlags>(&b) {
                SDec::Ok(c, _) => {
                    let xi = t.xi((c[0], c[1]));
                    let pts = &t.by_x[xi];
                    let membership: u32 = if pts.is_empty() {
                        0
                    } else if pts.iter().all(|(_, i)| t.in_subgroup[*i]) {
                        1
                    } else {
                        2
                    };
                    let x_is_zero: u32 = if i == 0 { 1000 } else { 0 };
                    100 + 10 * (t.rhs_cls[xi] as u32) + membership + x_is_zero
                }
                // which coefficient(s) are out of range
                _ => (b[0] as u64 >= p) as u32 + 2 * ((b[1] as u64 >= p) as u32),
            };
            let c = seen.entry(key).or_insert(0);
            if *c < per_class {
                *c += 1;
                xparts.push(b);
            }
        }
    }
    ctx.bound(&format!("bytes_ext_toy/{name}/uncompressed_bytes"), format!("all strings of length 0..=2; {} x parts (first {per_class} of every model class of the 2-byte x part) x all continuations of 1 and 2 bytes", xparts.len()));
    let n_short = count_strings(xlen);
    let n_tail = count_strings(plen) - 1; // continuations of length 1..=plen
    let nx = xparts.len() as u64;
    let xparts = &xparts;
    ctx.sweep(&format!("bytes_ext_toy/{name}/uncompressed_bytes"), (n_short + nx * n_tail) * 4, |i, loc| {
        let [is, vt] = unrank(i, [n_short + nx * n_tail, 4]);
        let mut bytes = [0u8; 8];
        let len = if is < n_short {
            let (len, s) = nth_string(is);
            bytes = s;
            len
        } else {
            let j = is - n_short;
            let (tl, ts) = nth_string(1 + j % n_tail);
            bytes[..xlen].copy_from_slice(&xparts[(j / n_tail) as usize]);
            bytes[xlen..xlen + tl].copy_from_slice(&ts[..tl]);
            xlen + tl
        };
        let b = &bytes[..len];
        let cls = classify_u(loc, b);
        run(loc, b, cls, false, vt, advertised_u);
    });
}

// ------------------------------------------------------------------------------------------
// (E) field elements: every byte string of the element length and shorter
// ------------------------------------------------------------------------------------------
/// Ok(v) must be canonical: every base-prime-field coefficient has raw (Montgomery) limbs < p and
/// denotes exactly the integer found in the bytes
fn field_bytes<E: Field, Fl: TestFlag>(ctx: &mut Ctx, name: &str)
where
    E::BasePrimeField: FpAccess,
{
    let m = Small::of::<E>();
    let nb = Fl::NB;
    let total = m.total(nb);
    if total > ctx.t(3, 4) {
        ctx.bound(&format!("bytes_field/{name}/{}", Fl::NAME), format!("not enumerated in this tier ({total}-byte encoding)"));
        return;
    }
    let ns = count_strings(total);
    ctx.sweep(&format!("bytes_field/{name}/{}", Fl::NAME), ns, |i, loc| {
        let (len, bytes) = nth_string(i);
        let b = &bytes[..len];
        let want = m.dec::<Fl>(b);
        match want {
            SDec::Short => loc.class(TRUNC[len.min(4)]),
            SDec::BadFlags => loc.class("flags_11"),
            SDec::Stray | SDec::GeP => loc.class("field_int>=p"),
            SDec::Ok(..) => loc.class("canonical_field_bytes"),
        }
        if loc.sampling() {
            loc.sample(format!("{name}/{} input {} model {want:?}", Fl::NAME, hex(b)));
        }
        let canonical = |v: &E| -> (bool, [u64; 4]) {
            let mut ok = true;
            let mut c = [0u64; 4];
            for (j, x) in v.to_base_prime_field_elements().enumerate() {
                ok &= x.raw()[0] < m.p;
                c[j] = prime_to_u64(&x);
            }
            (ok, c)
        };
        let judge = |loc: &mut Loc, sites: &[&str; 3], res: Result<Result<E, ()>, String>, consumed: usize| {
            loc.check_at(sites[0], consumed <= total, || format!("{name}/{} input {}: consumed {consumed} > {total}", Fl::NAME, hex(b)));
            match res {
                Err(p) => loc.fail_at(sites[1], format!("{name}/{} input {}: {p}", Fl::NAME, hex(b))),
                Ok(Err(())) => loc.op(),
                Ok(Ok(v)) => {
                    let (raw_ok, c) = canonical(&v);
                    let want_c = match want {
                        SDec::Ok(wc, _) => Some(wc),
                        _ => None,
                    };
                    loc.check_at(sites[2], raw_ok && want_c == Some(c), || {
                        format!("{name}/{} input {} (model {want:?}) returned coefficients {:?} (raw limbs below p: {raw_ok})", Fl::NAME, hex(b), &c[..m.d])
                    });
                }
            }
        };
        const WF: [&str; 3] = ["field/deserialize_with_flags/read_past_advertised_size", "field/deserialize_with_flags/panic", "field/deserialize_with_flags/returned_element_not_below_modulus"];
        const WM: [&str; 3] = ["field/deserialize_with_mode/read_past_advertised_size", "field/deserialize_with_mode/panic", "field/deserialize_with_mode/returned_element_not_below_modulus"];
        let mut rd = CountReader::new(b);
        let res = guard(|| E::deserialize_with_flags::<_, Fl>(&mut rd).map(|(v, _)| v).map_err(|_| ()));
        let pos = rd.pos;
        judge(loc, &WF, res, pos);
        if nb == 0 {
            for (cm, vm) in MODES.iter() {
                let mut rd = CountReader::new(b);
                let res = guard(|| E::deserialize_with_mode(&mut rd, *cm, *vm).map_err(|_| ()));
                let pos = rd.pos;
                judge(loc, &WM, res, pos);
            }
        }
    });
}
fn field_bytes_all<E: Field>(ctx: &mut Ctx, name: &str)
where
    E::BasePrimeField: FpAccess,
{
    field_bytes::<E, EmptyFlags>(ctx, name);
    field_bytes::<E, TEFlags>(ctx, name);
    field_bytes::<E, SWFlags>(ctx, name);
}

// ------------------------------------------------------------------------------------------
// PairingOutput: checked deserialization accepts exactly the r-torsion of the target field
// ------------------------------------------------------------------------------------------
/// x^e by plain square-and-multiply on the field operations (not `pow`)
fn fpow<E: Field>(x: &E, e: &BigUint) -> E {
    let mut acc = E::one();
    for i in (0..e.bits()).rev() {
        acc = acc.square();
        if e.bit(i) {
            acc *= x;
        }
    }
    acc
}
fn pairing_cases<P: Pairing>(name: &'static str) -> (Vec<Case>, Vec<String>) {
    let mut notes = Vec::new();
    let m = std::sync::Arc::new(Big::of::<P::TargetField>());
    let k = m.d;
    let q = m.p.clone();
    let r = from_limbs(<P::ScalarField as PrimeField>::MODULUS.as_ref());
    let qk1 = q.pow(k as u32) - 1u32;
    let phi = match k {
        12 => q.pow(4) - q.pow(2) + 1u32,
        6 => q.pow(2) - &q + 1u32,
        4 => q.pow(2) + 1u32,
        _ => {
            notes.push(format!("{name}: unexpected embedding degree {k}"));
            BigUint::one()
        }
    };
    if !(&qk1 % &r).is_zero() || !(&qk1 % &phi).is_zero() || !(&phi % &r).is_zero() {
        notes.push(format!("{name}: r | Phi_k(q) | q^k - 1 does not hold"));
        return (Vec::new(), notes);
    }
    let one = P::TargetField::one();
    let gen: P::TargetField = generic_elem();
    let two = P::TargetField::from(2u64);
    let mut small = vec![BigUint::zero(); k];
    small[0] = BigUint::from(3u32);
    small[k - 1] = BigUint::one();
    let w: P::TargetField = from_coeffs(&small);
    // (label, element)
    let mut elems: Vec<(String, P::TargetField)> = vec![
        ("1".into(), one),
        ("0".into(), P::TargetField::zero()),
        ("-1".into(), -one),
        ("2".into(), two),
        ("generic".into(), gen),
        ("3+w^(k-1)".into(), w),
    ];
    let e_r = &qk1 / &r;
    let e_c = &qk1 / &phi;
    for (l, x) in [("generic", gen), ("2", two), ("3+w^(k-1)", w)] {
        let t = fpow(&x, &e_r);
        elems.push((format!("{l}^((q^k-1)/r)"), t));
        elems.push((format!("-({l}^((q^k-1)/r))"), -t));
        elems.push((format!("({l}^((q^k-1)/r))^2"), t.square()));
        // cyclotomic subgroup element (order divides Phi_k(q)), generically not of order dividing r
        elems.push((format!("{l}^((q^k-1)/Phi_k(q))"), fpow(&x, &e_c)));
    }
    let e = P::pairing(P::G1Affine::generator(), P::G2Affine::generator());
    elems.push(("e(G1,G2)".into(), e.0));
    elems.push(("e(G1,G2)^-1".into(), e.0.inverse().unwrap_or(one)));
    elems.push(("2*e(G1,G2)".into(), e.0 * two));
    let mut cases: Vec<Case> = Vec::new();
    let mut n_tors = 0;
    let mut n_cyc_not = 0;
    for (label, x) in elems {
        let torsion = fpow(&x, &r) == one;
        if torsion {
            n_tors += 1;
        }
        if label.contains("Phi_k") && !torsion {
            n_cyc_not += 1;
        }
        let enc = m.enc(&coeffs(&x), 0, 0);
        let total = enc.len();
        // mutations: none, every single-bit flip of the last byte and of the first byte, every truncation, one extra byte
        let mut inputs: Vec<(String, Vec<u8>)> = vec![("as is".into(), enc.clone())];
        for bit in 0..8 {
            let mut v = enc.clone();
            v[total - 1] ^= 1 << bit;
            inputs.push((format!("bit {bit} of the last byte flipped"), v));
            let mut v = enc.clone();
            v[0] ^= 1 << bit;
            inputs.push((format!("bit {bit} of the first byte flipped"), v));
        }
        for l in 0..total {
            inputs.push((format!("truncated to {l}"), enc[..l].to_vec()));
        }
        let mut v = enc.clone();
        v.push(0x5a);
        inputs.push(("one extra byte".into(), v));
        for (mutation, input) in inputs {
            let (m, label) = (m.clone(), label.clone());
            let r = r.clone();
            let unmutated = mutation == "as is" || mutation == "one extra byte";
            cases.push(Box::new(move |loc: &mut Loc| {
                let dec = m.dec::<EmptyFlags>(&input);
                loc.class_if(input.len() < total, "truncated");
                loc.class_if(unmutated && torsion, "pairing_output:r_torsion");
                loc.class_if(unmutated && !torsion, "pairing_output:not_r_torsion");
                loc.class_if(unmutated && !torsion && label.contains("Phi_k"), "pairing_output:cyclotomic_not_r_torsion");
                loc.class_if(matches!(dec, BDec::GeP | BDec::Stray), "field_int>=p");
                if loc.sampling() {
                    loc.sample(format!("{name} PairingOutput {label} ({mutation}), {} bytes, r-torsion: {torsion}", input.len()));
                }
                for (mi, (cm, vm)) in MODES.iter().enumerate() {
                    let mut rd = CountReader::new(&input);
                    let res = guard(|| PairingOutput::<P>::deserialize_with_mode(&mut rd, *cm, *vm).map_err(|e| e.to_string()));
                    let consumed = rd.pos;
                    let what = || format!("{name} PairingOutput {label} ({mutation}) {}", mode_name(mi));
                    loc.check_at(&format!("PairingOutput<{name}>/read_past_advertised_size"), consumed <= total, || format!("{}: consumed {consumed} > {total}", what()));
                    match res {
                        Err(p) => loc.fail_at(&format!("PairingOutput<{name}>/panic"), format!("{}: {p}", what())),
                        Ok(Err(e)) => {
                            // the canonical encoding of an r-torsion element must be accepted (all modes); of any field element in unchecked modes
                            if unmutated && (torsion || *vm == Validate::No) {
                                loc.fail_at(&format!("PairingOutput<{name}>/valid_rejected"), format!("{}: rejected: {e}", what()));
                            } else {
                                loc.op();
                            }
                        }
                        Ok(Ok(v)) => {
                            let canon = matches!(&dec, BDec::Ok(c, _) if *c == coeffs(&v.0));
                            loc.check_at(&format!("PairingOutput<{name}>/returned_element_not_canonical"), canon, || format!("{}: returned {:?} for input of model class {dec:?}", what(), show(&coeffs(&v.0))));
                            if *vm == Validate::Yes {
                                let ok = fpow(&v.0, &r) == P::TargetField::one();
                                loc.check_at(&format!("PairingOutput<{name}>/checked_returns_non_torsion"), ok, || format!("{}: checked deserialization returned an element whose r-th power is not 1", what()));
                            }
                        }
                    }
                }
            }));
        }
    }
    if n_tors < 5 || n_cyc_not == 0 {
        notes.push(format!("{name}: degenerate element list (r-torsion {n_tors}, cyclotomic non-torsion {n_cyc_not})"));
    }
    (cases, notes)
}

// ------------------------------------------------------------------------------------------
// (A) shipped curves: constructed encodings + deviation <= 1 mutations
// ------------------------------------------------------------------------------------------
type Case = Box<dyn Fn(&mut Loc) + Send + Sync>;

/// what the harness knows about a constructed (unmutated) input
#[derive(Clone, Copy, Debug, PartialEq, Eq)]
enum Known {
    SubgroupPoint,
    Identity,
    OutOfSubgroup,
    SmallOrder,
    OffCurve,
    NoSqrt,
    IntGeP,
    Flags11,
    InfinityNonzeroX,
    /// mutated input: only the generic rules apply
    Mutated,
}
impl Known {
    fn must_reject_checked(&self) -> bool {
        matches!(self, Known::OutOfSubgroup | Known::SmallOrder | Known::OffCurve | Known::NoSqrt | Known::IntGeP | Known::Flags11)
    }
    fn label(&self, loc: &mut Loc) {
        match self {
            Known::SubgroupPoint => loc.class("valid_subgroup_point"),
            Known::Identity => loc.class("identity_encoding"),
            Known::OutOfSubgroup => loc.class("out_of_subgroup_rejected"),
            Known::SmallOrder => {
                loc.class("out_of_subgroup_rejected");
                loc.class("small_order_point");
            }
            Known::OffCurve => loc.class("off_curve_rejected"),
            Known::NoSqrt => loc.class("no_sqrt"),
            Known::IntGeP => loc.class("field_int>=p"),
            Known::Flags11 => loc.class("flags_11"),
            Known::InfinityNonzeroX => loc.class("infinity_flag_with_nonzero_x"),
            Known::Mutated => {}
        }
    }
}
/// overwrite the c0 slot of the x coordinate (first coordinate) with `v`, keeping flag bits that live there
fn patch_first_c0(m: &Big, fmt: Fmt, nb_if_single: usize, bytes: &mut [u8], v: &BigUint) {
    match fmt {
        Fmt::Default => {
            let (len, keep) = if nb_if_single > 0 && m.d == 1 { (m.llen(nb_if_single), topmask(nb_if_single)) } else { (m.blen(), 0) };
            let flags = bytes[len - 1] & keep;
            let mut b = v.to_bytes_le();
            b.resize(len, 0);
            bytes[..len].copy_from_slice(&b);
            bytes[len - 1] |= flags;
        }
        Fmt::Zcash => {
            let start = 48 * (m.d - 1);
            let flags = if m.d == 1 { bytes[0] & 0xe0 } else { 0 };
            let mut b = v.to_bytes_le();
            b.resize(48, 0);
            b.reverse();
            bytes[start..start + 48].copy_from_slice(&b);
            bytes[start] |= flags;
        }
    }
}
fn mutations(enc: &[u8]) -> Vec<(String, Vec<u8>)> {
    let total = enc.len();
    let mut out = vec![("as is".to_string(), enc.to_vec())];
    let mut v = enc.to_vec();
    v.push(0x5a);
    out.push(("one extra byte".into(), v));
    for bit in 0..8 {
        let mut v = enc.to_vec();
        v[total - 1] ^= 1 << bit;
        out.push((format!("bit {bit} of the last byte flipped"), v));
        let mut v = enc.to_vec();
        v[0] ^= 1 << bit;
        out.push((format!("bit {bit} of the first byte flipped"), v));
    }
    for l in 0..total {
        out.push((format!("truncated to {l}"), enc[..l].to_vec()));
    }
    out
}
fn small_prime_factors(h: &BigUint) -> Vec<u32> {
    let mut out = Vec::new();
    let mut d = 2u32;
    while d < 200 {
        if (h % d).is_zero() {
            out.push(d);
        }
        d += 1;
        while !is_prime_small(d as u64) {
            d += 1;
        }
    }
    out
}
fn is_square<E: Field>(m: &Big, e: &E) -> bool {
    // Euler criterion with the harness' own exponentiation; |E| = p^d
    e.is_zero() || fpow(e, &((m.p.pow(m.d as u32) - 1u32) / 2u32)) == E::one()
}

fn sw_shipped_c10<P: SWCurveConfig>(name: &'static str, fmt: Fmt, custom: bool) -> (Vec<Case>, Vec<String>)
where
    P::ScalarField: PrimeField,
{
    let mut notes = Vec::new();
    let m = std::sync::Arc::new(Big::of::<P::BaseField>());
    let (a, b) = (P::COEFF_A, P::COEFF_B);
    let r = std::sync::Arc::new(from_limbs(<P::ScalarField as PrimeField>::MODULUS.as_ref()));
    let h = from_limbs(P::COFACTOR);
    let g = AP::A(P::GENERATOR.x, P::GENERATOR.y);
    let (gx, gy) = (P::GENERATOR.x, P::GENERATOR.y);
    if !sw_on_curve(&a, &b, &g) || sw_mul(&a, &g, &r) != AP::O {
        notes.push(format!("{name}: generator fails the oracle (on curve, r*G = O)"));
    }
    let one = P::BaseField::one();
    let zero = P::BaseField::zero();
    // ---- points
    let mut pts: Vec<(String, AP<P::BaseField>, Known)> = vec![("G".into(), g, Known::SubgroupPoint), ("2G".into(), sw_add(&a, &g, &g), Known::SubgroupPoint), ("O".into(), AP::O, Known::Identity)];
    let mut curve_pts: Vec<AP<P::BaseField>> = Vec::new(); // first curve points from x = 0, 1, 2, ...
    let mut noroot: Option<P::BaseField> = None;
    for i in 0u64..60 {
        let x = P::BaseField::from(i);
        let rhs = x.square() * x + a * x + b;
        if is_square(&m, &rhs) {
            if let Some(y) = rhs.sqrt() {
                let n = AP::A(x, y);
                if sw_on_curve(&a, &b, &n) && curve_pts.len() < 6 {
                    curve_pts.push(n);
                }
            }
        } else if noroot.is_none() {
            noroot = Some(x);
        }
    }
    if h > BigUint::one() {
        match curve_pts.iter().find(|n| sw_mul(&a, n, &r) != AP::O) {
            Some(n) => {
                pts.push(("N".into(), *n, Known::OutOfSubgroup));
                pts.push(("-N".into(), sw_neg(n), Known::OutOfSubgroup));
            }
            None => notes.push(format!("{name}: cofactor > 1 but no point outside the subgroup among the first curve points")),
        }
        let order = &h * &*r;
        for l in small_prime_factors(&h).into_iter().take(3) {
            let e = &order / l;
            if let Some(q) = curve_pts.iter().map(|n| sw_mul(&a, n, &e)).find(|q| *q != AP::O) {
                if sw_mul(&a, &q, &BigUint::from(l)) == AP::O {
                    pts.push((format!("order-{l} point"), q, Known::SmallOrder));
                }
            }
        }
    }
    // ---- base inputs (label, compress, bytes, known class)
    let mut bases: Vec<(String, bool, Vec<u8>, Known)> = Vec::new();
    for (l, p, k) in &pts {
        for c in [true, false] {
            bases.push((l.clone(), c, sw_big_bytes(&m, fmt, p, c), *k));
        }
    }
    // (x, y) off the curve (uncompressed only); includes small-order points of the curves y^2 = x^3 + a x + b' (b' != b)
    let two = P::BaseField::from(2u64);
    let three = P::BaseField::from(3u64);
    for (l, x, y) in [("(Gx,Gy+1)", gx, gy + one), ("(Gx+1,Gy)", gx + one, gy), ("(0,0)", zero, zero), ("(0,1)", zero, one), ("(0,3)", zero, three), ("(1,0)", one, zero), ("(2,0)", two, zero), ("(Gx,-Gy+1)", gx, one - gy), ("(4Gx,8Gy) = G on y^2=x^3+16ax+64b", gx.double().double(), gy.double().double().double()), ("(9Gx,27Gy)", three.square() * gx, three.square() * three * gy)] {
        let p = AP::A(x, y);
        if !sw_on_curve(&a, &b, &p) {
            bases.push((format!("off-curve {l}"), false, sw_big_bytes(&m, fmt, &p, false), Known::OffCurve));
        }
    }
    let flag_pos = |bytes: &Vec<u8>| if fmt == Fmt::Zcash { 0 } else { bytes.len() - 1 };
    // x without a square root (compressed only, both sign flags)
    if let Some(x) = noroot {
        let mut e = sw_big_bytes(&m, fmt, &AP::A(x, zero), true); // y = 0 -> sign flag clear
        bases.push(("x without root, sign 0".into(), true, e.clone(), Known::NoSqrt));
        let fp = flag_pos(&e);
        e[fp] |= if fmt == Fmt::Zcash { 0x20 } else { 0x80 };
        bases.push(("x without root, sign 1".into(), true, e, Known::NoSqrt));
    } else {
        notes.push(format!("{name}: no x without a root below 60"));
    }
    // x = p and x = p + 1 in the c0 slot
    for (l, v) in [("x.c0 = p", m.p.clone()), ("x.c0 = p+1", &m.p + 1u32)] {
        for c in [true, false] {
            let mut e = sw_big_bytes(&m, fmt, &g, c);
            patch_first_c0(&m, fmt, if c { 2 } else { 0 }, &mut e, &v);
            bases.push((l.to_string(), c, e, Known::IntGeP));
        }
    }
    // both flags (Default: infinity + negative; zcash: infinity + sort, and sort without compression)
    for c in [true, false] {
        let mut e = sw_big_bytes(&m, fmt, &g, c);
        let fp = flag_pos(&e);
        match fmt {
            Fmt::Default => e[fp] |= 0xc0,
            Fmt::Zcash => e[fp] |= 0x60,
        }
        bases.push(("both flags".into(), c, e, Known::Flags11));
    }
    // infinity flag with the coordinates of G
    for c in [true, false] {
        let mut e = sw_big_bytes(&m, fmt, &g, c);
        let fp = flag_pos(&e);
        e[fp] = (e[fp] & !(if fmt == Fmt::Zcash { 0x20 } else { 0x80 })) | 0x40;
        bases.push(("infinity flag + coordinates of G".into(), c, e, Known::InfinityNonzeroX));
    }
    let mut cases: Vec<Case> = Vec::new();
    for (label, compress, enc, known) in bases {
        for (mutation, input) in mutations(&enc) {
            let unmutated = mutation == "as is" || mutation == "one extra byte";
            let known = if unmutated { known } else { Known::Mutated };
            let (m, r, label) = (m.clone(), r.clone(), label.clone());
            let total = enc.len();
            cases.push(Box::new(move |loc: &mut Loc| {
                let cm = if compress { Compress::Yes } else { Compress::No };
                known.label(loc);
                loc.class_if(input.len() < total, "truncated");
                loc.class_if(custom, "custom_subgroup_test");
                loc.class_if(fmt == Fmt::Zcash, "zcash_format");
                loc.class_if(known == Known::Mutated && input.len() == total, "bit_flip");
                let advertised = sw::Affine::<P>::identity().serialized_size(cm);
                if loc.sampling() {
                    loc.sample(format!("{name} {} {label} ({mutation}) {} bytes, class {known:?}", if compress { "compressed" } else { "uncompressed" }, input.len()));
                }
                for checked in [true, false] {
                    for as_proj in [false, true] {
                        let vm = if checked { Validate::Yes } else { Validate::No };
                        let what = || format!("{name} {} {} as {} input [{label}; {mutation}] {}", if compress { "compressed" } else { "uncompressed" }, if checked { "checked" } else { "unchecked" }, if as_proj { "Projective" } else { "Affine" }, hexs(&input));
                        let mut rd = CountReader::new(&input);
                        let res: Result<Result<(AP<P::BaseField>, String), String>, String> = guard(|| {
                            if as_proj {
                                sw::Projective::<P>::deserialize_with_mode(&mut rd, cm, vm)
                                    .map(|q| {
                                        let v = match q.z.inverse() {
                                            None => AP::O,
                                            Some(zi) => AP::A(q.x * zi.square(), q.y * zi.square() * zi),
                                        };
                                        (v, format!("{q:?}"))
                                    })
                                    .map_err(|e| e.to_string())
                            } else {
                                sw::Affine::<P>::deserialize_with_mode(&mut rd, cm, vm).map(|p| (if p.infinity { AP::O } else { AP::A(p.x, p.y) }, format!("{p:?}"))).map_err(|e| e.to_string())
                            }
                        });
                        let consumed = rd.pos;
                        loc.check_at(&format!("{name}/read_past_advertised_size"), consumed <= advertised, || format!("{}: consumed {consumed} > advertised {advertised}", what()));
                        match res {
                            Err(p) => loc.fail_at(&format!("{name}/panic"), format!("{}: {p}", what())),
                            Ok(Err(_)) => loc.op(),
                            Ok(Ok((v, dbg))) => {
                                if checked {
                                    let on = sw_on_curve(&a, &b, &v);
                                    let sub = on && sw_mul(&a, &v, &r) == AP::O;
                                    loc.check_at(&format!("{name}/checked_returns_invalid_point"), on && sub, || format!("{}: returned {dbg}: on curve {on}, r*P = O {sub}", what()));
                                    loc.check_at(&format!("{name}/checked_accepts_bad_encoding"), !known.must_reject_checked(), || format!("{}: input of class {known:?} accepted as {dbg}", what()));
                                }
                                if known == Known::InfinityNonzeroX || known == Known::Identity {
                                    loc.check_at(&format!("{name}/infinity_flag_returns_non_identity"), v == AP::O, || format!("{}: infinity flag set but the returned value is {dbg}", what()));
                                }
                            }
                        }
                    }
                }
            }));
        }
    }
    (cases, notes)
}

fn te_shipped_c10<P: TECurveConfig>(name: &'static str) -> (Vec<Case>, Vec<String>)
where
    P::ScalarField: PrimeField,
{
    let mut notes = Vec::new();
    let m = std::sync::Arc::new(Big::of::<P::BaseField>());
    let (a, d) = (P::COEFF_A, P::COEFF_D);
    let r = std::sync::Arc::new(from_limbs(<P::ScalarField as PrimeField>::MODULUS.as_ref()));
    let h = from_limbs(P::COFACTOR);
    let one = P::BaseField::one();
    let zero = P::BaseField::zero();
    let id = (zero, one);
    let g = (P::GENERATOR.x, P::GENERATOR.y);
    if !te_on_curve(&a, &d, &g) || te_mul(&a, &d, &g, &r) != Some(id) {
        notes.push(format!("{name}: generator fails the oracle (on curve, r*G = O)"));
    }
    let mut pts: Vec<(String, (P::BaseField, P::BaseField), Known)> = vec![("G".into(), g, Known::SubgroupPoint), ("O=(0,1)".into(), id, Known::Identity), ("(0,-1) order 2".into(), (zero, -one), Known::SmallOrder)];
    if let Some(g2) = te_add(&a, &d, &g, &g) {
        pts.push(("2G".into(), g2, Known::SubgroupPoint));
    }
    let mut curve_pts: Vec<(P::BaseField, P::BaseField)> = Vec::new();
    let mut noroot: Option<P::BaseField> = None;
    for i in 2u64..60 {
        let y = P::BaseField::from(i);
        let y2 = y.square();
        match (a - d * y2).inverse() {
            None => {
                if noroot.is_none() {
                    noroot = Some(y);
                }
            }
            Some(di) => {
                let x2 = (one - y2) * di;
                if is_square(&m, &x2) {
                    if let Some(x) = x2.sqrt() {
                        if te_on_curve(&a, &d, &(x, y)) && curve_pts.len() < 6 {
                            curve_pts.push((x, y));
                        }
                    }
                } else if noroot.is_none() {
                    noroot = Some(y);
                }
            }
        }
    }
    match curve_pts.iter().find(|n| matches!(te_mul(&a, &d, n, &r), Some(q) if q != id)) {
        Some(n) => {
            pts.push(("N".into(), *n, Known::OutOfSubgroup));
            pts.push(("-N".into(), (-n.0, n.1), Known::OutOfSubgroup));
        }
        None => notes.push(format!("{name}: no point outside the subgroup among the first curve points")),
    }
    let order = &h * &*r;
    for l in small_prime_factors(&h).into_iter().take(3) {
        let e = &order / l;
        if let Some(q) = curve_pts.iter().filter_map(|n| te_mul(&a, &d, n, &e)).find(|q| *q != id) {
            if te_mul(&a, &d, &q, &BigUint::from(l)) == Some(id) {
                pts.push((format!("order-{l} point"), q, Known::SmallOrder));
            }
        }
    }
    let mut bases: Vec<(String, bool, Vec<u8>, Known)> = Vec::new();
    for (l, p, k) in &pts {
        for c in [true, false] {
            bases.push((l.clone(), c, te_big_bytes(&m, p, c), *k));
        }
    }
    for (l, x, y) in [("(Gx,Gy+1)", g.0, g.1 + one), ("(Gx+1,Gy)", g.0 + one, g.1), ("(0,0)", zero, zero), ("(1,1)", one, one), ("(0,2)", zero, one + one)] {
        if !te_on_curve(&a, &d, &(x, y)) {
            bases.push((format!("off-curve {l}"), false, te_big_bytes(&m, &(x, y), false), Known::OffCurve));
        }
    }
    if let Some(y) = noroot {
        let mut e = te_big_bytes(&m, &(zero, y), true);
        bases.push(("y without x, sign 0".into(), true, e.clone(), Known::NoSqrt));
        let n = e.len();
        e[n - 1] |= 0x80;
        bases.push(("y without x, sign 1".into(), true, e, Known::NoSqrt));
    } else {
        notes.push(format!("{name}: no y without an x below 60"));
    }
    for (l, v) in [("first coordinate c0 = p", m.p.clone()), ("first coordinate c0 = p+1", &m.p + 1u32)] {
        for c in [true, false] {
            let mut e = te_big_bytes(&m, &g, c);
            patch_first_c0(&m, Fmt::Default, if c { 1 } else { 0 }, &mut e, &v);
            bases.push((l.to_string(), c, e, Known::IntGeP));
        }
    }
    let mut cases: Vec<Case> = Vec::new();
    for (label, compress, enc, known) in bases {
        for (mutation, input) in mutations(&enc) {
            let unmutated = mutation == "as is" || mutation == "one extra byte";
            let known = if unmutated { known } else { Known::Mutated };
            let (m, r, label) = (m.clone(), r.clone(), label.clone());
            let total = enc.len();
            cases.push(Box::new(move |loc: &mut Loc| {
                let _ = &m;
                let cm = if compress { Compress::Yes } else { Compress::No };
                known.label(loc);
                loc.class_if(input.len() < total, "truncated");
                loc.class_if(known == Known::Mutated && input.len() == total, "bit_flip");
                let advertised = te::Affine::<P>::new_unchecked(P::BaseField::zero(), P::BaseField::one()).serialized_size(cm);
                if loc.sampling() {
                    loc.sample(format!("{name} {} {label} ({mutation}) {} bytes, class {known:?}", if compress { "compressed" } else { "uncompressed" }, input.len()));
                }
                for checked in [true, false] {
                    for as_proj in [false, true] {
                        let vm = if checked { Validate::Yes } else { Validate::No };
                        let what = || format!("{name} {} {} as {} input [{label}; {mutation}] {}", if compress { "compressed" } else { "uncompressed" }, if checked { "checked" } else { "unchecked" }, if as_proj { "Projective" } else { "Affine" }, hexs(&input));
                        let mut rd = CountReader::new(&input);
                        let res: Result<Result<(Option<(P::BaseField, P::BaseField)>, String), String>, String> = guard(|| {
                            if as_proj {
                                te::Projective::<P>::deserialize_with_mode(&mut rd, cm, vm)
                                    .map(|q| {
                                        let v = q.z.inverse().and_then(|zi| if q.t * q.z == q.x * q.y { Some((q.x * zi, q.y * zi)) } else { None });
                                        (v, format!("{q:?}"))
                                    })
                                    .map_err(|e| e.to_string())
                            } else {
                                te::Affine::<P>::deserialize_with_mode(&mut rd, cm, vm).map(|p| (Some((p.x, p.y)), format!("{p:?}"))).map_err(|e| e.to_string())
                            }
                        });
                        let consumed = rd.pos;
                        loc.check_at(&format!("{name}/read_past_advertised_size"), consumed <= advertised, || format!("{}: consumed {consumed} > advertised {advertised}", what()));
                        match res {
                            Err(p) => loc.fail_at(&format!("{name}/panic"), format!("{}: {p}", what())),
                            Ok(Err(_)) => loc.op(),
                            Ok(Ok((v, dbg))) => {
                                if checked {
                                    let on = matches!(&v, Some(p) if te_on_curve(&a, &d, p));
                                    let sub = on && te_mul(&a, &d, &v.unwrap(), &r) == Some((P::BaseField::zero(), P::BaseField::one()));
                                    loc.check_at(&format!("{name}/checked_returns_invalid_point"), on && sub, || format!("{}: returned {dbg}: on curve {on}, r*P = O {sub}", what()));
                                    loc.check_at(&format!("{name}/checked_accepts_bad_encoding"), !known.must_reject_checked(), || format!("{}: input of class {known:?} accepted as {dbg}", what()));
                                }
                            }
                        }
                    }
                }
            }));
        }
    }
    (cases, notes)
}

fn shipped_cases(ctx: &mut Ctx) {
    type Prep = Box<dyn FnOnce() -> (Vec<Case>, Vec<String>) + Send>;
    let mut preps: Vec<Prep> = Vec::new();
    let thorough = ctx.thorough();
    macro_rules! swc {
        ($P:ty, $n:expr, $custom:expr) => {
            preps.push(Box::new(|| sw_shipped_c10::<$P>($n, Fmt::Default, $custom)));
        };
        ($P:ty, $n:expr, $custom:expr, zcash) => {
            preps.push(Box::new(|| sw_shipped_c10::<$P>($n, Fmt::Zcash, $custom)));
        };
    }
    macro_rules! tec {
        ($P:ty, $n:expr) => {
            preps.push(Box::new(|| te_shipped_c10::<$P>($n)));
        };
    }
    macro_rules! pair {
        ($P:ty, $n:expr) => {
            preps.push(Box::new(|| pairing_cases::<$P>($n)));
        };
    }
    swc!(ark_bls12_381::g1::Config, "bls12_381/g1", true, zcash);
    swc!(ark_bls12_381::g2::Config, "bls12_381/g2", true, zcash);
    swc!(ark_bls12_377::g1::Config, "bls12_377/g1", false);
    swc!(ark_bls12_377::g2::Config, "bls12_377/g2", false);
    swc!(ark_bn254::g1::Config, "bn254/g1", true);
    swc!(ark_bn254::g2::Config, "bn254/g2", true);
    swc!(ark_bw6_761::g1::Config, "bw6_761/g1", false);
    swc!(ark_bw6_761::g2::Config, "bw6_761/g2", false);
    swc!(ark_mnt4_298::g2::Config, "mnt4_298/g2", false);
    swc!(ark_mnt6_298::g2::Config, "mnt6_298/g2", false);
    swc!(ark_cp6_782::g1::Config, "cp6_782/g1", false);
    swc!(ark_cp6_782::g2::Config, "cp6_782/g2", false);
    swc!(ark_ed_on_bls12_381::JubjubConfig, "ed_on_bls12_381/jubjub(sw)", false);
    swc!(ark_ed_on_bls12_381_bandersnatch::BandersnatchConfig, "bandersnatch(sw)", false);
    swc!(ark_test_curves::bls12_381::g1::Config, "test/bls12_381/g1", false);
    swc!(ark_test_curves::bls12_381::g2::Config, "test/bls12_381/g2", true);
    swc!(ark_secp256k1::Config, "secp256k1", false);
    swc!(ark_pallas::PallasConfig, "pallas", false);
    if thorough {
        swc!(ark_bw6_767::g1::Config, "bw6_767/g1", false);
        swc!(ark_bw6_767::g2::Config, "bw6_767/g2", false);
        swc!(ark_mnt4_753::g2::Config, "mnt4_753/g2", false);
        swc!(ark_mnt6_753::g2::Config, "mnt6_753/g2", false);
        swc!(ark_mnt4_298::g1::Config, "mnt4_298/g1", false);
        swc!(ark_mnt6_298::g1::Config, "mnt6_298/g1", false);
        swc!(ark_vesta::VestaConfig, "vesta", false);
        swc!(ark_grumpkin::GrumpkinConfig, "grumpkin", false);
        swc!(ark_secp256r1::Config, "secp256r1", false);
        swc!(ark_secp384r1::Config, "secp384r1", false);
        swc!(ark_secq256k1::Config, "secq256k1", false);
    }
    tec!(ark_ed_on_bls12_381::JubjubConfig, "ed_on_bls12_381/jubjub");
    tec!(ark_ed_on_bls12_381_bandersnatch::BandersnatchConfig, "bandersnatch");
    tec!(ark_ed_on_bls12_377::EdwardsConfig, "ed_on_bls12_377");
    tec!(ark_ed_on_bn254::EdwardsConfig, "ed_on_bn254");
    tec!(ark_ed_on_cp6_782::EdwardsConfig, "ed_on_cp6_782(=ed_on_bw6_761)");
    tec!(ark_ed_on_mnt4_298::EdwardsConfig, "ed_on_mnt4_298");
    tec!(ark_ed_on_mnt4_753::EdwardsConfig, "ed_on_mnt4_753");
    tec!(ark_curve25519::Curve25519Config, "curve25519");
    tec!(ark_ed25519::EdwardsConfig, "ed25519");
    tec!(ark_bls12_377::g1::Config, "bls12_377/g1(te)");
    tec!(ark_test_curves::ed_on_bls12_381::EdwardsConfig, "test/ed_on_bls12_381");
    pair!(ark_bls12_381::Bls12_381, "Bls12_381");
    pair!(ark_bn254::Bn254, "Bn254");
    pair!(ark_mnt4_298::MNT4_298, "MNT4_298");
    pair!(ark_mnt6_298::MNT6_298, "MNT6_298");
    pair!(ark_bw6_761::BW6_761, "BW6_761");
    if thorough {
        pair!(ark_bls12_377::Bls12_377, "Bls12_377");
        pair!(ark_mnt4_753::MNT4_753, "MNT4_753");
        pair!(ark_mnt6_753::MNT6_753, "MNT6_753");
        pair!(ark_bw6_767::BW6_767, "BW6_767");
        pair!(ark_cp6_782::CP6_782, "CP6_782");
        pair!(ark_test_curves::bls12_381::Bls12_381, "test/Bls12_381");
    }
    let n = preps.len();
    let results: Vec<(Vec<Case>, Vec<String>)> = std::thread::scope(|s| {
        let hs: Vec<_> = preps.into_iter().map(|f| s.spawn(f)).collect();
        hs.into_iter().map(|h| h.join().expect("building the shipped cases panicked")).collect()
    });
    let mut cases: Vec<Case> = Vec::new();
    for (c, notes) in results {
        cases.extend(c);
        for n in notes {
            ctx.machinery_error(format!("shipped-curve oracle self-check: {n}"));
        }
    }
    ctx.bound("bytes_shipped", format!("{n} shipped configurations (curves with cofactor > 1 / custom subgroup test / custom deserializer, pairing target groups): constructed encodings x {{as is, +1 byte, every bit flip of the first and last byte, every truncation length}} x 4 modes x {{Affine, Projective}}"));
    ctx.sweep("bytes_shipped", cases.len() as u64, |i, loc| cases[i as usize](loc));
}

macro_rules! toy_sw {
    ($P:ty, $name:expr, $ctx:expr, $sel:expr) => {
        if $sel.iter().any(|s| *s == $name) {
            sw_toy_bytes::<$P>($ctx, $name);
        }
    };
}
macro_rules! toy_te {
    ($P:ty, $name:expr, $ctx:expr, $sel:expr) => {
        if $sel.iter().any(|s| *s == $name) {
            te_toy_bytes::<$P>($ctx, $name);
        }
    };
}

fn main() {
    let mut ctx = Ctx::from_args("C10");
    ctx.require(&[
        "off_curve_rejected",
        "out_of_subgroup_rejected",
        "no_sqrt",
        "flags_11",
        "infinity_flag_with_nonzero_x",
        "truncated_len_0",
        "truncated_len_1",
        "truncated_len_2",
        "truncated",
        "custom_subgroup_test",
        "field_int>=p",
        "valid_subgroup_point",
        "identity_encoding",
        "small_order_point",
        "zcash_format",
        "pairing_output:r_torsion",
        "pairing_output:not_r_torsion",
        "pairing_output:cyclotomic_not_r_torsion",
        "x=0_tie",
        "flags_spill_to_extra_byte",
        // square root in a quadratic extension field (compressed points over F_p^2), classes of rhs(x) by the model
        "ext:rhs_c1=0_and_c0_nonresidue",
        "ext:rhs_c1=0_and_c0_residue",
        "ext:rhs=0",
        "ext:rhs_c1!=0_square",
        "ext:rhs_c1!=0_nonsquare",
        "ext:y_sign_decided_by_c1",
        "ext:y_sign_decided_by_c0",
        "ext:beta=-1",
        "ext:beta!=-1",
        "ext:valid_subgroup_point",
        "ext:out_of_subgroup_rejected",
        "ext:off_curve_rejected",
        "ext:no_sqrt",
        "ext:field_int>=p_in_c0",
        "ext:field_int>=p_in_c1",
        "ext:field_int>=p_in_x",
        "ext:field_int>=p_in_y",
    ]);
    ctx.assume("oracle: byte-level format model (u64 / num-bigint) classifies every input; validity of returned points: toy curves = brute-force group table (on curve, r*P = O), shipped curves = curve equation + plain double-and-add with r on the textbook affine law over the field operations (never the curve's own subgroup test / scalar multiplication); PairingOutput: x^r = 1 by the harness' own square-and-multiply");
    ctx.assume("property reading: with validation on, Ok(P) => P on the curve and in the prime-order subgroup, and inputs of the model classes {truncated, illegal flags, integer >= p, x without root, off curve, outside subgroup} => Err; infinity flag with non-zero coordinates may be rejected or accepted as the identity (never as another point); with validation off only no-panic and no read past the advertised size are demanded");
    ctx.bound("bytes_toy", "toy curves with encodings of <= 3 bytes: every byte string of every length 0..=L x {checked, unchecked} x {Affine, Projective} x {compressed, uncompressed}");
    validate_toy_towers(&mut ctx);
    // ---- (E) toy curves
    let quick_sel = ["SwP61A0B2", "SwP61A0B8", "SwP59A1B3", "SwP59A1B8", "SwP251A1B6", "SwP127A1B2", "SwP13A0B2", "SwP13A0B4", "SwP31A2B2", "TeP127", "TeP101", "TeP13"];
    let thorough_sel = ["SwP61A0B2", "SwP61A0B8", "SwP59A1B3", "SwP59A1B8", "SwP251A1B6", "SwP127A1B2", "SwP13A0B2", "SwP13A0B4", "SwP31A2B2", "TeP127", "TeP101", "TeP13", "SwA0P103B5", "SwA0P211B2", "SwA0P103B4", "SwA0P103B3", "SwA0P103B2", "SwP223A1B1", "SwP1009A3B2", "TeP241"];
    let sel: Vec<&str> = if ctx.quick() { quick_sel.to_vec() } else { thorough_sel.to_vec() };
    ctx.assume("TeP103 (incomplete Edwards parameters): every byte string is still fed to the deserializers (no panic, no over-read, a returned point is on the curve, subgroup points accepted, malformed encodings rejected), but whether a curve point OUTSIDE the prime-order subgroup is rejected is not judged there - the property speaks about complete curves / the prime-order subgroup");
    algebra_mc::toy_sw_curves!(toy_sw, &mut ctx, sel);
    algebra_mc::toy_te_curves!(toy_te, &mut ctx, sel);
    te_toy_bytes::<algebra_mc::toy::gen_curves::TeP103>(&mut ctx, "TeP103");
    // ---- (E2) toy curves over quadratic extension fields (decompression = square root in F_p^2)
    ctx.bound(
        "bytes_ext_toy",
        "4 toy curves over F_49 = F_7[u]/(u^2+1) (a = 0: cofactor 4 with 2-torsion, and prime order 61), F_25 = F_5[u]/(u^2-2) (a = u, cofactor 2), F_169 = F_13[u]/(u^2-2) (a = u, cofactor 4): compressed = every byte string of every length 0..=2 (full encoding length) x {checked, unchecked} x {Affine, Projective}; uncompressed (4 bytes) = every pair of canonical coordinates x 4 flag patterns, every string of length 0..=2, and chosen x parts x every continuation of 1..=2 bytes",
    );
    sw_ext_bytes::<SwQ7A0B32>(&mut ctx, "SwQ7A0B32", Fp2Model { p: 7, beta: 6 });
    sw_ext_bytes::<SwQ7A0B12>(&mut ctx, "SwQ7A0B12", Fp2Model { p: 7, beta: 6 });
    sw_ext_bytes::<SwQ5AuB11>(&mut ctx, "SwQ5AuB11", Fp2Model { p: 5, beta: 2 });
    sw_ext_bytes::<SwQ13AuB22>(&mut ctx, "SwQ13AuB22", Fp2Model { p: 13, beta: 2 });
    // ---- (E) toy field elements
    macro_rules! fb {
        ($($F:ty, $n:expr);*) => {$( field_bytes_all::<$F>(&mut ctx, $n); )*};
    }
    fb!(D13, "D13"; D61, "D61"; D127, "D127"; D251, "D251"; D509, "D509"; D8191, "D8191"; D65521, "D65521");
    fb!(F7x2, "Fp2(D7)"; F251x2, "Fp2(D251)"; F7x3, "Fp3(D7)"; F61x3, "Fp3(D61)");
    if ctx.thorough() {
        fb!(F2039x2, "Fp2(D2039)");
    }
    ctx.bound("bytes_field", "toy fields F_13,61,127,251,509,8191,65521, Fp2 over F_7,F_251 (thorough: F_2039), Fp3 over F_7,F_61 x {EmptyFlags,TEFlags,SWFlags}: every byte string of every length 0..=L (L <= 3; thorough L <= 4), deserialize_with_flags and the 4 plain modes");
    // ---- (A) shipped curves and pairing outputs
    shipped_cases(&mut ctx);
    std::process::exit(ctx.finish());
}
