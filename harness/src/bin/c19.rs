//! C19 - equality, ordering and hashing coincide with mathematical identity.
//!
//! Oracle: every library value is *decoded* by the harness into canonical integers
//! (raw Montgomery limbs * R^-1 mod p with num-bigint; projective coordinates
//! normalised with model / C01-checked field arithmetic; polynomial coefficient
//! vectors stripped of zeros).  Two values "denote the same object" iff their
//! decodings agree; `==`, `!=`, `cmp`/`partial_cmp`/`<`.., `Hash` (through the
//! fixed-key `DefaultHasher::new()`), `is_zero`/`is_one` and HashSet/HashMap/BTreeSet
//! behaviour are compared with that.  Values are reached through *different
//! operation sequences / representations* so that a non-canonical internal
//! representation would show.
use algebra_mc::core::*;
use algebra_mc::fpaccess::FpAccess;
use algebra_mc::refmodel::fieldmodel::{prime_to_u64, FieldModel, Fp2Model, PrimeModel};
use algebra_mc::refmodel::zmod::*;
use algebra_mc::toycurve::{SwToy, TeToy};
use ark_ec::pairing::{MillerLoopOutput, Pairing, PairingOutput};
use ark_ec::{short_weierstrass as sw, twisted_edwards as te, AffineRepr, CurveGroup};
use ark_ff::{
    AdditiveGroup, BigInt, BigInteger, FftField, CubicExtConfig, CubicExtField, Field, Fp, FpConfig, One, PrimeField, QuadExtConfig, QuadExtField, Zero,
};
use ark_poly::univariate::{DensePolynomial, SparsePolynomial};
use ark_poly::{DenseMultilinearExtension, DenseUVPolynomial, SparseMultilinearExtension};
use num_bigint::BigUint;

use std::cmp::Ordering;
use std::collections::hash_map::DefaultHasher;
use std::collections::{BTreeSet, HashMap, HashSet};
use std::hash::{BuildHasherDefault, Hash, Hasher};
use std::marker::PhantomData;
use std::panic::{catch_unwind, AssertUnwindSafe};
use std::str::FromStr;
use std::sync::Mutex;

type Bh = BuildHasherDefault<DefaultHasher>;

/// digest through the fixed-key std hasher (deterministic)
fn dig<T: Hash + ?Sized>(x: &T) -> u64 {
    let mut h = DefaultHasher::new();
    x.hash(&mut h);
    h.finish()
}

/// `==`/`!=` in both directions against the model relation; equal values must hash equally
fn rel<T: Eq + Hash>(loc: &mut Loc, x: &T, y: &T, same: bool, what: &dyn Fn() -> String) {
    let (e1, e2, n1, n2) = (x == y, y == x, x != y, y != x);
    loc.check_at("eq", e1 == same && e2 == same && n1 != same && n2 != same, || {
        format!("{}: model says same={same}; x==y:{e1} y==x:{e2} x!=y:{n1} y!=x:{n2}", what())
    });
    if same {
        let (hx, hy) = (dig(x), dig(y));
        loc.check_at("hash", hx == hy, || format!("{}: values denote the same object but hash differently ({hx:016x} vs {hy:016x})", what()));
    }
}

/// Two objects about which the property does not say whether they are "the same" (e.g. the same terms declared
/// with a different `num_vars`): only consistency is demanded - `==` symmetric, `!=` its negation, and IF the
/// library calls them equal they must hash equally.  Returns the library's answer (kept as a metric class).
fn rel_consistent<T: Eq + Hash>(loc: &mut Loc, x: &T, y: &T, what: &dyn Fn() -> String) -> bool {
    let (e1, e2, n1, n2) = (x == y, y == x, x != y, y != x);
    loc.check_at("eq_consistent", e1 == e2 && n1 != e1 && n2 != e2, || format!("{}: x==y:{e1} y==x:{e2} x!=y:{n1} y!=x:{n2} are not one symmetric relation and its negation", what()));
    if e1 && e2 {
        let (hx, hy) = (dig(x), dig(y));
        loc.check_at("hash", hx == hy, || format!("{}: the library calls the values equal but they hash differently ({hx:016x} vs {hy:016x})", what()));
    }
    e1
}

/// cmp / partial_cmp / the four operators, both directions
fn ord_rel<T: Ord>(loc: &mut Loc, x: &T, y: &T, want: Ordering, what: &dyn Fn() -> String) {
    let c = x.cmp(y);
    let r = y.cmp(x);
    let pc = x.partial_cmp(y);
    let ops = (x < y, x <= y, x > y, x >= y);
    let want_ops = (want == Ordering::Less, want != Ordering::Greater, want == Ordering::Greater, want != Ordering::Less);
    loc.check_at("ord", c == want && r == want.reverse() && pc == Some(want) && ops == want_ops, || {
        format!("{}: model order {want:?}; cmp={c:?} reverse cmp={r:?} partial_cmp={pc:?} (<,<=,>,>=)={ops:?}", what())
    });
}

fn preds<F: Field>(loc: &mut Loc, r: &F, is0: bool, is1: bool, what: &dyn Fn() -> String) {
    let z = (r.is_zero(), *r == F::ZERO, *r == F::zero(), F::ZERO == *r);
    let o = (r.is_one(), *r == F::ONE, *r == F::one(), F::ONE == *r);
    loc.check_at("predicates", z == (is0, is0, is0, is0) && o == (is1, is1, is1, is1), || {
        format!("{}: model zero={is0} one={is1}; (is_zero, ==ZERO, ==zero(), ZERO==)={z:?} (is_one, ==ONE, ==one(), ONE==)={o:?}", what())
    });
}

// ------------------------------------------------------------------ coordinate access
/// raw-limb access to every field of a tower (flattened, c0 first), independent of
/// the library's into_bigint / to_base_prime_field_elements
trait Coord: Field {
    const DEG: usize;
    const ARITY: usize;
    const NL: usize;
    fn modulus() -> BigUint;
    fn build(m: &Mont, c: &[BigUint]) -> Self;
    fn raws(&self, out: &mut Vec<u64>);
    /// arities of the tower levels, outermost first (nothing for a prime field)
    fn arities(out: &mut Vec<usize>);
}
impl<P: FpConfig<N>, const N: usize> Coord for Fp<P, N> {
    const DEG: usize = 1;
    const ARITY: usize = 1;
    const NL: usize = N;
    fn modulus() -> BigUint {
        from_limbs(&P::MODULUS.0)
    }
    fn build(m: &Mont, c: &[BigUint]) -> Self {
        let v = m.encode(&c[0]);
        let mut a = [0u64; N];
        a.copy_from_slice(&v);
        Fp(BigInt(a), PhantomData)
    }
    fn raws(&self, out: &mut Vec<u64>) {
        out.extend_from_slice(&(self.0).0);
    }
    fn arities(_out: &mut Vec<usize>) {}
}
impl<P: QuadExtConfig> Coord for QuadExtField<P>
where
    P::BaseField: Coord,
{
    const DEG: usize = 2 * <P::BaseField as Coord>::DEG;
    const ARITY: usize = 2;
    const NL: usize = <P::BaseField as Coord>::NL;
    fn modulus() -> BigUint {
        <P::BaseField as Coord>::modulus()
    }
    fn build(m: &Mont, c: &[BigUint]) -> Self {
        let d = <P::BaseField as Coord>::DEG;
        QuadExtField::new(<P::BaseField as Coord>::build(m, &c[..d]), <P::BaseField as Coord>::build(m, &c[d..2 * d]))
    }
    fn raws(&self, out: &mut Vec<u64>) {
        self.c0.raws(out);
        self.c1.raws(out);
    }
    fn arities(out: &mut Vec<usize>) {
        out.push(2);
        <P::BaseField as Coord>::arities(out);
    }
}
impl<P: CubicExtConfig> Coord for CubicExtField<P>
where
    P::BaseField: Coord,
{
    const DEG: usize = 3 * <P::BaseField as Coord>::DEG;
    const ARITY: usize = 3;
    const NL: usize = <P::BaseField as Coord>::NL;
    fn modulus() -> BigUint {
        <P::BaseField as Coord>::modulus()
    }
    fn build(m: &Mont, c: &[BigUint]) -> Self {
        let d = <P::BaseField as Coord>::DEG;
        CubicExtField::new(
            <P::BaseField as Coord>::build(m, &c[..d]),
            <P::BaseField as Coord>::build(m, &c[d..2 * d]),
            <P::BaseField as Coord>::build(m, &c[2 * d..3 * d]),
        )
    }
    fn raws(&self, out: &mut Vec<u64>) {
        self.c0.raws(out);
        self.c1.raws(out);
        self.c2.raws(out);
    }
    fn arities(out: &mut Vec<usize>) {
        out.push(3);
        <P::BaseField as Coord>::arities(out);
    }
}
fn raw_of<F: Coord>(x: &F) -> Vec<u64> {
    let mut v = Vec::with_capacity(F::DEG * F::NL);
    x.raws(&mut v);
    v
}
fn mont_of<F: Coord>() -> Mont {
    Mont::new(&F::modulus(), F::NL)
}
/// canonical integer coordinates (c0 first) decoded from the raw Montgomery limbs
fn coords_raw<F: Coord>(m: &Mont, raw: &[u64]) -> Vec<BigUint> {
    raw.chunks(F::NL).map(|c| m.decode(c)).collect()
}
fn coords<F: Coord>(m: &Mont, x: &F) -> Vec<BigUint> {
    coords_raw::<F>(m, &raw_of(x))
}
/// lexicographic order with the highest coefficient most significant at every level (for a prime field: the
/// integer order); only used to compute branch classes from the inputs
fn model_cmp<T: Ord>(a: &[T], b: &[T]) -> Ordering {
    for k in (0..a.len()).rev() {
        match a[k].cmp(&b[k]) {
            Ordering::Equal => continue,
            o => return o,
        }
    }
    Ordering::Equal
}

/// The rustdoc of `Ord for QuadExtField` / `Ord for CubicExtField` only says "elements are ordered
/// lexicographically" - it does not say which coefficient is the most significant one.  The property therefore
/// allows, per tower level, either "highest coefficient first" or "lowest coefficient first", as long as it is
/// the SAME choice for all pairs of one type.  `hi_first[l]` is the choice of level l (outermost first); it is
/// read off ONE probe pair per level (`calibrate_order`) and then demanded of every pair of the sweep.
#[derive(Clone, Debug)]
struct Orient {
    ar: Vec<usize>,
    hi_first: Vec<bool>,
    /// probe pairs (coordinates c0 first) and whether the library gave one of the two legal answers on them
    probes: Vec<(Vec<BigUint>, Vec<BigUint>, bool)>,
}
impl Orient {
    fn cmp<T: Ord>(&self, a: &[T], b: &[T]) -> Ordering {
        fn rec<T: Ord>(a: &[T], b: &[T], ar: &[usize], hi: &[bool]) -> Ordering {
            if ar.is_empty() {
                return a[0].cmp(&b[0]);
            }
            let k = ar[0];
            let s = a.len() / k;
            for j in 0..k {
                let j = if hi[0] { k - 1 - j } else { j };
                match rec(&a[j * s..(j + 1) * s], &b[j * s..(j + 1) * s], &ar[1..], &hi[1..]) {
                    Ordering::Equal => continue,
                    o => return o,
                }
            }
            Ordering::Equal
        }
        rec(a, b, &self.ar, &self.hi_first)
    }
    fn describe(&self) -> String {
        self.ar.iter().zip(&self.hi_first).map(|(k, h)| format!("{}:{}", if *k == 2 { "quadratic" } else { "cubic" }, if *h { "highest-coefficient-first" } else { "lowest-coefficient-first" })).collect::<Vec<_>>().join(" / ")
    }
}
/// Probe of level l: both elements live in coefficient 0 of every outer level (all other outer coefficients are
/// zero on both sides, so the outer levels tie whatever their orientation is); a has the lowest coordinate of the
/// level's TOP coefficient = 1, b has the lowest coordinate of the level's coefficient 0 = 1, all other
/// coordinates 0.  Every lexicographic order with the integer order at the bottom says "zero < an element with
/// exactly one coordinate equal to 1", so: a > b iff the level compares its highest coefficient first.
fn calibrate_order<F: Coord>(m: &Mont) -> Orient {
    let mut ar = Vec::new();
    F::arities(&mut ar);
    let deg = F::DEG;
    let mut hi_first = vec![true; ar.len()];
    let mut probes = Vec::new();
    let mut block = deg;
    for (l, k) in ar.iter().enumerate() {
        let s = block / k;
        let mut ca = vec![BigUint::zero(); deg];
        let mut cb = vec![BigUint::zero(); deg];
        ca[(k - 1) * s] = BigUint::one();
        cb[0] = BigUint::one();
        let (a, b) = (F::build(m, &ca), F::build(m, &cb));
        let ok = match catch_unwind(AssertUnwindSafe(|| (a.cmp(&b), b.cmp(&a)))) {
            Ok((Ordering::Greater, Ordering::Less)) => true,
            Ok((Ordering::Less, Ordering::Greater)) => {
                hi_first[l] = false;
                true
            }
            _ => false,
        };
        probes.push((ca, cb, ok));
        block = s;
    }
    Orient { ar, hi_first, probes }
}
/// the calibration probes as cases of their own (an answer that is neither of the two legal ones is a violation
/// that replays by itself) + the observed orientation as a metric
fn report_orientation<F: Coord>(ctx: &mut Ctx, name: &str, m: &Mont, o: &Orient) {
    ctx.sweep(&format!("ext_order_calibration/{name}"), o.probes.len() as u64, |i, loc| {
        let (ca, cb, _) = &o.probes[i as usize];
        let (a, b) = (F::build(m, ca), F::build(m, cb));
        let (c, r) = (a.cmp(&b), b.cmp(&a));
        loc.class("ext_order_orientation_probe");
        loc.check_at("ord", c != Ordering::Equal && r == c.reverse(), || {
            format!("{name}: level-{i} probe a={ca:?} b={cb:?} (coordinates c0 first; two distinct elements): cmp={c:?} reverse cmp={r:?} is not a strict antisymmetric answer")
        });
    });
    for h in &o.hi_first {
        ctx.add_class(if *h { "ext_order_observed:highest_coefficient_first(metric)" } else { "ext_order_observed:lowest_coefficient_first(metric)" }, 1);
    }
    ctx.bound(&format!("ext_order_observed/{name}"), o.describe());
}

// ------------------------------------------------------------------ operation sequences
/// results that all denote `a` in any field (b arbitrary; inverse forms only if b != 0 by the model)
fn seqs_to_a<F: Field>(a: F, b: F, b_nonzero: bool) -> Vec<(&'static str, F)> {
    let mut v: Vec<(&'static str, F)> = Vec::with_capacity(24);
    v.push(("(a+b)-b", (a + b) - b));
    v.push(("(a-b)+b", (a - b) + b));
    v.push(("-(-a)", -(-a)));
    v.push(("a.double()-a", a.double() - a));
    v.push(("a*1", a * F::ONE));
    v.push(("1*a", F::ONE * a));
    v.push(("a+0", a + F::ZERO));
    v.push(("a-0", a - F::ZERO));
    v.push(("a+(-1)+1", a + (-F::ONE) + F::ONE));
    v.push(("(b+a)-b", (b + a) - b));
    {
        let mut t = a;
        t += &b;
        t -= &b;
        v.push(("t=a;t+=&b;t-=&b", t));
    }
    {
        let mut t = a;
        t.neg_in_place();
        t.neg_in_place();
        v.push(("neg_in_place twice", t));
    }
    {
        let mut t = a;
        t.double_in_place();
        t -= a;
        v.push(("double_in_place;-=a", t));
    }
    {
        let t: F = [a, b, -b].iter().sum();
        v.push(("sum[a,b,-b]", t));
    }
    if b_nonzero {
        match b.inverse() {
            Some(bi) => {
                v.push(("a*b*b^-1", a * b * bi));
                v.push(("b*a*b^-1", b * a * bi));
                v.push(("b^-1*(a*b)", bi * (a * b)));
            }
            None => {}
        }
        v.push(("(a*b)/b", (a * b) / b));
        v.push(("(a/b)*b", (a / b) * b));
        {
            let mut t = a;
            t *= &b;
            t /= &b;
            v.push(("t=a;t*=&b;t/=&b", t));
        }
    }
    v
}
/// results that all denote a^2
fn square_group<F: Field>(a: F) -> Vec<(&'static str, F)> {
    let mut t = a;
    t.square_in_place();
    let mut u = a;
    u *= a;
    vec![("a.square()", a.square()), ("a*a", a * a), ("square_in_place", t), ("a*=a", u), ("a.pow([2])", a.pow([2u64])), ("a*a*a/a", a)]
}

/// `r` was produced by a sequence that must denote the value with raw limbs `araw`
/// (library value `a`): value check first (out of C19's scope if it fails, filed
/// under `seq_value`), then the C19 relations.
fn check_same<F: Coord>(loc: &mut Loc, m: &Mont, a: &F, araw: &[u64], r: &F, nm: &str, is0: bool, is1: bool, what: &dyn Fn() -> String) {
    let rr = raw_of(r);
    let same = rr == araw || coords_raw::<F>(m, &rr) == coords_raw::<F>(m, araw);
    if !same {
        loc.fail_at("seq_value", format!("{}: sequence `{nm}` does not denote a (arithmetic, outside C19): got coords {:?}", what(), coords_raw::<F>(m, &rr)));
        return;
    }
    loc.class("equal_via_different_sequences");
    loc.class_if(rr != araw, "same_value_different_limbs");
    let w = || format!("{} via `{nm}` (raw {:x?})", what(), rr);
    rel(loc, a, r, true, &w);
    ord_rel(loc, a, r, Ordering::Equal, &w);
    preds(loc, r, is0, is1, &w);
}

// ------------------------------------------------------------------ prime fields
fn prime_checks<F: FpAccess + Coord>(ctx: &mut Ctx, name: &str, raws: &[Vec<u64>], tag: &str) {
    let p = F::modulus_big();
    let mont = Mont::new(&p, F::NLIMBS);
    let dec: Vec<BigUint> = raws.iter().map(|l| mont.decode(l)).collect();
    let cnt = raws.len() as u64;
    ctx.sweep(&format!("prime_pairs/{name}/{tag}"), cnt * cnt, |i, loc| {
        let [ib, ia] = unrank(i, [cnt, cnt]);
        let (ia, ib) = (ia as usize, ib as usize);
        let a = F::from_raw(&raws[ia]);
        let b = F::from_raw(&raws[ib]);
        let (da, db) = (&dec[ia], &dec[ib]);
        let same = da == db;
        let want = da.cmp(db);
        let what = || format!("{name}: a={da} (raw {:x?}) b={db} (raw {:x?})", raws[ia], raws[ib]);
        if loc.sampling() {
            loc.sample(what());
        }
        loc.class_if(same, "pair_equal");
        rel(loc, &a, &b, same, &what);
        ord_rel(loc, &a, &b, want, &what);
        // b reached through arithmetic, compared with the stored a
        let b2 = (b + a) - a;
        if mont.decode(&b2.raw()) == *db {
            let w = || format!("{} with b computed as (b+a)-a", what());
            rel(loc, &a, &b2, same, &w);
            ord_rel(loc, &a, &b2, want, &w);
        } else {
            loc.fail_at("seq_value", format!("{}: (b+a)-a does not denote b", what()));
        }
        let (is0, is1) = (da.is_zero(), da.is_one());
        let mut rs = seqs_to_a(a, b, !db.is_zero());
        match <F::BigInt as TryFrom<BigUint>>::try_from(da.clone()).ok().and_then(F::from_bigint) {
            Some(x) => rs.push(("from_bigint", x)),
            None => loc.fail_at("seq_value", format!("{}: from_bigint(a) is None", what())),
        }
        match F::from_str(&da.to_str_radix(10)).ok() {
            Some(x) => rs.push(("from_str", x)),
            None => loc.fail_at("seq_value", format!("{}: from_str(a) fails", what())),
        }
        rs.push(("From<BigUint>(a)", F::from(da.clone())));
        rs.push(("From<BigUint>(a+p)", F::from(da + &p)));
        rs.push(("from_le_bytes_mod_order", F::from_le_bytes_mod_order(&da.to_bytes_le())));
        rs.push(("from_be_bytes_mod_order(a+p)", F::from_be_bytes_mod_order(&(da + &p).to_bytes_be())));
        if da.bits() <= 64 {
            let k = da.to_u64_digits().first().copied().unwrap_or(0);
            rs.push(("From<u64>", F::from(k)));
            rs.push(("From<u128>", F::from(k as u128)));
        }
        for (nm, r) in &rs {
            check_same(loc, &mont, &a, &raws[ia], r, nm, is0, is1, &what);
        }
        if ib == 0 {
            let sq = square_group(a);
            let d2 = (da * da) % &p;
            let first = sq[0].1;
            let fraw = first.raw();
            if mont.decode(&fraw) == d2 {
                for (nm, r) in &sq[1..5] {
                    check_same(loc, &mont, &first, &fraw, r, nm, d2.is_zero(), d2.is_one(), &|| format!("{} [a^2 group vs a.square()]", what()));
                }
            } else {
                loc.fail_at("seq_value", format!("{}: a.square() wrong", what()));
            }
        }
    });
    // hash containers: every representation of every value -> exactly #values keys
    ctx.sweep(&format!("prime_containers/{name}/{tag}"), 1, |_, loc| {
        let mut set: HashSet<F, Bh> = HashSet::default();
        let mut map: HashMap<F, u64, Bh> = HashMap::default();
        let mut bt: BTreeSet<F> = BTreeSet::new();
        let n = raws.len();
        let bsel: Vec<usize> = vec![0, 1 % n, n / 2, n - 1];
        let mut inserted = 0u64;
        for ia in 0..n {
            let a = F::from_raw(&raws[ia]);
            set.insert(a);
            bt.insert(a);
            *map.entry(a).or_insert(0) += 1;
            let mut here = 1u64;
            for ib in &bsel {
                let b = F::from_raw(&raws[*ib]);
                for (_, r) in seqs_to_a(a, b, !dec[*ib].is_zero()) {
                    if mont.decode(&r.raw()) != dec[ia] {
                        continue; // filed under seq_value by the pair sweep
                    }
                    set.insert(r);
                    bt.insert(r);
                    *map.entry(r).or_insert(0) += 1;
                    here += 1;
                    inserted += 1;
                }
            }
            let got = map.get(&a).copied().unwrap_or(0);
            loc.check_at("hashmap", got == here, || format!("{name}: HashMap entry of a={} merged {got} insertions, expected {here}", dec[ia]));
        }
        loc.class("hashmap_dedup");
        loc.ops(inserted);
        loc.check_at("hashset", set.len() == n && map.len() == n, || format!("{name}: {} representations of {n} values give {} HashSet keys / {} HashMap keys", inserted + n as u64, set.len(), map.len()));
        let mut order: Vec<usize> = (0..n).collect();
        order.sort_by(|x, y| dec[*x].cmp(&dec[*y]));
        let got: Vec<Vec<u64>> = bt.iter().map(|x| x.raw()).collect();
        let want: Vec<Vec<u64>> = order.iter().map(|k| raws[*k].clone()).collect();
        loc.check_at("btreeset", got == want, || format!("{name}: BTreeSet of all representations has {} keys (want {n}) or is not in integer order", got.len()));
        let mut v: Vec<F> = (0..n).map(|k| F::from_raw(&raws[(k * 7 + 3) % n])).collect();
        if gcd(7, n as u64) == 1 {
            v.sort();
            loc.check_at("sort", v.iter().map(|x| x.raw()).collect::<Vec<_>>() == want, || format!("{name}: slice::sort is not the integer order"));
        }
    });
}
fn gcd(a: u64, b: u64) -> u64 {
    if b == 0 {
        a
    } else {
        gcd(b, a % b)
    }
}

/// boundary alphabet of canonical raw limb vectors (<= 60), cf. c01 `operands`
fn alphabet(p: &BigUint, n: usize, mont: &Mont) -> Vec<Vec<u64>> {
    let ks: Vec<usize> = if n <= 4 { (1..=n).collect() } else { vec![1, 2, n - 1, n] };
    let mut ints: Vec<BigUint> = vec![
        BigUint::zero(),
        BigUint::one(),
        BigUint::from(2u32),
        BigUint::from(3u32),
        p - 1u32,
        p - 2u32,
        (p - 1u32) >> 1usize,
        (p + 1u32) >> 1usize,
        mont.r.clone(),
        (&mont.r * &mont.r) % p,
        BigUint::from(GENERIC64),
        BigUint::from(1u64 << 32),
    ];
    for k in ks {
        let t = pow2(64 * k);
        ints.push(&t - 1u32);
        ints.push(t.clone());
        ints.push(&t + 1u32);
    }
    let mut set: BTreeSet<Vec<u64>> = BTreeSet::new();
    let mut out: Vec<Vec<u64>> = Vec::new();
    for v in ints {
        let v = v % p;
        for l in [mont.encode(&v), to_limbs(&v, n)] {
            if set.insert(l.clone()) && out.len() < 60 {
                out.push(l);
            }
        }
    }
    out
}

fn prime_field<F: FpAccess + Coord>(ctx: &mut Ctx, name: &str, seen: &Mutex<BTreeSet<String>>, dedupe: bool) {
    let p = F::modulus_big();
    if dedupe && !seen.lock().unwrap().insert(p.to_str_radix(16)) {
        return;
    }
    let n = F::NLIMBS;
    let mont = Mont::new(&p, n);
    // whole universe for p <= 257 (thorough: p <= 1021)
    if p <= BigUint::from(ctx.t(257u32, 1021u32)) {
        let pu = p.to_u64_digits()[0];
        let all: Vec<Vec<u64>> = (0..pu).map(|x| mont.encode(&BigUint::from(x))).collect();
        prime_checks::<F>(ctx, name, &all, "all_pairs");
    } else {
        let ops = alphabet(&p, n, &mont);
        prime_checks::<F>(ctx, name, &ops, "alphabet");
    }
}

// ------------------------------------------------------------------ BigInt<N>
fn bigint_values<const N: usize>(dev: usize) -> Vec<[u64; N]> {
    let mut out: Vec<Vec<u64>> = Vec::new();
    if N <= 2 {
        let n = 10u64.pow(N as u32);
        for i in 0..n {
            out.push(unrank_vec(i, &vec![10u64; N]).iter().map(|k| L10[*k as usize]).collect());
        }
    } else {
        for base in [0u64, u64::MAX] {
            out.extend(deviation_ball(&vec![base; N], &L10, dev));
        }
        if N == 4 {
            for i in 0..256u64 {
                out.push(unrank_vec(i, &[4, 4, 4, 4]).iter().map(|k| L4[*k as usize]).collect());
            }
        }
        for pos in 0..N {
            let mut v = vec![0u64; N];
            v[pos] = GENERIC64;
            out.push(v);
        }
    }
    dedup_sorted(out)
        .into_iter()
        .map(|v| {
            let mut a = [0u64; N];
            a.copy_from_slice(&v);
            a
        })
        .collect()
}

fn bigint_checks<const N: usize>(ctx: &mut Ctx, dev: usize) {
    let vals = bigint_values::<N>(dev);
    let bigs: Vec<BigUint> = vals.iter().map(|v| from_limbs(v)).collect();
    let digs: Vec<u64> = vals.iter().map(|v| dig(&BigInt::<N>(*v))).collect();
    let cnt = vals.len() as u64;
    let seq_all = cnt * cnt <= 300_000;
    ctx.sweep(&format!("bigint_pairs/N={N}"), cnt * cnt, |i, loc| {
        let [ib, ia] = unrank(i, [cnt, cnt]);
        let (ia, ib) = (ia as usize, ib as usize);
        let (xa, xb) = (BigInt::<N>(vals[ia]), BigInt::<N>(vals[ib]));
        let (ba, bb) = (&bigs[ia], &bigs[ib]);
        let same = ba == bb;
        let what = || format!("BigInt<{N}> a={:x?} b={:x?}", vals[ia], vals[ib]);
        if loc.sampling() {
            loc.sample(what());
        }
        rel(loc, &xa, &xb, same, &what);
        ord_rel(loc, &xa, &xb, ba.cmp(bb), &what);
        // limb-boundary classes from the model
        if !same {
            let top_equal = vals[ia][N - 1] == vals[ib][N - 1];
            loc.class_if(N > 1 && top_equal, "bigint_order_tie_on_top_limb");
            // distinct values with equal digest: allowed by the property, reported as a metric only
            loc.class_if(digs[ia] == digs[ib], "hash_collision_distinct_values(metric)");
        }
        if !(seq_all || ib < 12) {
            return;
        }
        // the same integer through other routes
        let mut rs: Vec<(&'static str, BigInt<N>)> = Vec::new();
        {
            let mut t = xa;
            t.add_with_carry(&xb);
            t.sub_with_borrow(&xb);
            rs.push(("(a+b)-b wrapping", t));
        }
        {
            let mut t = xa;
            t.sub_with_borrow(&xb);
            t.add_with_carry(&xb);
            rs.push(("(a-b)+b wrapping", t));
        }
        rs.push(("!!a", !(!xa)));
        rs.push(("a^b^b", (xa ^ xb) ^ xb));
        rs.push(("a<<0", xa << 0));
        rs.push(("new(limbs)", BigInt::<N>::new(vals[ia])));
        rs.push(("from_bits_le(to_bits_le)", BigInt::<N>::from_bits_le(&xa.to_bits_le())));
        rs.push(("from_bits_be(to_bits_be)", BigInt::<N>::from_bits_be(&xa.to_bits_be())));
        if let Ok(x) = BigInt::<N>::from_str(&ba.to_str_radix(10)) {
            rs.push(("from_str(decimal)", x));
        } else {
            loc.fail_at("seq_value", format!("{}: from_str(decimal a) fails", what()));
        }
        if let Ok(x) = BigInt::<N>::try_from(ba.clone()) {
            rs.push(("try_from(BigUint)", x));
        } else {
            loc.fail_at("seq_value", format!("{}: try_from(BigUint a) fails", what()));
        }
        {
            let mut t = xa;
            let c = t.mul2();
            t.div2();
            if !c {
                rs.push(("mul2;div2 (no carry)", t));
            }
        }
        for (nm, r) in &rs {
            if from_limbs(&r.0) != *ba {
                loc.fail_at("seq_value", format!("{}: `{nm}` gives {:x?} (arithmetic, outside C19)", what(), r.0));
                continue;
            }
            loc.class("equal_via_different_sequences");
            let w = || format!("{} via `{nm}`", what());
            rel(loc, &xa, r, true, &w);
            ord_rel(loc, &xa, r, Ordering::Equal, &w);
            let z = ba.is_zero();
            loc.check_at("predicates", r.is_zero() == z && (*r == BigInt::<N>::zero()) == z && (*r == BigInt::<N>::default()) == z && (*r == BigInt::<N>::one()) == ba.is_one(), || {
                format!("{}: is_zero / == zero() / == one() disagree with the integer", w())
            });
        }
    });
    ctx.sweep(&format!("bigint_containers/N={N}"), 1, |_, loc| {
        let mut set: HashSet<BigInt<N>, Bh> = HashSet::default();
        let mut bt: BTreeSet<BigInt<N>> = BTreeSet::new();
        for v in &vals {
            let x = BigInt::<N>(*v);
            for r in [x, !(!x), BigInt::<N>::from_bits_le(&x.to_bits_le()), BigInt::<N>::try_from(from_limbs(v)).unwrap_or(x)] {
                set.insert(r);
                bt.insert(r);
                loc.op();
            }
        }
        loc.class("hashmap_dedup");
        loc.check_at("hashset", set.len() == vals.len(), || format!("BigInt<{N}>: {} keys for {} values", set.len(), vals.len()));
        // vals are sorted limb-vector-wise by dedup_sorted (little-endian lexicographic), so sort by integer
        let mut order: Vec<usize> = (0..vals.len()).collect();
        order.sort_by(|x, y| bigs[*x].cmp(&bigs[*y]));
        let got: Vec<[u64; N]> = bt.iter().map(|x| x.0).collect();
        let want: Vec<[u64; N]> = order.iter().map(|k| vals[*k]).collect();
        loc.check_at("btreeset", got == want, || format!("BigInt<{N}>: BTreeSet iteration is not the integer order ({} keys)", got.len()));
    });
}

// ------------------------------------------------------------------ toy towers (local: toy::gen_towers does not exist)
mod towers {
    use algebra_mc::toy::gen_fields::{D5, D7};
    use ark_ff::{Fp2, Fp2Config, Fp3, Fp3Config, Fp4, Fp4Config, Fp6, Fp6Config, MontFp};
    /// F_7[u]/(u^2+1)
    pub struct T7Fp2Cfg;
    impl Fp2Config for T7Fp2Cfg {
        type Fp = D7;
        const NONRESIDUE: D7 = MontFp!("6");
        const FROBENIUS_COEFF_FP2_C1: &'static [D7] = &[MontFp!("1"), MontFp!("6")];
    }
    pub type T7Fp2 = Fp2<T7Fp2Cfg>;
    /// F_7[v]/(v^3-2)
    pub struct T7Fp3Cfg;
    impl Fp3Config for T7Fp3Cfg {
        type Fp = D7;
        const NONRESIDUE: D7 = MontFp!("2");
        const FROBENIUS_COEFF_FP3_C1: &'static [D7] = &[MontFp!("1"), MontFp!("4"), MontFp!("2")];
        const FROBENIUS_COEFF_FP3_C2: &'static [D7] = &[MontFp!("1"), MontFp!("2"), MontFp!("4")];
        const TWO_ADICITY: u32 = 1;
        const TRACE_MINUS_ONE_DIV_TWO: &'static [u64] = &[85];
        const QUADRATIC_NONRESIDUE_TO_T: Fp3<Self> = Fp3::new(MontFp!("6"), MontFp!("0"), MontFp!("0"));
    }
    pub type T7Fp3 = Fp3<T7Fp3Cfg>;
    /// F_49[w]/(w^3-(1+u))
    #[derive(Clone, Copy)]
    pub struct T7Fp6Cfg;
    impl Fp6Config for T7Fp6Cfg {
        type Fp2Config = T7Fp2Cfg;
        const NONRESIDUE: T7Fp2 = Fp2::new(MontFp!("1"), MontFp!("1"));
        const FROBENIUS_COEFF_FP6_C1: &'static [T7Fp2] = &[
            Fp2::new(MontFp!("1"), MontFp!("0")),
            Fp2::new(MontFp!("0"), MontFp!("2")),
            Fp2::new(MontFp!("4"), MontFp!("0")),
            Fp2::new(MontFp!("0"), MontFp!("1")),
            Fp2::new(MontFp!("2"), MontFp!("0")),
            Fp2::new(MontFp!("0"), MontFp!("4")),
        ];
        const FROBENIUS_COEFF_FP6_C2: &'static [T7Fp2] = &[
            Fp2::new(MontFp!("1"), MontFp!("0")),
            Fp2::new(MontFp!("3"), MontFp!("0")),
            Fp2::new(MontFp!("2"), MontFp!("0")),
            Fp2::new(MontFp!("6"), MontFp!("0")),
            Fp2::new(MontFp!("4"), MontFp!("0")),
            Fp2::new(MontFp!("5"), MontFp!("0")),
        ];
    }
    pub type T7Fp6 = Fp6<T7Fp6Cfg>;
    /// F_5[u]/(u^2-2)
    pub struct T5Fp2Cfg;
    impl Fp2Config for T5Fp2Cfg {
        type Fp = D5;
        const NONRESIDUE: D5 = MontFp!("2");
        const FROBENIUS_COEFF_FP2_C1: &'static [D5] = &[MontFp!("1"), MontFp!("4")];
    }
    pub type T5Fp2 = Fp2<T5Fp2Cfg>;
    /// F_25[v]/(v^2-u)
    pub struct T5Fp4Cfg;
    impl Fp4Config for T5Fp4Cfg {
        type Fp2Config = T5Fp2Cfg;
        const NONRESIDUE: T5Fp2 = Fp2::new(MontFp!("0"), MontFp!("1"));
        const FROBENIUS_COEFF_FP4_C1: &'static [D5] = &[MontFp!("1"), MontFp!("2"), MontFp!("4"), MontFp!("3")];
    }
    pub type T5Fp4 = Fp4<T5Fp4Cfg>;
}

fn validate_towers(ctx: &mut Ctx) {
    // the binomials are irreducible (so the quotient rings are fields and inverses exist)
    let f7 = PrimeModel { p: 7 };
    let f5 = PrimeModel { p: 5 };
    ctx.validate(f7.pow(6, 3) != 1, "T7Fp2: -1 is a quadratic non-residue mod 7");
    ctx.validate(f7.pow(2, 2) != 1, "T7Fp3: 2 is a cubic non-residue mod 7 (and 3 | 7-1)");
    let f49 = Fp2Model { p: 7, beta: 6 };
    ctx.validate(f49.pow((1, 1), 16) != (1, 0), "T7Fp6: 1+u is a cubic non-residue in F_49");
    ctx.validate(f5.pow(2, 2) != 1, "T5Fp2: 2 is a quadratic non-residue mod 5");
    let f25 = Fp2Model { p: 5, beta: 2 };
    ctx.validate(f25.pow((0, 1), 12) != (1, 0), "T5Fp4: u is a quadratic non-residue in F_25");
    // the declared constants are the ones validated above
    use ark_ff::{Fp2Config, Fp3Config, Fp4Config, Fp6Config};
    let m7 = mont_of::<algebra_mc::toy::gen_fields::D7>();
    let m5 = mont_of::<algebra_mc::toy::gen_fields::D5>();
    let c = |v: Vec<BigUint>| -> Vec<u64> { v.iter().map(|x| x.to_u64_digits().first().copied().unwrap_or(0)).collect() };
    ctx.validate(c(coords(&m7, &towers::T7Fp2Cfg::NONRESIDUE)) == vec![6], "T7Fp2 NONRESIDUE");
    ctx.validate(c(coords(&m7, &towers::T7Fp3Cfg::NONRESIDUE)) == vec![2], "T7Fp3 NONRESIDUE");
    ctx.validate(c(coords(&m7, &<towers::T7Fp6Cfg as Fp6Config>::NONRESIDUE)) == vec![1, 1], "T7Fp6 NONRESIDUE");
    ctx.validate(c(coords(&m5, &towers::T5Fp2Cfg::NONRESIDUE)) == vec![2], "T5Fp2 NONRESIDUE");
    ctx.validate(c(coords(&m5, &<towers::T5Fp4Cfg as Fp4Config>::NONRESIDUE)) == vec![0, 1], "T5Fp4 NONRESIDUE");
    ctx.assume("toy towers declared inside c19.rs (F_7[u]/(u^2+1), F_7[v]/(v^3-2), F_49[w]/(w^3-(1+u)), F_5[u]/(u^2-2), F_25[v]/(v^2-u)); Frobenius maps / sqrt of these towers are never called here");
}

// ------------------------------------------------------------------ extension fields
/// elements with their model keys: `keys[i][k]` = rank of coordinate k (c0 first) in `rank_vals`
struct ExtSpace<F> {
    elems: Vec<F>,
    keys: Vec<Vec<u32>>,
    rank_vals: Vec<BigUint>,
}
impl<F: Coord> ExtSpace<F> {
    fn is0(&self, i: usize) -> bool {
        self.keys[i].iter().all(|r| self.rank_vals[*r as usize].is_zero())
    }
    fn is1(&self, i: usize) -> bool {
        self.rank_vals[self.keys[i][0] as usize].is_one() && self.keys[i][1..].iter().all(|r| self.rank_vals[*r as usize].is_zero())
    }
    fn show(&self, i: usize) -> String {
        format!("{:?}", self.keys[i].iter().map(|r| self.rank_vals[*r as usize].to_string()).collect::<Vec<_>>())
    }
}

fn ext_checks<F: Coord>(ctx: &mut Ctx, name: &str, sp: &ExtSpace<F>, npairs: u64, pair: &(dyn Fn(u64) -> (usize, usize) + Sync), bsub: &[usize]) {
    let m = mont_of::<F>();
    let deg = F::DEG;
    let chunk = deg / F::ARITY; // coordinates of the outermost highest coefficient
    let orient = calibrate_order::<F>(&m);
    report_orientation::<F>(ctx, name, &m, &orient);
    let orient = &orient;
    let all_lo = Orient { ar: orient.ar.clone(), hi_first: vec![false; orient.ar.len()], probes: Vec::new() };
    ctx.sweep(&format!("ext_order/{name}"), npairs, |i, loc| {
        let (x, y) = pair(i);
        let (a, b) = (sp.elems[x], sp.elems[y]);
        let (ka, kb) = (&sp.keys[x], &sp.keys[y]);
        let same = ka == kb;
        // the one lexicographic order (per-level orientation fixed by the probes) for ALL pairs of this type
        let want = orient.cmp(ka, kb);
        let what = || format!("{name}: a={} b={} (coordinates c0 first)", sp.show(x), sp.show(y));
        if loc.sampling() {
            loc.sample(what());
        }
        if same {
            loc.class("pair_equal");
        } else if ka[deg - chunk..] == kb[deg - chunk..] {
            loc.class("ext_order_tie_on_high_coeff");
            loc.class_if(ka[1..] == kb[1..], "ext_order_decided_by_lowest_coordinate");
        } else {
            loc.class("ext_order_decided_by_high_coeff");
            // the lower coefficients would give the opposite answer (classes are computed with the fixed
            // highest-first model order, i.e. from the inputs only)
            loc.class_if(model_cmp(&ka[..deg - chunk], &kb[..deg - chunk]) == model_cmp(ka, kb).reverse(), "ext_order_high_coeff_overrides_low");
        }
        // pairs on which the admissible orientations disagree: these pin "the same choice for all pairs"
        if !same {
            loc.class_if(all_lo.cmp(ka, kb) != model_cmp(ka, kb), "ext_order_orientation_discriminating");
        }
        rel(loc, &a, &b, same, &what);
        ord_rel(loc, &a, &b, want, &what);
    });
    let nb = bsub.len() as u64;
    ctx.sweep(&format!("ext_seq/{name}"), sp.elems.len() as u64 * nb, |i, loc| {
        let [kb, x] = unrank(i, [nb, sp.elems.len() as u64]);
        let (x, y) = (x as usize, bsub[kb as usize]);
        let (a, b) = (sp.elems[x], sp.elems[y]);
        let araw = raw_of(&a);
        let what = || format!("{name}: a={} b={}", sp.show(x), sp.show(y));
        if loc.sampling() {
            loc.sample(what());
        }
        let (is0, is1) = (sp.is0(x), sp.is1(x));
        let mut rs = seqs_to_a(a, b, !sp.is0(y));
        match F::from_base_prime_field_elems(a.to_base_prime_field_elements()) {
            Some(r) => rs.push(("from_base_prime_field_elems(to_base_prime_field_elements)", r)),
            None => loc.fail_at("seq_value", format!("{}: from_base_prime_field_elems(to_..) is None", what())),
        }
        rs.push(("rebuilt from decoded coordinates", F::build(&m, &coords_raw::<F>(&m, &araw))));
        for (nm, r) in &rs {
            check_same(loc, &m, &a, &araw, r, nm, is0, is1, &what);
        }
        if kb == 0 {
            let sq = square_group(a);
            let first = sq[0].1;
            let fraw = raw_of(&first);
            // a*a is the schoolbook reference for the squaring shortcuts only in the sense of "same value": decoded
            let c2 = coords_raw::<F>(&m, &fraw);
            let z = c2.iter().all(|c| c.is_zero());
            let o = c2[0].is_one() && c2[1..].iter().all(|c| c.is_zero());
            for (nm, r) in &sq[1..5] {
                check_same(loc, &m, &first, &fraw, r, nm, z, o, &|| format!("{} [a^2 group vs a.square()]", what()));
            }
        }
    });
    ctx.sweep(&format!("ext_containers/{name}"), 1, |_, loc| {
        let n = sp.elems.len();
        let mut order: Vec<usize> = (0..n).collect();
        order.sort_by(|x, y| orient.cmp(&sp.keys[*x], &sp.keys[*y]));
        let want: Vec<Vec<u64>> = order.iter().map(|k| raw_of(&sp.elems[*k])).collect();
        // scrambled copy, sorted by the library
        let mut mult = 1_000_003u64 % n as u64;
        while mult == 0 || gcd(mult, n as u64) != 1 {
            mult += 1;
        }
        let mut v: Vec<F> = (0..n as u64).map(|k| sp.elems[((k * mult + 5) % n as u64) as usize]).collect();
        v.sort();
        loc.ops(n as u64);
        loc.check_at("sort", v.iter().map(raw_of).collect::<Vec<_>>() == want, || format!("{name}: slice::sort does not produce the lexicographic order observed on the probe pairs ({})", orient.describe()));
        let mut set: HashSet<F, Bh> = HashSet::default();
        let mut bt: BTreeSet<F> = BTreeSet::new();
        let mut ins = 0u64;
        for x in 0..n {
            let a = sp.elems[x];
            set.insert(a);
            bt.insert(a);
            for y in bsub.iter().take(2) {
                let b = sp.elems[*y];
                for r in [(a + b) - b, -(-a), a.double() - a] {
                    set.insert(r);
                    bt.insert(r);
                    ins += 1;
                }
            }
        }
        loc.ops(ins);
        loc.class("hashmap_dedup");
        loc.check_at("hashset", set.len() == n, || format!("{name}: {} representations of {n} elements give {} HashSet keys", ins + n as u64, set.len()));
        loc.check_at("btreeset", bt.iter().map(raw_of).collect::<Vec<_>>() == want, || format!("{name}: BTreeSet has {} keys (want {n}) or is not in the lexicographic order observed on the probe pairs ({})", bt.len(), orient.describe()));
    });
}

fn toy_ext<F: Coord>(ctx: &mut Ctx, name: &str) {
    let m = mont_of::<F>();
    let p = F::modulus().to_u64_digits()[0];
    let deg = F::DEG;
    let n = p.pow(deg as u32);
    let rank_vals: Vec<BigUint> = (0..p).map(BigUint::from).collect();
    let mut elems = Vec::with_capacity(n as usize);
    let mut keys = Vec::with_capacity(n as usize);
    for i in 0..n {
        let d: Vec<u64> = unrank_vec(i, &vec![p; deg]);
        let c: Vec<BigUint> = d.iter().map(|x| BigUint::from(*x)).collect();
        let e = F::build(&m, &c);
        elems.push(e);
        keys.push(d.iter().map(|x| *x as u32).collect::<Vec<u32>>());
    }
    // harness self-check: the table decodes to its keys
    let ok = (0..n as usize).step_by(((n / 997).max(1)) as usize).all(|i| coords(&m, &elems[i]).iter().zip(&keys[i]).all(|(c, k)| *c == BigUint::from(*k)));
    ctx.validate(ok, &format!("{name}: element table decodes to its coordinates"));
    let sp = ExtSpace { elems, keys, rank_vals };
    let nn = n;
    if n <= 2401 {
        let bsub: Vec<usize> = if ctx.thorough() { (0..n as usize).collect() } else { probe_indices(n, 24) };
        ext_checks::<F>(ctx, name, &sp, n * n, &move |i| ((i / nn) as usize, (i % nn) as usize), &bsub);
        ctx.bound(&format!("ext/{name}"), format!("all {n} elements; order/eq: all ordered pairs; sequences: a over all, b over {}", bsub.len()));
    } else {
        // structured partners: one coordinate replaced by every value; (thorough) two coordinates; fixed probes
        let one = deg as u64 * p;
        let two = if ctx.thorough() { (deg * (deg - 1) / 2) as u64 * p * p } else { 0 };
        let probes = probe_indices(n, 40);
        let per = one + two + probes.len() as u64;
        let pairs: Vec<(usize, usize)> = (0..deg).flat_map(|k| (k + 1..deg).map(move |l| (k, l))).collect();
        let pw: Vec<u64> = (0..deg as u32).map(|k| p.pow(k)).collect();
        let probes2 = probes.clone();
        let f = move |i: u64| -> (usize, usize) {
            let x = i / per;
            let v = i % per;
            let set = |x: u64, k: usize, t: u64| -> u64 { x - ((x / pw[k]) % p) * pw[k] + t * pw[k] };
            let y = if v < one {
                set(x, (v / p) as usize, v % p)
            } else if v < one + two {
                let w = v - one;
                let (k, l) = pairs[(w / (p * p)) as usize];
                let r = w % (p * p);
                set(set(x, k, r / p), l, r % p)
            } else {
                probes2[(v - one - two) as usize] as u64
            };
            (x as usize, y as usize)
        };
        let bsub: Vec<usize> = if ctx.quick() { vec![1, (n / 2 + 1) as usize, (n - 1) as usize] } else { probe_indices(n, 6) };
        ext_checks::<F>(ctx, name, &sp, n * per, &f, &bsub);
        ctx.bound(&format!("ext/{name}"), format!("all {n} elements x structured partners ({per} per element: every single-coordinate replacement{}, {} probes); sequences: b over {} probes", if two > 0 { ", every two-coordinate replacement" } else { "" }, probes.len(), bsub.len()));
    }
}
/// deterministic probe element indices: 0, 1, boundary and evenly spaced
fn probe_indices(n: u64, k: u64) -> Vec<usize> {
    let mut v: Vec<u64> = vec![0, 1, 2, n - 1, n - 2, n / 2, n / 2 + 1];
    for j in 0..k {
        v.push((j * n) / k + (j % 7));
    }
    let mut out: Vec<usize> = Vec::new();
    for x in v {
        let x = (x % n) as usize;
        if !out.contains(&x) {
            out.push(x);
        }
    }
    out
}

/// shipped tower on a coordinate alphabet {0, 1, p-1, (p-1)/2, g64 mod p}: deviation <= dev from all-zero, <= 1 from all-(p-1)
fn shipped_ext<F: Coord>(ctx: &mut Ctx, name: &str, dev: usize) {
    let m = mont_of::<F>();
    let p = F::modulus();
    let mut rank_vals: Vec<BigUint> = vec![BigUint::zero(), BigUint::one(), &p - 1u32, (&p - 1u32) >> 1usize, BigUint::from(GENERIC64) % &p, BigUint::from(2u32)];
    rank_vals.sort();
    rank_vals.dedup();
    let alpha: Vec<u32> = (0..rank_vals.len() as u32).collect();
    let top = (rank_vals.len() - 1) as u32; // p-1
    let mut keys: Vec<Vec<u32>> = deviation_ball(&vec![0u32; F::DEG], &alpha, dev);
    keys.extend(deviation_ball(&vec![top; F::DEG], &alpha, 1));
    let keys = dedup_sorted(keys);
    let elems: Vec<F> = keys.iter().map(|k| F::build(&m, &k.iter().map(|r| rank_vals[*r as usize].clone()).collect::<Vec<_>>())).collect();
    let n = elems.len() as u64;
    let sp = ExtSpace { elems, keys, rank_vals };
    // b: one, an element with every coordinate generic, one with only the highest coordinate set, all p-1
    let find = |k: Vec<u32>| sp.keys.iter().position(|x| *x == k);
    let mut bsub: Vec<usize> = Vec::new();
    let mut one = vec![0u32; F::DEG];
    one[0] = 1;
    let mut hi = vec![0u32; F::DEG];
    hi[F::DEG - 1] = top;
    for k in [one, hi, vec![top; F::DEG], vec![0u32; F::DEG]] {
        if let Some(i) = find(k) {
            bsub.push(i);
        }
    }
    bsub.push((n / 3) as usize);
    ext_checks::<F>(ctx, name, &sp, n * n, &move |i| ((i / n) as usize, (i % n) as usize), &bsub);
    ctx.bound(&format!("ext/{name}"), format!("{n} elements (coordinate alphabet of {} values, deviation <= {dev} from 0 and <= 1 from p-1); all ordered pairs", sp.rank_vals.len()));
}

// ------------------------------------------------------------------ toy curves
fn dedup_keep<T: PartialEq + Clone>(v: Vec<T>) -> Vec<T> {
    let mut out: Vec<T> = Vec::new();
    for x in v {
        if !out.contains(&x) {
            out.push(x);
        }
    }
    out
}
/// j-partners for the operation sweeps: everything for small groups, a spread subset otherwise
fn partner_list(n: usize, gen: usize, limit: usize) -> Vec<usize> {
    if n <= limit {
        return (0..n).collect();
    }
    let mut v = vec![0usize, gen, n - 1];
    let step = (n / limit).max(1);
    v.extend((0..n).step_by(step));
    dedup_keep(v)
}

const K_RESCALED: u8 = 0;
const K_ID_CANON: u8 = 1;
const K_ID_JUNK: u8 = 2;

fn sw_toy<P: sw::SWCurveConfig>(ctx: &mut Ctx, name: &str)
where
    P::BaseField: PrimeField,
    P::ScalarField: PrimeField,
{
    let t = SwToy::<P>::new(name);
    t.validate(ctx);
    let (p, n, id) = (t.p, t.n(), t.g.id);
    let g = prime_to_u64(&P::BaseField::GENERATOR);
    let tiny = p <= 31;
    let zs: Vec<u64> = if tiny { (1..p).collect() } else { dedup_keep(vec![1, 2, g, p - 1]) };
    let junk: Vec<(u64, u64)> = if tiny {
        (0..p).flat_map(|x| (0..p).map(move |y| (x, y))).collect()
    } else {
        let v = dedup_keep(vec![0, 1, 2, g, p - 1]);
        v.iter().flat_map(|x| v.iter().map(move |y| (*x, *y))).collect()
    };
    // (oracle index, representative, kind, z)
    let mut reps: Vec<(usize, sw::Projective<P>, u8, u64)> = Vec::new();
    reps.push((id, sw::Projective::<P>::zero(), K_ID_CANON, 0));
    reps.push((id, sw::Projective::<P>::default(), K_ID_CANON, 0));
    for (x, y) in &junk {
        reps.push((id, t.proj_identity_junk(*x, *y), if (*x, *y) == (1, 1) { K_ID_CANON } else { K_ID_JUNK }, 0));
    }
    for i in 0..n {
        if i != id {
            for z in &zs {
                reps.push((i, t.proj(i, *z), K_RESCALED, *z));
            }
        }
    }
    ctx.validate(reps.iter().all(|r| t.idx_proj(&r.1) == Some(r.0)), &format!("{name}: representatives decode to their oracle index"));
    let nr = reps.len() as u64;
    ctx.bound(&format!("curve/{name}"), format!("{n} points; Z in {} values; {} identity representations; {} representatives, all ordered pairs", zs.len(), junk.len() + 2, nr));
    // ---- unary: every representative
    ctx.sweep(&format!("sw_reps/{name}"), nr, |i, loc| {
        let (idx, pt, kind, z) = reps[i as usize];
        let what = || format!("{name}: point #{idx} {:?} as (X,Y,Z)=({},{},{})", t.g.pts[idx], pt.x, pt.y, pt.z);
        if loc.sampling() {
            loc.sample(what());
        }
        loc.class_if(kind == K_ID_JUNK, "identity_noncanonical");
        loc.class_if(kind == K_RESCALED && z != 1, "projective_rescaled");
        let isid = idx == id;
        loc.check_at("predicates", pt.is_zero() == isid && (pt == sw::Projective::<P>::zero()) == isid && (pt == sw::Projective::<P>::ZERO) == isid, || {
            format!("{}: is_zero / == zero() disagree with the oracle (identity={isid})", what())
        });
        rel(loc, &pt, &pt.clone(), true, &what);
        // normalisation routes give the affine point of the oracle, structurally equal and hash-equal
        let want = t.aff(idx);
        let routes: Vec<(&str, sw::Affine<P>)> = vec![
            ("into_affine", pt.into_affine()),
            ("Affine::from", sw::Affine::<P>::from(pt)),
            ("normalize_batch[0]", sw::Projective::<P>::normalize_batch(&[pt, sw::Projective::<P>::zero(), pt])[0]),
            ("normalize_batch[2]", sw::Projective::<P>::normalize_batch(&[pt, sw::Projective::<P>::zero(), pt])[2]),
            ("-(-affine)", -(-pt.into_affine())),
        ];
        for (nm, a) in &routes {
            if t.idx_aff(a) != Some(idx) {
                loc.fail_at("seq_value", format!("{}: `{nm}` gives affine {:?} (conversion, outside C19)", what(), a));
                continue;
            }
            loc.class("equal_via_different_sequences");
            let w = || format!("{} affine via `{nm}` = {:?} vs oracle-built affine", what(), a);
            rel(loc, a, &want, true, &w);
            loc.check_at("predicates", a.is_zero() == isid && a.infinity == isid, || format!("{}: affine is_zero/infinity", w()));
            // round trip back to projective
            let back = a.into_group();
            rel(loc, &pt, &back, true, &|| format!("{} vs into_affine().into_group()", what()));
            loc.check_at("eq_affine_projective", (*a == pt) && (pt == *a), || format!("{}: Affine == Projective of the same point is false", w()));
        }
        if isid {
            for (nm, a) in [("Affine::identity()", sw::Affine::<P>::identity()), ("AffineRepr::zero()", <sw::Affine<P> as AffineRepr>::zero()), ("Affine::default()", sw::Affine::<P>::default())] {
                rel(loc, &pt.into_affine(), &a, true, &|| format!("{}: into_affine vs {nm}", what()));
            }
        }
    });
    // ---- all ordered pairs of representatives
    ctx.sweep(&format!("sw_pairs/{name}"), nr * nr, |i, loc| {
        let [iq, ip] = unrank(i, [nr, nr]);
        let (ia, pa, ka, za) = reps[ip as usize];
        let (ib, pb, kb, zb) = reps[iq as usize];
        let same = ia == ib;
        let what = || format!("{name}: P=#{ia} {:?} as ({},{},{}) Q=#{ib} {:?} as ({},{},{})", t.g.pts[ia], pa.x, pa.y, pa.z, t.g.pts[ib], pb.x, pb.y, pb.z);
        if loc.sampling() {
            loc.sample(what());
        }
        if same {
            loc.class_if(ia != id && za != zb, "projective_rescaled");
            loc.class_if(ia == id && (ka == K_ID_JUNK || kb == K_ID_JUNK), "identity_noncanonical");
        } else {
            loc.class_if(ia == id || ib == id, "identity_vs_finite");
            // same x, opposite y
            loc.class_if(ia != id && ib != id && t.g.add[ia][ib] == id, "opposite_points");
        }
        rel(loc, &pa, &pb, same, &what);
        // affine vs projective, both directions
        let aq = t.aff(ib);
        let (e1, e2) = (pa == aq, aq == pa);
        loc.class_if(same, "affine_vs_projective");
        loc.check_at("eq_affine_projective", e1 == same && e2 == same, || format!("{}: Projective==Affine(Q):{e1} Affine(Q)==Projective:{e2}, model same={same}", what()));
    });
    // ---- values produced by group operations (any Z the library chooses)
    let js = partner_list(n, t.gen, if ctx.quick() { 96 } else { 2000 });
    let zc: Vec<(u64, u64)> = if ctx.quick() { vec![(1, 1), (g, 2)] } else { vec![(1, 1), (g, 2), (1, g), (p - 1, p - 1)] };
    let (nj, nz) = (js.len() as u64, zc.len() as u64);
    ctx.sweep(&format!("sw_ops/{name}"), n as u64 * nj * nz, |c, loc| {
        let [iz, ij, i] = unrank(c, [nz, nj, n as u64]);
        let (i, j) = (i as usize, js[ij as usize]);
        let (zi, zj) = zc[iz as usize];
        let (pi, qj) = (t.proj(i, zi), t.proj(j, zj));
        let k = t.g.add[i][j];
        let what = || format!("{name}: P=#{i} {:?} (Z={zi}) Q=#{j} {:?} (Z={zj})", t.g.pts[i], t.g.pts[j]);
        if loc.sampling() {
            loc.sample(what());
        }
        let rs: Vec<(&str, usize, sw::Projective<P>)> = vec![
            ("P+Q", k, pi + qj),
            ("Q+P", k, qj + pi),
            ("P+affine(Q)", k, pi + t.aff(j)),
            ("(P+Q)-Q", i, (pi + qj) - qj),
            ("-(-P)", i, -(-pi)),
            ("P-P", id, pi - pi),
            ("P+(-P)", id, pi + (-pi)),
            ("P.double()", t.g.add[i][i], pi.double()),
            ("P+P", t.g.add[i][i], pi + pi),
            ("affine(P)+affine... via into_group", i, t.aff(i).into_group()),
        ];
        for (nm, e, r) in &rs {
            if t.idx_proj(r) != Some(*e) {
                loc.fail_at("seq_value", format!("{}: `{nm}` = ({},{},{}) does not decode to oracle point #{e} (group law, outside C19)", what(), r.x, r.y, r.z));
                continue;
            }
            loc.class("equal_via_different_sequences");
            let noncanon_id = *e == id && !(r.x.is_one() && r.y.is_one());
            loc.class_if(noncanon_id, "identity_noncanonical");
            loc.class_if(*e != id && !r.z.is_one(), "projective_rescaled");
            let canon = if *e == id { sw::Projective::<P>::zero() } else { t.proj(*e, 1) };
            let w = || format!("{}: `{nm}` = ({},{},{}) vs canonical representative of #{e}", what(), r.x, r.y, r.z);
            rel(loc, r, &canon, true, &w);
            let ae = t.aff(*e);
            loc.check_at("eq_affine_projective", (*r == ae) && (ae == *r), || format!("{}: != its affine form", w()));
            loc.check_at("predicates", r.is_zero() == (*e == id), || format!("{}: is_zero", w()));
            // a different point must not compare equal
            let other = (*e + 1) % n;
            let oc = if other == id { sw::Projective::<P>::zero() } else { t.proj(other, zj) };
            rel(loc, r, &oc, false, &|| format!("{}: `{nm}` vs a representative of #{other}", what()));
        }
    });
    // ---- containers
    ctx.sweep(&format!("sw_containers/{name}"), 1, |_, loc| {
        let mut set: HashSet<sw::Projective<P>, Bh> = HashSet::default();
        let mut aset: HashSet<sw::Affine<P>, Bh> = HashSet::default();
        // HashMapPippenger-style buffer: affine key -> accumulated scalar
        let mut buf: HashMap<sw::Affine<P>, P::ScalarField, Bh> = HashMap::default();
        let mut count = vec![0u64; n];
        for (idx, pt, _, _) in &reps {
            set.insert(*pt);
            let a = pt.into_affine();
            aset.insert(a);
            *buf.entry(a).or_insert(P::ScalarField::zero()) += P::ScalarField::one();
            count[*idx] += 1;
            loc.op();
        }
        for i in 0..n {
            let r = t.proj(i, 1) + t.proj(t.gen, 1) - t.aff(t.gen);
            if t.idx_proj(&r) == Some(i) {
                set.insert(r);
                *buf.entry(r.into_affine()).or_insert(P::ScalarField::zero()) += P::ScalarField::one();
                count[i] += 1;
            }
            aset.insert(t.aff(i));
        }
        loc.class("hashmap_dedup");
        loc.check_at("hashset", set.len() == n && aset.len() == n, || format!("{name}: all representations of the {n} points give {} HashSet<Projective> keys and {} HashSet<Affine> keys", set.len(), aset.len()));
        let mut ok = buf.len() == n;
        for i in 0..n {
            ok &= buf.get(&t.aff(i)).map(prime_to_u64) == Some(count[i] % t.r);
        }
        loc.check_at("hashmap", ok, || format!("{name}: affine-keyed scalar buffer has {} keys (want {n}) or wrong merged multiplicities", buf.len()));
    });
}

fn te_toy<P: te::TECurveConfig>(ctx: &mut Ctx, name: &str)
where
    P::BaseField: PrimeField,
    P::ScalarField: PrimeField,
{
    let t = TeToy::<P>::new(name);
    t.validate(ctx);
    let (p, n, id) = (t.p, t.n(), t.g.id);
    let g = prime_to_u64(&P::BaseField::GENERATOR);
    let tiny = p <= 31;
    let zs: Vec<u64> = if tiny { (1..p).collect() } else { dedup_keep(vec![1, 2, g, p - 1]) };
    let mut reps: Vec<(usize, te::Projective<P>, u8, u64)> = Vec::new();
    reps.push((id, te::Projective::<P>::zero(), K_ID_CANON, 1));
    reps.push((id, te::Projective::<P>::default(), K_ID_CANON, 1));
    for i in 0..n {
        for z in &zs {
            let kind = if i == id { if *z == 1 { K_ID_CANON } else { K_ID_JUNK } } else { K_RESCALED };
            reps.push((i, t.proj(i, *z), kind, *z));
        }
    }
    ctx.validate(reps.iter().all(|r| t.idx_proj(&r.1) == Some(r.0)), &format!("{name}: representatives decode to their oracle index"));
    let nr = reps.len() as u64;
    ctx.bound(&format!("curve/{name}"), format!("{n} points; Z in {} values (identity as (0,z,0,z) for each); {nr} representatives, all ordered pairs", zs.len()));
    ctx.sweep(&format!("te_reps/{name}"), nr, |i, loc| {
        let (idx, pt, kind, z) = reps[i as usize];
        let what = || format!("{name}: point #{idx} {:?} as (X,Y,T,Z)=({},{},{},{})", t.g.pts[idx], pt.x, pt.y, pt.t, pt.z);
        if loc.sampling() {
            loc.sample(what());
        }
        loc.class_if(kind == K_ID_JUNK, "identity_noncanonical");
        loc.class_if(kind == K_RESCALED && z != 1, "projective_rescaled");
        let isid = idx == id;
        loc.check_at("predicates", pt.is_zero() == isid && (pt == te::Projective::<P>::zero()) == isid && (pt == te::Projective::<P>::ZERO) == isid, || {
            format!("{}: is_zero / == zero() disagree with the oracle (identity={isid})", what())
        });
        rel(loc, &pt, &pt.clone(), true, &what);
        let want = t.aff(idx);
        let routes: Vec<(&str, te::Affine<P>)> = vec![
            ("into_affine", pt.into_affine()),
            ("Affine::from", te::Affine::<P>::from(pt)),
            ("normalize_batch[0]", te::Projective::<P>::normalize_batch(&[pt, te::Projective::<P>::zero(), pt])[0]),
            ("normalize_batch[2]", te::Projective::<P>::normalize_batch(&[pt, te::Projective::<P>::zero(), pt])[2]),
            ("-(-affine)", -(-pt.into_affine())),
        ];
        for (nm, a) in &routes {
            if t.idx_aff(a) != Some(idx) {
                loc.fail_at("seq_value", format!("{}: `{nm}` gives affine ({},{}) (conversion, outside C19)", what(), a.x, a.y));
                continue;
            }
            loc.class("equal_via_different_sequences");
            let w = || format!("{} affine via `{nm}` = ({},{}) vs oracle-built affine", what(), a.x, a.y);
            rel(loc, a, &want, true, &w);
            loc.check_at("predicates", a.is_zero() == isid && (*a == te::Affine::<P>::zero()) == isid, || format!("{}: affine is_zero / == zero()", w()));
            let back = a.into_group();
            rel(loc, &pt, &back, true, &|| format!("{} vs into_affine().into_group()", what()));
            loc.check_at("eq_affine_projective", (*a == pt) && (pt == *a), || format!("{}: Affine == Projective of the same point is false", w()));
        }
    });
    ctx.sweep(&format!("te_pairs/{name}"), nr * nr, |i, loc| {
        let [iq, ip] = unrank(i, [nr, nr]);
        let (ia, pa, ka, za) = reps[ip as usize];
        let (ib, pb, kb, zb) = reps[iq as usize];
        let same = ia == ib;
        let what = || format!("{name}: P=#{ia} {:?} as ({},{},{},{}) Q=#{ib} {:?} as ({},{},{},{})", t.g.pts[ia], pa.x, pa.y, pa.t, pa.z, t.g.pts[ib], pb.x, pb.y, pb.t, pb.z);
        if loc.sampling() {
            loc.sample(what());
        }
        if same {
            loc.class_if(ia != id && za != zb, "projective_rescaled");
            loc.class_if(ia == id && (ka == K_ID_JUNK || kb == K_ID_JUNK), "identity_noncanonical");
        } else {
            loc.class_if(ia == id || ib == id, "identity_vs_finite");
        }
        rel(loc, &pa, &pb, same, &what);
        let aq = t.aff(ib);
        let (e1, e2) = (pa == aq, aq == pa);
        loc.class_if(same, "affine_vs_projective");
        loc.check_at("eq_affine_projective", e1 == same && e2 == same, || format!("{}: Projective==Affine(Q):{e1} Affine(Q)==Projective:{e2}, model same={same}", what()));
    });
    // operations: on incomplete parameters the property (and the library formulas) only speak about the prime-order subgroup
    let dom: Vec<usize> = (0..n).filter(|i| t.complete || t.in_subgroup[*i]).collect();
    let js: Vec<usize> = partner_list(n, t.gen, if ctx.quick() { 96 } else { 2000 }).into_iter().filter(|i| t.complete || t.in_subgroup[*i]).collect();
    let zc: Vec<(u64, u64)> = if ctx.quick() { vec![(1, 1), (g, 2)] } else { vec![(1, 1), (g, 2), (1, g), (p - 1, p - 1)] };
    let (nd, nj, nz) = (dom.len() as u64, js.len() as u64, zc.len() as u64);
    ctx.sweep(&format!("te_ops/{name}"), nd * nj * nz, |c, loc| {
        let [iz, ij, ii] = unrank(c, [nz, nj, nd]);
        let (i, j) = (dom[ii as usize], js[ij as usize]);
        let (zi, zj) = zc[iz as usize];
        let (pi, qj) = (t.proj(i, zi), t.proj(j, zj));
        let k = t.g.add[i][j];
        let what = || format!("{name}: P=#{i} {:?} (Z={zi}) Q=#{j} {:?} (Z={zj})", t.g.pts[i], t.g.pts[j]);
        if loc.sampling() {
            loc.sample(what());
        }
        let rs: Vec<(&str, usize, te::Projective<P>)> = vec![
            ("P+Q", k, pi + qj),
            ("Q+P", k, qj + pi),
            ("P+affine(Q)", k, pi + t.aff(j)),
            ("(P+Q)-Q", i, (pi + qj) - qj),
            ("-(-P)", i, -(-pi)),
            ("P-P", id, pi - pi),
            ("P+(-P)", id, pi + (-pi)),
            ("P.double()", t.g.add[i][i], pi.double()),
            ("P+P", t.g.add[i][i], pi + pi),
            ("affine(P).into_group()", i, t.aff(i).into_group()),
        ];
        for (nm, e, r) in &rs {
            if *e == usize::MAX {
                continue;
            }
            if t.idx_proj(r) != Some(*e) {
                loc.fail_at("seq_value", format!("{}: `{nm}` = ({},{},{},{}) does not decode to oracle point #{e} (group law, outside C19)", what(), r.x, r.y, r.t, r.z));
                continue;
            }
            loc.class("equal_via_different_sequences");
            loc.class_if(*e == id && !r.z.is_one(), "identity_noncanonical");
            loc.class_if(*e != id && !r.z.is_one(), "projective_rescaled");
            let canon = if *e == id { te::Projective::<P>::zero() } else { t.proj(*e, 1) };
            let w = || format!("{}: `{nm}` = ({},{},{},{}) vs canonical representative of #{e}", what(), r.x, r.y, r.t, r.z);
            rel(loc, r, &canon, true, &w);
            let ae = t.aff(*e);
            loc.check_at("eq_affine_projective", (*r == ae) && (ae == *r), || format!("{}: != its affine form", w()));
            loc.check_at("predicates", r.is_zero() == (*e == id), || format!("{}: is_zero", w()));
            let other = (*e + 1) % n;
            rel(loc, r, &t.proj(other, zj), false, &|| format!("{}: `{nm}` vs a representative of #{other}", what()));
        }
    });
    ctx.sweep(&format!("te_containers/{name}"), 1, |_, loc| {
        let mut set: HashSet<te::Projective<P>, Bh> = HashSet::default();
        let mut aset: HashSet<te::Affine<P>, Bh> = HashSet::default();
        let mut buf: HashMap<te::Affine<P>, P::ScalarField, Bh> = HashMap::default();
        let mut count = vec![0u64; n];
        for (idx, pt, _, _) in &reps {
            set.insert(*pt);
            let a = pt.into_affine();
            aset.insert(a);
            *buf.entry(a).or_insert(P::ScalarField::zero()) += P::ScalarField::one();
            count[*idx] += 1;
            loc.op();
        }
        for i in &dom {
            let r = t.proj(*i, 1) + t.proj(t.gen, 1) - t.aff(t.gen);
            if t.idx_proj(&r) == Some(*i) {
                set.insert(r);
                *buf.entry(r.into_affine()).or_insert(P::ScalarField::zero()) += P::ScalarField::one();
                count[*i] += 1;
            }
        }
        loc.class("hashmap_dedup");
        loc.check_at("hashset", set.len() == n && aset.len() == n, || format!("{name}: all representations of the {n} points give {} HashSet<Projective> keys and {} HashSet<Affine> keys", set.len(), aset.len()));
        let mut ok = buf.len() == n;
        for i in 0..n {
            ok &= buf.get(&t.aff(i)).map(prime_to_u64) == Some(count[i] % t.r);
        }
        loc.check_at("hashmap", ok, || format!("{name}: affine-keyed scalar buffer has {} keys (want {n}) or wrong merged multiplicities", buf.len()));
    });
}

// ------------------------------------------------------------------ toy curves over F_49 / F_169 (extension base field)
mod ext_curves {
    use algebra_mc::toy::gen_fields::{D13, D43};
    use algebra_mc::toy::gen_towers::{T13Fq2, T7Fq2};
    use ark_ec::{short_weierstrass as sw, CurveConfig};
    use ark_ff::MontFp;
    macro_rules! ext_sw {
        ($name:ident, $F:ty, $R:ty, $h:expr, $hinv:expr, $a:expr, $b:expr, $gx:expr, $gy:expr) => {
            #[derive(Clone, Copy, Debug, Default, PartialEq, Eq)]
            pub struct $name;
            impl CurveConfig for $name {
                type BaseField = $F;
                type ScalarField = $R;
                const COFACTOR: &'static [u64] = &[$h];
                const COFACTOR_INV: $R = MontFp!($hinv);
            }
            impl sw::SWCurveConfig for $name {
                const COEFF_A: $F = $a;
                const COEFF_B: $F = $b;
                const GENERATOR: sw::Affine<Self> = sw::Affine::new_unchecked($gx, $gy);
            }
        };
    }
    // y^2 = x^3 + (2+3u) over F_7[u]/(u^2+1): 52 = 4 * 13 points, 2-torsion (same parameters as c03's SwQ7A0)
    ext_sw!(SwQ7A0, T7Fq2, D13, 4, "10", T7Fq2::new(MontFp!("0"), MontFp!("0")), T7Fq2::new(MontFp!("2"), MontFp!("3")), T7Fq2::new(MontFp!("1"), MontFp!("4")), T7Fq2::new(MontFp!("2"), MontFp!("0")));
    // y^2 = x^3 + u x + (2+2u) over F_13[u]/(u^2-2): 172 = 4 * 43 points (same parameters as c03's SwQ13A)
    ext_sw!(SwQ13A, T13Fq2, D43, 4, "11", T13Fq2::new(MontFp!("0"), MontFp!("1")), T13Fq2::new(MontFp!("2"), MontFp!("2")), T13Fq2::new(MontFp!("1"), MontFp!("2")), T13Fq2::new(MontFp!("5"), MontFp!("9")));
}

/// F_p[u]/(u^2 - beta) on u64 pairs (c0, c1)
#[derive(Clone, Copy)]
struct Q2 {
    p: u64,
    beta: u64,
}
type Q2e = (u64, u64);
impl Q2 {
    fn add(&self, a: Q2e, b: Q2e) -> Q2e {
        ((a.0 + b.0) % self.p, (a.1 + b.1) % self.p)
    }
    fn neg(&self, a: Q2e) -> Q2e {
        ((self.p - a.0) % self.p, (self.p - a.1) % self.p)
    }
    fn mul(&self, a: Q2e, b: Q2e) -> Q2e {
        let p = self.p;
        ((a.0 * b.0 + self.beta * (a.1 * b.1 % p)) % p, (a.0 * b.1 + a.1 * b.0) % p)
    }
    fn elem(&self, i: u64) -> Q2e {
        (i % self.p, i / self.p)
    }
}

/// every point of a toy curve over F_{p^2} in several projective scalings, INCLUDING Z outside the prime subfield:
/// `==`, Hash, Affine-vs-Projective for all ordered pairs of representatives; normalisation routes per representative
fn sw_ext_toy<P: sw::SWCurveConfig>(ctx: &mut Ctx, name: &str, f: Q2, want_points: usize)
where
    P::BaseField: Coord,
{
    type B<P> = <P as ark_ec::CurveConfig>::BaseField;
    let m = mont_of::<B<P>>();
    let big = |e: Q2e| vec![BigUint::from(e.0), BigUint::from(e.1)];
    let fe = |e: Q2e| -> B<P> { <B<P> as Coord>::build(&m, &big(e)) };
    let dec = |x: &B<P>| -> Q2e {
        let c = coords(&m, x);
        (c[0].to_u64_digits().first().copied().unwrap_or(0), c[1].to_u64_digits().first().copied().unwrap_or(0))
    };
    let (a, b) = (dec(&P::COEFF_A), dec(&P::COEFF_B));
    let q = f.p * f.p;
    // brute-force point list in the model
    let mut pts: Vec<Option<(Q2e, Q2e)>> = vec![None];
    for xi in 0..q {
        let x = f.elem(xi);
        let rhs = f.add(f.add(f.mul(f.mul(x, x), x), f.mul(a, x)), b);
        for yi in 0..q {
            let y = f.elem(yi);
            if f.mul(y, y) == rhs {
                pts.push(Some((x, y)));
            }
        }
    }
    let n = pts.len();
    ctx.validate(n == want_points, &format!("{name}: brute-force point count {n} (want {want_points})"));
    ctx.validate(<B<P> as Coord>::DEG == 2 && <B<P> as Coord>::modulus() == BigUint::from(f.p), &format!("{name}: base field is a quadratic extension of F_{}", f.p));
    let g = P::GENERATOR;
    ctx.validate(pts.contains(&Some((dec(&g.x), dec(&g.y)))), &format!("{name}: generator is on the curve"));
    // Z values: prime-subfield ones and genuinely quadratic ones
    let zs: Vec<Q2e> = vec![(1, 0), (2, 0), (f.p - 1, 0), (0, 1), (1, 1), (3, 2)];
    let junk: Vec<(Q2e, Q2e)> = vec![((0, 0), (0, 0)), ((1, 0), (1, 0)), ((0, 1), (2, 3)), ((3, 2), (0, 0))];
    // (point index, representative, z index or usize::MAX for identity forms, canonical identity)
    let mut reps: Vec<(usize, sw::Projective<P>, usize, bool)> = Vec::new();
    reps.push((0, sw::Projective::<P>::zero(), usize::MAX, true));
    reps.push((0, sw::Projective::<P>::default(), usize::MAX, true));
    for (jx, jy) in &junk {
        reps.push((0, sw::Projective::<P>::new_unchecked(fe(*jx), fe(*jy), fe((0, 0))), usize::MAX, (*jx, *jy) == ((1, 0), (1, 0))));
    }
    for (i, pt) in pts.iter().enumerate() {
        if let Some((x, y)) = pt {
            for (k, z) in zs.iter().enumerate() {
                let z2 = f.mul(*z, *z);
                reps.push((i, sw::Projective::<P>::new_unchecked(fe(f.mul(*x, z2)), fe(f.mul(*y, f.mul(z2, *z))), fe(*z)), k, false));
            }
        }
    }
    let aff = |i: usize| -> sw::Affine<P> {
        match pts[i] {
            None => sw::Affine::<P>::identity(),
            Some((x, y)) => sw::Affine::<P>::new_unchecked(fe(x), fe(y)),
        }
    };
    // model decoding of a projective representative: (X/Z^2, Y/Z^3) by brute-force search of the matching point
    let denote = |r: &sw::Projective<P>| -> Option<usize> {
        let (x, y, z) = (dec(&r.x), dec(&r.y), dec(&r.z));
        if z == (0, 0) {
            return Some(0);
        }
        let z2 = f.mul(z, z);
        let z3 = f.mul(z2, z);
        pts.iter().position(|p| matches!(p, Some((ax, ay)) if f.mul(*ax, z2) == x && f.mul(*ay, z3) == y))
    };
    ctx.validate(reps.iter().all(|r| denote(&r.1) == Some(r.0)), &format!("{name}: representatives decode to their oracle index"));
    let nr = reps.len() as u64;
    ctx.bound(&format!("curve_ext/{name}"), format!("{n} points over F_{}; Z in {zs:?} (pairs (c0, c1); three outside the prime subfield); {} identity representations; {nr} representatives, all ordered pairs", q, junk.len() + 2));
    ctx.sweep(&format!("sw_ext_reps/{name}"), nr, |i, loc| {
        let (idx, pt, zk, canon) = reps[i as usize];
        let what = || format!("{name}: point #{idx} {:?} as (X,Y,Z)=({},{},{})", pts[idx], pt.x, pt.y, pt.z);
        if loc.sampling() {
            loc.sample(what());
        }
        loc.class("curve_over_extension_field");
        loc.class_if(idx == 0 && !canon, "identity_noncanonical");
        loc.class_if(zk != usize::MAX && zk != 0, "projective_rescaled");
        loc.class_if(zk != usize::MAX && zs[zk].1 != 0, "projective_rescaled_by_non_subfield_Z");
        let isid = idx == 0;
        loc.check_at("predicates", pt.is_zero() == isid && (pt == sw::Projective::<P>::zero()) == isid, || format!("{}: is_zero / == zero() disagree with the oracle (identity={isid})", what()));
        let want = aff(idx);
        let routes: Vec<(&str, sw::Affine<P>)> = vec![
            ("into_affine", pt.into_affine()),
            ("Affine::from", sw::Affine::<P>::from(pt)),
            ("normalize_batch[0]", sw::Projective::<P>::normalize_batch(&[pt, sw::Projective::<P>::zero(), pt])[0]),
            ("normalize_batch[2]", sw::Projective::<P>::normalize_batch(&[pt, sw::Projective::<P>::zero(), pt])[2]),
        ];
        for (nm, a) in &routes {
            let ok = if isid { a.infinity } else { !a.infinity && Some((dec(&a.x), dec(&a.y))) == pts[idx] };
            if !ok {
                loc.fail_at("seq_value", format!("{}: `{nm}` gives affine {:?} (conversion, outside C19)", what(), a));
                continue;
            }
            loc.class("equal_via_different_sequences");
            let w = || format!("{} affine via `{nm}` = {:?} vs oracle-built affine", what(), a);
            rel(loc, a, &want, true, &w);
            rel(loc, &pt, &a.into_group(), true, &|| format!("{} vs `{nm}`.into_group()", what()));
            loc.check_at("eq_affine_projective", (*a == pt) && (pt == *a), || format!("{}: Affine == Projective of the same point is false", w()));
        }
    });
    ctx.sweep(&format!("sw_ext_pairs/{name}"), nr * nr, |i, loc| {
        let [iq, ip] = unrank(i, [nr, nr]);
        let (ia, pa, za, ca) = reps[ip as usize];
        let (ib, pb, zb, cb) = reps[iq as usize];
        let same = ia == ib;
        let what = || format!("{name}: P=#{ia} {:?} as ({},{},{}) Q=#{ib} {:?} as ({},{},{})", pts[ia], pa.x, pa.y, pa.z, pts[ib], pb.x, pb.y, pb.z);
        if loc.sampling() {
            loc.sample(what());
        }
        loc.class("curve_over_extension_field");
        if same {
            loc.class_if(ia != 0 && za != zb, "projective_rescaled");
            loc.class_if(ia != 0 && za != zb && (zs[za].1 != 0 || zs[zb].1 != 0), "projective_rescaled_by_non_subfield_Z");
            loc.class_if(ia == 0 && (!ca || !cb), "identity_noncanonical");
        } else {
            loc.class_if(ia == 0 || ib == 0, "identity_vs_finite");
            loc.class_if(matches!((pts[ia], pts[ib]), (Some((xa, ya)), Some((xb, yb))) if xa == xb && ya == f.neg(yb)), "opposite_points");
        }
        rel(loc, &pa, &pb, same, &what);
        let aq = aff(ib);
        let (e1, e2) = (pa == aq, aq == pa);
        loc.class_if(same, "affine_vs_projective");
        loc.check_at("eq_affine_projective", e1 == same && e2 == same, || format!("{}: Projective==Affine(Q):{e1} Affine(Q)==Projective:{e2}, model same={same}", what()));
    });
    ctx.sweep(&format!("sw_ext_containers/{name}"), 1, |_, loc| {
        let mut set: HashSet<sw::Projective<P>, Bh> = HashSet::default();
        let mut aset: HashSet<sw::Affine<P>, Bh> = HashSet::default();
        for (_, pt, _, _) in &reps {
            set.insert(*pt);
            aset.insert(pt.into_affine());
            loc.op();
        }
        loc.class("hashmap_dedup");
        loc.check_at("hashset", set.len() == n && aset.len() == n, || format!("{name}: all representations of the {n} points give {} HashSet<Projective> keys and {} HashSet<Affine> keys", set.len(), aset.len()));
    });
}

// ------------------------------------------------------------------ shipped curves (A)
/// a "generic-looking" non-zero element with every base-prime-field coordinate set
fn generic_elem<F: Field>() -> F {
    let d = F::extension_degree() as usize;
    let v: Vec<F::BasePrimeField> = (0..d).map(|k| F::BasePrimeField::from(GENERIC64) + F::BasePrimeField::from(3u64 + 2 * k as u64)).collect();
    F::from_base_prime_field_elems(v).expect("degree")
}

fn sw_shipped<P: sw::SWCurveConfig>(ctx: &mut Ctx, name: &str) {
    type B<P> = <P as ark_ec::CurveConfig>::BaseField;
    let gen = P::GENERATOR;
    let (x, y) = (gen.x, gen.y);
    // textbook tangent doubling with (C01/C02-checked) field operations
    let lam = (x.square() * B::<P>::from(3u64) + P::COEFF_A) / y.double();
    let x2 = lam.square() - x.double();
    let y2 = lam * (x - x2) - y;
    let on = |x: B<P>, y: B<P>| y.square() == x.square() * x + P::COEFF_A * x + P::COEFF_B;
    ctx.validate(on(x, y) && on(x2, y2) && x2 != x && !y.is_zero(), &format!("{name}: G and the model's 2G are on the curve, distinct x"));
    // labels: 0 = O, 1 = G, 2 = 2G, 3 = -G  (pairwise distinct: the generator has prime order r > 3)
    let labels: Vec<Option<(B<P>, B<P>)>> = vec![None, Some((x, y)), Some((x2, y2)), Some((x, -y))];
    let lname = ["O", "G", "2G", "-G"];
    let gz = generic_elem::<B<P>>();
    let zs: Vec<B<P>> = vec![B::<P>::one(), B::<P>::from(2u64), -B::<P>::one(), gz];
    let mut reps: Vec<(usize, String, sw::Projective<P>)> = Vec::new();
    for (l, xy) in labels.iter().enumerate() {
        if let Some((ax, ay)) = xy {
            for (k, z) in zs.iter().enumerate() {
                let z2 = z.square();
                reps.push((l, format!("rescaled by z#{k}"), sw::Projective::<P>::new_unchecked(*ax * z2, *ay * z2 * z, *z)));
            }
        }
    }
    reps.push((0, "zero()".into(), sw::Projective::<P>::zero()));
    for (k, jx) in [B::<P>::zero(), B::<P>::one(), gz].iter().enumerate() {
        for (l, jy) in [B::<P>::zero(), B::<P>::one(), gz].iter().enumerate() {
            reps.push((0, format!("(junk x#{k}, junk y#{l}, 0)"), sw::Projective::<P>::new_unchecked(*jx, *jy, B::<P>::zero())));
        }
    }
    let gp: sw::Projective<P> = gen.into_group();
    let two = P::ScalarField::from(2u64);
    let computed: Vec<(usize, &str, sw::Projective<P>)> = vec![
        (1, "generator().into_group()", gp),
        (1, "2G-G", gp.double() - gp),
        (1, "-(-G)", -(-gp)),
        (1, "G*1", gp * P::ScalarField::one()),
        (2, "G+G", gp + gp),
        (2, "G.double()", gp.double()),
        (2, "G+affine G", gp + gen),
        (2, "3G-G", (gp.double() + gp) - gp),
        (2, "G*2", gp * two),
        (3, "-G", -gp),
        (3, "O-G", sw::Projective::<P>::zero() - gp),
        (3, "2G-3G", gp.double() - (gp.double() + gp)),
        (3, "G*(-1)", gp * (-P::ScalarField::one())),
        (0, "G-G", gp - gp),
        (0, "G+(-G)", gp + (-gp)),
        (0, "2G-G-G", gp.double() - gp - gp),
        (0, "G*0", gp * P::ScalarField::zero()),
        (0, "affine identity into_group", sw::Affine::<P>::identity().into_group()),
    ];
    for (l, nm, r) in computed {
        reps.push((l, nm.to_string(), r));
    }
    // model decoding of a representative
    let denote = |r: &sw::Projective<P>| -> Option<usize> {
        if r.z == B::<P>::zero() {
            return Some(0);
        }
        let zi = B::<P>::one() / r.z;
        let zi2 = zi * zi;
        let pt = (r.x * zi2, r.y * zi2 * zi);
        labels.iter().position(|l| *l == Some(pt))
    };
    let affs: Vec<sw::Affine<P>> = labels.iter().map(|l| l.map_or(sw::Affine::<P>::identity(), |(ax, ay)| sw::Affine::<P>::new_unchecked(ax, ay))).collect();
    let nr = reps.len() as u64;
    ctx.sweep(&format!("sw_shipped/{name}"), nr * nr, |i, loc| {
        let [iq, ip] = unrank(i, [nr, nr]);
        let (la, na, pa) = &reps[ip as usize];
        let (lb, nb, pb) = &reps[iq as usize];
        let what = || format!("{name}: {} [{na}] vs {} [{nb}]", lname[*la], lname[*lb]);
        if loc.sampling() {
            loc.sample(what());
        }
        if denote(pa) != Some(*la) || denote(pb) != Some(*lb) {
            if ip == iq {
                loc.fail_at("seq_value", format!("{name}: {} [{na}] does not decode to its label (group law, outside C19)", lname[*la]));
            }
            return;
        }
        let same = la == lb;
        if same && ip != iq {
            loc.class("equal_via_different_sequences");
            loc.class_if(*la == 0, "identity_noncanonical");
            loc.class_if(*la != 0 && pa.z != pb.z, "projective_rescaled");
        }
        rel(loc, pa, pb, same, &what);
        let aq = affs[*lb];
        let (e1, e2) = (*pa == aq, aq == *pa);
        loc.check_at("eq_affine_projective", e1 == same && e2 == same, || format!("{}: Projective==Affine:{e1} Affine==Projective:{e2}, model same={same}", what()));
        let an = pa.into_affine();
        rel(loc, &an, &affs[*la], true, &|| format!("{}: into_affine vs coordinates-built affine", what()));
        loc.check_at("predicates", pa.is_zero() == (*la == 0), || format!("{}: is_zero", what()));
    });
    ctx.sweep(&format!("sw_shipped_containers/{name}"), 1, |_, loc| {
        let mut set: HashSet<sw::Projective<P>, Bh> = HashSet::default();
        let mut buf: HashMap<sw::Affine<P>, u64, Bh> = HashMap::default();
        let mut cnt = [0u64; 4];
        for (l, _, r) in &reps {
            if denote(r) == Some(*l) {
                set.insert(*r);
                *buf.entry(r.into_affine()).or_insert(0) += 1;
                cnt[*l] += 1;
                loc.op();
            }
        }
        loc.class("hashmap_dedup");
        let ok = (0..4).all(|l| buf.get(&affs[l]).copied() == Some(cnt[l]));
        loc.check_at("hashset", set.len() == 4 && buf.len() == 4 && ok, || format!("{name}: {} representations of O,G,2G,-G give {} projective keys / {} affine keys", reps.len(), set.len(), buf.len()));
    });
}

fn te_shipped<P: te::TECurveConfig>(ctx: &mut Ctx, name: &str) {
    type B<P> = <P as ark_ec::CurveConfig>::BaseField;
    let gen = P::GENERATOR;
    let (x, y) = (gen.x, gen.y);
    let one = B::<P>::one();
    let dxy = P::COEFF_D * x.square() * y.square();
    let x2 = (x * y).double() / (one + dxy);
    let y2 = (y.square() - P::COEFF_A * x.square()) / (one - dxy);
    let on = |x: B<P>, y: B<P>| P::COEFF_A * x.square() + y.square() == one + P::COEFF_D * x.square() * y.square();
    ctx.validate(on(x, y) && on(x2, y2) && !x.is_zero() && (x2, y2) != (x, y) && (x2, y2) != (-x, y), &format!("{name}: G and the model's 2G are on the curve and distinct"));
    let labels: Vec<(B<P>, B<P>)> = vec![(B::<P>::zero(), one), (x, y), (x2, y2), (-x, y)];
    let lname = ["O", "G", "2G", "-G"];
    let gz = generic_elem::<B<P>>();
    let zs: Vec<B<P>> = vec![one, B::<P>::from(2u64), -one, gz];
    let mut reps: Vec<(usize, String, te::Projective<P>)> = Vec::new();
    for (l, (ax, ay)) in labels.iter().enumerate() {
        for (k, z) in zs.iter().enumerate() {
            reps.push((l, format!("rescaled by z#{k}"), te::Projective::<P>::new_unchecked(*ax * z, *ay * z, *ax * ay * z, *z)));
        }
    }
    reps.push((0, "zero()".into(), te::Projective::<P>::zero()));
    let gp: te::Projective<P> = gen.into_group();
    let two = P::ScalarField::from(2u64);
    let computed: Vec<(usize, &str, te::Projective<P>)> = vec![
        (1, "generator().into_group()", gp),
        (1, "2G-G", gp.double() - gp),
        (1, "-(-G)", -(-gp)),
        (1, "G*1", gp * P::ScalarField::one()),
        (2, "G+G", gp + gp),
        (2, "G.double()", gp.double()),
        (2, "G+affine G", gp + gen),
        (2, "3G-G", (gp.double() + gp) - gp),
        (2, "G*2", gp * two),
        (3, "-G", -gp),
        (3, "O-G", te::Projective::<P>::zero() - gp),
        (3, "2G-3G", gp.double() - (gp.double() + gp)),
        (3, "G*(-1)", gp * (-P::ScalarField::one())),
        (0, "G-G", gp - gp),
        (0, "G+(-G)", gp + (-gp)),
        (0, "2G-G-G", gp.double() - gp - gp),
        (0, "G*0", gp * P::ScalarField::zero()),
        (0, "affine zero into_group", te::Affine::<P>::zero().into_group()),
    ];
    for (l, nm, r) in computed {
        reps.push((l, nm.to_string(), r));
    }
    let denote = |r: &te::Projective<P>| -> Option<usize> {
        if r.z == B::<P>::zero() {
            return None;
        }
        let zi = one / r.z;
        let pt = (r.x * zi, r.y * zi);
        if r.t * zi != pt.0 * pt.1 {
            return None;
        }
        labels.iter().position(|l| *l == pt)
    };
    let affs: Vec<te::Affine<P>> = labels.iter().map(|(ax, ay)| te::Affine::<P>::new_unchecked(*ax, *ay)).collect();
    let nr = reps.len() as u64;
    ctx.sweep(&format!("te_shipped/{name}"), nr * nr, |i, loc| {
        let [iq, ip] = unrank(i, [nr, nr]);
        let (la, na, pa) = &reps[ip as usize];
        let (lb, nb, pb) = &reps[iq as usize];
        let what = || format!("{name}: {} [{na}] vs {} [{nb}]", lname[*la], lname[*lb]);
        if loc.sampling() {
            loc.sample(what());
        }
        if denote(pa) != Some(*la) || denote(pb) != Some(*lb) {
            if ip == iq {
                loc.fail_at("seq_value", format!("{name}: {} [{na}] does not decode to its label (group law, outside C19)", lname[*la]));
            }
            return;
        }
        let same = la == lb;
        if same && ip != iq {
            loc.class("equal_via_different_sequences");
            loc.class_if(*la == 0 && (pa.z != one || pb.z != one), "identity_noncanonical");
            loc.class_if(*la != 0 && pa.z != pb.z, "projective_rescaled");
        }
        rel(loc, pa, pb, same, &what);
        let aq = affs[*lb];
        let (e1, e2) = (*pa == aq, aq == *pa);
        loc.check_at("eq_affine_projective", e1 == same && e2 == same, || format!("{}: Projective==Affine:{e1} Affine==Projective:{e2}, model same={same}", what()));
        let an = pa.into_affine();
        rel(loc, &an, &affs[*la], true, &|| format!("{}: into_affine vs coordinates-built affine", what()));
        loc.check_at("predicates", pa.is_zero() == (*la == 0) && an.is_zero() == (*la == 0), || format!("{}: is_zero", what()));
    });
    ctx.sweep(&format!("te_shipped_containers/{name}"), 1, |_, loc| {
        let mut set: HashSet<te::Projective<P>, Bh> = HashSet::default();
        let mut buf: HashMap<te::Affine<P>, u64, Bh> = HashMap::default();
        let mut cnt = [0u64; 4];
        for (l, _, r) in &reps {
            if denote(r) == Some(*l) {
                set.insert(*r);
                *buf.entry(r.into_affine()).or_insert(0) += 1;
                cnt[*l] += 1;
                loc.op();
            }
        }
        loc.class("hashmap_dedup");
        let ok = (0..4).all(|l| buf.get(&affs[l]).copied() == Some(cnt[l]));
        loc.check_at("hashset", set.len() == 4 && buf.len() == 4 && ok, || format!("{name}: {} representations of O,G,2G,-G give {} projective keys / {} affine keys", reps.len(), set.len(), buf.len()));
    });
}

// ------------------------------------------------------------------ pairing outputs
fn pairing_checks<E: Pairing>(ctx: &mut Ctx, name: &str)
where
    E::TargetField: Coord,
    E::ScalarField: FpAccess,
{
    let r = <E::ScalarField as FpAccess>::modulus_big();
    let m = mont_of::<E::TargetField>();
    let scal: Vec<BigUint> = vec![BigUint::zero(), BigUint::one(), BigUint::from(2u32), BigUint::from(3u32), &r - 1u32];
    let g1 = E::G1Affine::generator();
    let g2 = E::G2Affine::generator();
    // (exponent label ab mod r, description, value)
    let outs: Mutex<Vec<(u64, BigUint, String, PairingOutput<E>)>> = Mutex::new(Vec::new());
    let ns = scal.len() as u64;
    ctx.sweep(&format!("pairing_values/{name}"), ns * ns, |i, loc| {
        let [ib, ia] = unrank(i, [ns, ns]);
        let (a, b) = (&scal[ia as usize], &scal[ib as usize]);
        let ab = (a * b) % &r;
        let (fa, fb, fab) = (E::ScalarField::from(a.clone()), E::ScalarField::from(b.clone()), E::ScalarField::from(ab.clone()));
        let mut push = |k: u64, nm: String, f: &dyn Fn() -> PairingOutput<E>| match catch_unwind(AssertUnwindSafe(f)) {
            Ok(v) => outs.lock().unwrap().push((i * 16 + k, ab.clone(), nm, v)),
            Err(_) => {
                // a pairing that panics on an identity argument is C06's finding (F8), not an Eq/Hash matter
                loc.class("pairing_panics_on_identity_argument(C06 scope, skipped)");
            }
        };
        let ag = (g1.into_group() * fa).into_affine();
        let bh = (g2.into_group() * fb).into_affine();
        let abg = (g1.into_group() * fab).into_affine();
        let abh = (g2.into_group() * fab).into_affine();
        push(0, format!("e({a}G,{b}H)"), &|| E::pairing(ag, bh));
        push(1, format!("e({a}*{b}G,H)"), &|| E::pairing(abg, g2));
        push(2, format!("e(G,{a}*{b}H)"), &|| E::pairing(g1, abh));
        push(3, format!("e(G,H)*{a}*{b}"), &|| E::pairing(g1, g2) * fab);
        push(4, format!("(e(G,H)*{a})*{b}"), &|| (E::pairing(g1, g2) * fa) * fb);
        push(5, format!("multi_pairing([{a}G],[{b}H])"), &|| E::multi_pairing([ag], [bh]));
        if ia == 0 && ib == 0 {
            push(6, "PairingOutput::zero()".into(), &|| PairingOutput::<E>::zero());
            push(7, "PairingOutput::default()".into(), &|| PairingOutput::<E>::default());
            push(8, "e(G,H)-e(G,H)".into(), &|| E::pairing(g1, g2) - E::pairing(g1, g2));
            push(9, "PairingOutput(TargetField::one())".into(), &|| PairingOutput::<E>(E::TargetField::one()));
        }
        if ia == 1 && ib == 2 {
            push(6, "e(G,H)+e(G,H)".into(), &|| E::pairing(g1, g2) + E::pairing(g1, g2));
            push(7, "e(G,H).double()".into(), &|| E::pairing(g1, g2).double());
        }
        if ia == 1 && ib == 4 {
            push(6, "-e(G,H)".into(), &|| -E::pairing(g1, g2));
            push(7, "zero()-e(G,H)".into(), &|| PairingOutput::<E>::zero() - E::pairing(g1, g2));
        }
    });
    let mut outs = outs.into_inner().unwrap();
    outs.sort_by(|x, y| x.0.cmp(&y.0));
    let cs: Vec<Vec<BigUint>> = outs.iter().map(|o| coords(&m, &o.3 .0)).collect();
    let n = outs.len() as u64;
    let deg = <E::TargetField as Coord>::DEG;
    let chunk = deg / <E::TargetField as Coord>::ARITY;
    let orient = calibrate_order::<E::TargetField>(&m);
    report_orientation::<E::TargetField>(ctx, &format!("{name}::TargetField"), &m, &orient);
    let orient = &orient;
    ctx.bound(&format!("pairing/{name}"), format!("{n} outputs from a,b in {{0,1,2,3,r-1}} x forms e(aG,bH), e(abG,H), e(G,abH), e(G,H)*ab, (e*a)*b, multi_pairing, group-operation forms; all ordered pairs"));
    ctx.sweep(&format!("pairing_pairs/{name}"), n * n, |i, loc| {
        let [iy, ix] = unrank(i, [n, n]);
        let (x, y) = (&outs[ix as usize], &outs[iy as usize]);
        let (cx, cy) = (&cs[ix as usize], &cs[iy as usize]);
        let what = || format!("{name}: {} vs {}", x.2, y.2);
        if loc.sampling() {
            loc.sample(what());
        }
        let same = cx == cy;
        // bilinearity says: same exponent <=> same value (C06's job; only reported, under its own site)
        if (x.1 == y.1) != same {
            loc.fail_at("pairing_value", format!("{}: exponents {} / {} but decoded target-field values {} (bilinearity, outside C19)", what(), x.1, y.1, if same { "agree" } else { "differ" }));
            return;
        }
        if same && ix != iy {
            loc.class("equal_via_different_sequences");
        }
        if !same && cx[deg - chunk..] == cy[deg - chunk..] {
            loc.class("ext_order_tie_on_high_coeff");
        }
        rel(loc, &x.3, &y.3, same, &what);
        ord_rel(loc, &x.3, &y.3, orient.cmp(cx, cy), &what);
        let is_id = cx[0].is_one() && cx[1..].iter().all(|c| c.is_zero());
        loc.class_if(is_id, "pairing_output_identity");
        let v = x.3;
        let z = (v.is_zero(), v == PairingOutput::<E>::zero(), v == PairingOutput::<E>::ZERO, v == PairingOutput::<E>::default());
        loc.check_at("predicates", z == (is_id, is_id, is_id, is_id) && is_id == x.1.is_zero(), || {
            format!("{}: (is_zero, ==zero(), ==ZERO, ==default())={z:?}, decoded value is the target-field one: {is_id}, exponent {}", what(), x.1)
        });
    });
    ctx.sweep(&format!("pairing_containers/{name}"), 1, |_, loc| {
        let mut set: HashSet<PairingOutput<E>, Bh> = HashSet::default();
        let mut bt: BTreeSet<PairingOutput<E>> = BTreeSet::new();
        let mut distinct: Vec<&Vec<BigUint>> = Vec::new();
        for (o, c) in outs.iter().zip(&cs) {
            set.insert(o.3);
            bt.insert(o.3);
            if !distinct.contains(&c) {
                distinct.push(c);
            }
            loc.op();
        }
        distinct.sort_by(|a, b| orient.cmp(a, b));
        loc.class("hashmap_dedup");
        loc.check_at("hashset", set.len() == distinct.len(), || format!("{name}: {} outputs denoting {} values give {} HashSet keys", outs.len(), distinct.len(), set.len()));
        let got: Vec<Vec<BigUint>> = bt.iter().map(|o| coords(&m, &o.0)).collect();
        loc.check_at("btreeset", got.iter().collect::<Vec<_>>() == distinct, || format!("{name}: BTreeSet has {} keys (want {}) or is not in target-field order", got.len(), distinct.len()));
    });
    // ---- MillerLoopOutput (Eq + Ord, no Hash): a wrapper of a target-field element; same iff the decoded
    // coordinates agree, ordered like the target field
    let one = E::TargetField::one();
    let mut mls: Vec<(String, MillerLoopOutput<E>)> = Vec::new();
    let mut seen_vals: Vec<&Vec<BigUint>> = Vec::new();
    for (o, c) in outs.iter().zip(&cs) {
        if seen_vals.contains(&c) || seen_vals.len() >= 24 {
            continue;
        }
        seen_vals.push(c);
        mls.push((format!("MillerLoopOutput(value of {})", o.2), MillerLoopOutput::<E>(o.3 .0)));
        mls.push((format!("MillerLoopOutput((value of {}) * 1)", o.2), MillerLoopOutput::<E>(o.3 .0 * one)));
    }
    let g1p = g1.into_group();
    let g2p = g2.into_group();
    let computed: Vec<(&str, Box<dyn Fn() -> MillerLoopOutput<E>>)> = vec![
        ("miller_loop(G,H)", Box::new(|| E::miller_loop(g1, g2))),
        ("multi_miller_loop([G],[H])", Box::new(|| E::multi_miller_loop([g1], [g2]))),
        ("miller_loop(G,H) copied through (f+1)-1", Box::new(|| MillerLoopOutput::<E>((E::miller_loop(g1, g2).0 + one) - one))),
        ("miller_loop(G,H) * ScalarField::one()", Box::new(|| E::miller_loop(g1, g2) * E::ScalarField::one())),
        ("miller_loop(2G,H)", Box::new(|| E::miller_loop(g1p.double().into_affine(), g2))),
        ("miller_loop(G,2H)", Box::new(|| E::miller_loop(g1, g2p.double().into_affine()))),
        ("multi_miller_loop([G,G],[H,H])", Box::new(|| E::multi_miller_loop([g1, g1], [g2, g2]))),
    ];
    for (nm, f) in &computed {
        match catch_unwind(AssertUnwindSafe(|| f())) {
            Ok(v) => mls.push((nm.to_string(), v)),
            Err(_) => ctx.add_class("miller_loop_panics(C06 scope, skipped)", 1),
        }
    }
    let mcs: Vec<Vec<BigUint>> = mls.iter().map(|x| coords(&m, &x.1 .0)).collect();
    let nm = mls.len() as u64;
    ctx.bound(&format!("miller_loop_output/{name}"), format!("{nm} values: wrapped target-field values of the pairing outputs (plain and through *1) and Miller loops of (G,H), (2G,H), (G,2H) through miller_loop / multi_miller_loop / copies; all ordered pairs"));
    ctx.sweep(&format!("miller_loop_output_pairs/{name}"), nm * nm, |i, loc| {
        let [iy, ix] = unrank(i, [nm, nm]);
        let (x, y) = (&mls[ix as usize], &mls[iy as usize]);
        let (cx, cy) = (&mcs[ix as usize], &mcs[iy as usize]);
        let what = || format!("{name}: {} vs {}", x.0, y.0);
        if loc.sampling() {
            loc.sample(what());
        }
        let same = cx == cy;
        loc.class_if(same && ix != iy, "equal_via_different_sequences");
        loc.class_if(same, "pair_equal");
        rel_eq(loc, &x.1, &y.1, same, &what);
        ord_rel(loc, &x.1, &y.1, orient.cmp(cx, cy), &what);
    });
}

// ------------------------------------------------------------------ polynomials over F_5
use algebra_mc::toy::gen_fields::D5;
type DP = DensePolynomial<D5>;
type SP = SparsePolynomial<D5>;
type DM = DenseMultilinearExtension<D5>;
type SM = SparseMultilinearExtension<D5>;

/// raw-limb decoding of a D5 element (u64 arithmetic)
fn d5(x: &D5) -> u64 {
    // R = 2^64 mod 5 = 1 (2^4 = 1 mod 5), so R^-1 = 1; computed, not assumed:
    let r = ((u64::MAX % 5) + 1) % 5;
    let rinv = (1..5).find(|k| (k * r) % 5 == 1).unwrap();
    ((x.0).0[0] % 5) * rinv % 5
}
fn f5(v: u64) -> D5 {
    <D5 as FpAccess>::from_raw(&[(v % 5) * (((u64::MAX % 5) + 1) % 5) % 5])
}
fn strip(mut v: Vec<u64>) -> Vec<u64> {
    while v.last() == Some(&0) {
        v.pop();
    }
    v
}
fn guard<R>(loc: &mut Loc, nm: &str, what: &dyn Fn() -> String, f: impl FnOnce() -> R) -> Option<R> {
    match catch_unwind(AssertUnwindSafe(f)) {
        Ok(r) => Some(r),
        Err(_) => {
            loc.fail_at("seq_value", format!("{}: `{nm}` panics (polynomial arithmetic, outside C19)", what()));
            None
        }
    }
}

/// Sparse MULTIVARIATE polynomials over D5 in two variables: all coefficient vectors over {0, 1, 4} on the
/// monomials {1, x0, x1, x0 x1, x0^2}; results of different operation sequences that denote the same
/// polynomial must be == and hash-equal (the same terms declared with a larger `num_vars`: only `==` => equal hashes).
fn mv_poly_checks(ctx: &mut Ctx) {
    use ark_poly::multivariate::{SparsePolynomial as MvP, SparseTerm, Term};
    use ark_poly::DenseMVPolynomial;
    type MP = MvP<D5, SparseTerm>;
    let monos: Vec<Vec<(usize, usize)>> = vec![vec![], vec![(0, 1)], vec![(1, 1)], vec![(0, 1), (1, 1)], vec![(0, 2)]];
    // the same monomials as unnormalised `SparseTerm::new` inputs: zero powers, reversed variables, split powers
    let monos_unnorm: Vec<Vec<(usize, usize)>> = vec![vec![(1, 0)], vec![(1, 0), (0, 1)], vec![(1, 1), (0, 0)], vec![(1, 1), (0, 1)], vec![(0, 1), (0, 1)]];
    let alpha = [0u64, 1, 4];
    let n = 3u64.pow(5);
    let build = |cv: &[u64], nv: usize| -> MP { MP::from_coefficients_vec(nv, cv.iter().enumerate().filter(|(_, c)| **c != 0).map(|(i, c)| (f5(*c), SparseTerm::new(monos[i].clone()))).collect()) };
    let cvec = |i: u64| -> Vec<u64> { unrank_vec(i, &[3, 3, 3, 3, 3]).iter().map(|k| alpha[*k as usize]).collect() };
    ctx.sweep("poly_multivariate_sparse/D5", n * n, |i, loc| {
        let [ib, ia] = unrank(i, [n, n]);
        let (ca, cb) = (cvec(ia), cvec(ib));
        let (a0, b0) = (build(&ca, 2), build(&cb, 2));
        let what = || format!("multivariate a={ca:?} b={cb:?} (coefficients of 1, x0, x1, x0*x1, x0^2)");
        if loc.sampling() {
            loc.sample(what());
        }
        rel(loc, &a0, &b0, ca == cb, &what);
        let zero = MP::zero();
        let w: &dyn Fn() -> String = &what;
        let mut rs: Vec<(&str, Option<MP>)> = Vec::new();
        rs.push(("(&a+&b)-&b", guard(loc, "(&a+&b)-&b", w, || &(&a0 + &b0) - &b0)));
        rs.push(("(&a-&b)+&b", guard(loc, "(&a-&b)+&b", w, || &(&a0 - &b0) + &b0)));
        rs.push(("a+=(0,&b)", guard(loc, "a+=(0,&b)", w, || {
            let mut t = a0.clone();
            t += (f5(0), &b0);
            t
        })));
        rs.push(("a+=(3,&b);a+=(2,&b)", guard(loc, "a+=(3,&b);a+=(2,&b)", w, || {
            let mut t = a0.clone();
            t += (f5(3), &b0);
            t += (f5(2), &b0);
            t
        })));
        rs.push(("a+=&b;a-=&b", guard(loc, "a+=&b;a-=&b", w, || {
            let mut t = a0.clone();
            t += &b0;
            t -= &b0;
            t
        })));
        rs.push(("-(-a)", guard(loc, "-(-a)", w, || -(-a0.clone()))));
        rs.push(("&a+&zero", guard(loc, "&a+&zero", w, || &a0 + &zero)));
        // the same terms declared with a larger num_vars: the property does not say whether that is "the same
        // polynomial" (either answer of == is fine); only "== implies equal hashes" is demanded
        if let Some(a3) = guard(loc, "from_coefficients_vec(3, ..)", w, || build(&ca, 3)) {
            let eq = rel_consistent(loc, &a0, &a3, &|| format!("{}: a declared with num_vars = 2 vs the same terms declared with num_vars = 3", what()));
            loc.class(if eq { "different_num_vars:library_says_equal(metric)" } else { "different_num_vars:library_says_different(metric)" });
            // and within num_vars = 3 the usual relation holds
            if ia == ib || ib < 3 {
                if let Some(b3) = guard(loc, "from_coefficients_vec(3, ..)", w, || build(&cb, 3)) {
                    rel(loc, &a3, &b3, ca == cb, &|| format!("{}: both declared with num_vars = 3", what()));
                }
            }
        }
        rs.push(("same terms, SparseTerm::new given unnormalised inputs", guard(loc, "SparseTerm::new(unnormalised)", w, || {
            MP::from_coefficients_vec(2, ca.iter().enumerate().filter(|(_, c)| **c != 0).map(|(i, c)| (f5(*c), SparseTerm::new(monos_unnorm[i].clone()))).collect())
        })));
        rs.push(("same terms listed in reverse order", guard(loc, "from_coefficients_vec(reversed)", w, || {
            MP::from_coefficients_vec(2, ca.iter().enumerate().rev().filter(|(_, c)| **c != 0).map(|(i, c)| (f5(*c), SparseTerm::new(monos[i].clone()))).collect())
        })));
        for (nm, r) in rs.iter() {
            if let Some(r) = r {
                loc.class("equal_via_different_sequences");
                rel(loc, &a0, r, true, &|| format!("{}: `{nm}` (stored {:?}) vs a", what(), r.terms.iter().map(|(c, t)| (d5(c), t.iter().cloned().collect::<Vec<_>>())).collect::<Vec<_>>()));
            }
        }
        if let Some(d) = guard(loc, "&a-&a", w, || &a0 - &a0) {
            rel(loc, &zero, &d, true, &|| format!("{}: `&a-&a` (stored {} terms) vs zero()", what(), d.terms.len()));
            loc.check_at("predicates", d.is_zero(), || format!("{}: (&a-&a).is_zero() is false", what()));
        }
    });
}

fn dense_poly_checks(ctx: &mut Ctx) {
    let n = 125u64;
    let dig3 = |i: u64| -> Vec<u64> { unrank_vec(i, &[5, 5, 5]) };
    let all_keys: Mutex<HashSet<DP, Bh>> = Mutex::new(HashSet::default());
    ctx.sweep("poly_dense/D5", n * n, |i, loc| {
        let [ib, ia] = unrank(i, [n, n]);
        let (ra, rb) = (dig3(ia), dig3(ib));
        let (ma, mb) = (strip(ra.clone()), strip(rb.clone()));
        let a0 = DP::from_coefficients_vec(ma.iter().map(|c| f5(*c)).collect());
        let b0 = DP::from_coefficients_vec(mb.iter().map(|c| f5(*c)).collect());
        let what = || format!("dense a={ma:?} b={mb:?} (coefficients, constant term first)");
        if loc.sampling() {
            loc.sample(what());
        }
        rel(loc, &a0, &b0, ma == mb, &what);
        let one = DP::from_coefficients_vec(vec![f5(1)]);
        let zero = DP::zero();
        let f = f5(3);
        let mut rs: Vec<(&str, Option<DP>)> = Vec::new();
        let w: &dyn Fn() -> String = &what;
        rs.push(("from_coefficients_vec(with trailing zeros)", guard(loc, "from_coefficients_vec", w, || DP::from_coefficients_vec(ra.iter().map(|c| f5(*c)).chain([f5(0), f5(0)]).collect()))));
        rs.push(("from_coefficients_slice(with trailing zeros)", guard(loc, "from_coefficients_slice", w, || DP::from_coefficients_slice(&ra.iter().map(|c| f5(*c)).collect::<Vec<_>>()))));
        rs.push(("(&a+&b)-&b", guard(loc, "(&a+&b)-&b", w, || &(&a0 + &b0) - &b0)));
        rs.push(("(&a-&b)+&b", guard(loc, "(&a-&b)+&b", w, || &(&a0 - &b0) + &b0)));
        rs.push(("a+=&b;a-=&b", guard(loc, "a+=&b;a-=&b", w, || {
            let mut t = a0.clone();
            t += &b0;
            t -= &b0;
            t
        })));
        rs.push(("a-=&b;a+=&b", guard(loc, "a-=&b;a+=&b", w, || {
            let mut t = a0.clone();
            t -= &b0;
            t += &b0;
            t
        })));
        rs.push(("a+=(3,&b);a+=(2,&b)", guard(loc, "a+=(f,&b)", w, || {
            let mut t = a0.clone();
            t += (f, &b0);
            t += (-f, &b0);
            t
        })));
        rs.push(("a+=(0,&b)", guard(loc, "a+=(0,&b)", w, || {
            let mut t = a0.clone();
            t += (f5(0), &b0);
            t
        })));
        rs.push(("-(-a)", guard(loc, "-(-a)", w, || -(-a0.clone()))));
        rs.push(("&a*1", guard(loc, "&a*1", w, || &a0 * f5(1))));
        rs.push(("(&a*2)*3", guard(loc, "(&a*2)*3", w, || &(&a0 * f5(2)) * f5(3))));
        rs.push(("a.naive_mul(1)", guard(loc, "naive_mul", w, || a0.naive_mul(&one))));
        rs.push(("&a+&0", guard(loc, "&a+&0", w, || &a0 + &zero)));
        rs.push(("&0+&a", guard(loc, "&0+&a", w, || &zero + &a0)));
        rs.push(("&a-&0", guard(loc, "&a-&0", w, || &a0 - &zero)));
        rs.push(("dense(sparse(a))", guard(loc, "dense(sparse(a))", w, || DP::from(SP::from(a0.clone())))));
        rs.push(("&a+&sparse(b) then -=&sparse(b)", guard(loc, "dense+-sparse", w, || {
            let sb = SP::from(b0.clone());
            let mut t = &a0 + &sb;
            t -= &sb;
            t
        })));
        if !mb.is_empty() {
            rs.push(("(a.naive_mul(b))/b", guard(loc, "(a*b)/b", w, || &a0.naive_mul(&b0) / &b0)));
        }
        for (nm, r) in &rs {
            let Some(r) = r else { continue };
            let mr = strip(r.coeffs.iter().map(d5).collect());
            if mr != ma {
                loc.fail_at("seq_value", format!("{}: `{nm}` gives {:?} (arithmetic, outside C19)", what(), mr));
                continue;
            }
            loc.class("equal_via_different_sequences");
            loc.class_if(r.coeffs.len() != ma.len(), "result_with_trailing_zero_coefficients");
            rel(loc, &a0, r, true, &|| format!("{} via `{nm}` (stored coefficients {:?})", what(), r.coeffs.iter().map(d5).collect::<Vec<_>>()));
            loc.check_at("predicates", r.is_zero() == ma.is_empty() && (*r == DP::zero()) == ma.is_empty(), || format!("{} via `{nm}`: is_zero / == zero()", what()));
            if ib < 3 {
                all_keys.lock().unwrap().insert(r.clone());
            }
        }
        // zero reached in several ways
        if ib == 0 {
            let zs: Vec<(&str, Option<DP>)> = vec![
                ("&a-&a", guard(loc, "&a-&a", w, || &a0 - &a0)),
                ("a-=&a", guard(loc, "a-=&a", w, || {
                    let mut t = a0.clone();
                    t -= &a0;
                    t
                })),
                ("&a*0", guard(loc, "&a*0", w, || &a0 * f5(0))),
                ("&a+&(-a)", guard(loc, "&a+&(-a)", w, || &a0 + &(-a0.clone()))),
                ("from_coefficients_vec([0,0,0])", guard(loc, "from_coefficients_vec zeros", w, || DP::from_coefficients_vec(vec![f5(0); 3]))),
                ("a.naive_mul(0)", guard(loc, "naive_mul(0)", w, || a0.naive_mul(&zero))),
            ];
            for (nm, r) in &zs {
                let Some(r) = r else { continue };
                if !strip(r.coeffs.iter().map(d5).collect()).is_empty() {
                    loc.fail_at("seq_value", format!("{}: `{nm}` is not zero", what()));
                    continue;
                }
                loc.class("equal_via_different_sequences");
                rel(loc, &zero, r, true, &|| format!("{}: `{nm}` (stored {:?}) vs DensePolynomial::zero()", what(), r.coeffs.iter().map(d5).collect::<Vec<_>>()));
                loc.check_at("predicates", r.is_zero(), || format!("{}: `{nm}`.is_zero()", what()));
            }
        }
    });
    let keys = all_keys.into_inner().unwrap();
    ctx.sweep("poly_dense_containers/D5", 1, |_, loc| {
        loc.class("hashmap_dedup");
        loc.check_at("hashset", keys.len() == 125, || format!("dense polynomials with <= 3 coefficients over F_5 reached by all sequences: {} HashSet keys, want 125", keys.len()));
    });
}

fn sparse_poly_checks(ctx: &mut Ctx) {
    let n = 125u64;
    const DEGS: [usize; 3] = [0, 3, 8];
    let terms = |i: u64| -> Vec<(usize, u64)> { unrank_vec(i, &[5, 5, 5]).iter().enumerate().filter(|(_, c)| **c != 0).map(|(k, c)| (DEGS[k], *c)).collect() };
    let mk = |t: &[(usize, u64)]| SP::from_coefficients_vec(t.iter().map(|(d, c)| (*d, f5(*c))).collect());
    let model = |s: &SP| -> Vec<(usize, u64)> {
        let mut v: Vec<(usize, u64)> = Vec::new();
        for (d, c) in s.iter() {
            let c = d5(c);
            if let Some(e) = v.iter_mut().find(|e| e.0 == *d) {
                e.1 = (e.1 + c) % 5;
            } else {
                v.push((*d, c));
            }
        }
        v.retain(|e| e.1 != 0);
        v.sort();
        v
    };
    let all_keys: Mutex<HashSet<SP, Bh>> = Mutex::new(HashSet::default());
    ctx.sweep("poly_sparse/D5", n * n, |i, loc| {
        let [ib, ia] = unrank(i, [n, n]);
        let (ta, tb) = (terms(ia), terms(ib));
        let (a0, b0) = (mk(&ta), mk(&tb));
        let what = || format!("sparse a={ta:?} b={tb:?} ((degree, coefficient) terms)");
        if loc.sampling() {
            loc.sample(what());
        }
        rel(loc, &a0, &b0, ta == tb, &what);
        let w: &dyn Fn() -> String = &what;
        let one = mk(&[(0, 1)]);
        let f = f5(3);
        let mut rs: Vec<(&str, Option<SP>)> = Vec::new();
        rs.push(("from_coefficients_vec(reversed, with a zero term)", guard(loc, "from_coefficients_vec", w, || {
            let mut v: Vec<(usize, D5)> = ta.iter().rev().map(|(d, c)| (*d, f5(*c))).collect();
            v.insert(v.len() / 2, (5, f5(0)));
            SP::from_coefficients_vec(v)
        })));
        rs.push(("from_coefficients_slice", guard(loc, "from_coefficients_slice", w, || SP::from_coefficients_slice(&ta.iter().map(|(d, c)| (*d, f5(*c))).collect::<Vec<_>>()))));
        rs.push(("(&a+&b) -= &b", guard(loc, "(&a+&b)-=&b", w, || {
            let mut t = &a0 + &b0;
            t -= &b0;
            t
        })));
        rs.push(("a+=&b;a-=&b", guard(loc, "a+=&b;a-=&b", w, || {
            let mut t = a0.clone();
            t += &b0;
            t -= &b0;
            t
        })));
        rs.push(("a-=&b;a+=&b", guard(loc, "a-=&b;a+=&b", w, || {
            let mut t = a0.clone();
            t -= &b0;
            t += &b0;
            t
        })));
        rs.push(("a+=(3,&b);a+=(2,&b)", guard(loc, "a+=(f,&b)", w, || {
            let mut t = a0.clone();
            t += (f, &b0);
            t += (-f, &b0);
            t
        })));
        rs.push(("a+=(0,&b)", guard(loc, "a+=(0,&b)", w, || {
            let mut t = a0.clone();
            t += (f5(0), &b0);
            t
        })));
        rs.push(("-(-a)", guard(loc, "-(-a)", w, || -(-a0.clone()))));
        rs.push(("&a*1", guard(loc, "&a*1", w, || &a0 * f5(1))));
        rs.push(("(&a*2)*3", guard(loc, "(&a*2)*3", w, || &(&a0 * f5(2)) * f5(3))));
        rs.push(("a.mul(1)", guard(loc, "a.mul(1)", w, || a0.mul(&one))));
        rs.push(("a+0", guard(loc, "a+0", w, || a0.clone() + SP::zero())));
        rs.push(("sparse(dense(a))", guard(loc, "sparse(dense(a))", w, || SP::from(DP::from(a0.clone())))));
        for (nm, r) in &rs {
            let Some(r) = r else { continue };
            if model(r) != ta {
                loc.fail_at("seq_value", format!("{}: `{nm}` gives {:?} (arithmetic, outside C19)", what(), model(r)));
                continue;
            }
            loc.class("equal_via_different_sequences");
            rel(loc, &a0, r, true, &|| format!("{} via `{nm}` (stored terms {:?})", what(), r.iter().map(|(d, c)| (*d, d5(c))).collect::<Vec<_>>()));
            loc.check_at("predicates", r.is_zero() == ta.is_empty() && (*r == SP::zero()) == ta.is_empty(), || format!("{} via `{nm}`: is_zero / == zero()", what()));
            if ib < 3 {
                all_keys.lock().unwrap().insert(r.clone());
            }
        }
        if ib == 0 {
            let zs: Vec<(&str, Option<SP>)> = vec![
                ("a-=&a", guard(loc, "a-=&a", w, || {
                    let mut t = a0.clone();
                    t -= &a0;
                    t
                })),
                ("&a*0", guard(loc, "&a*0", w, || &a0 * f5(0))),
                ("&a+&(-a)", guard(loc, "&a+&(-a)", w, || &a0 + &(-a0.clone()))),
                ("from_coefficients_vec([(2,0)])", guard(loc, "from_coefficients_vec zero term", w, || SP::from_coefficients_vec(vec![(2, f5(0))]))),
                ("a.mul(0)", guard(loc, "a.mul(0)", w, || a0.mul(&SP::zero()))),
            ];
            for (nm, r) in &zs {
                let Some(r) = r else { continue };
                if !model(r).is_empty() {
                    loc.fail_at("seq_value", format!("{}: `{nm}` is not zero", what()));
                    continue;
                }
                loc.class("equal_via_different_sequences");
                rel(loc, &SP::zero(), r, true, &|| format!("{}: `{nm}` (stored {:?}) vs SparsePolynomial::zero()", what(), r.iter().map(|(d, c)| (*d, d5(c))).collect::<Vec<_>>()));
                loc.check_at("predicates", r.is_zero(), || format!("{}: `{nm}`.is_zero()", what()));
            }
        }
    });
    let keys = all_keys.into_inner().unwrap();
    ctx.sweep("poly_sparse_containers/D5", 1, |_, loc| {
        loc.class("hashmap_dedup");
        loc.check_at("hashset", keys.len() == 125, || format!("sparse polynomials with <= 3 terms over F_5 reached by all sequences: {} HashSet keys, want 125", keys.len()));
    });
}

/// multilinear extensions: tables over {0,1}^nv, nv = 0, 1, 2 (all tables; all ordered pairs of equal nv)
fn mle_checks(ctx: &mut Ctx) {
    for nv in 0..=2usize {
        let len = 1usize << nv;
        let n = 5u64.pow(len as u32);
        let table = move |i: u64| -> Vec<u64> { unrank_vec(i, &vec![5u64; len]) };
        let dm = move |t: &[u64]| DM::from_evaluations_vec(nv, t.iter().map(|c| f5(*c)).collect());
        let sm = move |t: &[u64]| SM::from_evaluations(nv, &t.iter().enumerate().filter(|(_, c)| **c != 0).map(|(k, c)| (k, f5(*c))).collect::<Vec<_>>());
        let stable = move |s: &SM| -> Vec<u64> {
            let mut t = vec![0u64; len];
            for (k, v) in &s.evaluations {
                if *k < len {
                    t[*k] = d5(v);
                }
            }
            t
        };
        ctx.sweep(&format!("mle_dense/D5/nv={nv}"), n * n, |i, loc| {
            let [ib, ia] = unrank(i, [n, n]);
            let (ta, tb) = (table(ia), table(ib));
            let (a0, b0) = (dm(&ta), dm(&tb));
            let what = || format!("dense MLE nv={nv} a={ta:?} b={tb:?}");
            if loc.sampling() {
                loc.sample(what());
            }
            rel(loc, &a0, &b0, ta == tb, &what);
            let w: &dyn Fn() -> String = &what;
            let f = f5(3);
            let rs: Vec<(&str, Option<DM>)> = vec![
                ("from_evaluations_slice", guard(loc, "from_evaluations_slice", w, || DM::from_evaluations_slice(nv, &ta.iter().map(|c| f5(*c)).collect::<Vec<_>>()))),
                ("(&a+&b)-&b", guard(loc, "(&a+&b)-&b", w, || &(&a0 + &b0) - &b0)),
                ("(&a-&b)+&b", guard(loc, "(&a-&b)+&b", w, || &(&a0 - &b0) + &b0)),
                ("a+=&b;a-=&b", guard(loc, "a+=&b;a-=&b", w, || {
                    let mut t = a0.clone();
                    t += &b0;
                    t -= &b0;
                    t
                })),
                ("a+=(3,&b);a+=(2,&b)", guard(loc, "a+=(f,&b)", w, || {
                    let mut t = a0.clone();
                    t += (f, &b0);
                    t += (-f, &b0);
                    t
                })),
                ("a+=(0,&b)", guard(loc, "a+=(0,&b)", w, || {
                    let mut t = a0.clone();
                    t += (f5(0), &b0);
                    t
                })),
                ("-(-a)", guard(loc, "-(-a)", w, || -(-a0.clone()))),
                ("&a*&1", guard(loc, "&a*&1", w, || &a0 * &f5(1))),
                ("(&a*&2)*&3", guard(loc, "(&a*&2)*&3", w, || &(&a0 * &f5(2)) * &f5(3))),
                ("a+zero()", guard(loc, "a+zero()", w, || a0.clone() + DM::zero())),
                ("sparse(a).to_dense_multilinear_extension()", guard(loc, "sparse->dense", w, || sm(&ta).to_dense_multilinear_extension())),
            ];
            for (nm, r) in &rs {
                let Some(r) = r else { continue };
                let tr: Vec<u64> = r.evaluations.iter().map(d5).collect();
                if r.num_vars != nv {
                    // the library's documented special zero (num_vars = 0): whether it "is" the n-variable object is
                    // not the property's business - only `==` => equal hashes is demanded
                    loc.class("mle_special_zero_skipped");
                    let eq = rel_consistent(loc, &a0, r, &|| format!("{} via `{nm}` (result has num_vars = {})", what(), r.num_vars));
                    loc.class(if eq { "different_num_vars:library_says_equal(metric)" } else { "different_num_vars:library_says_different(metric)" });
                    continue;
                }
                if tr != ta {
                    loc.fail_at("seq_value", format!("{}: `{nm}` gives {:?} (arithmetic, outside C19)", what(), tr));
                    continue;
                }
                loc.class("equal_via_different_sequences");
                rel(loc, &a0, r, true, &|| format!("{} via `{nm}`", what()));
            }
            if ib == 0 {
                // the zero function of nv variables (NOT the special zero unless nv = 0)
                let z0 = dm(&vec![0u64; len]);
                for (nm, r) in [("&a-&a", guard(loc, "&a-&a", w, || &a0 - &a0)), ("&a+&(-a)", guard(loc, "&a+&(-a)", w, || &a0 + &(-a0.clone())))] {
                    let Some(r) = r else { continue };
                    if r.num_vars != nv {
                        loc.class("mle_special_zero_skipped");
                        let eq = rel_consistent(loc, &z0, &r, &|| format!("{}: `{nm}` (result has num_vars = {}) vs the zero table of {nv} variables", what(), r.num_vars));
                        loc.class(if eq { "different_num_vars:library_says_equal(metric)" } else { "different_num_vars:library_says_different(metric)" });
                        continue;
                    }
                    if r.evaluations.iter().any(|c| d5(c) != 0) {
                        loc.fail_at("seq_value", format!("{}: `{nm}` is not zero", what()));
                        continue;
                    }
                    loc.class("equal_via_different_sequences");
                    rel(loc, &z0, &r, true, &|| format!("{}: `{nm}` vs the zero table of {nv} variables", what()));
                }
            }
        });
        ctx.sweep(&format!("mle_sparse/D5/nv={nv}"), n * n, |i, loc| {
            let [ib, ia] = unrank(i, [n, n]);
            let (ta, tb) = (table(ia), table(ib));
            let (a0, b0) = (sm(&ta), sm(&tb));
            let what = || format!("sparse MLE nv={nv} a={ta:?} b={tb:?} (built from the non-zero entries)");
            if loc.sampling() {
                loc.sample(what());
            }
            rel(loc, &a0, &b0, ta == tb, &what);
            let w: &dyn Fn() -> String = &what;
            let f = f5(3);
            let rs: Vec<(&str, Option<SM>)> = vec![
                ("from_evaluations(reversed order)", guard(loc, "from_evaluations", w, || {
                    SM::from_evaluations(nv, &ta.iter().enumerate().rev().filter(|(_, c)| **c != 0).map(|(k, c)| (k, f5(*c))).collect::<Vec<_>>())
                })),
                ("(&a+&b)-&b", guard(loc, "(&a+&b)-&b", w, || &(&a0 + &b0) - &b0)),
                ("(&a-&b)+&b", guard(loc, "(&a-&b)+&b", w, || &(&a0 - &b0) + &b0)),
                ("a+=&b;a-=&b", guard(loc, "a+=&b;a-=&b", w, || {
                    let mut t = a0.clone();
                    t += &b0;
                    t -= &b0;
                    t
                })),
                ("a+=(3,&b);a+=(2,&b)", guard(loc, "a+=(f,&b)", w, || {
                    let mut t = a0.clone();
                    t += (f, &b0);
                    t += (-f, &b0);
                    t
                })),
                ("a+=(0,&b)", guard(loc, "a+=(0,&b)", w, || {
                    let mut t = a0.clone();
                    t += (f5(0), &b0);
                    t
                })),
                ("-(-a)", guard(loc, "-(-a)", w, || -(-a0.clone()))),
                ("a+zero()", guard(loc, "a+zero()", w, || a0.clone() + SM::zero())),
            ];
            for (nm, r) in &rs {
                let Some(r) = r else { continue };
                if r.num_vars != nv {
                    loc.class("mle_special_zero_skipped");
                    let eq = rel_consistent(loc, &a0, r, &|| format!("{} via `{nm}` (result has num_vars = {})", what(), r.num_vars));
                    loc.class(if eq { "different_num_vars:library_says_equal(metric)" } else { "different_num_vars:library_says_different(metric)" });
                    continue;
                }
                if stable(r) != ta {
                    loc.fail_at("seq_value", format!("{}: `{nm}` gives {:?} (arithmetic, outside C19)", what(), stable(r)));
                    continue;
                }
                loc.class("equal_via_different_sequences");
                loc.class_if(r.evaluations.values().any(|v| d5(v) == 0), "sparse_mle_result_with_explicit_zero_entry");
                rel(loc, &a0, r, true, &|| format!("{} via `{nm}` (stored entries {:?})", what(), r.evaluations.iter().map(|(k, v)| (*k, d5(v))).collect::<Vec<_>>()));
            }
        });
        // the public constructor given explicit zero values: the same function as without them
        if nv >= 1 {
            ctx.sweep(&format!("mle_sparse_explicit_zero/D5/nv={nv}"), n, |ia, loc| {
                let ta = table(ia);
                if !ta.contains(&0) {
                    return;
                }
                let canon = sm(&ta);
                let with_zeros = SM::from_evaluations(nv, &ta.iter().enumerate().map(|(k, c)| (k, f5(*c))).collect::<Vec<_>>());
                if stable(&with_zeros) != ta || with_zeros.num_vars != nv {
                    loc.fail_at("seq_value", format!("sparse MLE nv={nv} from all entries of {ta:?} denotes {:?}", stable(&with_zeros)));
                    return;
                }
                loc.class("sparse_mle_input_with_explicit_zero_entry");
                rel(loc, &canon, &with_zeros, true, &|| {
                    format!("sparse MLE nv={nv} table {ta:?}: from_evaluations(non-zero entries) vs from_evaluations(all entries incl. explicit zeros); stored {:?} vs {:?}",
                        canon.evaluations.iter().map(|(k, v)| (*k, d5(v))).collect::<Vec<_>>(),
                        with_zeros.evaluations.iter().map(|(k, v)| (*k, d5(v))).collect::<Vec<_>>())
                });
            });
        }
    }
}

// ------------------------------------------------------------------ further types: Evaluations, SparseTerm, MontgomeryAffine
/// `==`/`!=` in both directions against the model relation (types without Hash)
fn rel_eq<T: Eq>(loc: &mut Loc, x: &T, y: &T, same: bool, what: &dyn Fn() -> String) {
    let (e1, e2, n1, n2) = (x == y, y == x, x != y, y != x);
    loc.check_at("eq", e1 == same && e2 == same && n1 != same && n2 != same, || {
        format!("{}: model says same={same}; x==y:{e1} y==x:{e2} x!=y:{n1} y!=x:{n2}", what())
    });
}
/// one-limb toy prime field element <-> integer through the raw Montgomery limbs (never the library's conversions)
fn s_dec<F: FpAccess>(m: &Mont, x: &F) -> u64 {
    m.decode(&x.raw()).to_u64_digits().first().copied().unwrap_or(0)
}
fn s_enc<F: FpAccess>(m: &Mont, v: u64) -> F {
    F::from_raw(&m.encode(&(BigUint::from(v) % &m.p)))
}

// naive polynomial arithmetic on coefficient vectors mod a small prime (constant term first, always stripped)
fn mpow(mut b: u64, mut e: u64, p: u64) -> u64 {
    let mut r = 1 % p;
    b %= p;
    while e > 0 {
        if e & 1 == 1 {
            r = r * b % p;
        }
        b = b * b % p;
        e >>= 1;
    }
    r
}
fn padd(a: &[u64], b: &[u64], p: u64) -> Vec<u64> {
    strip((0..a.len().max(b.len())).map(|i| (a.get(i).copied().unwrap_or(0) + b.get(i).copied().unwrap_or(0)) % p).collect())
}
fn psub(a: &[u64], b: &[u64], p: u64) -> Vec<u64> {
    strip((0..a.len().max(b.len())).map(|i| (a.get(i).copied().unwrap_or(0) + p - b.get(i).copied().unwrap_or(0) % p) % p).collect())
}
fn pscale(a: &[u64], f: u64, p: u64) -> Vec<u64> {
    strip(a.iter().map(|c| c * f % p).collect())
}
fn pmul(a: &[u64], b: &[u64], p: u64) -> Vec<u64> {
    if a.is_empty() || b.is_empty() {
        return Vec::new();
    }
    let mut r = vec![0u64; a.len() + b.len() - 1];
    for (i, x) in a.iter().enumerate() {
        for (j, y) in b.iter().enumerate() {
            r[i + j] = (r[i + j] + x * y) % p;
        }
    }
    strip(r)
}
/// schoolbook long division (b stripped and non-empty)
fn pdivrem(a: &[u64], b: &[u64], p: u64) -> (Vec<u64>, Vec<u64>) {
    let mut r = strip(a.to_vec());
    let linv = mpow(*b.last().unwrap(), p - 2, p);
    let mut q = vec![0u64; (r.len() + 1).saturating_sub(b.len())];
    while r.len() >= b.len() {
        let k = r.len() - b.len();
        let c = r[r.len() - 1] * linv % p;
        q[k] = c;
        for (j, y) in b.iter().enumerate() {
            r[k + j] = (r[k + j] + p - c * y % p) % p;
        }
        // the leading coefficient is now zero
        r.pop();
        r = strip(r);
    }
    (strip(q), r)
}
fn peval(a: &[u64], x: u64, p: u64) -> u64 {
    a.iter().rev().fold(0, |acc, c| (acc * x + c) % p)
}

/// `Evaluations<F, D>` over F_17, domains of size 2: ALL evaluation vectors, all ordered pairs.  Two objects over the
/// SAME domain are the same iff their evaluation vectors agree; objects over DIFFERENT point sets are only required
/// to be consistent (`==` => equal hashes).  Equal objects are reached through different domain constructors and
/// different operation sequences.
fn evaluations_checks(ctx: &mut Ctx) {
    use algebra_mc::toy::gen_fields::D17;
    use ark_poly::{EvaluationDomain, Evaluations, GeneralEvaluationDomain, Radix2EvaluationDomain};
    type R2 = Radix2EvaluationDomain<D17>;
    type GD = GeneralEvaluationDomain<D17>;
    type EV = Evaluations<D17, R2>;
    type EG = Evaluations<D17, GD>;
    let m = Mont::new(&BigUint::from(17u32), 1);
    let e = |v: u64| -> D17 { s_enc(&m, v) };
    let (Some(h2), Some(h2g)) = (R2::new(2), GD::new(2)) else {
        ctx.validate(false, "evaluations: F_17 has a domain of size 2");
        return;
    };
    let Some(c2) = h2.get_coset(e(3)) else {
        ctx.validate(false, "evaluations: coset 3*H of the size-2 domain over F_17");
        return;
    };
    let pts = |d: &R2| -> Vec<u64> { d.elements().map(|x| s_dec(&m, &x)).collect() };
    ctx.validate(pts(&h2) == vec![1, 16] && pts(&c2) == vec![3, 14], "evaluations: the two domains are {1,16} and {3,14}");
    // the same domain through other constructors
    let alt: [Vec<Option<R2>>; 2] = [
        vec![R2::new_coset(2, e(1)), h2.get_coset(e(1)), c2.get_coset(e(1)), R2::new(2).and_then(|d| d.get_coset((e(1) + e(5)) - e(5)))],
        vec![R2::new_coset(2, e(3)), c2.get_coset(e(3)), h2.get_coset((e(3) + e(5)) - e(5)), h2.get_coset(e(20))],
    ];
    let doms = [h2, c2];
    let offs = [1u64, 3];
    let n = 289u64;
    ctx.bound("evaluations/D17", "domains {1,16} and 3*{1,16} over F_17: all 289 evaluation vectors, all ordered pairs, per domain and across the two domains; ~16 construction/operation routes per object");
    ctx.sweep("evaluations/D17/size2", n * n * 2, |i, loc| {
        let [did, ib, ia] = unrank(i, [2, n, n]);
        let did = did as usize;
        let (ea, eb) = ([ia % 17, ia / 17], [ib % 17, ib / 17]);
        let dom = doms[did];
        let mk = |v: &[u64; 2], d: R2| EV::from_vec_and_domain(v.iter().map(|c| e(*c)).collect(), d);
        let (a0, b0) = (mk(&ea, dom), mk(&eb, dom));
        let what = || format!("Evaluations over F_17, domain {}*{{1,16}}: a={ea:?} b={eb:?}", offs[did]);
        if loc.sampling() {
            loc.sample(what());
        }
        loc.class_if(ea == eb, "pair_equal");
        rel(loc, &a0, &b0, ea == eb, &what);
        // the other point set: no verdict about ==, only consistency
        if did == 0 {
            let bx = mk(&eb, doms[1]);
            let eq = rel_consistent(loc, &a0, &bx, &|| format!("{} with b over the coset 3*{{1,16}}", what()));
            loc.class(if eq { "evaluations_other_domain:library_says_equal(metric)" } else { "evaluations_other_domain:library_says_different(metric)" });
        }
        let w: &dyn Fn() -> String = &what;
        let mut rs: Vec<(&str, Option<EV>)> = Vec::new();
        for (k, d) in alt[did].iter().enumerate() {
            let nm = ["domain via new_coset", "domain via get_coset of the subgroup", "domain via get_coset of the coset", "domain via a computed offset"][k];
            match d {
                Some(d) => rs.push((nm, Some(mk(&ea, *d)))),
                None => loc.fail_at("seq_value", format!("{}: {nm}: constructor returns None (domains, outside C19)", what())),
            }
        }
        rs.push(("clone", Some(a0.clone())));
        rs.push(("(&a+&b)-&b", guard(loc, "(&a+&b)-&b", w, || &(&a0 + &b0) - &b0)));
        rs.push(("a+=&b;a-=&b", guard(loc, "a+=&b;a-=&b", w, || {
            let mut t = a0.clone();
            t += &b0;
            t -= &b0;
            t
        })));
        rs.push(("a-=&b;a+=&b", guard(loc, "a-=&b;a+=&b", w, || {
            let mut t = a0.clone();
            t -= &b0;
            t += &b0;
            t
        })));
        rs.push(("&a*1", guard(loc, "&a*1", w, || &a0 * e(1))));
        rs.push(("(&a*2)*9", guard(loc, "(&a*2)*9", w, || &(&a0 * e(2)) * e(9))));
        if !eb.contains(&0) {
            rs.push(("(&a*&b)/&b", guard(loc, "(&a*&b)/&b", w, || &(&a0 * &b0) / &b0)));
            rs.push(("a*=&b;a/=&b", guard(loc, "a*=&b;a/=&b", w, || {
                let mut t = a0.clone();
                t *= &b0;
                t /= &b0;
                t
            })));
        }
        if ib < 2 {
            rs.push(("interpolate_by_ref().evaluate_over_domain", guard(loc, "interpolate_by_ref;evaluate_over_domain", w, || a0.interpolate_by_ref().evaluate_over_domain(dom))));
            rs.push(("interpolate().evaluate_over_domain_by_ref", guard(loc, "interpolate;evaluate_over_domain_by_ref", w, || a0.clone().interpolate().evaluate_over_domain_by_ref(dom))));
        }
        for (nm, r) in &rs {
            let Some(r) = r else { continue };
            let got: Vec<u64> = r.evals.iter().map(|c| s_dec(&m, c)).collect();
            let d = r.domain();
            if got != ea || d.size != 2 || s_dec(&m, &d.offset) != offs[did] || s_dec(&m, &d.group_gen) != 16 {
                loc.fail_at("seq_value", format!("{}: `{nm}` gives evaluations {got:?} over a domain of size {} with offset {} (arithmetic, outside C19)", what(), d.size, s_dec(&m, &d.offset)));
                continue;
            }
            loc.class("equal_via_different_sequences");
            rel(loc, &a0, r, true, &|| format!("{} via `{nm}`", what()));
            rel(loc, r, &b0, ea == eb, &|| format!("{}: `{nm}` vs b", what()));
        }
        // the same objects over GeneralEvaluationDomain (Radix2 variant)
        if did == 0 && ib < 17 {
            let mkg = |v: &[u64; 2], d: GD| EG::from_vec_and_domain(v.iter().map(|c| e(*c)).collect(), d);
            let (ag, bg) = (mkg(&ea, h2g), mkg(&eb, GD::Radix2(h2)));
            loc.class("equal_via_different_sequences");
            rel(loc, &ag, &bg, ea == eb, &|| format!("{} over GeneralEvaluationDomain::new(2) vs GeneralEvaluationDomain::Radix2(new(2))", what()));
        }
    });
}

/// `SparseTerm::new` on unnormalised inputs: every monomial x0^e0 x1^e1 x2^e2 with e_i <= 2 from 6 input lists
/// (canonical, reversed, with zero powers, powers split into duplicated entries ...): equal monomials must be ==,
/// hash-equal and cmp-Equal, different ones !=; cmp must be a total order that does not depend on the input list.
fn sparse_term_checks(ctx: &mut Ctx) {
    use ark_poly::multivariate::{SparseTerm, Term};
    let expo = |i: u64| -> Vec<usize> { unrank_vec(i, &[3, 3, 3]).iter().map(|x| *x as usize).collect() };
    let inputs = |ev: &[usize]| -> Vec<(&'static str, Vec<(usize, usize)>)> {
        let canon: Vec<(usize, usize)> = ev.iter().enumerate().filter(|(_, e)| **e > 0).map(|(v, e)| (v, *e)).collect();
        let mut rev = canon.clone();
        rev.reverse();
        let with_zero: Vec<(usize, usize)> = [2usize, 0, 1].iter().map(|v| (*v, ev[*v])).collect();
        let mut split: Vec<(usize, usize)> = Vec::new();
        for round in 0..2 {
            for v in 0..3 {
                if ev[v] > round {
                    split.push((v, 1));
                }
            }
        }
        let mut split_rev = split.clone();
        split_rev.reverse();
        split_rev.insert(0, (1, 0));
        let mut zero_tail = canon.clone();
        zero_tail.push((0, 0));
        vec![("canonical", canon), ("reversed variable order", rev), ("all variables incl. zero powers, order x2,x0,x1", with_zero), ("powers split into unit entries, interleaved", split), ("split, reversed, leading (x1,0)", split_rev), ("canonical + trailing (x0,0)", zero_tail)]
    };
    let decode = |t: &SparseTerm| -> Option<Vec<usize>> {
        let mut ev = vec![0usize; 3];
        for (v, p) in t.iter() {
            if *v >= 3 {
                return None;
            }
            ev[*v] += p;
        }
        Some(ev)
    };
    ctx.bound("sparse_term", "monomials x0^e0 x1^e1 x2^e2, e_i <= 2 (27), 6 input lists each: all ordered pairs of (monomial, input list); cmp transitivity on all 27^3 triples");
    ctx.sweep("sparse_term/pairs", 27 * 27, |i, loc| {
        let [ib, ia] = unrank(i, [27, 27]);
        let (ea, eb) = (expo(ia), expo(ib));
        let (ina, inb) = (inputs(&ea), inputs(&eb));
        let same = ea == eb;
        let (ca, cb) = (SparseTerm::new(ina[0].1.clone()), SparseTerm::new(inb[0].1.clone()));
        let c_canon = ca.cmp(&cb);
        if loc.sampling() {
            loc.sample(format!("SparseTerm exponents a={ea:?} b={eb:?}"));
        }
        loc.class_if(same, "pair_equal");
        for (na, la) in &ina {
            for (nb, lb) in &inb {
                let what = || format!("SparseTerm::new({la:?}) [{na}] vs SparseTerm::new({lb:?}) [{nb}]; exponents {ea:?} vs {eb:?}");
                let (ta, tb) = (SparseTerm::new(la.clone()), SparseTerm::new(lb.clone()));
                if decode(&ta) != Some(ea.clone()) || decode(&tb) != Some(eb.clone()) {
                    loc.fail_at("seq_value", format!("{}: stored {:?} / {:?} do not denote the monomials", what(), &*ta, &*tb));
                    continue;
                }
                loc.class_if(la != &ina[0].1 || lb != &inb[0].1, "term_from_unnormalised_input");
                loc.class_if(same && la != lb, "equal_via_different_sequences");
                rel(loc, &ta, &tb, same, &what);
                let (c, r, pc) = (ta.cmp(&tb), tb.cmp(&ta), ta.partial_cmp(&tb));
                loc.check_at("ord", (c == Ordering::Equal) == same && r == c.reverse() && pc == Some(c) && c == c_canon, || {
                    format!("{}: cmp={c:?} reverse cmp={r:?} partial_cmp={pc:?}; cmp of the canonical inputs={c_canon:?}; model same={same} (want: Equal iff same, antisymmetric, independent of the input list)", what())
                });
            }
        }
    });
    ctx.sweep("sparse_term/cmp_transitive", 27 * 27 * 27, |i, loc| {
        let [ic, ib, ia] = unrank(i, [27, 27, 27]);
        let t = |k: u64| SparseTerm::new(inputs(&expo(k))[0].1.clone());
        let (a, b, c) = (t(ia), t(ib), t(ic));
        if a.cmp(&b) != Ordering::Greater && b.cmp(&c) != Ordering::Greater {
            loc.class_if(ia != ib && ib != ic, "ord_chain_of_three_distinct");
            loc.check_at("ord_transitive", a.cmp(&c) != Ordering::Greater, || format!("SparseTerm exponents a={:?} <= b={:?} <= c={:?} but a > c", expo(ia), expo(ib), expo(ic)));
        }
    });
}

/// `MontgomeryAffine` (a coordinate pair): same iff both coordinates agree as integers
fn mont_affine_checks<P: te::MontCurveConfig>(ctx: &mut Ctx, name: &str, vals: &[BigUint])
where
    P::BaseField: FpAccess,
{
    type B<P> = <P as ark_ec::CurveConfig>::BaseField;
    let p = <B<P> as FpAccess>::modulus_big();
    let m = Mont::new(&p, <B<P> as FpAccess>::NLIMBS);
    let fe: Vec<B<P>> = vals.iter().map(|v| <B<P> as FpAccess>::from_raw(&m.encode(v))).collect();
    let k = vals.len() as u64;
    ctx.bound(&format!("montgomery_affine/{name}"), format!("{k} coordinate values: all {} points (x,y), all ordered pairs", k * k));
    ctx.sweep(&format!("montgomery_affine/{name}"), k * k * k * k, |i, loc| {
        let [yb, xb, ya, xa] = unrank(i, [k, k, k, k]);
        let (xa, ya, xb, yb) = (xa as usize, ya as usize, xb as usize, yb as usize);
        let same = vals[xa] == vals[xb] && vals[ya] == vals[yb];
        let what = || format!("{name}: MontgomeryAffine a=({},{}) b=({},{})", vals[xa], vals[ya], vals[xb], vals[yb]);
        if loc.sampling() {
            loc.sample(what());
        }
        loc.class_if(same, "pair_equal");
        let a = te::MontgomeryAffine::<P>::new(fe[xa], fe[ya]);
        let b = te::MontgomeryAffine::<P>::new(fe[xb], fe[yb]);
        rel(loc, &a, &b, same, &what);
        // b with coordinates reached through arithmetic / the struct literal
        let (bx, by) = ((fe[xb] + fe[ya]) - fe[ya], -(-fe[yb]));
        if m.decode(&bx.raw()) == vals[xb] && m.decode(&by.raw()) == vals[yb] {
            loc.class("equal_via_different_sequences");
            let b2 = te::MontgomeryAffine::<P> { x: bx, y: by };
            rel(loc, &b, &b2, true, &|| format!("{}: b vs b with computed coordinates", what()));
            rel(loc, &a, &b2, same, &|| format!("{}: a vs b with computed coordinates", what()));
        } else {
            loc.fail_at("seq_value", format!("{}: (x+y)-y / -(-y) do not denote the coordinates (arithmetic, outside C19)", what()));
        }
    });
}

/// polynomial PRODUCERS whose intermediate coefficient vector can end in zeros (FFT products, by-value operators,
/// dense-sparse mixes, scalar multiples, vanishing-polynomial products / divisions, long division, interpolation):
/// each result compared (`==`, `!=`, Hash, is_zero) with the same polynomial built by `from_coefficients_vec`.
/// Universe: all coefficient vectors of length `maxlen` over `alpha` (a, b), products of two of them as dividends.
fn poly_producer_checks<F: FpAccess + FftField>(ctx: &mut Ctx, name: &str, alpha: &[u64], maxlen: usize, dom_sizes: &[usize], offsets: &[u64]) {
    use ark_poly::univariate::DenseOrSparsePolynomial as DoS;
    use ark_poly::{EvaluationDomain, Evaluations, GeneralEvaluationDomain, Radix2EvaluationDomain};
    let pbig = F::modulus_big();
    let p = pbig.to_u64_digits()[0];
    let m = Mont::new(&pbig, 1);
    let na = alpha.len() as u64;
    let n = na.pow(maxlen as u32);
    let max_dom = 1usize << F::TWO_ADICITY.min(20);
    let m = &m;
    let enc = move |v: &[u64]| -> Vec<F> { v.iter().map(|c| s_enc::<F>(m, *c)).collect() };
    let dec = move |q: &DensePolynomial<F>| -> Vec<u64> { q.coeffs.iter().map(|c| s_dec(m, c)).collect() };
    // domains with their model description (size, offset^size, points)
    let mut doms: Vec<(Radix2EvaluationDomain<F>, usize, u64, Vec<u64>)> = Vec::new();
    for sz in dom_sizes {
        for h in offsets {
            match Radix2EvaluationDomain::<F>::new(*sz).and_then(|d| d.get_coset(s_enc::<F>(m, *h))) {
                Some(d) => {
                    let pts: Vec<u64> = d.elements().map(|x| s_dec(m, &x)).collect();
                    let g = s_dec(m, &d.group_gen);
                    let ok = d.size() == *sz && pts.len() == *sz && mpow(g, *sz as u64, p) == 1 && (1..*sz as u64).all(|k| mpow(g, k, p) != 1) && pts.iter().enumerate().all(|(k, x)| *x == h * mpow(g, k as u64, p) % p);
                    ctx.validate(ok, &format!("{name}: domain of size {sz} with offset {h}: points are h*g^k for a generator g of order {sz}"));
                    doms.push((d, *sz, mpow(*h, *sz as u64, p), pts));
                }
                None => ctx.validate(false, &format!("{name}: domain of size {sz} with offset {h} exists")),
            }
        }
    }
    let doms = &doms;
    ctx.bound(&format!("poly_producers/{name}"), format!("a, b: all {n} coefficient vectors of length {maxlen} over {alpha:?} (mod {p}), all ordered pairs; dividends a*b (degree <= {}); domains of size {dom_sizes:?} x offsets {offsets:?}", 2 * (maxlen - 1)));
    ctx.sweep(&format!("poly_producers/{name}"), n * n, |i, loc| {
        let [ib, ia] = unrank(i, [n, n]);
        let cv = |k: u64| -> Vec<u64> { unrank_vec(k, &vec![na; maxlen]).iter().map(|d| alpha[*d as usize] % p).collect() };
        let (ma, mb) = (strip(cv(ia)), strip(cv(ib)));
        let (a0, b0) = (DensePolynomial::<F>::from_coefficients_vec(enc(&ma)), DensePolynomial::<F>::from_coefficients_vec(enc(&mb)));
        let sb = SparsePolynomial::<F>::from(b0.clone());
        let prod = pmul(&ma, &mb, p);
        let pp = DensePolynomial::<F>::from_coefficients_vec(enc(&prod));
        let what = || format!("{name}: a={ma:?} b={mb:?} (coefficients mod {p}, constant term first)");
        if loc.sampling() {
            loc.sample(what());
        }
        let w: &dyn Fn() -> String = &what;
        // (route, expected coefficients, length of the un-stripped intermediate vector, result)
        let mut rs: Vec<(String, Vec<u64>, usize, Option<DensePolynomial<F>>)> = Vec::new();
        let (sum, dif) = (padd(&ma, &mb, p), psub(&ma, &mb, p));
        let wide = ma.len().max(mb.len());
        macro_rules! route {
            ($nm:expr, $want:expr, $raw:expr, $f:expr) => {
                rs.push(($nm.to_string(), $want, $raw, guard(loc, $nm, w, || $f)));
            };
        }
        route!("a+b (by value)", sum.clone(), wide, a0.clone() + b0.clone());
        route!("a+&b", sum.clone(), wide, a0.clone() + &b0);
        route!("&a+b", sum.clone(), wide, &a0 + b0.clone());
        route!("a-b (by value)", dif.clone(), wide, a0.clone() - b0.clone());
        route!("a-&b", dif.clone(), wide, a0.clone() - &b0);
        route!("&a-b", dif.clone(), wide, &a0 - b0.clone());
        route!("&a+&sparse(b)", sum.clone(), wide, &a0 + &sb);
        route!("&a-&sparse(b)", dif.clone(), wide, &a0 - &sb);
        route!("a+=&sparse(b)", sum.clone(), wide, {
            let mut t = a0.clone();
            t += &sb;
            t
        });
        route!("a-=&sparse(b)", dif.clone(), wide, {
            let mut t = a0.clone();
            t -= &sb;
            t
        });
        route!("a+=&b", sum.clone(), wide, {
            let mut t = a0.clone();
            t += &b0;
            t
        });
        route!("a-=&b", dif.clone(), wide, {
            let mut t = a0.clone();
            t -= &b0;
            t
        });
        route!("a.naive_mul(&b)", prod.clone(), prod.len(), a0.naive_mul(&b0));
        // FFT product: needs a domain of size >= len(a)+len(b)-1
        if !ma.is_empty() && !mb.is_empty() {
            let need = (ma.len() + mb.len() - 1).next_power_of_two();
            if need <= max_dom {
                route!("&a*&b (FFT)", prod.clone(), need, &a0 * &b0);
                route!("a*b (by value, FFT)", prod.clone(), need, a0.clone() * b0.clone());
                route!("a*&b (FFT)", prod.clone(), need, a0.clone() * &b0);
                route!("&a*b (FFT)", prod.clone(), need, &a0 * b0.clone());
            } else {
                loc.class("fft_product_without_domain_skipped");
            }
        } else {
            route!("&a*&b (zero operand)", Vec::new(), 0, &a0 * &b0);
        }
        if !mb.is_empty() {
            let (q, r) = pdivrem(&ma, &mb, p);
            let qlen = (ma.len() + 1).saturating_sub(mb.len());
            match guard(loc, "divide_with_q_and_r", w, || DoS::from(&a0).divide_with_q_and_r(&DoS::from(&b0))) {
                Some(Some((lq, lr))) => {
                    rs.push(("divide_with_q_and_r(a, b).quotient".into(), q.clone(), qlen, Some(lq)));
                    rs.push(("divide_with_q_and_r(a, b).remainder".into(), r.clone(), ma.len(), Some(lr)));
                }
                Some(None) => loc.fail_at("seq_value", format!("{}: divide_with_q_and_r(a, b) is None (division, outside C19)", what())),
                None => {}
            }
            match guard(loc, "divide_with_q_and_r(sparse divisor)", w, || DoS::from(&a0).divide_with_q_and_r(&DoS::from(&sb))) {
                Some(Some((lq, lr))) => {
                    rs.push(("divide_with_q_and_r(a, sparse(b)).quotient".into(), q.clone(), qlen, Some(lq)));
                    rs.push(("divide_with_q_and_r(a, sparse(b)).remainder".into(), r.clone(), ma.len(), Some(lr)));
                }
                Some(None) => loc.fail_at("seq_value", format!("{}: divide_with_q_and_r(a, sparse(b)) is None (division, outside C19)", what())),
                None => {}
            }
            // (a*b + a) / b = a + (a / b), remainder a mod b: dividends of degree up to 2*(maxlen-1)
            let dividend = padd(&prod, &ma, p);
            let dd = DensePolynomial::<F>::from_coefficients_vec(enc(&dividend));
            let (q2, r2) = pdivrem(&dividend, &mb, p);
            match guard(loc, "divide_with_q_and_r(a*b+a, b)", w, || DoS::from(&dd).divide_with_q_and_r(&DoS::from(&b0))) {
                Some(Some((lq, lr))) => {
                    rs.push(("divide_with_q_and_r(a*b+a, b).quotient".into(), q2.clone(), (dividend.len() + 1).saturating_sub(mb.len()), Some(lq)));
                    rs.push(("divide_with_q_and_r(a*b+a, b).remainder".into(), r2, dividend.len(), Some(lr)));
                }
                Some(None) => loc.fail_at("seq_value", format!("{}: divide_with_q_and_r(a*b+a, b) is None (division, outside C19)", what())),
                None => {}
            }
            route!("a/b (by value)", q.clone(), qlen, a0.clone() / b0.clone());
            route!("&a/&b", q.clone(), qlen, &a0 / &b0);
            route!("&(a*b+a)/&b", q2, (dividend.len() + 1).saturating_sub(mb.len()), &dd / &b0);
        }
        // vanishing polynomials x^n - h^n: products and divisions (dividends a*b and a)
        for (d, sz, hn, _) in doms.iter() {
            let mut z = vec![0u64; sz + 1];
            z[0] = (p - hn % p) % p;
            z[*sz] = 1;
            let (qv, rv) = pdivrem(&prod, &z, p);
            match guard(loc, "divide_by_vanishing_poly", w, || pp.divide_by_vanishing_poly(*d)) {
                Some((lq, lr)) => {
                    rs.push((format!("(a*b).divide_by_vanishing_poly(size {sz}, h^n={hn}).quotient"), qv, prod.len().saturating_sub(*sz), Some(lq)));
                    rs.push((format!("(a*b).divide_by_vanishing_poly(size {sz}, h^n={hn}).remainder"), rv, prod.len().min(*sz), Some(lr)));
                }
                None => {}
            }
            if ib == 0 {
                rs.push((format!("a.mul_by_vanishing_poly(size {sz}, h^n={hn})"), pmul(&ma, &z, p), if ma.is_empty() { *sz } else { ma.len() + sz }, guard(loc, "mul_by_vanishing_poly", w, || a0.mul_by_vanishing_poly(*d))));
                let gd = GeneralEvaluationDomain::<F>::Radix2(*d);
                rs.push((format!("a.mul_by_vanishing_poly(General, size {sz}, h^n={hn})"), pmul(&ma, &z, p), if ma.is_empty() { *sz } else { ma.len() + sz }, guard(loc, "mul_by_vanishing_poly(General)", w, || a0.mul_by_vanishing_poly(gd))));
            }
        }
        if ib == 0 {
            for f in [0u64, 1, 2, p - 1] {
                let fe: F = s_enc(m, f);
                rs.push((format!("a*{f} (by value)"), pscale(&ma, f, p), if f == 0 { 0 } else { ma.len() }, guard(loc, "a*f", w, || a0.clone() * fe)));
                rs.push((format!("&a*{f}"), pscale(&ma, f, p), if f == 0 { 0 } else { ma.len() }, guard(loc, "&a*f", w, || &a0 * fe)));
            }
            // interpolation from the model's evaluations over every domain that determines a
            for (d, sz, hn, pts) in doms.iter() {
                if *sz < ma.len() {
                    continue;
                }
                let evals: Vec<F> = pts.iter().map(|x| s_enc::<F>(m, peval(&ma, *x, p))).collect();
                let ev = Evaluations::from_vec_and_domain(evals, *d);
                rs.push((format!("Evaluations(size {sz}, h^n={hn}).interpolate_by_ref()"), ma.clone(), *sz, guard(loc, "interpolate_by_ref", w, || ev.interpolate_by_ref())));
                rs.push((format!("Evaluations(size {sz}, h^n={hn}).interpolate()"), ma.clone(), *sz, guard(loc, "interpolate", w, || ev.clone().interpolate())));
            }
        }
        for (nm, want, rawlen, r) in &rs {
            let Some(r) = r else { continue };
            let stored = dec(r);
            if strip(stored.clone()) != *want {
                loc.fail_at("seq_value", format!("{}: `{nm}` gives {stored:?}, model {want:?} (arithmetic, outside C19)", what()));
                continue;
            }
            loc.class("equal_via_different_sequences");
            // the route's natural intermediate vector is longer than the result: the producer has to strip
            loc.class_if(*rawlen > want.len(), "producer_must_strip_trailing_zeros");
            loc.class_if(stored.len() != want.len(), "result_with_trailing_zero_coefficients");
            let canon = DensePolynomial::<F>::from_coefficients_vec(enc(want));
            rel(loc, &canon, r, true, &|| format!("{}: `{nm}` (stored coefficients {stored:?}) vs from_coefficients_vec({want:?})", what()));
            loc.check_at("predicates", r.is_zero() == want.is_empty() && (*r == DensePolynomial::<F>::zero()) == want.is_empty(), || format!("{}: `{nm}` (stored {stored:?}): is_zero / == zero()", what()));
            // a different polynomial (constant term + 1) must not compare equal
            let mut other = want.clone();
            if other.is_empty() {
                other.push(1);
            } else {
                other[0] = (other[0] + 1) % p;
            }
            let other = DensePolynomial::<F>::from_coefficients_vec(enc(&strip(other)));
            rel(loc, r, &other, false, &|| format!("{}: `{nm}` (stored {stored:?}) vs the polynomial with constant term + 1", what()));
        }
    });
}

// ------------------------------------------------------------------ drivers
macro_rules! tiny {
    ($F:ty, $n:expr, $name:expr, $ctx:expr, $seen:expr) => {
        prime_field::<$F>($ctx, $name, $seen, false);
    };
}
macro_rules! shipped {
    ($F:ty, $name:expr, $ctx:expr, $seen:expr) => {
        prime_field::<$F>($ctx, $name, $seen, true);
    };
}
macro_rules! swt {
    ($P:ty, $name:expr, $ctx:expr) => {
        sw_toy::<$P>($ctx, $name);
    };
}
macro_rules! tet {
    ($P:ty, $name:expr, $ctx:expr) => {
        te_toy::<$P>($ctx, $name);
    };
}

fn main() {
    let mut ctx = Ctx::from_args("C19");
    ctx.promote_quick(); // the thorough bounds of this check cost only seconds
    ctx.require(&["equal_via_different_sequences", "projective_rescaled", "identity_noncanonical", "ext_order_tie_on_high_coeff", "hashmap_dedup"]);
    // (the classes `same_value_different_limbs` and `result_with_trailing_zero_coefficients` are observations of a
    // non-canonical stored representation: they have no hit on a library that keeps its representations canonical
    // and therefore cannot be mandatory; `producer_must_strip_trailing_zeros` is their input-side counterpart)
    ctx.require(&[
        "ext_order_high_coeff_overrides_low",
        "ext_order_orientation_discriminating",
        "ext_order_orientation_probe",
        "affine_vs_projective",
        "opposite_points",
        "bigint_order_tie_on_top_limb",
        "producer_must_strip_trailing_zeros",
        "term_from_unnormalised_input",
        "pair_equal",
        "curve_over_extension_field",
        "projective_rescaled_by_non_subfield_Z",
    ]);
    ctx.assume("oracle: raw Montgomery limbs decoded with limbs*R^-1 mod p (num-bigint); projective points decoded with u64 model arithmetic (toy) / C01-C02-checked field operations (shipped); never the library's ==, cmp, Hash or into_affine");
    ctx.assume("hash digests are taken with std DefaultHasher::new() (fixed keys); containers use BuildHasherDefault<DefaultHasher> like HashMapPippenger");
    ctx.assume("extension order: the rustdoc of Ord for QuadExtField / CubicExtField reads '`QuadExtField` elements are ordered lexicographically.' / '`CubicExtField` elements are ordered lexicographically.' and does not name the most significant coefficient; demanded: a total order consistent with equality that is lexicographic with, per tower level, either the highest or the lowest coefficient first - the choice is read off one probe pair per level and type (sweeps ext_order_calibration/*, recorded under bounds ext_order_observed/*) and must then hold for ALL pairs of that type; the integer order at the prime-field level");
    ctx.assume("distinct values with equal digests are legal for Hash: counted as a metric class, never a violation");
    ctx.assume("sequences whose VALUE is wrong (arithmetic/group-law/bilinearity defects of C01-C08) are filed under the sites seq_value / pairing_value, separate from the eq/hash/ord/predicates sites of C19");
    ctx.assume("short-Weierstrass Affine with infinity=true and junk x,y is only constructible through #[doc(hidden)] fields; every API route to the affine identity (identity(), zero(), default(), into_affine, normalize_batch, From) is compared instead");
    ctx.assume("DenseMultilinearExtension/SparseMultilinearExtension special zero (num_vars = 0) is the library's documented convention: results with a different num_vars are not compared with n-variable objects");
    ctx.assume("no Ord is implemented for curve points or polynomials (nothing to check); PairingOutput and MillerLoopOutput derive Ord from the target field; SparseTerm (monomials): only the total-order axioms and consistency with == are demanded of its Ord");
    ctx.assume("Evaluations over two different point sets, and polynomials / multilinear extensions declared with different num_vars: the property does not say whether they are 'the same object' - only `==` => equal hashes (and symmetry of ==) is demanded there, the library's answer is recorded as a metric class");
    ctx.bound("prime_fields", "p <= 257 (thorough: p <= 1021): all ordered pairs of residues x ~35 sequences; larger toy moduli (1..13 limbs, derived + hand-written) and every shipped prime field: <= 60 boundary values (integers and raw-limb patterns), all ordered pairs");
    let seen = Mutex::new(BTreeSet::new());
    algebra_mc::tiny_fields_derived!(tiny, &mut ctx, &seen);
    algebra_mc::tiny_fields_hand!(tiny, &mut ctx, &seen);
    algebra_mc::big_fields_derived!(tiny, &mut ctx, &seen);
    algebra_mc::big_fields_hand!(tiny, &mut ctx, &seen);
    algebra_mc::shipped_prime_fields!(shipped, &mut ctx, &seen);

    ctx.bound("bigint", if ctx.quick() { "N=1,2: all L10^N; N=4: L4^4 + dev<=1; N=6: dev<=1; all ordered pairs" } else { "N=1,2: all L10^N; N=4: L4^4 + dev<=2; N=6: dev<=2; all ordered pairs" });
    let dev = ctx.t(1, 2);
    bigint_checks::<1>(&mut ctx, dev);
    bigint_checks::<2>(&mut ctx, dev);
    bigint_checks::<4>(&mut ctx, dev);
    bigint_checks::<6>(&mut ctx, dev);

    validate_towers(&mut ctx);
    toy_ext::<towers::T7Fp2>(&mut ctx, "T7Fp2");
    toy_ext::<towers::T7Fp3>(&mut ctx, "T7Fp3");
    toy_ext::<towers::T5Fp2>(&mut ctx, "T5Fp2");
    toy_ext::<towers::T5Fp4>(&mut ctx, "T5Fp4");
    toy_ext::<towers::T7Fp6>(&mut ctx, "T7Fp6");
    let d = ctx.t(1, 2);
    shipped_ext::<ark_bls12_381::Fq2>(&mut ctx, "bls12_381::Fq2", 2);
    shipped_ext::<ark_bls12_381::Fq6>(&mut ctx, "bls12_381::Fq6", 2);
    shipped_ext::<ark_bls12_381::Fq12>(&mut ctx, "bls12_381::Fq12", d);
    shipped_ext::<ark_mnt4_298::Fq2>(&mut ctx, "mnt4_298::Fq2", 2);
    shipped_ext::<ark_mnt4_298::Fq4>(&mut ctx, "mnt4_298::Fq4", 2);
    shipped_ext::<ark_mnt6_298::Fq3>(&mut ctx, "mnt6_298::Fq3", 2);
    shipped_ext::<ark_mnt6_298::Fq6>(&mut ctx, "mnt6_298::Fq6", 2);

    algebra_mc::toy_sw_curves!(swt, &mut ctx);
    algebra_mc::toy_te_curves!(tet, &mut ctx);
    sw_ext_toy::<ext_curves::SwQ7A0>(&mut ctx, "SwQ7A0/F_49", Q2 { p: 7, beta: 6 }, 52);
    sw_ext_toy::<ext_curves::SwQ13A>(&mut ctx, "SwQ13A/F_169", Q2 { p: 13, beta: 2 }, 172);

    sw_shipped::<ark_bls12_381::g1::Config>(&mut ctx, "bls12_381::g1");
    sw_shipped::<ark_bls12_381::g2::Config>(&mut ctx, "bls12_381::g2");
    sw_shipped::<ark_secp256k1::Config>(&mut ctx, "secp256k1");
    sw_shipped::<ark_mnt6_298::g2::Config>(&mut ctx, "mnt6_298::g2");
    te_shipped::<ark_ed_on_bls12_381::EdwardsConfig>(&mut ctx, "ed_on_bls12_381");

    pairing_checks::<ark_bls12_381::Bls12_381>(&mut ctx, "bls12_381");
    pairing_checks::<ark_mnt4_298::MNT4_298>(&mut ctx, "mnt4_298");
    pairing_checks::<ark_bn254::Bn254>(&mut ctx, "bn254");
    pairing_checks::<ark_bw6_761::BW6_761>(&mut ctx, "bw6_761");

    dense_poly_checks(&mut ctx);
    mv_poly_checks(&mut ctx);
    sparse_poly_checks(&mut ctx);
    mle_checks(&mut ctx);

    // polynomial producers whose intermediate vectors end in zeros, compared with from_coefficients_vec
    poly_producer_checks::<D5>(&mut ctx, "D5", &[0, 1, 2, 3, 4], 3, &[1, 2, 4], &[1, 2]);
    poly_producer_checks::<algebra_mc::toy::gen_fields::D17>(&mut ctx, "D17", &[0, 1, 16, 6, 3], 3, &[2, 4, 8], &[1, 3]);
    // Eq / Hash of further types
    evaluations_checks(&mut ctx);
    sparse_term_checks(&mut ctx);
    mont_affine_checks::<algebra_mc::toy::gen_curves::TeP13>(&mut ctx, "TeP13", &(0..13u32).map(BigUint::from).collect::<Vec<_>>());
    {
        let p = <ark_curve25519::Fq as FpAccess>::modulus_big();
        let vals = vec![BigUint::zero(), BigUint::one(), &p - 1u32, (&p - 1u32) >> 1usize, BigUint::from(GENERIC64)];
        mont_affine_checks::<ark_curve25519::Curve25519Config>(&mut ctx, "curve25519", &vals);
    }
    std::process::exit(ctx.finish());
}
