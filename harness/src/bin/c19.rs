//! C19 - equality, ordering and hashing coincide with mathematical identity.
//!
//! Oracle: every library value is *decoded* by the harness into canonical integers
//! (raw Montgomery limbs * R^-1 mod p with num-bigint; projective coordinates
//! normalised with model / C01-checked field arithmetic; polynomial coefficient
//! vectors stripped of zeros).  Two values "denote the same object" iff their
//! decodings agree; `==`, `!=`, `cmp`/`partial_cmp`/`<`.., `Hash` (through the
//! fixed-key `DefaultHasher::new()`), `is_zero`/`is_one` and HashSet/HashMap/BTreeSet
//! behaviour are compared with that.  Values are reached through *different
//! operation sequences / representations* so that a non-canonical internal
//! representation would show.
use algebra_mc::core::*;
use algebra_mc::fpaccess::FpAccess;
use algebra_mc::refmodel::fieldmodel::{prime_to_u64, FieldModel, Fp2Model, PrimeModel};
use algebra_mc::refmodel::zmod::*;
use algebra_mc::toycurve::{SwToy, TeToy};
use ark_ec::pairing::{Pairing, PairingOutput};
use ark_ec::{short_weierstrass as sw, twisted_edwards as te, AffineRepr, CurveGroup};
use ark_ff::{
    AdditiveGroup, BigInt, BigInteger, FftField, CubicExtConfig, CubicExtField, Field, Fp, FpConfig, One, PrimeField, QuadExtConfig, QuadExtField, Zero,
};
use ark_poly::univariate::{DensePolynomial, SparsePolynomial};
use ark_poly::{DenseMultilinearExtension, DenseUVPolynomial, SparseMultilinearExtension};
use num_bigint::BigUint;

use std::cmp::Ordering;
use std::collections::hash_map::DefaultHasher;
use std::collections::{BTreeSet, HashMap, HashSet};
use std::hash::{BuildHasherDefault, Hash, Hasher};
use std::marker::PhantomData;
use std::panic::{catch_unwind, AssertUnwindSafe};
use std::str::FromStr;
use std::sync::Mutex;

type Bh = BuildHasherDefault<DefaultHasher>;

/// digest through the fixed-key std hasher (deterministic)
fn dig<T: Hash + ?Sized>(x: &T) -> u64 {
    let mut h = DefaultHasher::new();
    x.hash(&mut h);
    h.finish()
}

/// `==`/`!=` in both directions against the model relation; equal values must hash equally
fn rel<T: Eq + Hash>(loc: &mut Loc, x: &T, y: &T, same: bool, what: &dyn Fn() -> String) {
    let (e1, e2, n1, n2) = (x == y, y == x, x != y, y != x);
    loc.check_at("eq", e1 == same && e2 == same && n1 != same && n2 != same, || {
        format!("{}: model says same={same}; x==y:{e1} y==x:{e2} x!=y:{n1} y!=x:{n2}", what())
    });
    if same {
        let (hx, hy) = (dig(x), dig(y));
        loc.check_at("hash", hx == hy, || format!("{}: values denote the same object but hash differently ({hx:016x} vs {hy:016x})", what()));
    }
}

/// cmp / partial_cmp / the four operators, both directions
fn ord_rel<T: Ord>(loc: &mut Loc, x: &T, y: &T, want: Ordering, what: &dyn Fn() -> String) {
    let c = x.cmp(y);
    let r = y.cmp(x);
    let pc = x.partial_cmp(y);
    let ops = (x < y, x <= y, x > y, x >= y);
    let want_ops = (want == Ordering::Less, want != Ordering::Greater, want == Ordering::Greater, want != Ordering::Less);
    loc.check_at("ord", c == want && r == want.reverse() && pc == Some(want) && ops == want_ops, || {
        format!("{}: model order {want:?}; cmp={c:?} reverse cmp={r:?} partial_cmp={pc:?} (<,<=,>,>=)={ops:?}", what())
    });
}

fn preds<F: Field>(loc: &mut Loc, r: &F, is0: bool, is1: bool, what: &dyn Fn() -> String) {
    let z = (r.is_zero(), *r == F::ZERO, *r == F::zero(), F::ZERO == *r);
    let o = (r.is_one(), *r == F::ONE, *r == F::one(), F::ONE == *r);
    loc.check_at("predicates", z == (is0, is0, is0, is0) && o == (is1, is1, is1, is1), || {
        format!("{}: model zero={is0} one={is1}; (is_zero, ==ZERO, ==zero(), ZERO==)={z:?} (is_one, ==ONE, ==one(), ONE==)={o:?}", what())
    });
}

// ------------------------------------------------------------------ coordinate access
/// raw-limb access to every field of a tower (flattened, c0 first), independent of
/// the library's into_bigint / to_base_prime_field_elements
trait Coord: Field {
    const DEG: usize;
    const ARITY: usize;
    const NL: usize;
    fn modulus() -> BigUint;
    fn build(m: &Mont, c: &[BigUint]) -> Self;
    fn raws(&self, out: &mut Vec<u64>);
}
impl<P: FpConfig<N>, const N: usize> Coord for Fp<P, N> {
    const DEG: usize = 1;
    const ARITY: usize = 1;
    const NL: usize = N;
    fn modulus() -> BigUint {
        from_limbs(&P::MODULUS.0)
    }
    fn build(m: &Mont, c: &[BigUint]) -> Self {
        let v = m.encode(&c[0]);
        let mut a = [0u64; N];
        a.copy_from_slice(&v);
        Fp(BigInt(a), PhantomData)
    }
    fn raws(&self, out: &mut Vec<u64>) {
        out.extend_from_slice(&(self.0).0);
    }
}
impl<P: QuadExtConfig> Coord for QuadExtField<P>
where
    P::BaseField: Coord,
{
    const DEG: usize = 2 * <P::BaseField as Coord>::DEG;
    const ARITY: usize = 2;
    const NL: usize = <P::BaseField as Coord>::NL;
    fn modulus() -> BigUint {
        <P::BaseField as Coord>::modulus()
    }
    fn build(m: &Mont, c: &[BigUint]) -> Self {
        let d = <P::BaseField as Coord>::DEG;
        QuadExtField::new(<P::BaseField as Coord>::build(m, &c[..d]), <P::BaseField as Coord>::build(m, &c[d..2 * d]))
    }
    fn raws(&self, out: &mut Vec<u64>) {
        self.c0.raws(out);
        self.c1.raws(out);
    }
}
impl<P: CubicExtConfig> Coord for CubicExtField<P>
where
    P::BaseField: Coord,
{
    const DEG: usize = 3 * <P::BaseField as Coord>::DEG;
    const ARITY: usize = 3;
    const NL: usize = <P::BaseField as Coord>::NL;
    fn modulus() -> BigUint {
        <P::BaseField as Coord>::modulus()
    }
    fn build(m: &Mont, c: &[BigUint]) -> Self {
        let d = <P::BaseField as Coord>::DEG;
        CubicExtField::new(
            <P::BaseField as Coord>::build(m, &c[..d]),
            <P::BaseField as Coord>::build(m, &c[d..2 * d]),
            <P::BaseField as Coord>::build(m, &c[2 * d..3 * d]),
        )
    }
    fn raws(&self, out: &mut Vec<u64>) {
        self.c0.raws(out);
        self.c1.raws(out);
        self.c2.raws(out);
    }
}
fn raw_of<F: Coord>(x: &F) -> Vec<u64> {
    let mut v = Vec::with_capacity(F::DEG * F::NL);
    x.raws(&mut v);
    v
}
fn mont_of<F: Coord>() -> Mont {
    Mont::new(&F::modulus(), F::NL)
}
/// canonical integer coordinates (c0 first) decoded from the raw Montgomery limbs
fn coords_raw<F: Coord>(m: &Mont, raw: &[u64]) -> Vec<BigUint> {
    raw.chunks(F::NL).map(|c| m.decode(c)).collect()
}
fn coords<F: Coord>(m: &Mont, x: &F) -> Vec<BigUint> {
    coords_raw::<F>(m, &raw_of(x))
}
/// documented lexicographic order of the extension towers, most significant = highest coefficient
/// (for a prime field: the integer order)
fn model_cmp<T: Ord>(a: &[T], b: &[T]) -> Ordering {
    for k in (0..a.len()).rev() {
        match a[k].cmp(&b[k]) {
            Ordering::Equal => continue,
            o => return o,
        }
    }
    Ordering::Equal
}

// ------------------------------------------------------------------ operation sequences
/// results that all denote `a` in any field (b arbitrary; inverse forms only if b != 0 by the model)
fn seqs_to_a<F: Field>(a: F, b: F, b_nonzero: bool) -> Vec<(&'static str, F)> {
    let mut v: Vec<(&'static str, F)> = Vec::with_capacity(24);
    v.push(("(a+b)-b", (a + b) - b));
    v.push(("(a-b)+b", (a - b) + b));
    v.push(("-(-a)", -(-a)));
    v.push(("a.double()-a", a.double() - a));
    v.push(("a*1", a * F::ONE));
    v.push(("1*a", F::ONE * a));
    v.push(("a+0", a + F::ZERO));
    v.push(("a-0", a - F::ZERO));
    v.push(("a+(-1)+1", a + (-F::ONE) + F::ONE));
    v.push(("(b+a)-b", (b + a) - b));
    {
        let mut t = a;
        t += &b;
        t -= &b;
        v.push(("t=a;t+=&b;t-=&b", t));
    }
    {
        let mut t = a;
        t.neg_in_place();
        t.neg_in_place();
        v.push(("neg_in_place twice", t));
    }
    {
        let mut t = a;
        t.double_in_place();
        t -= a;
        v.push(("double_in_place;-=a", t));
    }
    {
        let t: F = [a, b, -b].iter().sum();
        v.push(("sum[a,b,-b]", t));
    }
    if b_nonzero {
        match b.inverse() {
            Some(bi) => {
                v.push(("a*b*b^-1", a * b * bi));
                v.push(("b*a*b^-1", b * a * bi));
                v.push(("b^-1*(a*b)", bi * (a * b)));
            }
            None => {}
        }
        v.push(("(a*b)/b", (a * b) / b));
        v.push(("(a/b)*b", (a / b) * b));
        {
            let mut t = a;
            t *= &b;
            t /= &b;
            v.push(("t=a;t*=&b;t/=&b", t));
        }
    }
    v
}
/// results that all denote a^2
fn square_group<F: Field>(a: F) -> Vec<(&'static str, F)> {
    let mut t = a;
    t.square_in_place();
    let mut u = a;
    u *= a;
    vec![("a.square()", a.square()), ("a*a", a * a), ("square_in_place", t), ("a*=a", u), ("a.pow([2])", a.pow([2u64])), ("a*a*a/a", a)]
}

/// `r` was produced by a sequence that must denote the value with raw limbs `araw`
/// (library value `a`): value check first (out of C19's scope if it fails, filed
/// under `seq_value`), then the C19 relations.
fn check_same<F: Coord>(loc: &mut Loc, m: &Mont, a: &F, araw: &[u64], r: &F, nm: &str, is0: bool, is1: bool, what: &dyn Fn() -> String) {
    let rr = raw_of(r);
    let same = rr == araw || coords_raw::<F>(m, &rr) == coords_raw::<F>(m, araw);
    if !same {
        loc.fail_at("seq_value", format!("{}: sequence `{nm}` does not denote a (arithmetic, outside C19): got coords {:?}", what(), coords_raw::<F>(m, &rr)));
        return;
    }
    loc.class("equal_via_different_sequences");
    loc.class_if(rr != araw, "same_value_different_limbs");
    let w = || format!("{} via `{nm}` (raw {:x?})", what(), rr);
    rel(loc, a, r, true, &w);
    ord_rel(loc, a, r, Ordering::Equal, &w);
    preds(loc, r, is0, is1, &w);
}

// ------------------------------------------------------------------ prime fields
fn prime_checks<F: FpAccess + Coord>(ctx: &mut Ctx, name: &str, raws: &[Vec<u64>], tag: &str) {
    let p = F::modulus_big();
    let mont = Mont::new(&p, F::NLIMBS);
    let dec: Vec<BigUint> = raws.iter().map(|l| mont.decode(l)).collect();
    let cnt = raws.len() as u64;
    ctx.sweep(&format!("prime_pairs/{name}/{tag}"), cnt * cnt, |i, loc| {
        let [ib, ia] = unrank(i, [cnt, cnt]);
        let (ia, ib) = (ia as usize, ib as usize);
        let a = F::from_raw(&raws[ia]);
        let b = F::from_raw(&raws[ib]);
        let (da, db) = (&dec[ia], &dec[ib]);
        let same = da == db;
        let want = da.cmp(db);
        let what = || format!("{name}: a={da} (raw {:x?}) b={db} (raw {:x?})", raws[ia], raws[ib]);
        if loc.sampling() {
            loc.sample(what());
        }
        loc.class_if(same, "pair_equal");
        rel(loc, &a, &b, same, &what);
        ord_rel(loc, &a, &b, want, &what);
        // b reached through arithmetic, compared with the stored a
        let b2 = (b + a) - a;
        if mont.decode(&b2.raw()) == *db {
            let w = || format!("{} with b computed as (b+a)-a", what());
            rel(loc, &a, &b2, same, &w);
            ord_rel(loc, &a, &b2, want, &w);
        } else {
            loc.fail_at("seq_value", format!("{}: (b+a)-a does not denote b", what()));
        }
        let (is0, is1) = (da.is_zero(), da.is_one());
        let mut rs = seqs_to_a(a, b, !db.is_zero());
        match <F::BigInt as TryFrom<BigUint>>::try_from(da.clone()).ok().and_then(F::from_bigint) {
            Some(x) => rs.push(("from_bigint", x)),
            None => loc.fail_at("seq_value", format!("{}: from_bigint(a) is None", what())),
        }
        match F::from_str(&da.to_str_radix(10)).ok() {
            Some(x) => rs.push(("from_str", x)),
            None => loc.fail_at("seq_value", format!("{}: from_str(a) fails", what())),
        }
        rs.push(("From<BigUint>(a)", F::from(da.clone())));
        rs.push(("From<BigUint>(a+p)", F::from(da + &p)));
        rs.push(("from_le_bytes_mod_order", F::from_le_bytes_mod_order(&da.to_bytes_le())));
        rs.push(("from_be_bytes_mod_order(a+p)", F::from_be_bytes_mod_order(&(da + &p).to_bytes_be())));
        if da.bits() <= 64 {
            let k = da.to_u64_digits().first().copied().unwrap_or(0);
            rs.push(("From<u64>", F::from(k)));
            rs.push(("From<u128>", F::from(k as u128)));
        }
        for (nm, r) in &rs {
            check_same(loc, &mont, &a, &raws[ia], r, nm, is0, is1, &what);
        }
        if ib == 0 {
            let sq = square_group(a);
            let d2 = (da * da) % &p;
            let first = sq[0].1;
            let fraw = first.raw();
            if mont.decode(&fraw) == d2 {
                for (nm, r) in &sq[1..5] {
                    check_same(loc, &mont, &first, &fraw, r, nm, d2.is_zero(), d2.is_one(), &|| format!("{} [a^2 group vs a.square()]", what()));
                }
            } else {
                loc.fail_at("seq_value", format!("{}: a.square() wrong", what()));
            }
        }
    });
    // hash containers: every representation of every value -> exactly #values keys
    ctx.sweep(&format!("prime_containers/{name}/{tag}"), 1, |_, loc| {
        let mut set: HashSet<F, Bh> = HashSet::default();
        let mut map: HashMap<F, u64, Bh> = HashMap::default();
        let mut bt: BTreeSet<F> = BTreeSet::new();
        let n = raws.len();
        let bsel: Vec<usize> = vec![0, 1 % n, n / 2, n - 1];
        let mut inserted = 0u64;
        for ia in 0..n {
            let a = F::from_raw(&raws[ia]);
            set.insert(a);
            bt.insert(a);
            *map.entry(a).or_insert(0) += 1;
            let mut here = 1u64;
            for ib in &bsel {
                let b = F::from_raw(&raws[*ib]);
                for (_, r) in seqs_to_a(a, b, !dec[*ib].is_zero()) {
                    if mont.decode(&r.raw()) != dec[ia] {
                        continue; // filed under seq_value by the pair sweep
                    }
                    set.insert(r);
                    bt.insert(r);
                    *map.entry(r).or_insert(0) += 1;
                    here += 1;
                    inserted += 1;
                }
            }
            let got = map.get(&a).copied().unwrap_or(0);
            loc.check_at("hashmap", got == here, || format!("{name}: HashMap entry of a={} merged {got} insertions, expected {here}", dec[ia]));
        }
        loc.class("hashmap_dedup");
        loc.ops(inserted);
        loc.check_at("hashset", set.len() == n && map.len() == n, || format!("{name}: {} representations of {n} values give {} HashSet keys / {} HashMap keys", inserted + n as u64, set.len(), map.len()));
        let mut order: Vec<usize> = (0..n).collect();
        order.sort_by(|x, y| dec[*x].cmp(&dec[*y]));
        let got: Vec<Vec<u64>> = bt.iter().map(|x| x.raw()).collect();
        let want: Vec<Vec<u64>> = order.iter().map(|k| raws[*k].clone()).collect();
        loc.check_at("btreeset", got == want, || format!("{name}: BTreeSet of all representations has {} keys (want {n}) or is not in integer order", got.len()));
        let mut v: Vec<F> = (0..n).map(|k| F::from_raw(&raws[(k * 7 + 3) % n])).collect();
        if gcd(7, n as u64) == 1 {
            v.sort();
            loc.check_at("sort", v.iter().map(|x| x.raw()).collect::<Vec<_>>() == want, || format!("{name}: slice::sort is not the integer order"));
        }
    });
}
fn gcd(a: u64, b: u64) -> u64 {
    if b == 0 {
        a
    } else {
        gcd(b, a % b)
    }
}

/// boundary alphabet of canonical raw limb vectors (<= 60), cf. c01 `operands`
fn alphabet(p: &BigUint, n: usize, mont: &Mont) -> Vec<Vec<u64>> {
    let ks: Vec<usize> = if n <= 4 { (1..=n).collect() } else { vec![1, 2, n - 1, n] };
    let mut ints: Vec<BigUint> = vec![
        BigUint::zero(),
        BigUint::one(),
        BigUint::from(2u32),
        BigUint::from(3u32),
        p - 1u32,
        p - 2u32,
        (p - 1u32) >> 1usize,
        (p + 1u32) >> 1usize,
        mont.r.clone(),
        (&mont.r * &mont.r) % p,
        BigUint::from(GENERIC64),
        BigUint::from(1u64 << 32),
    ];
    for k in ks {
        let t = pow2(64 * k);
        ints.push(&t - 1u32);
        ints.push(t.clone());
        ints.push(&t + 1u32);
    }
    let mut set: BTreeSet<Vec<u64>> = BTreeSet::new();
    let mut out: Vec<Vec<u64>> = Vec::new();
    for v in ints {
        let v = v % p;
        for l in [mont.encode(&v), to_limbs(&v, n)] {
            if set.insert(l.clone()) && out.len() < 60 {
                out.push(l);
            }
        }
    }
    out
}

fn prime_field<F: FpAccess + Coord>(ctx: &mut Ctx, name: &str, seen: &Mutex<BTreeSet<String>>, dedupe: bool) {
    let p = F::modulus_big();
    if dedupe && !seen.lock().unwrap().insert(p.to_str_radix(16)) {
        return;
    }
    let n = F::NLIMBS;
    let mont = Mont::new(&p, n);
    // whole universe for p <= 257 (thorough: p <= 1021)
    if p <= BigUint::from(ctx.t(257u32, 1021u32)) {
        let pu = p.to_u64_digits()[0];
        let all: Vec<Vec<u64>> = (0..pu).map(|x| mont.encode(&BigUint::from(x))).collect();
        prime_checks::<F>(ctx, name, &all, "all_pairs");
    } else {
        let ops = alphabet(&p, n, &mont);
        prime_checks::<F>(ctx, name, &ops, "alphabet");
    }
}

// ------------------------------------------------------------------ BigInt<N>
fn bigint_values<const N: usize>(dev: usize) -> Vec<[u64; N]> {
    let mut out: Vec<Vec<u64>> = Vec::new();
    if N <= 2 {
        let n = 10u64.pow(N as u32);
        for i in 0..n {
            out.push(unrank_vec(i, &vec![10u64; N]).iter().map(|k| L10[*k as usize]).collect());
        }
    } else {
        for base in [0u64, u64::MAX] {
            out.extend(deviation_ball(&vec![base; N], &L10, dev));
        }
        if N == 4 {
            for i in 0..256u64 {
                out.push(unrank_vec(i, &[4, 4, 4, 4]).iter().map(|k| L4[*k as usize]).collect());
            }
        }
        for pos in 0..N {
            let mut v = vec![0u64; N];
            v[pos] = GENERIC64;
            out.push(v);
        }
    }
    dedup_sorted(out)
        .into_iter()
        .map(|v| {
            let mut a = [0u64; N];
            a.copy_from_slice(&v);
            a
        })
        .collect()
}

fn bigint_checks<const N: usize>(ctx: &mut Ctx, dev: usize) {
    let vals = bigint_values::<N>(dev);
    let bigs: Vec<BigUint> = vals.iter().map(|v| from_limbs(v)).collect();
    let digs: Vec<u64> = vals.iter().map(|v| dig(&BigInt::<N>(*v))).collect();
    let cnt = vals.len() as u64;
    let seq_all = cnt * cnt <= 300_000;
    ctx.sweep(&format!("bigint_pairs/N={N}"), cnt * cnt, |i, loc| {
        let [ib, ia] = unrank(i, [cnt, cnt]);
        let (ia, ib) = (ia as usize, ib as usize);
        let (xa, xb) = (BigInt::<N>(vals[ia]), BigInt::<N>(vals[ib]));
        let (ba, bb) = (&bigs[ia], &bigs[ib]);
        let same = ba == bb;
        let what = || format!("BigInt<{N}> a={:x?} b={:x?}", vals[ia], vals[ib]);
        if loc.sampling() {
            loc.sample(what());
        }
        rel(loc, &xa, &xb, same, &what);
        ord_rel(loc, &xa, &xb, ba.cmp(bb), &what);
        // limb-boundary classes from the model
        if !same {
            let top_equal = vals[ia][N - 1] == vals[ib][N - 1];
            loc.class_if(N > 1 && top_equal, "bigint_order_tie_on_top_limb");
            // distinct values with equal digest: allowed by the property, reported as a metric only
            loc.class_if(digs[ia] == digs[ib], "hash_collision_distinct_values(metric)");
        }
        if !(seq_all || ib < 12) {
            return;
        }
        // the same integer through other routes
        let mut rs: Vec<(&'static str, BigInt<N>)> = Vec::new();
        {
            let mut t = xa;
            t.add_with_carry(&xb);
            t.sub_with_borrow(&xb);
            rs.push(("(a+b)-b wrapping", t));
        }
        {
            let mut t = xa;
            t.sub_with_borrow(&xb);
            t.add_with_carry(&xb);
            rs.push(("(a-b)+b wrapping", t));
        }
        rs.push(("!!a", !(!xa)));
        rs.push(("a^b^b", (xa ^ xb) ^ xb));
        rs.push(("a<<0", xa << 0));
        rs.push(("new(limbs)", BigInt::<N>::new(vals[ia])));
        rs.push(("from_bits_le(to_bits_le)", BigInt::<N>::from_bits_le(&xa.to_bits_le())));
        rs.push(("from_bits_be(to_bits_be)", BigInt::<N>::from_bits_be(&xa.to_bits_be())));
        if let Ok(x) = BigInt::<N>::from_str(&ba.to_str_radix(10)) {
            rs.push(("from_str(decimal)", x));
        } else {
            loc.fail_at("seq_value", format!("{}: from_str(decimal a) fails", what()));
        }
        if let Ok(x) = BigInt::<N>::try_from(ba.clone()) {
            rs.push(("try_from(BigUint)", x));
        } else {
            loc.fail_at("seq_value", format!("{}: try_from(BigUint a) fails", what()));
        }
        {
            let mut t = xa;
            let c = t.mul2();
            t.div2();
            if !c {
                rs.push(("mul2;div2 (no carry)", t));
            }
        }
        for (nm, r) in &rs {
            if from_limbs(&r.0) != *ba {
                loc.fail_at("seq_value", format!("{}: `{nm}` gives {:x?} (arithmetic, outside C19)", what(), r.0));
                continue;
            }
            loc.class("equal_via_different_sequences");
            let w = || format!("{} via `{nm}`", what());
            rel(loc, &xa, r, true, &w);
            ord_rel(loc, &xa, r, Ordering::Equal, &w);
            let z = ba.is_zero();
            loc.check_at("predicates", r.is_zero() == z && (*r == BigInt::<N>::zero()) == z && (*r == BigInt::<N>::default()) == z && (*r == BigInt::<N>::one()) == ba.is_one(), || {
                format!("{}: is_zero / == zero() / == one() disagree with the integer", w())
            });
        }
    });
    ctx.sweep(&format!("bigint_containers/N={N}"), 1, |_, loc| {
        let mut set: HashSet<BigInt<N>, Bh> = HashSet::default();
        let mut bt: BTreeSet<BigInt<N>> = BTreeSet::new();
        for v in &vals {
            let x = BigInt::<N>(*v);
            for r in [x, !(!x), BigInt::<N>::from_bits_le(&x.to_bits_le()), BigInt::<N>::try_from(from_limbs(v)).unwrap_or(x)] {
                set.insert(r);
                bt.insert(r);
                loc.op();
            }
        }
        loc.class("hashmap_dedup");
        loc.check_at("hashset", set.len() == vals.len(), || format!("BigInt<{N}>: {} keys for {} values", set.len(), vals.len()));
        // vals are sorted limb-vector-wise by dedup_sorted (little-endian lexicographic), so sort by integer
        let mut order: Vec<usize> = (0..vals.len()).collect();
        order.sort_by(|x, y| bigs[*x].cmp(&bigs[*y]));
        let got: Vec<[u64; N]> = bt.iter().map(|x| x.0).collect();
        let want: Vec<[u64; N]> = order.iter().map(|k| vals[*k]).collect();
        loc.check_at("btreeset", got == want, || format!("BigInt<{N}>: BTreeSet iteration is not the integer order ({} keys)", got.len()));
    });
}

// ------------------------------------------------------------------ toy towers (local: toy::gen_towers does not exist)
mod towers {
    use algebra_mc::toy::gen_fields::{D5, D7};
    use ark_ff::{Fp2, Fp2Config, Fp3, Fp3Config, Fp4, Fp4Config, Fp6, Fp6Config, MontFp};
    /// F_7[u]/(u^2+1)
    pub struct T7Fp2Cfg;
    impl Fp2Config for T7Fp2Cfg {
        type Fp = D7;
        const NONRESIDUE: D7 = MontFp!("6");
        const FROBENIUS_COEFF_FP2_C1: &'static [D7] = &[MontFp!("1"), MontFp!("6")];
    }
    pub type T7Fp2 = Fp2<T7Fp2Cfg>;
    /// F_7[v]/(v^3-2)
    pub struct T7Fp3Cfg;
    impl Fp3Config for T7Fp3Cfg {
        type Fp = D7;
        const NONRESIDUE: D7 = MontFp!("2");
        const FROBENIUS_COEFF_FP3_C1: &'static [D7] = &[MontFp!("1"), MontFp!("4"), MontFp!("2")];
        const FROBENIUS_COEFF_FP3_C2: &'static [D7] = &[MontFp!("1"), MontFp!("2"), MontFp!("4")];
        const TWO_ADICITY: u32 = 1;
        const TRACE_MINUS_ONE_DIV_TWO: &'static [u64] = &[85];
        const QUADRATIC_NONRESIDUE_TO_T: Fp3<Self> = Fp3::new(MontFp!("6"), MontFp!("0"), MontFp!("0"));
    }
    pub type T7Fp3 = Fp3<T7Fp3Cfg>;
    /// F_49[w]/(w^3-(1+u))
    #[derive(Clone, Copy)]
    pub struct T7Fp6Cfg;
    impl Fp6Config for T7Fp6Cfg {
        type Fp2Config = T7Fp2Cfg;
        const NONRESIDUE: T7Fp2 = Fp2::new(MontFp!("1"), MontFp!("1"));
        const FROBENIUS_COEFF_FP6_C1: &'static [T7Fp2] = &[
            Fp2::new(MontFp!("1"), MontFp!("0")),
            Fp2::new(MontFp!("0"), MontFp!("2")),
            Fp2::new(MontFp!("4"), MontFp!("0")),
            Fp2::new(MontFp!("0"), MontFp!("1")),
            Fp2::new(MontFp!("2"), MontFp!("0")),
            Fp2::new(MontFp!("0"), MontFp!("4")),
        ];
        const FROBENIUS_COEFF_FP6_C2: &'static [T7Fp2] = &[
            Fp2::new(MontFp!("1"), MontFp!("0")),
            Fp2::new(MontFp!("3"), MontFp!("0")),
            Fp2::new(MontFp!("2"), MontFp!("0")),
            Fp2::new(MontFp!("6"), MontFp!("0")),
            Fp2::new(MontFp!("4"), MontFp!("0")),
            Fp2::new(MontFp!("5"), MontFp!("0")),
        ];
    }
    pub type T7Fp6 = Fp6<T7Fp6Cfg>;
    /// F_5[u]/(u^2-2)
    pub struct T5Fp2Cfg;
    impl Fp2Config for T5Fp2Cfg {
        type Fp = D5;
        const NONRESIDUE: D5 = MontFp!("2");
        const FROBENIUS_COEFF_FP2_C1: &'static [D5] = &[MontFp!("1"), MontFp!("4")];
    }
    pub type T5Fp2 = Fp2<T5Fp2Cfg>;
    /// F_25[v]/(v^2-u)
    pub struct T5Fp4Cfg;
    impl Fp4Config for T5Fp4Cfg {
        type Fp2Config = T5Fp2Cfg;
        const NONRESIDUE: T5Fp2 = Fp2::new(MontFp!("0"), MontFp!("1"));
        const FROBENIUS_COEFF_FP4_C1: &'static [D5] = &[MontFp!("1"), MontFp!("2"), MontFp!("4"), MontFp!("3")];
    }
    pub type T5Fp4 = Fp4<T5Fp4Cfg>;
}

fn validate_towers(ctx: &mut Ctx) {
    // the binomials are irreducible (so the quotient rings are fields and inverses exist)
    let f7 = PrimeModel { p: 7 };
    let f5 = PrimeModel { p: 5 };
    ctx.validate(f7.pow(6, 3) != 1, "T7Fp2: -1 is a quadratic non-residue mod 7");
    ctx.validate(f7.pow(2, 2) != 1, "T7Fp3: 2 is a cubic non-residue mod 7 (and 3 | 7-1)");
    let f49 = Fp2Model { p: 7, beta: 6 };
    ctx.validate(f49.pow((1, 1), 16) != (1, 0), "T7Fp6: 1+u is a cubic non-residue in F_49");
    ctx.validate(f5.pow(2, 2) != 1, "T5Fp2: 2 is a quadratic non-residue mod 5");
    let f25 = Fp2Model { p: 5, beta: 2 };
    ctx.validate(f25.pow((0, 1), 12) != (1, 0), "T5Fp4: u is a quadratic non-residue in F_25");
    // the declared constants are the ones validated above
    use ark_ff::{Fp2Config, Fp3Config, Fp4Config, Fp6Config};
    let m7 = mont_of::<algebra_mc::toy::gen_fields::D7>();
    let m5 = mont_of::<algebra_mc::toy::gen_fields::D5>();
    let c = |v: Vec<BigUint>| -> Vec<u64> { v.iter().map(|x| x.to_u64_digits().first().copied().unwrap_or(0)).collect() };
    ctx.validate(c(coords(&m7, &towers::T7Fp2Cfg::NONRESIDUE)) == vec![6], "T7Fp2 NONRESIDUE");
    ctx.validate(c(coords(&m7, &towers::T7Fp3Cfg::NONRESIDUE)) == vec![2], "T7Fp3 NONRESIDUE");
    ctx.validate(c(coords(&m7, &<towers::T7Fp6Cfg as Fp6Config>::NONRESIDUE)) == vec![1, 1], "T7Fp6 NONRESIDUE");
    ctx.validate(c(coords(&m5, &towers::T5Fp2Cfg::NONRESIDUE)) == vec![2], "T5Fp2 NONRESIDUE");
    ctx.validate(c(coords(&m5, &<towers::T5Fp4Cfg as Fp4Config>::NONRESIDUE)) == vec![0, 1], "T5Fp4 NONRESIDUE");
    ctx.assume("toy towers declared inside c19.rs (F_7[u]/(u^2+1), F_7[v]/(v^3-2), F_49[w]/(w^3-(1+u)), F_5[u]/(u^2-2), F_25[v]/(v^2-u)); Frobenius maps / sqrt of these towers are never called here");
}

// ------------------------------------------------------------------ extension fields
/// elements with their model keys: `keys[i][k]` = rank of coordinate k (c0 first) in `rank_vals`
struct ExtSpace<F> {
    elems: Vec<F>,
    keys: Vec<Vec<u32>>,
    rank_vals: Vec<BigUint>,
}
impl<F: Coord> ExtSpace<F> {
    fn is0(&self, i: usize) -> bool {
        self.keys[i].iter().all(|r| self.rank_vals[*r as usize].is_zero())
    }
    fn is1(&self, i: usize) -> bool {
        self.rank_vals[self.keys[i][0] as usize].is_one() && self.keys[i][1..].iter().all(|r| self.rank_vals[*r as usize].is_zero())
    }
    fn show(&self, i: usize) -> String {
        format!("{:?}", self.keys[i].iter().map(|r| self.rank_vals[*r as usize].to_string()).collect::<Vec<_>>())
    }
}

fn ext_checks<F: Coord>(ctx: &mut Ctx, name: &str, sp: &ExtSpace<F>, npairs: u64, pair: &(dyn Fn(u64) -> (usize, usize) + Sync), bsub: &[usize]) {
    let m = mont_of::<F>();
    let deg = F::DEG;
    let chunk = deg / F::ARITY; // coordinates of the outermost highest coefficient
    ctx.sweep(&format!("ext_order/{name}"), npairs, |i, loc| {
        let (x, y) = pair(i);
        let (a, b) = (sp.elems[x], sp.elems[y]);
        let (ka, kb) = (&sp.keys[x], &sp.keys[y]);
        let same = ka == kb;
        let want = model_cmp(ka, kb);
        let what = || format!("{name}: a={} b={} (coordinates c0 first)", sp.show(x), sp.show(y));
        if loc.sampling() {
            loc.sample(what());
        }
        if same {
            loc.class("pair_equal");
        } else if ka[deg - chunk..] == kb[deg - chunk..] {
            loc.class("ext_order_tie_on_high_coeff");
            loc.class_if(ka[1..] == kb[1..], "ext_order_decided_by_lowest_coordinate");
        } else {
            loc.class("ext_order_decided_by_high_coeff");
            // the lower coefficients would give the opposite answer
            loc.class_if(model_cmp(&ka[..deg - chunk], &kb[..deg - chunk]) == want.reverse(), "ext_order_high_coeff_overrides_low");
        }
        rel(loc, &a, &b, same, &what);
        ord_rel(loc, &a, &b, want, &what);
    });
    let nb = bsub.len() as u64;
    ctx.sweep(&format!("ext_seq/{name}"), sp.elems.len() as u64 * nb, |i, loc| {
        let [kb, x] = unrank(i, [nb, sp.elems.len() as u64]);
        let (x, y) = (x as usize, bsub[kb as usize]);
        let (a, b) = (sp.elems[x], sp.elems[y]);
        let araw = raw_of(&a);
        let what = || format!("{name}: a={} b={}", sp.show(x), sp.show(y));
        if loc.sampling() {
            loc.sample(what());
        }
        let (is0, is1) = (sp.is0(x), sp.is1(x));
        let mut rs = seqs_to_a(a, b, !sp.is0(y));
        match F::from_base_prime_field_elems(a.to_base_prime_field_elements()) {
            Some(r) => rs.push(("from_base_prime_field_elems(to_base_prime_field_elements)", r)),
            None => loc.fail_at("seq_value", format!("{}: from_base_prime_field_elems(to_..) is None", what())),
        }
        rs.push(("rebuilt from decoded coordinates", F::build(&m, &coords_raw::<F>(&m, &araw))));
        for (nm, r) in &rs {
            check_same(loc, &m, &a, &araw, r, nm, is0, is1, &what);
        }
        if kb == 0 {
            let sq = square_group(a);
            let first = sq[0].1;
            let fraw = raw_of(&first);
            // a*a is the schoolbook reference for the squaring shortcuts only in the sense of "same value": decoded
            let c2 = coords_raw::<F>(&m, &fraw);
            let z = c2.iter().all(|c| c.is_zero());
            let o = c2[0].is_one() && c2[1..].iter().all(|c| c.is_zero());
            for (nm, r) in &sq[1..5] {
                check_same(loc, &m, &first, &fraw, r, nm, z, o, &|| format!("{} [a^2 group vs a.square()]", what()));
            }
        }
    });
    ctx.sweep(&format!("ext_containers/{name}"), 1, |_, loc| {
        let n = sp.elems.len();
        let mut order: Vec<usize> = (0..n).collect();
        order.sort_by(|x, y| model_cmp(&sp.keys[*x], &sp.keys[*y]));
        let want: Vec<Vec<u64>> = order.iter().map(|k| raw_of(&sp.elems[*k])).collect();
        // scrambled copy, sorted by the library
        let mut mult = 1_000_003u64 % n as u64;
        while mult == 0 || gcd(mult, n as u64) != 1 {
            mult += 1;
        }
        let mut v: Vec<F> = (0..n as u64).map(|k| sp.elems[((k * mult + 5) % n as u64) as usize]).collect();
        v.sort();
        loc.ops(n as u64);
        loc.check_at("sort", v.iter().map(raw_of).collect::<Vec<_>>() == want, || format!("{name}: slice::sort does not produce the documented lexicographic order (highest coefficient first)"));
        let mut set: HashSet<F, Bh> = HashSet::default();
        let mut bt: BTreeSet<F> = BTreeSet::new();
        let mut ins = 0u64;
        for x in 0..n {
            let a = sp.elems[x];
            set.insert(a);
            bt.insert(a);
            for y in bsub.iter().take(2) {
                let b = sp.elems[*y];
                for r in [(a + b) - b, -(-a), a.double() - a] {
                    set.insert(r);
                    bt.insert(r);
                    ins += 1;
                }
            }
        }
        loc.ops(ins);
        loc.class("hashmap_dedup");
        loc.check_at("hashset", set.len() == n, || format!("{name}: {} representations of {n} elements give {} HashSet keys", ins + n as u64, set.len()));
        loc.check_at("btreeset", bt.iter().map(raw_of).collect::<Vec<_>>() == want, || format!("{name}: BTreeSet has {} keys (want {n}) or is not in the documented order", bt.len()));
    });
}

fn toy_ext<F: Coord>(ctx: &mut Ctx, name: &str) {
    let m = mont_of::<F>();
    let p = F::modulus().to_u64_digits()[0];
    let deg = F::DEG;
    let n = p.pow(deg as u32);
    let rank_vals: Vec<BigUint> = (0..p).map(BigUint::from).collect();
    let mut elems = Vec::with_capacity(n as usize);
    let mut keys = Vec::with_capacity(n as usize);
    for i in 0..n {
        let d: Vec<u64> = unrank_vec(i, &vec![p; deg]);
        let c: Vec<BigUint> = d.iter().map(|x| BigUint::from(*x)).collect();
        let e = F::build(&m, &c);
        elems.push(e);
        keys.push(d.iter().map(|x| *x as u32).collect::<Vec<u32>>());
    }
    // harness self-check: the table decodes to its keys
    let ok = (0..n as usize).step_by(((n / 997).max(1)) as usize).all(|i| coords(&m, &elems[i]).iter().zip(&keys[i]).all(|(c, k)| *c == BigUint::from(*k)));
    ctx.validate(ok, &format!("{name}: element table decodes to its coordinates"));
    let sp = ExtSpace { elems, keys, rank_vals };
    let nn = n;
    if n <= 2401 {
        let bsub: Vec<usize> = if ctx.thorough() { (0..n as usize).collect() } else { probe_indices(n, 24) };
        ext_checks::<F>(ctx, name, &sp, n * n, &move |i| ((i / nn) as usize, (i % nn) as usize), &bsub);
        ctx.bound(&format!("ext/{name}"), format!("all {n} elements; order/eq: all ordered pairs; sequences: a over all, b over {}", bsub.len()));
    } else {
        // structured partners: one coordinate replaced by every value; (thorough) two coordinates; fixed probes
        let one = deg as u64 * p;
        let two = if ctx.thorough() { (deg * (deg - 1) / 2) as u64 * p * p } else { 0 };
        let probes = probe_indices(n, 40);
        let per = one + two + probes.len() as u64;
        let pairs: Vec<(usize, usize)> = (0..deg).flat_map(|k| (k + 1..deg).map(move |l| (k, l))).collect();
        let pw: Vec<u64> = (0..deg as u32).map(|k| p.pow(k)).collect();
        let probes2 = probes.clone();
        let f = move |i: u64| -> (usize, usize) {
            let x = i / per;
            let v = i % per;
            let set = |x: u64, k: usize, t: u64| -> u64 { x - ((x / pw[k]) % p) * pw[k] + t * pw[k] };
            let y = if v < one {
                set(x, (v / p) as usize, v % p)
            } else if v < one + two {
                let w = v - one;
                let (k, l) = pairs[(w / (p * p)) as usize];
                let r = w % (p * p);
                set(set(x, k, r / p), l, r % p)
            } else {
                probes2[(v - one - two) as usize] as u64
            };
            (x as usize, y as usize)
        };
        let bsub: Vec<usize> = if ctx.quick() { vec![1, (n / 2 + 1) as usize, (n - 1) as usize] } else { probe_indices(n, 6) };
        ext_checks::<F>(ctx, name, &sp, n * per, &f, &bsub);
        ctx.bound(&format!("ext/{name}"), format!("all {n} elements x structured partners ({per} per element: every single-coordinate replacement{}, {} probes); sequences: b over {} probes", if two > 0 { ", every two-coordinate replacement" } else { "" }, probes.len(), bsub.len()));
    }
}
/// deterministic probe element indices: 0, 1, boundary and evenly spaced
fn probe_indices(n: u64, k: u64) -> Vec<usize> {
    let mut v: Vec<u64> = vec![0, 1, 2, n - 1, n - 2, n / 2, n / 2 + 1];
    for j in 0..k {
        v.push((j * n) / k + (j % 7));
    }
    let mut out: Vec<usize> = Vec::new();
    for x in v {
        let x = (x % n) as usize;
        if !out.contains(&x) {
            out.push(x);
        }
    }
    out
}

/// shipped tower on a coordinate alphabet {0, 1, p-1, (p-1)/2, g64 mod p}: deviation <= dev from all-zero, <= 1 from all-(p-1)
fn shipped_ext<F: Coord>(ctx: &mut Ctx, name: &str, dev: usize) {
    let m = mont_of::<F>();
    let p = F::modulus();
    let mut rank_vals: Vec<BigUint> = vec![BigUint::zero(), BigUint::one(), &p - 1u32, (&p - 1u32) >> 1usize, BigUint::from(GENERIC64) % &p, BigUint::from(2u32)];
    rank_vals.sort();
    rank_vals.dedup();
    let alpha: Vec<u32> = (0..rank_vals.len() as u32).collect();
    let top = (rank_vals.len() - 1) as u32; // p-1
    let mut keys: Vec<Vec<u32>> = deviation_ball(&vec![0u32; F::DEG], &alpha, dev);
    keys.extend(deviation_ball(&vec![top; F::DEG], &alpha, 1));
    let keys = dedup_sorted(keys);
    let elems: Vec<F> = keys.iter().map(|k| F::build(&m, &k.iter().map(|r| rank_vals[*r as usize].clone()).collect::<Vec<_>>())).collect();
    let n = elems.len() as u64;
    let sp = ExtSpace { elems, keys, rank_vals };
    // b: one, an element with every coordinate generic, one with only the highest coordinate set, all p-1
    let find = |k: Vec<u32>| sp.keys.iter().position(|x| *x == k);
    let mut bsub: Vec<usize> = Vec::new();
    let mut one = vec![0u32; F::DEG];
    one[0] = 1;
    let mut hi = vec![0u32; F::DEG];
    hi[F::DEG - 1] = top;
    for k in [one, hi, vec![top; F::DEG], vec![0u32; F::DEG]] {
        if let Some(i) = find(k) {
            bsub.push(i);
        }
    }
    bsub.push((n / 3) as usize);
    ext_checks::<F>(ctx, name, &sp, n * n, &move |i| ((i / n) as usize, (i % n) as usize), &bsub);
    ctx.bound(&format!("ext/{name}"), format!("{n} elements (coordinate alphabet of {} values, deviation <= {dev} from 0 and <= 1 from p-1); all ordered pairs", sp.rank_vals.len()));
}

// ------------------------------------------------------------------ toy curves
fn dedup_keep<T: PartialEq + Clone>(v: Vec<T>) -> Vec<T> {
    let mut out: Vec<T> = Vec::new();
    for x in v {
        if !out.contains(&x) {
            out.push(x);
        }
    }
    out
}
/// j-partners for the operation sweeps: everything for small groups, a spread subset otherwise
fn partner_list(n: usize, gen: usize, limit: usize) -> Vec<usize> {
    if n <= limit {
        return (0..n).collect();
    }
    let mut v = vec![0usize, gen, n - 1];
    let step = (n / limit).max(1);
    v.extend((0..n).step_by(step));
    dedup_keep(v)
}

const K_RESCALED: u8 = 0;
const K_ID_CANON: u8 = 1;
const K_ID_JUNK: u8 = 2;

fn sw_toy<P: sw::SWCurveConfig>(ctx: &mut Ctx, name: &str)
where
    P::BaseField: PrimeField,
    P::ScalarField: PrimeField,
{
    let t = SwToy::<P>::new(name);
    t.validate(ctx);
    let (p, n, id) = (t.p, t.n(), t.g.id);
    let g = prime_to_u64(&P::BaseField::GENERATOR);
    let tiny = p <= 31;
    let zs: Vec<u64> = if tiny { (1..p).collect() } else { dedup_keep(vec![1, 2, g, p - 1]) };
    let junk: Vec<(u64, u64)> = if tiny {
        (0..p).flat_map(|x| (0..p).map(move |y| (x, y))).collect()
    } else {
        let v = dedup_keep(vec![0, 1, 2, g, p - 1]);
        v.iter().flat_map(|x| v.iter().map(move |y| (*x, *y))).collect()
    };
    // (oracle index, representative, kind, z)
    let mut reps: Vec<(usize, sw::Projective<P>, u8, u64)> = Vec::new();
    reps.push((id, sw::Projective::<P>::zero(), K_ID_CANON, 0));
    reps.push((id, sw::Projective::<P>::default(), K_ID_CANON, 0));
    for (x, y) in &junk {
        reps.push((id, t.proj_identity_junk(*x, *y), if (*x, *y) == (1, 1) { K_ID_CANON } else { K_ID_JUNK }, 0));
    }
    for i in 0..n {
        if i != id {
            for z in &zs {
                reps.push((i, t.proj(i, *z), K_RESCALED, *z));
            }
        }
    }
    ctx.validate(reps.iter().all(|r| t.idx_proj(&r.1) == Some(r.0)), &format!("{name}: representatives decode to their oracle index"));
    let nr = reps.len() as u64;
    ctx.bound(&format!("curve/{name}"), format!("{n} points; Z in {} values; {} identity representations; {} representatives, all ordered pairs", zs.len(), junk.len() + 2, nr));
    // ---- unary: every representative
    ctx.sweep(&format!("sw_reps/{name}"), nr, |i, loc| {
        let (idx, pt, kind, z) = reps[i as usize];
        let what = || format!("{name}: point #{idx} {:?} as (X,Y,Z)=({},{},{})", t.g.pts[idx], pt.x, pt.y, pt.z);
        if loc.sampling() {
            loc.sample(what());
        }
        loc.class_if(kind == K_ID_JUNK, "identity_noncanonical");
        loc.class_if(kind == K_RESCALED && z != 1, "projective_rescaled");
        let isid = idx == id;
        loc.check_at("predicates", pt.is_zero() == isid && (pt == sw::Projective::<P>::zero()) == isid && (pt == sw::Projective::<P>::ZERO) == isid, || {
            format!("{}: is_zero / == zero() disagree with the oracle (identity={isid})", what())
        });
        rel(loc, &pt, &pt.clone(), true, &what);
        // normalisation routes give the affine point of the oracle, structurally equal and hash-equal
        let want = t.aff(idx);
        let routes: Vec<(&str, sw::Affine<P>)> = vec![
            ("into_affine", pt.into_affine()),
            ("Affine::from", sw::Affine::<P>::from(pt)),
            ("normalize_batch[0]", sw::Projective::<P>::normalize_batch(&[pt, sw::Projective::<P>::zero(), pt])[0]),
            ("normalize_batch[2]", sw::Projective::<P>::normalize_batch(&[pt, sw::Projective::<P>::zero(), pt])[2]),
            ("-(-affine)", -(-pt.into_affine())),
        ];
        for (nm, a) in &routes {
            if t.idx_aff(a) != Some(idx) {
                loc.fail_at("seq_value", format!("{}: `{nm}` gives affine {:?} (conversion, outside C19)", what(), a));
                continue;
            }
            loc.class("equal_via_different_sequences");
            let w = || format!("{} affine via `{nm}` = {:?} vs oracle-built affine", what(), a);
            rel(loc, a, &want, true, &w);
            loc.check_at("predicates", a.is_zero() == isid && a.infinity == isid, || format!("{}: affine is_zero/infinity", w()));
            // round trip back to projective
            let back = a.into_group();
            rel(loc, &pt, &back, true, &|| format!("{} vs into_affine().into_group()", what()));
            loc.check_at("eq_affine_projective", (*a == pt) && (pt == *a), || format!("{}: Affine == Projective of the same point is false", w()));
        }
        if isid {
            for (nm, a) in [("Affine::identity()", sw::Affine::<P>::identity()), ("AffineRepr::zero()", <sw::Affine<P> as AffineRepr>::zero()), ("Affine::default()", sw::Affine::<P>::default())] {
                rel(loc, &pt.into_affine(), &a, true, &|| format!("{}: into_affine vs {nm}", what()));
            }
        }
    });
    // ---- all ordered pairs of representatives
    ctx.sweep(&format!("sw_pairs/{name}"), nr * nr, |i, loc| {
        let [iq, ip] = unrank(i, [nr, nr]);
        let (ia, pa, ka, za) = reps[ip as usize];
        let (ib, pb, kb, zb) = reps[iq as usize];
        let same = ia == ib;
        let what = || format!("{name}: P=#{ia} {:?} as ({},{},{}) Q=#{ib} {:?} as ({},{},{})", t.g.pts[ia], pa.x, pa.y, pa.z, t.g.pts[ib], pb.x, pb.y, pb.z);
        if loc.sampling() {
            loc.sample(what());
        }
        if same {
            loc.class_if(ia != id && za != zb, "projective_rescaled");
            loc.class_if(ia == id && (ka == K_ID_JUNK || kb == K_ID_JUNK), "identity_noncanonical");
        } else {
            loc.class_if(ia == id || ib == id, "identity_vs_finite");
            // same x, opposite y
            loc.class_if(ia != id && ib != id && t.g.add[ia][ib] == id, "opposite_points");
        }
        rel(loc, &pa, &pb, same, &what);
        // affine vs projective, both directions
        let aq = t.aff(ib);
        let (e1, e2) = (pa == aq, aq == pa);
        loc.class_if(same, "affine_vs_projective");
        loc.check_at("eq_affine_projective", e1 == same && e2 == same, || format!("{}: Projective==Affine(Q):{e1} Affine(Q)==Projective:{e2}, model same={same}", what()));
    });
    // ---- values produced by group operations (any Z the library chooses)
    let js = partner_list(n, t.gen, if ctx.quick() { 96 } else { 2000 });
    let zc: Vec<(u64, u64)> = if ctx.quick() { vec![(1, 1), (g, 2)] } else { vec![(1, 1), (g, 2), (1, g), (p - 1, p - 1)] };
    let (nj, nz) = (js.len() as u64, zc.len() as u64);
    ctx.sweep(&format!("sw_ops/{name}"), n as u64 * nj * nz, |c, loc| {
        let [iz, ij, i] = unrank(c, [nz, nj, n as u64]);
        let (i, j) = (i as usize, js[ij as usize]);
        let (zi, zj) = zc[iz as usize];
        let (pi, qj) = (t.proj(i, zi), t.proj(j, zj));
        let k = t.g.add[i][j];
        let what = || format!("{name}: P=#{i} {:?} (Z={zi}) Q=#{j} {:?} (Z={zj})", t.g.pts[i], t.g.pts[j]);
        if loc.sampling() {
            loc.sample(what());
        }
        let rs: Vec<(&str, usize, sw::Projective<P>)> = vec![
            ("P+Q", k, pi + qj),
            ("Q+P", k, qj + pi),
            ("P+affine(Q)", k, pi + t.aff(j)),
            ("(P+Q)-Q", i, (pi + qj) - qj),
            ("-(-P)", i, -(-pi)),
            ("P-P", id, pi - pi),
            ("P+(-P)", id, pi + (-pi)),
            ("P.double()", t.g.add[i][i], pi.double()),
            ("P+P", t.g.add[i][i], pi + pi),
            ("affine(P)+affine... via into_group", i, t.aff(i).into_group()),
        ];
        for (nm, e, r) in &rs {
            if t.idx_proj(r) != Some(*e) {
                loc.fail_at("seq_value", format!("{}: `{nm}` = ({},{},{}) does not decode to oracle point #{e} (group law, outside C19)", what(), r.x, r.y, r.z));
                continue;
            }
            loc.class("equal_via_different_sequences");
            let noncanon_id = *e == id && !(r.x.is_one() && r.y.is_one());
            loc.class_if(noncanon_id, "identity_noncanonical");
            loc.class_if(*e != id && !r.z.is_one(), "projective_rescaled");
            let canon = if *e == id { sw::Projective::<P>::zero() } else { t.proj(*e, 1) };
            let w = || format!("{}: `{nm}` = ({},{},{}) vs canonical representative of #{e}", what(), r.x, r.y, r.z);
            rel(loc, r, &canon, true, &w);
            let ae = t.aff(*e);
            loc.check_at("eq_affine_projective", (*r == ae) && (ae == *r), || format!("{}: != its affine form", w()));
            loc.check_at("predicates", r.is_zero() == (*e == id), || format!("{}: is_zero", w()));
            // a different point must not compare equal
            let other = (*e + 1) % n;
            let oc = if other == id { sw::Projective::<P>::zero() } else { t.proj(other, zj) };
            rel(loc, r, &oc, false, &|| format!("{}: `{nm}` vs a representative of #{other}", what()));
        }
    });
    // ---- containers
    ctx.sweep(&format!("sw_containers/{name}"), 1, |_, loc| {
        let mut set: HashSet<sw::Projective<P>, Bh> = HashSet::default();
        let mut aset: HashSet<sw::Affine<P>, Bh> = HashSet::default();
        // HashMapPippenger-style buffer: affine key -> accumulated scalar
        let mut buf: HashMap<sw::Affine<P>, P::ScalarField, Bh> = HashMap::default();
        let mut count = vec![0u64; n];
        for (idx, pt, _, _) in &reps {
            set.insert(*pt);
            let a = pt.into_affine();
            aset.insert(a);
            *buf.entry(a).or_insert(P::ScalarField::zero()) += P::ScalarField::one();
            count[*idx] += 1;
            loc.op();
        }
        for i in 0..n {
            let r = t.proj(i, 1) + t.proj(t.gen, 1) - t.aff(t.gen);
            if t.idx_proj(&r) == Some(i) {
                set.insert(r);
                *buf.entry(r.into_affine()).or_insert(P::ScalarField::zero()) += P::ScalarField::one();
                count[i] += 1;
            }
            aset.insert(t.aff(i));
        }
        loc.class("hashmap_dedup");
        loc.check_at("hashset", set.len() == n && aset.len() == n, || format!("{name}: all representations of the {n} points give {} HashSet<Projective> keys and {} HashSet<Affine> keys", set.len(), aset.len()));
        let mut ok = buf.len() == n;
        for i in 0..n {
            ok &= buf.get(&t.aff(i)).map(prime_to_u64) == Some(count[i] % t.r);
        }
        loc.check_at("hashmap", ok, || format!("{name}: affine-keyed scalar buffer has {} keys (want {n}) or wrong merged multiplicities", buf.len()));
    });
}

fn te_toy<P: te::TECurveConfig>(ctx: &mut Ctx, name: &str)
where
    P::BaseField: PrimeField,
    P::ScalarField: PrimeField,
{
    let t = TeToy::<P>::new(name);
    t.validate(ctx);
    let (p, n, id) = (t.p, t.n(), t.g.id);
    let g = prime_to_u64(&P::BaseField::GENERATOR);
    let tiny = p <= 31;
    let zs: Vec<u64> = if tiny { (1..p).collect() } else { dedup_keep(vec![1, 2, g, p - 1]) };
    let mut reps: Vec<(usize, te::Projective<P>, u8, u64)> = Vec::new();
    reps.push((id, te::Projective::<P>::zero(), K_ID_CANON, 1));
    reps.push((id, te::Projective::<P>::default(), K_ID_CANON, 1));
    for i in 0..n {
        for z in &zs {
            let kind = if i == id { if *z == 1 { K_ID_CANON } else { K_ID_JUNK } } else { K_RESCALED };
            reps.push((i, t.proj(i, *z), kind, *z));
        }
    }
    ctx.validate(reps.iter().all(|r| t.idx_proj(&r.1) == Some(r.0)), &format!("{name}: representatives decode to their oracle index"));
    let nr = reps.len() as u64;
    ctx.bound(&format!("curve/{name}"), format!("{n} points; Z in {} values (identity as (0,z,0,z) for each); {nr} representatives, all ordered pairs", zs.len()));
    ctx.sweep(&format!("te_reps/{name}"), nr, |i, loc| {
        let (idx, pt, kind, z) = reps[i as usize];
        let what = || format!("{name}: point #{idx} {:?} as (X,Y,T,Z)=({},{},{},{})", t.g.pts[idx], pt.x, pt.y, pt.t, pt.z);
        if loc.sampling() {
            loc.sample(what());
        }
        loc.class_if(kind == K_ID_JUNK, "identity_noncanonical");
        loc.class_if(kind == K_RESCALED && z != 1, "projective_rescaled");
        let isid = idx == id;
        loc.check_at("predicates", pt.is_zero() == isid && (pt == te::Projective::<P>::zero()) == isid && (pt == te::Projective::<P>::ZERO) == isid, || {
            format!("{}: is_zero / == zero() disagree with the oracle (identity={isid})", what())
        });
        rel(loc, &pt, &pt.clone(), true, &what);
        let want = t.aff(idx);
        let routes: Vec<(&str, te::Affine<P>)> = vec![
            ("into_affine", pt.into_affine()),
            ("Affine::from", te::Affine::<P>::from(pt)),
            ("normalize_batch[0]", te::Projective::<P>::normalize_batch(&[pt, te::Projective::<P>::zero(), pt])[0]),
            ("normalize_batch[2]", te::Projective::<P>::normalize_batch(&[pt, te::Projective::<P>::zero(), pt])[2]),
            ("-(-affine)", -(-pt.into_affine())),
        ];
        for (nm, a) in &routes {
            if t.idx_aff(a) != Some(idx) {
                loc.fail_at("seq_value", format!("{}: `{nm}` gives affine ({},{}) (conversion, outside C19)", what(), a.x, a.y));
                continue;
            }
            loc.class("equal_via_different_sequences");
            let w = || format!("{} affine via `{nm}` = ({},{}) vs oracle-built affine", what(), a.x, a.y);
            rel(loc, a, &want, true, &w);
            loc.check_at("predicates", a.is_zero() == isid && (*a == te::Affine::<P>::zero()) == isid, || format!("{}: affine is_zero / == zero()", w()));
            let back = a.into_group();
            rel(loc, &pt, &back, true, &|| format!("{} vs into_affine().into_group()", what()));
            loc.check_at("eq_affine_projective", (*a == pt) && (pt == *a), || format!("{}: Affine == Projective of the same point is false", w()));
        }
    });
    ctx.sweep(&format!("te_pairs/{name}"), nr * nr, |i, loc| {
        let [iq, ip] = unrank(i, [nr, nr]);
        let (ia, pa, ka, za) = reps[ip as usize];
        let (ib, pb, kb, zb) = reps[iq as usize];
        let same = ia == ib;
        let what = || format!("{name}: P=#{ia} {:?} as ({},{},{},{}) Q=#{ib} {:?} as ({},{},{},{})", t.g.pts[ia], pa.x, pa.y, pa.t, pa.z, t.g.pts[ib], pb.x, pb.y, pb.t, pb.z);
        if loc.sampling() {
            loc.sample(what());
        }
        if same {
            loc.class_if(ia != id && za != zb, "projective_rescaled");
            loc.class_if(ia == id && (ka == K_ID_JUNK || kb == K_ID_JUNK), "identity_noncanonical");
        } else {
            loc.class_if(ia == id || ib == id, "identity_vs_finite");
        }
        rel(loc, &pa, &pb, same, &what);
        let aq = t.aff(ib);
        let (e1, e2) = (pa == aq, aq == pa);
        loc.class_if(same, "affine_vs_projective");
        loc.check_at("eq_affine_projective", e1 == same && e2 == same, || format!("{}: Projective==Affine(Q):{e1} Affine(Q)==Projective:{e2}, model same={same}", what()));
    });
    // operations: on incomplete parameters the property (and the library formulas) only speak about the prime-order subgroup
    let dom: Vec<usize> = (0..n).filter(|i| t.complete || t.in_subgroup[*i]).collect();
    let js: Vec<usize> = partner_list(n, t.gen, if ctx.quick() { 96 } else { 2000 }).into_iter().filter(|i| t.complete || t.in_subgroup[*i]).collect();
    let zc: Vec<(u64, u64)> = if ctx.quick() { vec![(1, 1), (g, 2)] } else { vec![(1, 1), (g, 2), (1, g), (p - 1, p - 1)] };
    let (nd, nj, nz) = (dom.len() as u64, js.len() as u64, zc.len() as u64);
    ctx.sweep(&format!("te_ops/{name}"), nd * nj * nz, |c, loc| {
        let [iz, ij, ii] = unrank(c, [nz, nj, nd]);
        let (i, j) = (dom[ii as usize], js[ij as usize]);
        let (zi, zj) = zc[iz as usize];
        let (pi, qj) = (t.proj(i, zi), t.proj(j, zj));
        let k = t.g.add[i][j];
        let what = || format!("{name}: P=#{i} {:?} (Z={zi}) Q=#{j} {:?} (Z={zj})", t.g.pts[i], t.g.pts[j]);
        if loc.sampling() {
            loc.sample(what());
        }
        let rs: Vec<(&str, usize, te::Projective<P>)> = vec![
            ("P+Q", k, pi + qj),
            ("Q+P", k, qj + pi),
            ("P+affine(Q)", k, pi + t.aff(j)),
            ("(P+Q)-Q", i, (pi + qj) - qj),
            ("-(-P)", i, -(-pi)),
            ("P-P", id, pi - pi),
            ("P+(-P)", id, pi + (-pi)),
            ("P.double()", t.g.add[i][i], pi.double()),
            ("P+P", t.g.add[i][i], pi + pi),
            ("affine(P).into_group()", i, t.aff(i).into_group()),
        ];
        for (nm, e, r) in &rs {
            if *e == usize::MAX {
                continue;
            }
            if t.idx_proj(r) != Some(*e) {
                loc.fail_at("seq_value", format!("{}: `{nm}` = ({},{},{},{}) does not decode to oracle point #{e} (group law, outside C19)", what(), r.x, r.y, r.t, r.z));
                continue;
            }
            loc.class("equal_via_different_sequences");
            loc.class_if(*e == id && !r.z.is_one(), "identity_noncanonical");
            loc.class_if(*e != id && !r.z.is_one(), "projective_rescaled");
            let canon = if *e == id { te::Projective::<P>::zero() } else { t.proj(*e, 1) };
            let w = || format!("{}: `{nm}` = ({},{},{},{}) vs canonical representative of #{e}", what(), r.x, r.y, r.t, r.z);
            rel(loc, r, &canon, true, &w);
            let ae = t.aff(*e);
            loc.check_at("eq_affine_projective", (*r == ae) && (ae == *r), || format!("{}: != its affine form", w()));
            loc.check_at("predicates", r.is_zero() == (*e == id), || format!("{}: is_zero", w()));
            let other = (*e + 1) % n;
            rel(loc, r, &t.proj(other, zj), false, &|| format!("{}: `{nm}` vs a representative of #{other}", what()));
        }
    });
    ctx.sweep(&format!("te_containers/{name}"), 1, |_, loc| {
        let mut set: HashSet<te::Projective<P>, Bh> = HashSet::default();
        let mut aset: HashSet<te::Affine<P>, Bh> = HashSet::default();
        let mut buf: HashMap<te::Affine<P>, P::ScalarField, Bh> = HashMap::default();
        let mut count = vec![0u64; n];
        for (idx, pt, _, _) in &reps {
            set.insert(*pt);
            let a = pt.into_affine();
            aset.insert(a);
            *buf.entry(a).or_insert(P::ScalarField::zero()) += P::ScalarField::one();
            count[*idx] += 1;
            loc.op();
        }
        for i in &dom {
            let r = t.proj(*i, 1) + t.proj(t.gen, 1) - t.aff(t.gen);
            if t.idx_proj(&r) == Some(*i) {
                set.insert(r);
                *buf.entry(r.into_affine()).or_insert(P::ScalarField::zero()) += P::ScalarField::one();
                count[*i] += 1;
            }
        }
        loc.class("hashmap_dedup");
        loc.check_at("hashset", set.len() == n && aset.len() == n, || format!("{name}: all representations of the {n} points give {} HashSet<Projective> keys and {} HashSet<Affine> keys", set.len(), aset.len()));
        let mut ok = buf.len() == n;
        for i in 0..n {
            ok &= buf.get(&t.aff(i)).map(prime_to_u64) == Some(count[i] % t.r);
        }
        loc.check_at("hashmap", ok, || format!("{name}: affine-keyed scalar buffer has {} keys (want {n}) or wrong merged multiplicities", buf.len()));
    });
}

// ------------------------------------------------------------------ shipped curves (A)
/// a "generic-looking" non-zero element with every base-prime-field coordinate set
fn generic_elem<F: Field>() -> F {
    let d = F::extension_degree() as usize;
    let v: Vec<F::BasePrimeField> = (0..d).map(|k| F::BasePrimeField::from(GENERIC64) + F::BasePrimeField::from(3u64 + 2 * k as u64)).collect();
    F::from_base_prime_field_elems(v).expect("degree")
}

fn sw_shipped<P: sw::SWCurveConfig>(ctx: &mut Ctx, name: &str) {
    type B<P> = <P as ark_ec::CurveConfig>::BaseField;
    let gen = P::GENERATOR;
    let (x, y) = (gen.x, gen.y);
    // textbook tangent doubling with (C01/C02-checked) field operations
    let lam = (x.square() * B::<P>::from(3u64) + P::COEFF_A) / y.double();
    let x2 = lam.square() - x.double();
    let y2 = lam * (x - x2) - y;
    let on = |x: B<P>, y: B<P>| y.square() == x.square() * x + P::COEFF_A * x + P::COEFF_B;
    ctx.validate(on(x, y) && on(x2, y2) && x2 != x && !y.is_zero(), &format!("{name}: G and the model's 2G are on the curve, distinct x"));
    // labels: 0 = O, 1 = G, 2 = 2G, 3 = -G  (pairwise distinct: the generator has prime order r > 3)
    let labels: Vec<Option<(B<P>, B<P>)>> = vec![None, Some((x, y)), Some((x2, y2)), Some((x, -y))];
    let lname = ["O", "G", "2G", "-G"];
    let gz = generic_elem::<B<P>>();
    let zs: Vec<B<P>> = vec![B::<P>::one(), B::<P>::from(2u64), -B::<P>::one(), gz];
    let mut reps: Vec<(usize, String, sw::Projective<P>)> = Vec::new();
    for (l, xy) in labels.iter().enumerate() {
        if let Some((ax, ay)) = xy {
            for (k, z) in zs.iter().enumerate() {
                let z2 = z.square();
                reps.push((l, format!("rescaled by z#{k}"), sw::Projective::<P>::new_unchecked(*ax * z2, *ay * z2 * z, *z)));
            }
        }
    }
    reps.push((0, "zero()".into(), sw::Projective::<P>::zero()));
    for (k, jx) in [B::<P>::zero(), B::<P>::one(), gz].iter().enumerate() {
        for (l, jy) in [B::<P>::zero(), B::<P>::one(), gz].iter().enumerate() {
            reps.push((0, format!("(junk x#{k}, junk y#{l}, 0)"), sw::Projective::<P>::new_unchecked(*jx, *jy, B::<P>::zero())));
        }
    }
    let gp: sw::Projective<P> = gen.into_group();
    let two = P::ScalarField::from(2u64);
    let computed: Vec<(usize, &str, sw::Projective<P>)> = vec![
        (1, "generator().into_group()", gp),
        (1, "2G-G", gp.double() - gp),
        (1, "-(-G)", -(-gp)),
        (1, "G*1", gp * P::ScalarField::one()),
        (2, "G+G", gp + gp),
        (2, "G.double()", gp.double()),
        (2, "G+affine G", gp + gen),
        (2, "3G-G", (gp.double() + gp) - gp),
        (2, "G*2", gp * two),
        (3, "-G", -gp),
        (3, "O-G", sw::Projective::<P>::zero() - gp),
        (3, "2G-3G", gp.double() - (gp.double() + gp)),
        (3, "G*(-1)", gp * (-P::ScalarField::one())),
        (0, "G-G", gp - gp),
        (0, "G+(-G)", gp + (-gp)),
        (0, "2G-G-G", gp.double() - gp - gp),
        (0, "G*0", gp * P::ScalarField::zero()),
        (0, "affine identity into_group", sw::Affine::<P>::identity().into_group()),
    ];
    for (l, nm, r) in computed {
        reps.push((l, nm.to_string(), r));
    }
    // model decoding of a representative
    let denote = |r: &sw::Projective<P>| -> Option<usize> {
        if r.z == B::<P>::zero() {
            return Some(0);
        }
        let zi = B::<P>::one() / r.z;
        let zi2 = zi * zi;
        let pt = (r.x * zi2, r.y * zi2 * zi);
        labels.iter().position(|l| *l == Some(pt))
    };
    let affs: Vec<sw::Affine<P>> = labels.iter().map(|l| l.map_or(sw::Affine::<P>::identity(), |(ax, ay)| sw::Affine::<P>::new_unchecked(ax, ay))).collect();
    let nr = reps.len() as u64;
    ctx.sweep(&format!("sw_shipped/{name}"), nr * nr, |i, loc| {
        let [iq, ip] = unrank(i, [nr, nr]);
        let (la, na, pa) = &reps[ip as usize];
        let (lb, nb, pb) = &reps[iq as usize];
        let what = || format!("{name}: {} [{na}] vs {} [{nb}]", lname[*la], lname[*lb]);
        if loc.sampling() {
            loc.sample(what());
        }
        if denote(pa) != Some(*la) || denote(pb) != Some(*lb) {
            if ip == iq {
                loc.fail_at("seq_value", format!("{name}: {} [{na}] does not decode to its label (group law, outside C19)", lname[*la]));
            }
            return;
        }
        let same = la == lb;
        if same && ip != iq {
            loc.class("equal_via_different_sequences");
            loc.class_if(*la == 0, "identity_noncanonical");
            loc.class_if(*la != 0 && pa.z != pb.z, "projective_rescaled");
        }
        rel(loc, pa, pb, same, &what);
        let aq = affs[*lb];
        let (e1, e2) = (*pa == aq, aq == *pa);
        loc.check_at("eq_affine_projective", e1 == same && e2 == same, || format!("{}: Projective==Affine:{e1} Affine==Projective:{e2}, model same={same}", what()));
        let an = pa.into_affine();
        rel(loc, &an, &affs[*la], true, &|| format!("{}: into_affine vs coordinates-built affine", what()));
        loc.check_at("predicates", pa.is_zero() == (*la == 0), || format!("{}: is_zero", what()));
    });
    ctx.sweep(&format!("sw_shipped_containers/{name}"), 1, |_, loc| {
        let mut set: HashSet<sw::Projective<P>, Bh> = HashSet::default();
        let mut buf: HashMap<sw::Affine<P>, u64, Bh> = HashMap::default();
        let mut cnt = [0u64; 4];
        for (l, _, r) in &reps {
            if denote(r) == Some(*l) {
                set.insert(*r);
                *buf.entry(r.into_affine()).or_insert(0) += 1;
                cnt[*l] += 1;
                loc.op();
            }
        }
        loc.class("hashmap_dedup");
        let ok = (0..4).all(|l| buf.get(&affs[l]).copied() == Some(cnt[l]));
        loc.check_at("hashset", set.len() == 4 && buf.len() == 4 && ok, || format!("{name}: {} representations of O,G,2G,-G give {} projective keys / {} affine keys", reps.len(), set.len(), buf.len()));
    });
}

fn te_shipped<P: te::TECurveConfig>(ctx: &mut Ctx, name: &str) {
    type B<P> = <P as ark_ec::CurveConfig>::BaseField;
    let gen = P::GENERATOR;
    let (x, y) = (gen.x, gen.y);
    let one = B::<P>::one();
    let dxy = P::COEFF_D * x.square() * y.square();
    let x2 = (x * y).double() / (one + dxy);
    let y2 = (y.square() - P::COEFF_A * x.square()) / (one - dxy);
    let on = |x: B<P>, y: B<P>| P::COEFF_A * x.square() + y.square() == one + P::COEFF_D * x.square() * y.square();
    ctx.validate(on(x, y) && on(x2, y2) && !x.is_zero() && (x2, y2) != (x, y) && (x2, y2) != (-x, y), &format!("{name}: G and the model's 2G are on the curve and distinct"));
    let labels: Vec<(B<P>, B<P>)> = vec![(B::<P>::zero(), one), (x, y), (x2, y2), (-x, y)];
    let lname = ["O", "G", "2G", "-G"];
    let gz = generic_elem::<B<P>>();
    let zs: Vec<B<P>> = vec![one, B::<P>::from(2u64), -one, gz];
    let mut reps: Vec<(usize, String, te::Projective<P>)> = Vec::new();
    for (l, (ax, ay)) in labels.iter().enumerate() {
        for (k, z) in zs.iter().enumerate() {
            reps.push((l, format!("rescaled by z#{k}"), te::Projective::<P>::new_unchecked(*ax * z, *ay * z, *ax * ay * z, *z)));
        }
    }
    reps.push((0, "zero()".into(), te::Projective::<P>::zero()));
    let gp: te::Projective<P> = gen.into_group();
    let two = P::ScalarField::from(2u64);
    let computed: Vec<(usize, &str, te::Projective<P>)> = vec![
        (1, "generator().into_group()", gp),
        (1, "2G-G", gp.double() - gp),
        (1, "-(-G)", -(-gp)),
        (1, "G*1", gp * P::ScalarField::one()),
        (2, "G+G", gp + gp),
        (2, "G.double()", gp.double()),
        (2, "G+affine G", gp + gen),
        (2, "3G-G", (gp.double() + gp) - gp),
        (2, "G*2", gp * two),
        (3, "-G", -gp),
        (3, "O-G", te::Projective::<P>::zero() - gp),
        (3, "2G-3G", gp.double() - (gp.double() + gp)),
        (3, "G*(-1)", gp * (-P::ScalarField::one())),
        (0, "G-G", gp - gp),
        (0, "G+(-G)", gp + (-gp)),
        (0, "2G-G-G", gp.double() - gp - gp),
        (0, "G*0", gp * P::ScalarField::zero()),
        (0, "affine zero into_group", te::Affine::<P>::zero().into_group()),
    ];
    for (l, nm, r) in computed {
        reps.push((l, nm.to_string(), r));
    }
    let denote = |r: &te::Projective<P>| -> Option<usize> {
        if r.z == B::<P>::zero() {
            return None;
        }
        let zi = one / r.z;
        let pt = (r.x * zi, r.y * zi);
        if r.t * zi != pt.0 * pt.1 {
            return None;
        }
        labels.iter().position(|l| *l == pt)
    };
    let affs: Vec<te::Affine<P>> = labels.iter().map(|(ax, ay)| te::Affine::<P>::new_unchecked(*ax, *ay)).collect();
    let nr = reps.len() as u64;
    ctx.sweep(&format!("te_shipped/{name}"), nr * nr, |i, loc| {
        let [iq, ip] = unrank(i, [nr, nr]);
        let (la, na, pa) = &reps[ip as usize];
        let (lb, nb, pb) = &reps[iq as usize];
        let what = || format!("{name}: {} [{na}] vs {} [{nb}]", lname[*la], lname[*lb]);
        if loc.sampling() {
            loc.sample(what());
        }
        if denote(pa) != Some(*la) || denote(pb) != Some(*lb) {
            if ip == iq {
                loc.fail_at("seq_value", format!("{name}: {} [{na}] does not decode to its label (group law, outside C19)", lname[*la]));
            }
            return;
        }
        let same = la == lb;
        if same && ip != iq {
            loc.class("equal_via_different_sequences");
            loc.class_if(*la == 0 && (pa.z != one || pb.z != one), "identity_noncanonical");
            loc.class_if(*la != 0 && pa.z != pb.z, "projective_rescaled");
        }
        rel(loc, pa, pb, same, &what);
        let aq = affs[*lb];
        let (e1, e2) = (*pa == aq, aq == *pa);
        loc.check_at("eq_affine_projective", e1 == same && e2 == same, || format!("{}: Projective==Affine:{e1} Affine==Projective:{e2}, model same={same}", what()));
        let an = pa.into_affine();
        rel(loc, &an, &affs[*la], true, &|| format!("{}: into_affine vs coordinates-built affine", what()));
        loc.check_at("predicates", pa.is_zero() == (*la == 0) && an.is_zero() == (*la == 0), || format!("{}: is_zero", what()));
    });
    ctx.sweep(&format!("te_shipped_containers/{name}"), 1, |_, loc| {
        let mut set: HashSet<te::Projective<P>, Bh> = HashSet::default();
        let mut buf: HashMap<te::Affine<P>, u64, Bh> = HashMap::default();
        let mut cnt = [0u64; 4];
        for (l, _, r) in &reps {
            if denote(r) == Some(*l) {
                set.insert(*r);
                *buf.entry(r.into_affine()).or_insert(0) += 1;
                cnt[*l] += 1;
                loc.op();
            }
        }
        loc.class("hashmap_dedup");
        let ok = (0..4).all(|l| buf.get(&affs[l]).copied() == Some(cnt[l]));
        loc.check_at("hashset", set.len() == 4 && buf.len() == 4 && ok, || format!("{name}: {} representations of O,G,2G,-G give {} projective keys / {} affine keys", reps.len(), set.len(), buf.len()));
    });
}

// ------------------------------------------------------------------ pairing outputs
fn pairing_checks<E: Pairing>(ctx: &mut Ctx, name: &str)
where
    E::TargetField: Coord,
    E::ScalarField: FpAccess,
{
    let r = <E::ScalarField as FpAccess>::modulus_big();
    let m = mont_of::<E::TargetField>();
    let scal: Vec<BigUint> = vec![BigUint::zero(), BigUint::one(), BigUint::from(2u32), BigUint::from(3u32), &r - 1u32];
    let g1 = E::G1Affine::generator();
    let g2 = E::G2Affine::generator();
    // (exponent label ab mod r, description, value)
    let outs: Mutex<Vec<(u64, BigUint, String, PairingOutput<E>)>> = Mutex::new(Vec::new());
    let ns = scal.len() as u64;
    ctx.sweep(&format!("pairing_values/{name}"), ns * ns, |i, loc| {
        let [ib, ia] = unrank(i, [ns, ns]);
        let (a, b) = (&scal[ia as usize], &scal[ib as usize]);
        let ab = (a * b) % &r;
        let (fa, fb, fab) = (E::ScalarField::from(a.clone()), E::ScalarField::from(b.clone()), E::ScalarField::from(ab.clone()));
        let mut push = |k: u64, nm: String, f: &dyn Fn() -> PairingOutput<E>| match catch_unwind(AssertUnwindSafe(f)) {
            Ok(v) => outs.lock().unwrap().push((i * 16 + k, ab.clone(), nm, v)),
            Err(_) => {
                // a pairing that panics on an identity argument is C06's finding (F8), not an Eq/Hash matter
                loc.class("pairing_panics_on_identity_argument(C06 scope, skipped)");
            }
        };
        let ag = (g1.into_group() * fa).into_affine();
        let bh = (g2.into_group() * fb).into_affine();
        let abg = (g1.into_group() * fab).into_affine();
        let abh = (g2.into_group() * fab).into_affine();
        push(0, format!("e({a}G,{b}H)"), &|| E::pairing(ag, bh));
        push(1, format!("e({a}*{b}G,H)"), &|| E::pairing(abg, g2));
        push(2, format!("e(G,{a}*{b}H)"), &|| E::pairing(g1, abh));
        push(3, format!("e(G,H)*{a}*{b}"), &|| E::pairing(g1, g2) * fab);
        push(4, format!("(e(G,H)*{a})*{b}"), &|| (E::pairing(g1, g2) * fa) * fb);
        push(5, format!("multi_pairing([{a}G],[{b}H])"), &|| E::multi_pairing([ag], [bh]));
        if ia == 0 && ib == 0 {
            push(6, "PairingOutput::zero()".into(), &|| PairingOutput::<E>::zero());
            push(7, "PairingOutput::default()".into(), &|| PairingOutput::<E>::default());
            push(8, "e(G,H)-e(G,H)".into(), &|| E::pairing(g1, g2) - E::pairing(g1, g2));
            push(9, "PairingOutput(TargetField::one())".into(), &|| PairingOutput::<E>(E::TargetField::one()));
        }
        if ia == 1 && ib == 2 {
            push(6, "e(G,H)+e(G,H)".into(), &|| E::pairing(g1, g2) + E::pairing(g1, g2));
            push(7, "e(G,H).double()".into(), &|| E::pairing(g1, g2).double());
        }
        if ia == 1 && ib == 4 {
            push(6, "-e(G,H)".into(), &|| -E::pairing(g1, g2));
            push(7, "zero()-e(G,H)".into(), &|| PairingOutput::<E>::zero() - E::pairing(g1, g2));
        }
    });
    let mut outs = outs.into_inner().unwrap();
    outs.sort_by(|x, y| x.0.cmp(&y.0));
    let cs: Vec<Vec<BigUint>> = outs.iter().map(|o| coords(&m, &o.3 .0)).collect();
    let n = outs.len() as u64;
    let deg = <E::TargetField as Coord>::DEG;
    let chunk = deg / <E::TargetField as Coord>::ARITY;
    ctx.bound(&format!("pairing/{name}"), format!("{n} outputs from a,b in {{0,1,2,3,r-1}} x forms e(aG,bH), e(abG,H), e(G,abH), e(G,H)*ab, (e*a)*b, multi_pairing, group-operation forms; all ordered pairs"));
    ctx.sweep(&format!("pairing_pairs/{name}"), n * n, |i, loc| {
        let [iy, ix] = unrank(i, [n, n]);
        let (x, y) = (&outs[ix as usize], &outs[iy as usize]);
        let (cx, cy) = (&cs[ix as usize], &cs[iy as usize]);
        let what = || format!("{name}: {} vs {}", x.2, y.2);
        if loc.sampling() {
            loc.sample(what());
        }
        let same = cx == cy;
        // bilinearity says: same exponent <=> same value (C06's job; only reported, under its own site)
        if (x.1 == y.1) != same {
            loc.fail_at("pairing_value", format!("{}: exponents {} / {} but decoded target-field values {} (bilinearity, outside C19)", what(), x.1, y.1, if same { "agree" } else { "differ" }));
            return;
        }
        if same && ix != iy {
            loc.class("equal_via_different_sequences");
        }
        if !same && cx[deg - chunk..] == cy[deg - chunk..] {
            loc.class("ext_order_tie_on_high_coeff");
        }
        rel(loc, &x.3, &y.3, same, &what);
        ord_rel(loc, &x.3, &y.3, model_cmp(cx, cy), &what);
        let is_id = cx[0].is_one() && cx[1..].iter().all(|c| c.is_zero());
        loc.class_if(is_id, "pairing_output_identity");
        let v = x.3;
        let z = (v.is_zero(), v == PairingOutput::<E>::zero(), v == PairingOutput::<E>::ZERO, v == PairingOutput::<E>::default());
        loc.check_at("predicates", z == (is_id, is_id, is_id, is_id) && is_id == x.1.is_zero(), || {
            format!("{}: (is_zero, ==zero(), ==ZERO, ==default())={z:?}, decoded value is the target-field one: {is_id}, exponent {}", what(), x.1)
        });
    });
    ctx.sweep(&format!("pairing_containers/{name}"), 1, |_, loc| {
        let mut set: HashSet<PairingOutput<E>, Bh> = HashSet::default();
        let mut bt: BTreeSet<PairingOutput<E>> = BTreeSet::new();
        let mut distinct: Vec<&Vec<BigUint>> = Vec::new();
        for (o, c) in outs.iter().zip(&cs) {
            set.insert(o.3);
            bt.insert(o.3);
            if !distinct.contains(&c) {
                distinct.push(c);
            }
            loc.op();
        }
        distinct.sort_by(|a, b| model_cmp(a, b));
        loc.class("hashmap_dedup");
        loc.check_at("hashset", set.len() == distinct.len(), || format!("{name}: {} outputs denoting {} values give {} HashSet keys", outs.len(), distinct.len(), set.len()));
        let got: Vec<Vec<BigUint>> = bt.iter().map(|o| coords(&m, &o.0)).collect();
        loc.check_at("btreeset", got.iter().collect::<Vec<_>>() == distinct, || format!("{name}: BTreeSet has {} keys (want {}) or is not in target-field order", got.len(), distinct.len()));
    });
}

// ------------------------------------------------------------------ polynomials over F_5
use algebra_mc::toy::gen_fields::D5;
type DP = DensePolynomial<D5>;
type SP = SparsePolynomial<D5>;
type DM = DenseMultilinearExtension<D5>;
type SM = SparseMultilinearExtension<D5>;

/// raw-limb decoding of a D5 element (u64 arithmetic)
fn d5(x: &D5) -> u64 {
    // R = 2^64 mod 5 = 1 (2^4 = 1 mod 5), so R^-1 = 1; computed, not assumed:
    let r = ((u64::MAX % 5) + 1) % 5;
    let rinv = (1..5).find(|k| (k * r) % 5 == 1).unwrap();
    ((x.0).0[0] % 5) * rinv % 5
}
fn f5(v: u64) -> D5 {
    <D5 as FpAccess>::from_raw(&[(v % 5) * (((u64::MAX % 5) + 1) % 5) % 5])
}
fn strip(mut v: Vec<u64>) -> Vec<u64> {
    while v.last() == Some(&0) {
        v.pop();
    }
    v
}
fn guard<R>(loc: &mut Loc, nm: &str, what: &dyn Fn() -> String, f: impl FnOnce() -> R) -> Option<R> {
    match catch_unwind(AssertUnwindSafe(f)) {
        Ok(r) => Some(r),
        Err(_) => {
            loc.fail_at("seq_value", format!("{}: `{nm}` panics (polynomial arithmetic, outside C19)", what()));
            None
        }
    }
}

/// Sparse MULTIVARIATE polynomials over D5 in two variables: all coefficient vectors over {0, 1, 4} on the
/// monomials {1, x0, x1, x0 x1, x0^2}; results of different operation sequences that denote the same
/// polynomial must be == and hash-equal (also when declared with a larger `num_vars`, which `==` ignores).
fn mv_poly_checks(ctx: &mut Ctx) {
    use ark_poly::multivariate::{SparsePolynomial as MvP, SparseTerm, Term};
    use ark_poly::DenseMVPolynomial;
    type MP = MvP<D5, SparseTerm>;
    let monos: Vec<Vec<(usize, usize)>> = vec![vec![], vec![(0, 1)], vec![(1, 1)], vec![(0, 1), (1, 1)], vec![(0, 2)]];
    let alpha = [0u64, 1, 4];
    let n = 3u64.pow(5);
    let build = |cv: &[u64], nv: usize| -> MP { MP::from_coefficients_vec(nv, cv.iter().enumerate().filter(|(_, c)| **c != 0).map(|(i, c)| (f5(*c), SparseTerm::new(monos[i].clone()))).collect()) };
    let cvec = |i: u64| -> Vec<u64> { unrank_vec(i, &[3, 3, 3, 3, 3]).iter().map(|k| alpha[*k as usize]).collect() };
    ctx.sweep("poly_multivariate_sparse/D5", n * n, |i, loc| {
        let [ib, ia] = unrank(i, [n, n]);
        let (ca, cb) = (cvec(ia), cvec(ib));
        let (a0, b0) = (build(&ca, 2), build(&cb, 2));
        let what = || format!("multivariate a={ca:?} b={cb:?} (coefficients of 1, x0, x1, x0*x1, x0^2)");
        if loc.sampling() {
            loc.sample(what());
        }
        rel(loc, &a0, &b0, ca == cb, &what);
        let zero = MP::zero();
        let w: &dyn Fn() -> String = &what;
        let mut rs: Vec<(&str, Option<MP>)> = Vec::new();
        rs.push(("(&a+&b)-&b", guard(loc, "(&a+&b)-&b", w, || &(&a0 + &b0) - &b0)));
        rs.push(("(&a-&b)+&b", guard(loc, "(&a-&b)+&b", w, || &(&a0 - &b0) + &b0)));
        rs.push(("a+=(0,&b)", guard(loc, "a+=(0,&b)", w, || {
            let mut t = a0.clone();
            t += (f5(0), &b0);
            t
        })));
        rs.push(("a+=(3,&b);a+=(2,&b)", guard(loc, "a+=(3,&b);a+=(2,&b)", w, || {
            let mut t = a0.clone();
            t += (f5(3), &b0);
            t += (f5(2), &b0);
            t
        })));
        rs.push(("a+=&b;a-=&b", guard(loc, "a+=&b;a-=&b", w, || {
            let mut t = a0.clone();
            t += &b0;
            t -= &b0;
            t
        })));
        rs.push(("-(-a)", guard(loc, "-(-a)", w, || -(-a0.clone()))));
        rs.push(("&a+&zero", guard(loc, "&a+&zero", w, || &a0 + &zero)));
        rs.push(("same terms, num_vars = 3", guard(loc, "from_coefficients_vec(3, ..)", w, || build(&ca, 3))));
        rs.push(("same terms listed in reverse order", guard(loc, "from_coefficients_vec(reversed)", w, || {
            MP::from_coefficients_vec(2, ca.iter().enumerate().rev().filter(|(_, c)| **c != 0).map(|(i, c)| (f5(*c), SparseTerm::new(monos[i].clone()))).collect())
        })));
        for (nm, r) in rs.iter() {
            if let Some(r) = r {
                loc.class("equal_via_different_sequences");
                rel(loc, &a0, r, true, &|| format!("{}: `{nm}` (stored {:?}) vs a", what(), r.terms.iter().map(|(c, t)| (d5(c), t.iter().cloned().collect::<Vec<_>>())).collect::<Vec<_>>()));
            }
        }
        if let Some(d) = guard(loc, "&a-&a", w, || &a0 - &a0) {
            rel(loc, &zero, &d, true, &|| format!("{}: `&a-&a` (stored {} terms) vs zero()", what(), d.terms.len()));
            loc.check_at("predicates", d.is_zero(), || format!("{}: (&a-&a).is_zero() is false", what()));
        }
    });
}

fn dense_poly_checks(ctx: &mut Ctx) {
    let n = 125u64;
    let dig3 = |i: u64| -> Vec<u64> { unrank_vec(i, &[5, 5, 5]) };
    let all_keys: Mutex<HashSet<DP, Bh>> = Mutex::new(HashSet::default());
    ctx.sweep("poly_dense/D5", n * n, |i, loc| {
        let [ib, ia] = unrank(i, [n, n]);
        let (ra, rb) = (dig3(ia), dig3(ib));
        let (ma, mb) = (strip(ra.clone()), strip(rb.clone()));
        let a0 = DP::from_coefficients_vec(ma.iter().map(|c| f5(*c)).collect());
        let b0 = DP::from_coefficients_vec(mb.iter().map(|c| f5(*c)).collect());
        let what = || format!("dense a={ma:?} b={mb:?} (coefficients, constant term first)");
        if loc.sampling() {
            loc.sample(what());
        }
        rel(loc, &a0, &b0, ma == mb, &what);
        let one = DP::from_coefficients_vec(vec![f5(1)]);
        let zero = DP::zero();
        let f = f5(3);
        let mut rs: Vec<(&str, Option<DP>)> = Vec::new();
        let w: &dyn Fn() -> String = &what;
        rs.push(("from_coefficients_vec(with trailing zeros)", guard(loc, "from_coefficients_vec", w, || DP::from_coefficients_vec(ra.iter().map(|c| f5(*c)).chain([f5(0), f5(0)]).collect()))));
        rs.push(("from_coefficients_slice(with trailing zeros)", guard(loc, "from_coefficients_slice", w, || DP::from_coefficients_slice(&ra.iter().map(|c| f5(*c)).collect::<Vec<_>>()))));
        rs.push(("(&a+&b)-&b", guard(loc, "(&a+&b)-&b", w, || &(&a0 + &b0) - &b0)));
        rs.push(("(&a-&b)+&b", guard(loc, "(&a-&b)+&b", w, || &(&a0 - &b0) + &b0)));
        rs.push(("a+=&b;a-=&b", guard(loc, "a+=&b;a-=&b", w, || {
            let mut t = a0.clone();
            t += &b0;
            t -= &b0;
            t
        })));
        rs.push(("a-=&b;a+=&b", guard(loc, "a-=&b;a+=&b", w, || {
            let mut t = a0.clone();
            t -= &b0;
            t += &b0;
            t
        })));
        rs.push(("a+=(3,&b);a+=(2,&b)", guard(loc, "a+=(f,&b)", w, || {
            let mut t = a0.clone();
            t += (f, &b0);
            t += (-f, &b0);
            t
        })));
        rs.push(("a+=(0,&b)", guard(loc, "a+=(0,&b)", w, || {
            let mut t = a0.clone();
            t += (f5(0), &b0);
            t
        })));
        rs.push(("-(-a)", guard(loc, "-(-a)", w, || -(-a0.clone()))));
        rs.push(("&a*1", guard(loc, "&a*1", w, || &a0 * f5(1))));
        rs.push(("(&a*2)*3", guard(loc, "(&a*2)*3", w, || &(&a0 * f5(2)) * f5(3))));
        rs.push(("a.naive_mul(1)", guard(loc, "naive_mul", w, || a0.naive_mul(&one))));
        rs.push(("&a+&0", guard(loc, "&a+&0", w, || &a0 + &zero)));
        rs.push(("&0+&a", guard(loc, "&0+&a", w, || &zero + &a0)));
        rs.push(("&a-&0", guard(loc, "&a-&0", w, || &a0 - &zero)));
        rs.push(("dense(sparse(a))", guard(loc, "dense(sparse(a))", w, || DP::from(SP::from(a0.clone())))));
        rs.push(("&a+&sparse(b) then -=&sparse(b)", guard(loc, "dense+-sparse", w, || {
            let sb = SP::from(b0.clone());
            let mut t = &a0 + &sb;
            t -= &sb;
            t
        })));
        if !mb.is_empty() {
            rs.push(("(a.naive_mul(b))/b", guard(loc, "(a*b)/b", w, || &a0.naive_mul(&b0) / &b0)));
        }
        for (nm, r) in &rs {
            let Some(r) = r else { continue };
            let mr = strip(r.coeffs.iter().map(d5).collect());
            if mr != ma {
                loc.fail_at("seq_value", format!("{}: `{nm}` gives {:?} (arithmetic, outside C19)", what(), mr));
                continue;
            }
            loc.class("equal_via_different_sequences");
            loc.class_if(r.coeffs.len() != ma.len(), "result_with_trailing_zero_coefficients");
            rel(loc, &a0, r, true, &|| format!("{} via `{nm}` (stored coefficients {:?})", what(), r.coeffs.iter().map(d5).collect::<Vec<_>>()));
            loc.check_at("predicates", r.is_zero() == ma.is_empty() && (*r == DP::zero()) == ma.is_empty(), || format!("{} via `{nm}`: is_zero / == zero()", what()));
            if ib < 3 {
                all_keys.lock().unwrap().insert(r.clone());
            }
        }
        // zero reached in several ways
        if ib == 0 {
            let zs: Vec<(&str, Option<DP>)> = vec![
                ("&a-&a", guard(loc, "&a-&a", w, || &a0 - &a0)),
                ("a-=&a", guard(loc, "a-=&a", w, || {
                    let mut t = a0.clone();
                    t -= &a0;
                    t
                })),
                ("&a*0", guard(loc, "&a*0", w, || &a0 * f5(0))),
                ("&a+&(-a)", guard(loc, "&a+&(-a)", w, || &a0 + &(-a0.clone()))),
                ("from_coefficients_vec([0,0,0])", guard(loc, "from_coefficients_vec zeros", w, || DP::from_coefficients_vec(vec![f5(0); 3]))),
                ("a.naive_mul(0)", guard(loc, "naive_mul(0)", w, || a0.naive_mul(&zero))),
            ];
            for (nm, r) in &zs {
                let Some(r) = r else { continue };
                if !strip(r.coeffs.iter().map(d5).collect()).is_empty() {
                    loc.fail_at("seq_value", format!("{}: `{nm}` is not zero", what()));
                    continue;
                }
                loc.class("equal_via_different_sequences");
                rel(loc, &zero, r, true, &|| format!("{}: `{nm}` (stored {:?}) vs DensePolynomial::zero()", what(), r.coeffs.iter().map(d5).collect::<Vec<_>>()));
                loc.check_at("predicates", r.is_zero(), || format!("{}: `{nm}`.is_zero()", what()));
            }
        }
    });
    let keys = all_keys.into_inner().unwrap();
    ctx.sweep("poly_dense_containers/D5", 1, |_, loc| {
        loc.class("hashmap_dedup");
        loc.check_at("hashset", keys.len() == 125, || format!("dense polynomials with <= 3 coefficients over F_5 reached by all sequences: {} HashSet keys, want 125", keys.len()));
    });
}

fn sparse_poly_checks(ctx: &mut Ctx) {
    let n = 125u64;
    const DEGS: [usize; 3] = [0, 3, 8];
    let terms = |i: u64| -> Vec<(usize, u64)> { unrank_vec(i, &[5, 5, 5]).iter().enumerate().filter(|(_, c)| **c != 0).map(|(k, c)| (DEGS[k], *c)).collect() };
    let mk = |t: &[(usize, u64)]| SP::from_coefficients_vec(t.iter().map(|(d, c)| (*d, f5(*c))).collect());
    let model = |s: &SP| -> Vec<(usize, u64)> {
        let mut v: Vec<(usize, u64)> = Vec::new();
        for (d, c) in s.iter() {
            let c = d5(c);
            if let Some(e) = v.iter_mut().find(|e| e.0 == *d) {
                e.1 = (e.1 + c) % 5;
            } else {
                v.push((*d, c));
            }
        }
        v.retain(|e| e.1 != 0);
        v.sort();
        v
    };
    let all_keys: Mutex<HashSet<SP, Bh>> = Mutex::new(HashSet::default());
    ctx.sweep("poly_sparse/D5", n * n, |i, loc| {
        let [ib, ia] = unrank(i, [n, n]);
        let (ta, tb) = (terms(ia), terms(ib));
        let (a0, b0) = (mk(&ta), mk(&tb));
        let what = || format!("sparse a={ta:?} b={tb:?} ((degree, coefficient) terms)");
        if loc.sampling() {
            loc.sample(what());
        }
        rel(loc, &a0, &b0, ta == tb, &what);
        let w: &dyn Fn() -> String = &what;
        let one = mk(&[(0, 1)]);
        let f = f5(3);
        let mut rs: Vec<(&str, Option<SP>)> = Vec::new();
        rs.push(("from_coefficients_vec(reversed, with a zero term)", guard(loc, "from_coefficients_vec", w, || {
            let mut v: Vec<(usize, D5)> = ta.iter().rev().map(|(d, c)| (*d, f5(*c))).collect();
            v.insert(v.len() / 2, (5, f5(0)));
            SP::from_coefficients_vec(v)
        })));
        rs.push(("from_coefficients_slice", guard(loc, "from_coefficients_slice", w, || SP::from_coefficients_slice(&ta.iter().map(|(d, c)| (*d, f5(*c))).collect::<Vec<_>>()))));
        rs.push(("(&a+&b) -= &b", guard(loc, "(&a+&b)-=&b", w, || {
            let mut t = &a0 + &b0;
            t -= &b0;
            t
        })));
        rs.push(("a+=&b;a-=&b", guard(loc, "a+=&b;a-=&b", w, || {
            let mut t = a0.clone();
            t += &b0;
            t -= &b0;
            t
        })));
        rs.push(("a-=&b;a+=&b", guard(loc, "a-=&b;a+=&b", w, || {
            let mut t = a0.clone();
            t -= &b0;
            t += &b0;
            t
        })));
        rs.push(("a+=(3,&b);a+=(2,&b)", guard(loc, "a+=(f,&b)", w, || {
            let mut t = a0.clone();
            t += (f, &b0);
            t += (-f, &b0);
            t
        })));
        rs.push(("a+=(0,&b)", guard(loc, "a+=(0,&b)", w, || {
            let mut t = a0.clone();
            t += (f5(0), &b0);
            t
        })));
        rs.push(("-(-a)", guard(loc, "-(-a)", w, || -(-a0.clone()))));
        rs.push(("&a*1", guard(loc, "&a*1", w, || &a0 * f5(1))));
        rs.push(("(&a*2)*3", guard(loc, "(&a*2)*3", w, || &(&a0 * f5(2)) * f5(3))));
        rs.push(("a.mul(1)", guard(loc, "a.mul(1)", w, || a0.mul(&one))));
        rs.push(("a+0", guard(loc, "a+0", w, || a0.clone() + SP::zero())));
        rs.push(("sparse(dense(a))", guard(loc, "sparse(dense(a))", w, || SP::from(DP::from(a0.clone())))));
        for (nm, r) in &rs {
            let Some(r) = r else { continue };
            if model(r) != ta {
                loc.fail_at("seq_value", format!("{}: `{nm}` gives {:?} (arithmetic, outside C19)", what(), model(r)));
                continue;
            }
            loc.class("equal_via_different_sequences");
            rel(loc, &a0, r, true, &|| format!("{} via `{nm}` (stored terms {:?})", what(), r.iter().map(|(d, c)| (*d, d5(c))).collect::<Vec<_>>()));
            loc.check_at("predicates", r.is_zero() == ta.is_empty() && (*r == SP::zero()) == ta.is_empty(), || format!("{} via `{nm}`: is_zero / == zero()", what()));
            if ib < 3 {
                all_keys.lock().unwrap().insert(r.clone());
            }
        }
        if ib == 0 {
            let zs: Vec<(&str, Option<SP>)> = vec![
                ("a-=&a", guard(loc, "a-=&a", w, || {
                    let mut t = a0.clone();
                    t -= &a0;
                    t
                })),
                ("&a*0", guard(loc, "&a*0", w, || &a0 * f5(0))),
                ("&a+&(-a)", guard(loc, "&a+&(-a)", w, || &a0 + &(-a0.clone()))),
                ("from_coefficients_vec([(2,0)])", guard(loc, "from_coefficients_vec zero term", w, || SP::from_coefficients_vec(vec![(2, f5(0))]))),
                ("a.mul(0)", guard(loc, "a.mul(0)", w, || a0.mul(&SP::zero()))),
            ];
            for (nm, r) in &zs {
                let Some(r) = r else { continue };
                if !model(r).is_empty() {
                    loc.fail_at("seq_value", format!("{}: `{nm}` is not zero", what()));
                    continue;
                }
                loc.class("equal_via_different_sequences");
                rel(loc, &SP::zero(), r, true, &|| format!("{}: `{nm}` (stored {:?}) vs SparsePolynomial::zero()", what(), r.iter().map(|(d, c)| (*d, d5(c))).collect::<Vec<_>>()));
                loc.check_at("predicates", r.is_zero(), || format!("{}: `{nm}`.is_zero()", what()));
            }
        }
    });
    let keys = all_keys.into_inner().unwrap();
    ctx.sweep("poly_sparse_containers/D5", 1, |_, loc| {
        loc.class("hashmap_dedup");
        loc.check_at("hashset", keys.len() == 125, || format!("sparse polynomials with <= 3 terms over F_5 reached by all sequences: {} HashSet keys, want 125", keys.len()));
    });
}

/// multilinear extensions: tables over {0,1}^nv, nv = 0, 1, 2 (all tables; all ordered pairs of equal nv)
fn mle_checks(ctx: &mut Ctx) {
    for nv in 0..=2usize {
        let len = 1usize << nv;
        let n = 5u64.pow(len as u32);
        let table = move |i: u64| -> Vec<u64> { unrank_vec(i, &vec![5u64; len]) };
        let dm = move |t: &[u64]| DM::from_evaluations_vec(nv, t.iter().map(|c| f5(*c)).collect());
        let sm = move |t: &[u64]| SM::from_evaluations(nv, &t.iter().enumerate().filter(|(_, c)| **c != 0).map(|(k, c)| (k, f5(*c))).collect::<Vec<_>>());
        let stable = move |s: &SM| -> Vec<u64> {
            let mut t = vec![0u64; len];
            for (k, v) in &s.evaluations {
                if *k < len {
                    t[*k] = d5(v);
                }
            }
            t
        };
        ctx.sweep(&format!("mle_dense/D5/nv={nv}"), n * n, |i, loc| {
            let [ib, ia] = unrank(i, [n, n]);
            let (ta, tb) = (table(ia), table(ib));
            let (a0, b0) = (dm(&ta), dm(&tb));
            let what = || format!("dense MLE nv={nv} a={ta:?} b={tb:?}");
            if loc.sampling() {
                loc.sample(what());
            }
            rel(loc, &a0, &b0, ta == tb, &what);
            let w: &dyn Fn() -> String = &what;
            let f = f5(3);
            let rs: Vec<(&str, Option<DM>)> = vec![
                ("from_evaluations_slice", guard(loc, "from_evaluations_slice", w, || DM::from_evaluations_slice(nv, &ta.iter().map(|c| f5(*c)).collect::<Vec<_>>()))),
                ("(&a+&b)-&b", guard(loc, "(&a+&b)-&b", w, || &(&a0 + &b0) - &b0)),
                ("(&a-&b)+&b", guard(loc, "(&a-&b)+&b", w, || &(&a0 - &b0) + &b0)),
                ("a+=&b;a-=&b", guard(loc, "a+=&b;a-=&b", w, || {
                    let mut t = a0.clone();
                    t += &b0;
                    t -= &b0;
                    t
                })),
                ("a+=(3,&b);a+=(2,&b)", guard(loc, "a+=(f,&b)", w, || {
                    let mut t = a0.clone();
                    t += (f, &b0);
                    t += (-f, &b0);
                    t
                })),
                ("a+=(0,&b)", guard(loc, "a+=(0,&b)", w, || {
                    let mut t = a0.clone();
                    t += (f5(0), &b0);
                    t
                })),
                ("-(-a)", guard(loc, "-(-a)", w, || -(-a0.clone()))),
                ("&a*&1", guard(loc, "&a*&1", w, || &a0 * &f5(1))),
                ("(&a*&2)*&3", guard(loc, "(&a*&2)*&3", w, || &(&a0 * &f5(2)) * &f5(3))),
                ("a+zero()", guard(loc, "a+zero()", w, || a0.clone() + DM::zero())),
                ("sparse(a).to_dense_multilinear_extension()", guard(loc, "sparse->dense", w, || sm(&ta).to_dense_multilinear_extension())),
            ];
            for (nm, r) in &rs {
                let Some(r) = r else { continue };
                let tr: Vec<u64> = r.evaluations.iter().map(d5).collect();
                if r.num_vars != nv {
                    // the library's documented special zero (num_vars = 0): a different object unless nv = 0
                    loc.class("mle_special_zero_skipped");
                    continue;
                }
                if tr != ta {
                    loc.fail_at("seq_value", format!("{}: `{nm}` gives {:?} (arithmetic, outside C19)", what(), tr));
                    continue;
                }
                loc.class("equal_via_different_sequences");
                rel(loc, &a0, r, true, &|| format!("{} via `{nm}`", what()));
            }
            if ib == 0 {
                // the zero function of nv variables (NOT the special zero unless nv = 0)
                let z0 = dm(&vec![0u64; len]);
                for (nm, r) in [("&a-&a", guard(loc, "&a-&a", w, || &a0 - &a0)), ("&a+&(-a)", guard(loc, "&a+&(-a)", w, || &a0 + &(-a0.clone())))] {
                    let Some(r) = r else { continue };
                    if r.num_vars != nv {
                        loc.class("mle_special_zero_skipped");
                        continue;
                    }
                    if r.evaluations.iter().any(|c| d5(c) != 0) {
                        loc.fail_at("seq_value", format!("{}: `{nm}` is not zero", what()));
                        continue;
                    }
                    loc.class("equal_via_different_sequences");
                    rel(loc, &z0, &r, true, &|| format!("{}: `{nm}` vs the zero table of {nv} variables", what()));
                }
            }
        });
        ctx.sweep(&format!("mle_sparse/D5/nv={nv}"), n * n, |i, loc| {
            let [ib, ia] = unrank(i, [n, n]);
            let (ta, tb) = (table(ia), table(ib));
            let (a0, b0) = (sm(&ta), sm(&tb));
            let what = || format!("sparse MLE nv={nv} a={ta:?} b={tb:?} (built from the non-zero entries)");
            if loc.sampling() {
                loc.sample(what());
            }
            rel(loc, &a0, &b0, ta == tb, &what);
            let w: &dyn Fn() -> String = &what;
            let f = f5(3);
            let rs: Vec<(&str, Option<SM>)> = vec![
                ("from_evaluations(reversed order)", guard(loc, "from_evaluations", w, || {
                    SM::from_evaluations(nv, &ta.iter().enumerate().rev().filter(|(_, c)| **c != 0).map(|(k, c)| (k, f5(*c))).collect::<Vec<_>>())
                })),
                ("(&a+&b)-&b", guard(loc, "(&a+&b)-&b", w, || &(&a0 + &b0) - &b0)),
                ("(&a-&b)+&b", guard(loc, "(&a-&b)+&b", w, || &(&a0 - &b0) + &b0)),
                ("a+=&b;a-=&b", guard(loc, "a+=&b;a-=&b", w, || {
                    let mut t = a0.clone();
                    t += &b0;
                    t -= &b0;
                    t
                })),
                ("a+=(3,&b);a+=(2,&b)", guard(loc, "a+=(f,&b)", w, || {
                    let mut t = a0.clone();
                    t += (f, &b0);
                    t += (-f, &b0);
                    t
                })),
                ("a+=(0,&b)", guard(loc, "a+=(0,&b)", w, || {
                    let mut t = a0.clone();
                    t += (f5(0), &b0);
                    t
                })),
                ("-(-a)", guard(loc, "-(-a)", w, || -(-a0.clone()))),
                ("a+zero()", guard(loc, "a+zero()", w, || a0.clone() + SM::zero())),
            ];
            for (nm, r) in &rs {
                let Some(r) = r else { continue };
                if r.num_vars != nv {
                    loc.class("mle_special_zero_skipped");
                    continue;
                }
                if stable(r) != ta {
                    loc.fail_at("seq_value", format!("{}: `{nm}` gives {:?} (arithmetic, outside C19)", what(), stable(r)));
                    continue;
                }
                loc.class("equal_via_different_sequences");
                loc.class_if(r.evaluations.values().any(|v| d5(v) == 0), "sparse_mle_result_with_explicit_zero_entry");
                rel(loc, &a0, r, true, &|| format!("{} via `{nm}` (stored entries {:?})", what(), r.evaluations.iter().map(|(k, v)| (*k, d5(v))).collect::<Vec<_>>()));
            }
        });
        // the public constructor given explicit zero values: the same function as without them
        if nv >= 1 {
            ctx.sweep(&format!("mle_sparse_explicit_zero/D5/nv={nv}"), n, |ia, loc| {
                let ta = table(ia);
                if !ta.contains(&0) {
                    return;
                }
                let canon = sm(&ta);
                let with_zeros = SM::from_evaluations(nv, &ta.iter().enumerate().map(|(k, c)| (k, f5(*c))).collect::<Vec<_>>());
                if stable(&with_zeros) != ta || with_zeros.num_vars != nv {
                    loc.fail_at("seq_value", format!("sparse MLE nv={nv} from all entries of {ta:?} denotes {:?}", stable(&with_zeros)));
                    return;
                }
                loc.class("sparse_mle_input_with_explicit_zero_entry");
                rel(loc, &canon, &with_zeros, true, &|| {
                    format!("sparse MLE nv={nv} table {ta:?}: from_evaluations(non-zero entries) vs from_evaluations(all entries incl. explicit zeros); stored {:?} vs {:?}",
                        canon.evaluations.iter().map(|(k, v)| (*k, d5(v))).collect::<Vec<_>>(),
                        with_zeros.evaluations.iter().map(|(k, v)| (*k, d5(v))).collect::<Vec<_>>())
                });
            });
        }
    }
}

// ------------------------------------------------------------------ drivers
macro_rules! tiny {
    ($F:ty, $n:expr, $name:expr, $ctx:expr, $seen:expr) => {
        prime_field::<$F>($ctx, $name, $seen, false);
    };
}
macro_rules! shipped {
    ($F:ty, $name:expr, $ctx:expr, $seen:expr) => {
        prime_field::<$F>($ctx, $name, $seen, true);
    };
}
macro_rules! swt {
    ($P:ty, $name:expr, $ctx:expr) => {
        sw_toy::<$P>($ctx, $name);
    };
}
macro_rules! tet {
    ($P:ty, $name:expr, $ctx:expr) => {
        te_toy::<$P>($ctx, $name);
    };
}

fn main() {
    let mut ctx = Ctx::from_args("C19");
    ctx.promote_quick(); // the thorough bounds of this check cost only seconds
    ctx.require(&["equal_via_different_sequences", "projective_rescaled", "identity_noncanonical", "ext_order_tie_on_high_coeff", "hashmap_dedup"]);
    ctx.assume("oracle: raw Montgomery limbs decoded with limbs*R^-1 mod p (num-bigint); projective points decoded with u64 model arithmetic (toy) / C01-C02-checked field operations (shipped); never the library's ==, cmp, Hash or into_affine");
    ctx.assume("hash digests are taken with std DefaultHasher::new() (fixed keys); containers use BuildHasherDefault<DefaultHasher> like HashMapPippenger");
    ctx.assume("extension order: the doc says 'ordered lexicographically'; the significant-first coefficient is the HIGHEST one (c1 for quadratic, c2 for cubic), recursively - the order the point-compression sign rule relies on");
    ctx.assume("distinct values with equal digests are legal for Hash: counted as a metric class, never a violation");
    ctx.assume("sequences whose VALUE is wrong (arithmetic/group-law/bilinearity defects of C01-C08) are filed under the sites seq_value / pairing_value, separate from the eq/hash/ord/predicates sites of C19");
    ctx.assume("short-Weierstrass Affine with infinity=true and junk x,y is only constructible through #[doc(hidden)] fields; every API route to the affine identity (identity(), zero(), default(), into_affine, normalize_batch, From) is compared instead");
    ctx.assume("DenseMultilinearExtension/SparseMultilinearExtension special zero (num_vars = 0) is the library's documented convention: results with a different num_vars are not compared with n-variable objects");
    ctx.assume("no Ord is implemented for curve points or polynomials (nothing to check); PairingOutput derives Ord from the target field");
    ctx.bound("prime_fields", "p <= 257 (thorough: p <= 1021): all ordered pairs of residues x ~35 sequences; larger toy moduli (1..13 limbs, derived + hand-written) and every shipped prime field: <= 60 boundary values (integers and raw-limb patterns), all ordered pairs");
    let seen = Mutex::new(BTreeSet::new());
    algebra_mc::tiny_fields_derived!(tiny, &mut ctx, &seen);
    algebra_mc::tiny_fields_hand!(tiny, &mut ctx, &seen);
    algebra_mc::big_fields_derived!(tiny, &mut ctx, &seen);
    algebra_mc::big_fields_hand!(tiny, &mut ctx, &seen);
    algebra_mc::shipped_prime_fields!(shipped, &mut ctx, &seen);

    ctx.bound("bigint", if ctx.quick() { "N=1,2: all L10^N; N=4: L4^4 + dev<=1; N=6: dev<=1; all ordered pairs" } else { "N=1,2: all L10^N; N=4: L4^4 + dev<=2; N=6: dev<=2; all ordered pairs" });
    let dev = ctx.t(1, 2);
    bigint_checks::<1>(&mut ctx, dev);
    bigint_checks::<2>(&mut ctx, dev);
    bigint_checks::<4>(&mut ctx, dev);
    bigint_checks::<6>(&mut ctx, dev);

    validate_towers(&mut ctx);
    toy_ext::<towers::T7Fp2>(&mut ctx, "T7Fp2");
    toy_ext::<towers::T7Fp3>(&mut ctx, "T7Fp3");
    toy_ext::<towers::T5Fp2>(&mut ctx, "T5Fp2");
    toy_ext::<towers::T5Fp4>(&mut ctx, "T5Fp4");
    toy_ext::<towers::T7Fp6>(&mut ctx, "T7Fp6");
    let d = ctx.t(1, 2);
    shipped_ext::<ark_bls12_381::Fq2>(&mut ctx, "bls12_381::Fq2", 2);
    shipped_ext::<ark_bls12_381::Fq6>(&mut ctx, "bls12_381::Fq6", 2);
    shipped_ext::<ark_bls12_381::Fq12>(&mut ctx, "bls12_381::Fq12", d);
    shipped_ext::<ark_mnt4_298::Fq2>(&mut ctx, "mnt4_298::Fq2", 2);
    shipped_ext::<ark_mnt4_298::Fq4>(&mut ctx, "mnt4_298::Fq4", 2);
    shipped_ext::<ark_mnt6_298::Fq3>(&mut ctx, "mnt6_298::Fq3", 2);
    shipped_ext::<ark_mnt6_298::Fq6>(&mut ctx, "mnt6_298::Fq6", 2);

    algebra_mc::toy_sw_curves!(swt, &mut ctx);
    algebra_mc::toy_te_curves!(tet, &mut ctx);

    sw_shipped::<ark_bls12_381::g1::Config>(&mut ctx, "bls12_381::g1");
    sw_shipped::<ark_bls12_381::g2::Config>(&mut ctx, "bls12_381::g2");
    sw_shipped::<ark_secp256k1::Config>(&mut ctx, "secp256k1");
    sw_shipped::<ark_mnt6_298::g2::Config>(&mut ctx, "mnt6_298::g2");
    te_shipped::<ark_ed_on_bls12_381::EdwardsConfig>(&mut ctx, "ed_on_bls12_381");

    pairing_checks::<ark_bls12_381::Bls12_381>(&mut ctx, "bls12_381");
    pairing_checks::<ark_mnt4_298::MNT4_298>(&mut ctx, "mnt4_298");

    dense_poly_checks(&mut ctx);
    mv_poly_checks(&mut ctx);
    sparse_poly_checks(&mut ctx);
    mle_checks(&mut ctx);
    std::process::exit(ctx.finish());
}
