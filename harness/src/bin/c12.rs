//! C12 - subgroup membership tests and cofactor clearing agree with their definitions; multiplying by the
//! cofactor and by its inverse mod r compose to the identity on the subgroup; random sampling only
//! produces subgroup points.
//!
//! Spaces (DESIGN section 3, C12):
//!  * E  toy curves (cofactors 1, 2, 3, 4, 5, 8, 9, 16, 20; short Weierstrass and twisted Edwards): EVERY point of
//!       E(F_p) against the oracle group table (membership <=> r*P = O; clearing = h*P; cofactor inverse).
//!  * E  `UniformRand` / `Standard.sample` of Affine and Projective driven by a SCRIPTED RNG over all scripts of
//!       1 and 2 (thorough: 3 for the 4/5-bit fields) draws: every output is a subgroup point (oracle).
//!  * A  every shipped curve configuration (all curve-crate overrides of the membership test / clearing, and
//!       every default): points from coordinates 0,1,2,.. (mostly outside the subgroup), G and multiples,
//!       h*P, r*P, small-order points (n/l^j)*P for the primes l < 2^20 dividing the cofactor, G + T.
//!       Oracle: the harness's own double-and-add on the generic projective `+=` / `double_in_place`
//!       (the C03-checked law) - never `mul_bigint` / `Mul` (overridden in several crates) and never the
//!       routine under test.
#![allow(non_camel_case_types, clippy::all)]
use algebra_mc::core::*;
use algebra_mc::refmodel::fieldmodel::{prime_to_u64, FieldModel};
use algebra_mc::refmodel::zmod::{from_limbs, is_probable_prime};
use algebra_mc::toycurve::{SwToy, TeToy};
use ark_ec::hashing::curve_maps::wb::WBConfig;
use ark_ec::short_weierstrass::{self as sw, SWCurveConfig};
use ark_ec::twisted_edwards::{self as te, TECurveConfig};
use ark_ec::{AffineRepr, CurveConfig, CurveGroup};
use ark_ff::{Field, PrimeField, UniformRand};
use ark_serialize::{CanonicalSerialize, Valid};
use ark_std::rand::distributions::{Distribution, Standard};
use ark_std::rand::RngCore;
use ark_std::{One, Zero};
use num_bigint::BigUint;
use std::panic::{catch_unwind, AssertUnwindSafe};
use std::sync::atomic::{AtomicBool, AtomicU64, Ordering};

// =====================================================================================================
// scripted RNG
// =====================================================================================================
/// Deterministic `RngCore` for driving the point samplers.  The samplers consume randomness only through
/// `next_u64` (one per limb of a base-field candidate, masked to the field's bit length by the library)
/// and `next_u32` (`gen::<bool>()` = sign bit of a u32).  The k-th RNG call consumes the k-th script byte b:
///   next_u64 -> b in the low 8 bits (all an <= 8-bit field keeps), the upper 56 bits = `fill`;
///   next_u32 -> b in the TOP 8 bits (the sign bit is b's top bit), the lower 24 bits = `fill`;
///   fill_bytes -> consecutive script bytes.
/// After the script is exhausted: next_u64 returns 0,1,2,... (so the candidate coordinate runs through the
/// whole field and the rejection loop terminates), next_u32 alternates sign bit 0,1,0,1,...
struct ScriptRng {
    script: Vec<u8>,
    fill: bool,
    pos: usize,
    tail_x: u64,
    tail_b: u32,
    calls: u64,
}
impl ScriptRng {
    fn new(script: &[u8], fill: bool) -> Self {
        ScriptRng { script: script.to_vec(), fill, pos: 0, tail_x: 0, tail_b: 0, calls: 0 }
    }
    fn next_script(&mut self) -> Option<u8> {
        self.calls += 1;
        if self.calls > 1_000_000 {
            panic!("sampler did not terminate after 10^6 RNG calls (script {:?})", self.script);
        }
        let b = self.script.get(self.pos).copied();
        if b.is_some() {
            self.pos += 1;
        }
        b
    }
}
impl RngCore for ScriptRng {
    fn next_u32(&mut self) -> u32 {
        match self.next_script() {
            Some(b) => ((b as u32) << 24) | if self.fill { 0x00ff_ffff } else { 0 },
            None => {
                let v = (self.tail_b & 1) << 31;
                self.tail_b = self.tail_b.wrapping_add(1);
                v
            }
        }
    }
    fn next_u64(&mut self) -> u64 {
        match self.next_script() {
            Some(b) => (b as u64) | if self.fill { !0xffu64 } else { 0 },
            None => {
                let v = self.tail_x;
                self.tail_x = self.tail_x.wrapping_add(1);
                v
            }
        }
    }
    fn fill_bytes(&mut self, dest: &mut [u8]) {
        for d in dest.iter_mut() {
            *d = match self.next_script() {
                Some(b) => b,
                None => {
                    let v = self.tail_x as u8;
                    self.tail_x = self.tail_x.wrapping_add(1);
                    v
                }
            };
        }
    }
    fn try_fill_bytes(&mut self, dest: &mut [u8]) -> Result<(), ark_std::rand::Error> {
        self.fill_bytes(dest);
        Ok(())
    }
}

fn script_of(i: u64, len: usize) -> (Vec<u8>, bool) {
    let fill = i & 1 == 1;
    let mut v = i >> 1;
    let mut s = Vec::with_capacity(len);
    for _ in 0..len {
        s.push((v & 0xff) as u8);
        v >>= 8;
    }
    (s, fill)
}

// =====================================================================================================
// E: toy curves, every point of E(F_p)
// =====================================================================================================
fn toy_sw<P: SWCurveConfig>(ctx: &mut Ctx, name: &str)
where
    P::BaseField: PrimeField,
    P::ScalarField: PrimeField,
{
    let t = SwToy::<P>::new(name);
    t.validate(ctx);
    let n = t.n() as u64;
    let hinv = prime_to_u64(&P::COFACTOR_INV);
    let (h, r, p) = (t.h, t.r, t.p);
    ctx.sweep(&format!("toy/{name}/constants"), 1, |_, loc| {
        loc.class_if(h == 1, "cofactor_is_one_shortcut");
        loc.check_at("cofactor_inv", (hinv as u128 * h as u128) % r as u128 == 1 % r as u128, || format!("{name}: COFACTOR_INV={hinv} h={h} r={r}"));
        loc.check_at("cofactor_is_one", P::cofactor_is_one() == (h == 1), || format!("{name}: cofactor_is_one()={} h={h}", P::cofactor_is_one()));
    });
    ctx.sweep(&format!("toy/{name}/all_points"), n, |i, loc| {
        let i = i as usize;
        let pt = t.aff(i);
        let ins = t.in_subgroup[i];
        let is_id = i == t.g.id;
        let hp = t.g.mul(h, i).expect("sw oracle law is total");
        if is_id {
            loc.class("identity");
        } else if ins {
            loc.class("subgroup_point");
        } else {
            loc.class("on_curve_not_in_subgroup");
        }
        loc.class_if(!is_id && hp == t.g.id, "small_order_point");
        loc.class_if(h == 1, "cofactor_is_one_shortcut");
        if loc.sampling() {
            loc.sample(format!("{name}: P={:?} in_subgroup={ins} h*P={:?}", t.g.pts[i], t.g.pts[hp]));
        }
        let d = || format!("{name}: P={:?} (order {:?})", t.g.pts[i], t.g.order(i));
        // membership
        let got = pt.is_in_correct_subgroup_assuming_on_curve();
        loc.check_at("is_in_correct_subgroup", got == ins, || format!("{} got {got} want {ins}", d()));
        let got = P::is_in_correct_subgroup_assuming_on_curve(&pt);
        loc.check_at("is_in_correct_subgroup", got == ins, || format!("{} (Config::) got {got} want {ins}", d()));
        let got = pt.check().is_ok();
        loc.check_at("valid_check_affine", got == ins, || format!("{} Valid::check ok={got} want {ins}", d()));
        for z in [1u64, 2, p - 1, 7 % p + 1] {
            let got = t.proj(i, z).check().is_ok();
            loc.check_at("valid_check_projective", got == ins, || format!("{} z={z} Valid::check ok={got} want {ins}", d()));
        }
        // `Affine::new` documents (and asserts) on-curve and in-subgroup
        if !pt.infinity {
            let (x, y) = (pt.x, pt.y);
            let panicked = catch_unwind(AssertUnwindSafe(|| sw::Affine::<P>::new(x, y))).is_err();
            loc.check_at("affine_new", panicked == !ins, || format!("{} Affine::new panicked={panicked} want {}", d(), !ins));
        }
        // `Projective::new` documents (and asserts) the same, for every scaling of the point
        loc.class_if(!ins, "checked_constructor:out_of_subgroup");
        for z in [1u64, 2, p - 1] {
            let q = t.proj(i, z);
            let (x, y, zz) = (q.x, q.y, q.z);
            let r = catch_unwind(AssertUnwindSafe(|| sw::Projective::<P>::new(x, y, zz)));
            let ok = match &r {
                Ok(v) => ins && t.idx_proj(v) == Some(i),
                Err(_) => !ins,
            };
            loc.check_at("projective_new", ok, || format!("{} z={z} Projective::new {} want {}", d(), if r.is_ok() { "returned a point" } else { "panicked" }, if ins { "this point" } else { "a panic" }));
        }
        // `Valid::batch_check` (affine: trait default; projective: normalize_batch + affine): a batch of subgroup
        // points with the current point at every position is Ok exactly when the current point is in the subgroup
        loc.class_if(!ins, "batch_check:one_bad_member");
        let good: Vec<usize> = (1..=3u64).map(|k| t.g.mul(k, t.gen).expect("sw oracle law is total")).collect();
        for pos in 0..3 {
            let mut idx = good.clone();
            idx[pos] = i;
            let ba: Vec<sw::Affine<P>> = idx.iter().map(|j| t.aff(*j)).collect();
            let got = sw::Affine::<P>::batch_check(ba.iter()).is_ok();
            loc.check_at("batch_check_affine", got == ins, || format!("{} at position {pos} of a batch of subgroup points: Affine::batch_check ok={got} want {ins}", d()));
            let bp: Vec<sw::Projective<P>> = idx.iter().enumerate().map(|(k, j)| t.proj(*j, [1, 2, p - 1][k])).collect();
            let got = sw::Projective::<P>::batch_check(bp.iter()).is_ok();
            loc.check_at("batch_check_projective", got == ins, || format!("{} at position {pos} of a batch of subgroup points: Projective::batch_check ok={got} want {ins}", d()));
        }
        // two members outside the subgroup whose cofactor parts cancel (P and -P; P and G - P): every member has to be in
        // the subgroup, not the sum of the batch
        if !ins {
            loc.class("batch_check:two_bad_members_with_sum_in_subgroup");
            let np = t.g.neg(i);
            let gmp = t.g.mul(1, t.gen).and_then(|g| {
                // G - P through the oracle's addition table: G + (-P)
                (0..t.g.n()).find(|j| t.g.mul(1, *j) == Some(*j) && t.g.pts[*j] == t.m.add(t.g.pts[g], t.g.pts[np]))
            });
            for (what, other) in [("-P", Some(np)), ("G - P", gmp)] {
                let Some(other) = other else { continue };
                for idx in [vec![i, other], vec![good[0], i, other], vec![i, good[1], other]] {
                    let ba: Vec<sw::Affine<P>> = idx.iter().map(|j| t.aff(*j)).collect();
                    let got = sw::Affine::<P>::batch_check(ba.iter()).is_ok();
                    loc.check_at("batch_check_affine", !got, || format!("{} together with {what} in a batch {idx:?}: Affine::batch_check accepted two points outside the subgroup", d()));
                    let bp: Vec<sw::Projective<P>> = idx.iter().enumerate().map(|(k, j)| t.proj(*j, [2, p - 1, 1][k])).collect();
                    let got = sw::Projective::<P>::batch_check(bp.iter()).is_ok();
                    loc.check_at("batch_check_projective", !got, || format!("{} together with {what} in a batch {idx:?}: Projective::batch_check accepted two points outside the subgroup", d()));
                }
            }
        }
        // clearing = h * P, lands in the subgroup
        for (site, q) in [("clear_cofactor", pt.clear_cofactor()), ("clear_cofactor", P::clear_cofactor(&pt)), ("mul_by_cofactor", pt.mul_by_cofactor())] {
            let j = t.idx_aff(&q);
            loc.check_at(site, j == Some(hp) && t.in_subgroup[hp], || format!("{} got {:?} want {:?}", d(), j.map(|j| t.g.pts[j]), t.g.pts[hp]));
        }
        let q = pt.mul_by_cofactor_to_group();
        let j = t.idx_proj(&q);
        loc.check_at("mul_by_cofactor_to_group", j == Some(hp), || format!("{} got {:?} want {:?}", d(), j.map(|j| t.g.pts[j]), t.g.pts[hp]));
        // cofactor and inverse compose to the identity map on the subgroup
        if ins {
            let a = pt.mul_by_cofactor().mul_by_cofactor_inv();
            loc.check_at("mul_by_cofactor_inv", t.idx_aff(&a) == Some(i), || format!("{} inv(cof(P)) = {:?}", d(), a));
            let b = pt.mul_by_cofactor_inv().mul_by_cofactor();
            loc.check_at("mul_by_cofactor_inv", t.idx_aff(&b) == Some(i), || format!("{} cof(inv(P)) = {:?}", d(), b));
        }
    });
    // ---- Valid::check on EVERY pair (x, y) of F_p^2: Ok <=> on the curve and in the subgroup
    ctx.sweep(&format!("toy/{name}/valid_all_pairs"), p * p, |i, loc| {
        let (x, y) = (i % p, i / p);
        let cand = sw::Affine::<P>::new_unchecked(t.fe(x), t.fe(y));
        let want = match t.idx_aff(&cand) {
            None => {
                loc.class("off_curve_pair");
                false
            }
            Some(j) => t.in_subgroup[j],
        };
        let got = cand.check().is_ok();
        loc.check_at("valid_check_affine", got == want, || format!("{name}: (x, y) = ({x}, {y}) Valid::check ok={got} want {want}"));
        let got = sw::Projective::<P>::new_unchecked(t.fe(x), t.fe(y), t.fe(1)).check().is_ok();
        loc.check_at("valid_check_projective", got == want, || format!("{name}: (x, y, 1) = ({x}, {y}, 1) Valid::check ok={got} want {want}"));
    });
    // ---- scripted sampling
    let bits = P::BaseField::MODULUS_BIT_SIZE as u64;
    if bits > 8 {
        return;
    }
    let mask = (1u64 << bits) - 1;
    let mut valid_x = vec![0u8; p as usize]; // number of points with this abscissa
    for q in &t.g.pts {
        if let algebra_mc::refmodel::curve::Pt::A(x, _) = q {
            valid_x[*x as usize] += 1;
        }
    }
    let seen: Vec<AtomicBool> = (0..t.n()).map(|_| AtomicBool::new(false)).collect();
    let maxlen = if ctx.thorough() && bits <= 5 { 3 } else { 2 };
    for len in 1..=maxlen {
        let cases = 2u64 << (8 * len);
        ctx.sweep(&format!("toy/{name}/sample/script_len={len}"), cases, |i, loc| {
            let (script, fill) = script_of(i, len);
            let x0 = script[0] as u64 & mask;
            if x0 >= p {
                loc.class("sample:first_draw_geq_modulus");
            } else if valid_x[x0 as usize] == 0 {
                loc.class("sample:first_x_not_on_curve");
            } else {
                loc.class_if(valid_x[x0 as usize] == 1, "sample:first_x_two_torsion");
                loc.class_if(len >= 2 && script[1] >= 0x80, "sample:greatest");
            }
            let mut rng = ScriptRng::new(&script, fill);
            let a: sw::Affine<P> = UniformRand::rand(&mut rng);
            let ja = t.idx_aff(&a);
            if loc.sampling() {
                loc.sample(format!("{name}: script={script:02x?} fill={fill} -> Affine {:?} after {} RNG calls", a, rng.calls));
            }
            loc.check_at("sample_affine", ja.map(|j| t.in_subgroup[j]) == Some(true), || format!("{name}: script={script:02x?} fill={fill} sampled {:?} (oracle index {ja:?}) not in the subgroup", a));
            if let Some(j) = ja {
                seen[j].store(true, Ordering::Relaxed);
            }
            let mut rng = ScriptRng::new(&script, fill);
            let q: sw::Projective<P> = Standard.sample(&mut rng);
            let jq = t.idx_proj(&q);
            loc.check_at("sample_projective", jq.map(|j| t.in_subgroup[j]) == Some(true), || format!("{name}: script={script:02x?} fill={fill} sampled projective ({}, {}, {}) (oracle index {jq:?}) not in the subgroup", q.x, q.y, q.z));
            if let Some(j) = jq {
                seen[j].store(true, Ordering::Relaxed);
            }
        });
    }
    // ---- from_random_bytes: a METRIC, not a subgroup claim (it is built on get_point_from_x_unchecked, documented as
    // "not guaranteed to be in the prime order subgroup"; callers clear the cofactor).  Nothing is asserted under C12.
    let blen = sw::Affine::<P>::identity().compressed_size();
    if blen <= 2 {
        ctx.sweep(&format!("toy/{name}/from_random_bytes"), 1u64 << (8 * blen), |i, loc| {
            let bytes: Vec<u8> = (0..blen).map(|k| (i >> (8 * k)) as u8).collect();
            match sw::Affine::<P>::from_random_bytes(&bytes) {
                None => loc.class("from_random_bytes:none"),
                Some(q) => {
                    // not a C12 claim (C12 speaks about membership tests, clearing and sampling): observations only
                    let j = t.idx_aff(&q);
                    loc.op();
                    match j {
                        Some(j) if t.in_subgroup[j] => loc.class("from_random_bytes:in_subgroup"),
                        Some(_) => loc.class("from_random_bytes:outside_subgroup(documented: unchecked)"),
                        None => loc.class("from_random_bytes:off_curve(metric, not a C12 claim)"),
                    }
                }
            }
        });
    }
    let distinct = seen.iter().filter(|b| b.load(Ordering::Relaxed)).count() as u64;
    ctx.bound(&format!("sampled_distinct_points/{name}"), serde_json::json!({"distinct": distinct, "subgroup_order": r, "script_len_max": maxlen}));
    if ctx.only.is_none() && ctx.replay.is_none() {
        ctx.sweep(&format!("toy/{name}/sample/coverage"), 1, |_, loc| {
            loc.check_at("distinct_outputs", distinct > 1, || format!("{name}: sampler produced only {distinct} distinct point(s) over all scripts"));
        });
    }
}

fn toy_te<P: TECurveConfig>(ctx: &mut Ctx, name: &str)
where
    P::BaseField: PrimeField,
    P::ScalarField: PrimeField,
{
    let t = TeToy::<P>::new(name);
    t.validate(ctx);
    let n = t.n() as u64;
    let hinv = prime_to_u64(&P::COFACTOR_INV);
    let (h, r, p) = (t.h, t.r, t.p);
    if !t.complete {
        ctx.assume(&format!("{name}: incomplete twisted-Edwards parameters (a non-square): the oracle law is partial; membership = 'multiple of G' is asserted on every affine point, clearing only where the oracle's h*P is defined (others counted in class te_incomplete_oracle_undefined)"));
    }
    ctx.sweep(&format!("toy/{name}/constants"), 1, |_, loc| {
        loc.check_at("cofactor_inv", (hinv as u128 * h as u128) % r as u128 == 1 % r as u128, || format!("{name}: COFACTOR_INV={hinv} h={h} r={r}"));
        loc.check_at("cofactor_is_one", P::cofactor_is_one() == (h == 1), || format!("{name}: cofactor_is_one()={} h={h}", P::cofactor_is_one()));
    });
    ctx.sweep(&format!("toy/{name}/all_points"), n, |i, loc| {
        let i = i as usize;
        let pt = t.aff(i);
        let ins = t.in_subgroup[i];
        let is_id = i == t.g.id;
        let hp = t.g.mul(h, i);
        if is_id {
            loc.class("identity");
        } else if ins {
            loc.class("subgroup_point");
        } else {
            loc.class("on_curve_not_in_subgroup");
        }
        loc.class_if(!is_id && hp == Some(t.g.id), "small_order_point");
        if loc.sampling() {
            loc.sample(format!("{name}: P={:?} in_subgroup={ins} h*P={:?}", t.g.pts[i], hp.map(|j| t.g.pts[j])));
        }
        let d = || format!("{name}: P={:?} (order {:?})", t.g.pts[i], t.g.order(i));
        // on an incomplete curve the oracle can decide membership only where r*P is defined by the affine law
        // (or the point is a multiple of G); the library's answer for other points is not constrained
        let decidable = t.complete || ins || t.g.mul(r, i).is_some();
        if decidable {
            let got = pt.is_in_correct_subgroup_assuming_on_curve();
            loc.check_at("is_in_correct_subgroup", got == ins, || format!("{} got {got} want {ins}", d()));
            let got = P::is_in_correct_subgroup_assuming_on_curve(&pt);
            loc.check_at("is_in_correct_subgroup", got == ins, || format!("{} (Config::) got {got} want {ins}", d()));
            let got = pt.check().is_ok();
            loc.check_at("valid_check_affine", got == ins, || format!("{} Valid::check ok={got} want {ins}", d()));
            for z in [1u64, 2, p - 1, 7 % p + 1] {
                let got = t.proj(i, z).check().is_ok();
                loc.check_at("valid_check_projective", got == ins, || format!("{} z={z} Valid::check ok={got} want {ins}", d()));
            }
            let (x, y) = (pt.x, pt.y);
            let panicked = catch_unwind(AssertUnwindSafe(|| te::Affine::<P>::new(x, y))).is_err();
            loc.check_at("affine_new", panicked == !ins, || format!("{} Affine::new panicked={panicked} want {}", d(), !ins));
            loc.class_if(!ins, "checked_constructor:out_of_subgroup");
            for z in [1u64, 2, p - 1] {
                let q = t.proj(i, z);
                let (x, y, tt, zz) = (q.x, q.y, q.t, q.z);
                let r = catch_unwind(AssertUnwindSafe(|| te::Projective::<P>::new(x, y, tt, zz)));
                let ok = match &r {
                    Ok(v) => ins && t.idx_proj(v) == Some(i),
                    Err(_) => !ins,
                };
                loc.check_at("projective_new", ok, || format!("{} z={z} Projective::new {} want {}", d(), if r.is_ok() { "returned a point" } else { "panicked" }, if ins { "this point" } else { "a panic" }));
            }
            let good: Vec<Option<usize>> = (1..=3u64).map(|k| t.g.mul(k, t.gen)).collect();
            if good.iter().all(|g| g.is_some()) {
                loc.class_if(!ins, "batch_check:one_bad_member");
                for pos in 0..3 {
                    let mut idx: Vec<usize> = good.iter().map(|g| g.unwrap()).collect();
                    idx[pos] = i;
                    let ba: Vec<te::Affine<P>> = idx.iter().map(|j| t.aff(*j)).collect();
                    let got = te::Affine::<P>::batch_check(ba.iter()).is_ok();
                    loc.check_at("batch_check_affine", got == ins, || format!("{} at position {pos} of a batch of subgroup points: Affine::batch_check ok={got} want {ins}", d()));
                    let bp: Vec<te::Projective<P>> = idx.iter().enumerate().map(|(k, j)| t.proj(*j, [1, 2, p - 1][k])).collect();
                    let got = te::Projective::<P>::batch_check(bp.iter()).is_ok();
                    loc.check_at("batch_check_projective", got == ins, || format!("{} at position {pos} of a batch of subgroup points: Projective::batch_check ok={got} want {ins}", d()));
                }
            }
        } else {
            loc.class("te_incomplete_membership_undecidable");
        }
        match hp {
            None => loc.class("te_incomplete_oracle_undefined"),
            Some(hp) => {
                for (site, q) in [("clear_cofactor", pt.clear_cofactor()), ("clear_cofactor", P::clear_cofactor(&pt)), ("mul_by_cofactor", pt.mul_by_cofactor())] {
                    let j = t.idx_aff(&q);
                    loc.check_at(site, j == Some(hp) && t.in_subgroup[hp], || format!("{} got {:?} want {:?}", d(), j.map(|j| t.g.pts[j]), t.g.pts[hp]));
                }
                let q = pt.mul_by_cofactor_to_group();
                let j = t.idx_proj(&q);
                loc.check_at("mul_by_cofactor_to_group", j == Some(hp), || format!("{} got {:?} want {:?}", d(), j.map(|j| t.g.pts[j]), t.g.pts[hp]));
            }
        }
        if ins {
            let a = pt.mul_by_cofactor().mul_by_cofactor_inv();
            loc.check_at("mul_by_cofactor_inv", t.idx_aff(&a) == Some(i), || format!("{} inv(cof(P)) = {:?}", d(), a));
            let b = pt.mul_by_cofactor_inv().mul_by_cofactor();
            loc.check_at("mul_by_cofactor_inv", t.idx_aff(&b) == Some(i), || format!("{} cof(inv(P)) = {:?}", d(), b));
        }
    });
    // ---- Valid::check on EVERY pair (x, y) of F_p^2: Ok <=> on the curve and in the subgroup
    ctx.sweep(&format!("toy/{name}/valid_all_pairs"), p * p, |i, loc| {
        let (x, y) = (i % p, i / p);
        let cand = te::Affine::<P>::new_unchecked(t.fe(x), t.fe(y));
        let want = match t.idx_aff(&cand) {
            None => {
                loc.class("off_curve_pair");
                false
            }
            Some(j) => {
                if !(t.complete || t.in_subgroup[j] || t.g.mul(r, j).is_some()) {
                    loc.class("te_incomplete_membership_undecidable");
                    return;
                }
                t.in_subgroup[j]
            }
        };
        let got = cand.check().is_ok();
        loc.check_at("valid_check_affine", got == want, || format!("{name}: (x, y) = ({x}, {y}) Valid::check ok={got} want {want}"));
        let xy = t.f.mul(x, y);
        let got = te::Projective::<P>::new_unchecked(t.fe(x), t.fe(y), t.fe(xy), t.fe(1)).check().is_ok();
        loc.check_at("valid_check_projective", got == want, || format!("{name}: (x, y, xy, 1) = ({x}, {y}, {xy}, 1) Valid::check ok={got} want {want}"));
    });
    // ---- scripted sampling (complete curves only: the sampler multiplies arbitrary curve points by h)
    let bits = P::BaseField::MODULUS_BIT_SIZE as u64;
    if bits > 8 || !t.complete {
        return;
    }
    let mask = (1u64 << bits) - 1;
    let mut valid_y = vec![0u8; p as usize];
    for q in &t.g.pts {
        if let algebra_mc::refmodel::curve::Pt::A(_, y) = q {
            valid_y[*y as usize] += 1;
        }
    }
    let seen: Vec<AtomicBool> = (0..t.n()).map(|_| AtomicBool::new(false)).collect();
    let maxlen = if ctx.thorough() && bits <= 5 { 3 } else { 2 };
    for len in 1..=maxlen {
        let cases = 2u64 << (8 * len);
        ctx.sweep(&format!("toy/{name}/sample/script_len={len}"), cases, |i, loc| {
            let (script, fill) = script_of(i, len);
            let y0 = script[0] as u64 & mask;
            if y0 >= p {
                loc.class("sample:first_draw_geq_modulus");
            } else if valid_y[y0 as usize] == 0 {
                loc.class("sample:first_x_not_on_curve");
            } else {
                loc.class_if(valid_y[y0 as usize] == 1, "sample:first_x_two_torsion");
                loc.class_if(len >= 2 && script[1] >= 0x80, "sample:greatest");
            }
            let mut rng = ScriptRng::new(&script, fill);
            let a: te::Affine<P> = UniformRand::rand(&mut rng);
            let ja = t.idx_aff(&a);
            if loc.sampling() {
                loc.sample(format!("{name}: script={script:02x?} fill={fill} -> Affine {:?} after {} RNG calls", a, rng.calls));
            }
            loc.check_at("sample_affine", ja.map(|j| t.in_subgroup[j]) == Some(true), || format!("{name}: script={script:02x?} fill={fill} sampled {:?} (oracle index {ja:?}) not in the subgroup", a));
            if let Some(j) = ja {
                seen[j].store(true, Ordering::Relaxed);
            }
            let mut rng = ScriptRng::new(&script, fill);
            let q: te::Projective<P> = Standard.sample(&mut rng);
            let jq = t.idx_proj(&q);
            loc.check_at("sample_projective", jq.map(|j| t.in_subgroup[j]) == Some(true), || format!("{name}: script={script:02x?} fill={fill} sampled projective ({}, {}, {}, {}) (oracle index {jq:?}) not in the subgroup", q.x, q.y, q.t, q.z));
            if let Some(j) = jq {
                seen[j].store(true, Ordering::Relaxed);
            }
        });
    }
    // ---- from_random_bytes: a METRIC, not a subgroup claim (it is built on get_point_from_x_unchecked, documented as
    // "not guaranteed to be in the prime order subgroup"; callers clear the cofactor).  Nothing is asserted under C12.
    let blen = te::Affine::<P>::zero().compressed_size();
    if blen <= 2 {
        ctx.sweep(&format!("toy/{name}/from_random_bytes"), 1u64 << (8 * blen), |i, loc| {
            let bytes: Vec<u8> = (0..blen).map(|k| (i >> (8 * k)) as u8).collect();
            match te::Affine::<P>::from_random_bytes(&bytes) {
                None => loc.class("from_random_bytes:none"),
                Some(q) => {
                    // not a C12 claim (C12 speaks about membership tests, clearing and sampling): observations only
                    let j = t.idx_aff(&q);
                    loc.op();
                    match j {
                        Some(j) if t.in_subgroup[j] => loc.class("from_random_bytes:in_subgroup"),
                        Some(_) => loc.class("from_random_bytes:outside_subgroup(documented: unchecked)"),
                        None => loc.class("from_random_bytes:off_curve(metric, not a C12 claim)"),
                    }
                }
            }
        });
    }
    let distinct = seen.iter().filter(|b| b.load(Ordering::Relaxed)).count() as u64;
    ctx.bound(&format!("sampled_distinct_points/{name}"), serde_json::json!({"distinct": distinct, "subgroup_order": r, "script_len_max": maxlen}));
    if ctx.only.is_none() && ctx.replay.is_none() {
        ctx.sweep(&format!("toy/{name}/sample/coverage"), 1, |_, loc| {
            loc.check_at("distinct_outputs", distinct > 1, || format!("{name}: sampler produced only {distinct} distinct point(s) over all scripts"));
        });
    }
}

macro_rules! toy_sw_m {
    ($P:ty, $name:expr, $ctx:expr) => {
        toy_sw::<$P>($ctx, $name);
    };
}
macro_rules! toy_te_m {
    ($P:ty, $name:expr, $ctx:expr) => {
        toy_te::<$P>($ctx, $name);
    };
}

// =====================================================================================================
// A: shipped curves
// =====================================================================================================
/// k*P by the harness's own left-to-right double-and-add on the generic group law only.  `defined` is evaluated on every
/// intermediate value: an ill-formed intermediate (Z = 0 on an incomplete twisted-Edwards curve) makes the result `None`
/// (the oracle then does not decide the case).
fn mul_own<G: CurveGroup>(p: &G, k: &BigUint, defined: fn(&G) -> bool) -> Option<G> {
    if k.is_zero() {
        return Some(G::zero());
    }
    if !defined(p) {
        return None;
    }
    let top = k.bits() - 1;
    let mut acc = *p;
    for i in (0..top).rev() {
        acc.double_in_place();
        if !defined(&acc) {
            return None;
        }
        if k.bit(i) {
            acc += p;
            if !defined(&acc) {
                return None;
            }
        }
    }
    Some(acc)
}

#[derive(Clone, Debug)]
enum Desc {
    Identity,
    GenMul(u64),
    GenNeg,
    Coord(usize),
    HCoord(usize),
    RCoord(usize),
    /// point of exact order l^j in the l-Sylow subgroup (j = 0: the whole Sylow component of a coordinate point); l^e || h
    Small { l: BigUint, e: u32, j: u32, plus_g: bool },
    /// `extra_pts[k]`
    Extra(usize),
}

struct Spec<A: AffineRepr> {
    name: String,
    /// curve points from the first valid coordinates 0,1,2,.. (both signs)
    coord_pts: Vec<A>,
    in_sub: fn(&A) -> bool,
    in_sub_cfg: fn(&A) -> bool,
    clear_cfg: fn(&A) -> A,
    /// curve equation evaluated in the harness
    on_curve: fn(&A) -> bool,
    /// projective value is a well-formed point (always for SW; Z != 0 for TE)
    defined: fn(&A::Group) -> bool,
    /// documented clearing scalar when the config overrides clear_cofactor
    fast_c: Option<BigUint>,
    /// the scalar is STANDARDISED (RFC 9380 h_eff): clearing must be exactly [fast_c]P.  false (BLS12-377: no
    /// standard exists): [fast_c]P for the value pinned here OR [h]P for the curve cofactor are both accepted
    fast_c_standard: bool,
    /// explicitly constructed extra points (label, point, is a small-order point): torsion points of incomplete
    /// twisted-Edwards curves and their sums with multiples of G, built with the affine law in the harness
    extra_pts: Vec<(String, A, bool)>,
    /// the law used by the oracle is complete on E(F_q)
    complete: bool,
    r: BigUint,
    h: BigUint,
    hinv: BigUint,
    small: Vec<(BigUint, u32)>,
    descs: Vec<Desc>,
    /// per-curve case counts by oracle class: identity, subgroup, outside, small-order, skipped; [5] = summed per-case wall milliseconds;
    /// [6] = cases on torsion of a prime order >= 2^20
    stats: [AtomicU64; 7],
}

trait CurveCases: Sync {
    fn name(&self) -> &str;
    fn len(&self) -> usize;
    fn weight(&self) -> u64;
    fn run(&self, i: usize, loc: &mut Loc);
    fn constants(&self, loc: &mut Loc);
    fn stats(&self) -> serde_json::Value;
    /// per-curve floor: a curve with cofactor > 1 must have contributed an out-of-subgroup case
    fn floor_missing(&self) -> Option<String>;
}

fn small_primes() -> &'static Vec<u32> {
    static P: std::sync::OnceLock<Vec<u32>> = std::sync::OnceLock::new();
    P.get_or_init(|| {
        let n = 1usize << 20;
        let mut s = vec![true; n];
        s[0] = false;
        s[1] = false;
        let mut i = 2;
        while i * i < n {
            if s[i] {
                let mut j = i * i;
                while j < n {
                    s[j] = false;
                    j += i;
                }
            }
            i += 1;
        }
        (0..n).filter(|i| s[*i]).map(|i| i as u32).collect()
    })
}

fn pow_u(l: &BigUint, j: u32) -> BigUint {
    let mut x = BigUint::one();
    for _ in 0..j {
        x *= l;
    }
    x
}

/// Full prime factorisations of cofactors whose large prime factors are out of reach of trial division below 2^20
/// (decimal).  Every entry is validated at start-up (`validate_known_factorisations`): each factor passes
/// Miller-Rabin with 40 fixed bases (num-bigint, refmodel::zmod) and the product equals the library's COFACTOR.
const KNOWN_FACTORISATIONS: [(&str, &[(&str, u32)]); 3] = [
    ("BLS12-381 G1", &[("3", 1), ("11", 2), ("10177", 2), ("859267", 2), ("52437899", 2)]),
    (
        "BLS12-381 G2",
        &[
            ("13", 2),
            ("23", 2),
            ("2713", 1),
            ("11953", 1),
            ("262069", 1),
            ("402096035359507321594726366720466575392706800671181159425656785868777272553337714697862511267018014931937703598282857976535744623203249", 1),
        ],
    ),
    ("BN254 G2", &[("10069", 1), ("5864401", 1), ("1875725156269", 1), ("197620364512881247228717050342013327560683201906968909", 1)]),
];
fn known_factorisation(i: usize) -> (Vec<(BigUint, u32)>, BigUint) {
    let f: Vec<(BigUint, u32)> = KNOWN_FACTORISATIONS[i].1.iter().map(|(l, e)| (BigUint::parse_bytes(l.as_bytes(), 10).unwrap(), *e)).collect();
    let prod = f.iter().fold(BigUint::one(), |acc, (l, e)| acc * pow_u(l, *e));
    (f, prod)
}
/// the prime factors >= 2^20 of `h` when `h` is one of the validated cofactors
fn known_large_primes(h: &BigUint) -> Vec<(BigUint, u32)> {
    for i in 0..KNOWN_FACTORISATIONS.len() {
        let (f, prod) = known_factorisation(i);
        if prod == *h && f.iter().all(|(l, _)| is_probable_prime(l)) {
            return f.into_iter().filter(|(l, _)| l.bits() > 20).collect();
        }
    }
    Vec::new()
}

impl<A: AffineRepr> Spec<A> {
    /// `light`: quick-tier reduction for the > 3000-bit groups (orders l and the full Sylow component only)
    fn finish(mut self, nsub: usize, light: bool) -> Self {
        // small prime-power divisors of the cofactor by trial division
        let mut rest = self.h.clone();
        for &l in small_primes() {
            if (&rest % l).is_zero() {
                let mut e = 0;
                while (&rest % l).is_zero() {
                    rest /= l;
                    e += 1;
                }
                self.small.push((BigUint::from(l), e));
            }
            if rest.is_one() {
                break;
            }
        }
        // large prime factors, from the validated table (only when the table entry IS this cofactor)
        if !rest.is_one() {
            for (l, e) in known_large_primes(&self.h) {
                if (&rest % &l).is_zero() {
                    self.small.push((l, e));
                }
            }
        }
        let mut d = vec![Desc::Identity, Desc::GenMul(1), Desc::GenMul(2), Desc::GenMul(3), Desc::GenMul(5), Desc::GenNeg];
        for k in 0..self.coord_pts.len() {
            d.push(Desc::Coord(k));
        }
        for k in 0..nsub.min(self.coord_pts.len()) {
            d.push(Desc::HCoord(k));
            d.push(Desc::RCoord(k));
        }
        for k in 0..self.extra_pts.len() {
            d.push(Desc::Extra(k));
        }
        if self.complete {
            for (l, e) in &self.small {
                let e = *e;
                for j in 0..=e.min(if light { 1 } else { 4 }) {
                    d.push(Desc::Small { l: l.clone(), e, j, plus_g: false });
                    if !(light && j == 0) {
                        d.push(Desc::Small { l: l.clone(), e, j, plus_g: true });
                    }
                }
            }
        }
        self.descs = d;
        self
    }

    fn mul(&self, p: &A::Group, k: &BigUint) -> Option<A::Group> {
        mul_own(p, k, self.defined)
    }

    fn build(&self, d: &Desc) -> Option<A::Group> {
        let g = A::generator().into_group();
        let n = &self.h * &self.r;
        let v = match d {
            Desc::Identity => A::zero().into_group(),
            Desc::GenMul(k) => self.mul(&g, &BigUint::from(*k))?,
            Desc::GenNeg => -g,
            Desc::Coord(k) => self.coord_pts[*k].into_group(),
            Desc::HCoord(k) => self.mul(&self.coord_pts[*k].into_group(), &self.h)?,
            Desc::RCoord(k) => self.mul(&self.coord_pts[*k].into_group(), &self.r)?,
            Desc::Extra(k) => self.extra_pts[*k].1.into_group(),
            Desc::Small { l, e, j, plus_g } => {
                // project onto the l-Sylow subgroup, S = (n / l^e) * P, walk S, l*S, l^2*S, .. down to O to learn the
                // exact order l^k of S, then take the multiple of exact order l^j (j = 0: S itself)
                let cof = &n / pow_u(l, *e);
                let lb = l.clone();
                let mut found = None;
                'cand: for cand in self.coord_pts.iter().take(8) {
                    let Some(s) = self.mul(&cand.into_group(), &cof) else { continue };
                    if s.is_zero() {
                        continue;
                    }
                    let mut chain = vec![s];
                    loop {
                        let Some(nx) = self.mul(chain.last().unwrap(), &lb) else { continue 'cand };
                        if chain.len() > *e as usize {
                            continue 'cand;
                        }
                        if nx.is_zero() {
                            break;
                        }
                        chain.push(nx);
                    }
                    let k = chain.len();
                    if *j == 0 {
                        found = Some(chain[0]);
                        break;
                    }
                    if k >= *j as usize {
                        found = Some(chain[k - *j as usize]);
                        break;
                    }
                }
                let t = found?;
                if *plus_g {
                    let mut u = t;
                    u += &g;
                    u
                } else {
                    t
                }
            }
        };
        (self.defined)(&v).then_some(v)
    }
}

impl<A: AffineRepr> CurveCases for Spec<A>
where
    A::Group: Valid,
{
    fn name(&self) -> &str {
        &self.name
    }
    fn len(&self) -> usize {
        self.descs.len()
    }
    fn stats(&self) -> serde_json::Value {
        let v: Vec<u64> = self.stats.iter().map(|a| a.load(Ordering::Relaxed)).collect();
        serde_json::json!({"cases": self.descs.len(), "identity": v[0], "subgroup_point": v[1], "on_curve_not_in_subgroup": v[2], "small_order_point": v[3],
            "skipped(absent/undefined)": v[4], "case_wall_ms_sum": v[5], "large_prime_order_torsion_cases": v[6], "cofactor_small_prime_powers": format!("{:?}", self.small), "cofactor_bits": self.h.bits(), "fast_clearing": self.fast_c.is_some(), "complete_law": self.complete})
    }
    fn floor_missing(&self) -> Option<String> {
        let outside = self.stats[2].load(Ordering::Relaxed);
        let small = self.stats[3].load(Ordering::Relaxed);
        if !self.h.is_one() && outside == 0 {
            return Some(format!("{}: cofactor {} > 1 but no on_curve_not_in_subgroup case was run", self.name, self.h));
        }
        // every twisted-Edwards curve has the point (0,-1) of order 2; complete ones and SW curves with a cofactor
        // that has a prime factor below 2^20 get their small-order points from the Sylow constructions
        if self.small.iter().any(|(l, _)| l.bits() > 20) && self.stats[6].load(Ordering::Relaxed) == 0 {
            return Some(format!("{}: the cofactor has validated prime factors >= 2^20 but no case on their torsion was run", self.name));
        }
        if (!self.extra_pts.is_empty() || !self.small.is_empty()) && small == 0 {
            return Some(format!("{}: small-order points exist (cofactor factors {:?}, {} explicit) but no small_order_point case was run", self.name, self.small, self.extra_pts.len()));
        }
        None
    }
    fn weight(&self) -> u64 {
        let q = <A::BaseField as Field>::BasePrimeField::MODULUS_BIT_SIZE as u64 * A::BaseField::extension_degree();
        (self.h.bits() + self.r.bits()) * q * q
    }
    fn constants(&self, loc: &mut Loc) {
        let name = &self.name;
        let (h, r, hinv) = (&self.h, &self.r, &self.hinv);
        loc.class_if(h.is_one(), "cofactor_is_one_shortcut");
        loc.check_at(&format!("{name}/cofactor_inv"), (hinv * h) % r == BigUint::one(), || format!("{name}: COFACTOR_INV * COFACTOR mod r = {}", (hinv * h) % r));
        loc.check_at(&format!("{name}/cofactor_is_one"), <A::Config as CurveConfig>::cofactor_is_one() == h.is_one(), || format!("{name}: cofactor_is_one() = {} but COFACTOR = {h}", <A::Config as CurveConfig>::cofactor_is_one()));
        if let Some(c) = &self.fast_c {
            loc.class("fast_clearing");
            // the clearing scalar must be a unit mod r and kill the cofactor part: h | c is what makes c*P land in the subgroup
            loc.check_at(&format!("{name}/fast_c_coprime_to_r"), !(c % r).is_zero(), || format!("{name}: documented clearing scalar {c} is divisible by r"));
        }
    }
    fn run(&self, i: usize, loc: &mut Loc) {
        let t0 = std::time::Instant::now();
        self.run_case(i, loc);
        self.stats[5].fetch_add(t0.elapsed().as_millis() as u64, Ordering::Relaxed);
    }
}

impl<A: AffineRepr> Spec<A>
where
    A::Group: Valid,
{
    fn run_case(&self, i: usize, loc: &mut Loc) {
        let name = &self.name;
        let desc = &self.descs[i];
        let Some(gp) = self.build(desc) else {
            match desc {
                Desc::Small { .. } => {
                    if std::env::var_os("C12_DEBUG").is_some() {
                        eprintln!("absent: {name} {desc:?} (small = {:?})", self.small);
                    }
                    loc.class("small_order_absent")
                }
                _ => loc.class("te_incomplete_oracle_undefined"),
            }
            self.stats[4].fetch_add(1, Ordering::Relaxed);
            return;
        };
        let p: A = gp.into_affine();
        let d = || format!("{name}: {desc:?} P={p:?}");
        if !loc.check_at(&format!("{name}/own_law_on_curve"), (self.on_curve)(&p), || format!("{} built with the generic law is not on the curve", d())) {
            return;
        }
        // ---- oracle membership: r*P == O by own double-and-add
        let Some(rp) = self.mul(&gp, &self.r) else {
            loc.class("te_incomplete_oracle_undefined");
            self.stats[4].fetch_add(1, Ordering::Relaxed);
            return;
        };
        let ins = rp.is_zero();
        let is_id = gp.is_zero();
        if is_id {
            loc.class("identity");
            self.stats[0].fetch_add(1, Ordering::Relaxed);
        } else if ins {
            loc.class("subgroup_point");
            self.stats[1].fetch_add(1, Ordering::Relaxed);
        } else {
            loc.class("on_curve_not_in_subgroup");
            self.stats[2].fetch_add(1, Ordering::Relaxed);
        }
        if let Desc::Small { plus_g: false, .. } = desc {
            loc.class("small_order_point");
            self.stats[3].fetch_add(1, Ordering::Relaxed);
            loc.check_at(&format!("{name}/oracle_sanity"), !ins && !is_id, || format!("{} a non-trivial point of order dividing the cofactor cannot be in the subgroup of order r", d()));
        }
        if let Desc::Small { l, plus_g, .. } = desc {
            if l.bits() > 20 {
                loc.class(if *plus_g { "large_prime_order_torsion_plus_G" } else { "large_prime_order_torsion" });
                self.stats[6].fetch_add(1, Ordering::Relaxed);
            }
        }
        if let Desc::Extra(k) = desc {
            let (_, _, small) = &self.extra_pts[*k];
            loc.class(if *small { "te_incomplete:torsion_point" } else { "te_incomplete:G_plus_torsion" });
            if *small {
                loc.class("small_order_point");
                self.stats[3].fetch_add(1, Ordering::Relaxed);
                loc.check_at(&format!("{name}/oracle_sanity"), !ins && !is_id, || format!("{} a point of even order cannot be in the odd-order subgroup", d()));
            }
        }
        loc.class_if(self.h.is_one(), "cofactor_is_one_shortcut");
        loc.class_if(self.fast_c.is_some(), "fast_clearing");
        if loc.sampling() {
            loc.sample(format!("{} in_subgroup={ins}", d()));
        }
        match desc {
            Desc::GenMul(_) | Desc::GenNeg | Desc::HCoord(_) => {
                loc.check_at(&format!("{name}/oracle_sanity"), ins, || format!("{} expected in the subgroup by construction (COFACTOR * r is not a multiple of the point's order?)", d()));
            }
            _ => {}
        }
        // ---- membership tests
        let got = (self.in_sub)(&p);
        loc.check_at(&format!("{name}/is_in_correct_subgroup"), got == ins, || format!("{} is_in_correct_subgroup_assuming_on_curve = {got}, r*P == O is {ins}", d()));
        let got = (self.in_sub_cfg)(&p);
        loc.check_at(&format!("{name}/is_in_correct_subgroup"), got == ins, || format!("{} Config::is_in_correct_subgroup_assuming_on_curve = {got}, r*P == O is {ins}", d()));
        let got = p.check().is_ok();
        loc.check_at(&format!("{name}/valid_check_affine"), got == ins, || format!("{} Valid::check ok = {got}, want {ins}", d()));
        let got = gp.check().is_ok();
        loc.check_at(&format!("{name}/valid_check_projective"), got == ins, || format!("{} Projective Valid::check ok = {got}, want {ins}", d()));
        // ---- clearing
        let c = self.fast_c.as_ref().unwrap_or(&self.h);
        let (Some(want_c), Some(want_h)) = (self.mul(&gp, c), self.mul(&gp, &self.h)) else {
            loc.class("te_incomplete_oracle_undefined");
            return;
        };
        let want_c_aff: A = want_c.into_affine();
        let want_h_aff: A = want_h.into_affine();
        for (which, q) in [("AffineRepr::clear_cofactor", p.clear_cofactor()), ("Config::clear_cofactor", (self.clear_cfg)(&p))] {
            let site = format!("{name}/clear_cofactor");
            if !loc.check_at(&site, (self.on_curve)(&q), || format!("{} {which} = {q:?} is not on the curve", d())) {
                continue;
            }
            // (on an incomplete curve the law is total on the odd-order subgroup, so an undefined r*Q also means "outside")
            let rq = self.mul(&q.into_group(), &self.r);
            loc.check_at(&site, matches!(rq, Some(z) if z.is_zero()), || format!("{} {which} = {q:?} is not in the prime-order subgroup", d()));
            if self.fast_c.is_some() && !self.fast_c_standard {
                // no standard fixes the effective cofactor of this curve: the value pinned here or the plain cofactor
                let (eq_c, eq_h) = (q == want_c_aff, q == want_h_aff);
                loc.class(if eq_c { "fast_clearing:unstandardised_curve_uses_pinned_effective_cofactor(metric)" } else { "fast_clearing:unstandardised_curve_uses_plain_cofactor(metric)" });
                loc.check_at(&site, eq_c || eq_h, || format!("{} {which} = {q:?} is neither c*P = {want_c_aff:?} for the pinned effective cofactor c = {c} nor h*P = {want_h_aff:?} for the curve cofactor", d()));
            } else {
                loc.check_at(&site, q == want_c_aff, || format!("{} {which} = {q:?} but c*P = {want_c_aff:?} for the documented c = {c}", d()));
            }
        }
        // overridden clearing maps: "multiplication by ONE fixed integer" implies additivity - checked on the pairs
        // (P, G) and (P, first coordinate point), sums by the generic law
        if self.fast_c.is_some() {
            let mut partners: Vec<(&str, A)> = vec![("G", A::generator())];
            if let Some(c0) = self.coord_pts.first() {
                partners.push(("the first coordinate point", *c0));
            }
            for (rn, rpt) in partners {
                let mut s = gp;
                s += &rpt.into_group();
                if !(self.defined)(&s) {
                    continue;
                }
                let sa: A = s.into_affine();
                let lhs = (self.clear_cfg)(&sa);
                let mut rhs = (self.clear_cfg)(&p).into_group();
                rhs += &(self.clear_cfg)(&rpt).into_group();
                let rhs: A = rhs.into_affine();
                loc.class("clearing_homomorphism_pair");
                loc.check_at(&format!("{name}/clear_cofactor_additive"), lhs == rhs, || format!("{} clear_cofactor(P + R) = {lhs:?} but clear_cofactor(P) + clear_cofactor(R) = {rhs:?} for R = {rn}", d()));
            }
        }
        let q = p.mul_by_cofactor();
        loc.check_at(&format!("{name}/mul_by_cofactor"), q == want_h_aff, || format!("{} mul_by_cofactor = {q:?} want h*P = {want_h_aff:?}", d()));
        let q: A = p.mul_by_cofactor_to_group().into_affine();
        loc.check_at(&format!("{name}/mul_by_cofactor_to_group"), q == want_h_aff, || format!("{} mul_by_cofactor_to_group = {q:?} want h*P = {want_h_aff:?}", d()));
        // ---- cofactor and its inverse compose to the identity on the subgroup
        if ins {
            let a = p.mul_by_cofactor().mul_by_cofactor_inv();
            loc.check_at(&format!("{name}/mul_by_cofactor_inv"), a == p, || format!("{} mul_by_cofactor_inv(mul_by_cofactor(P)) = {a:?}", d()));
            if let Some(want) = self.mul(&gp, &self.hinv) {
                let want: A = want.into_affine();
                let a = p.mul_by_cofactor_inv();
                loc.check_at(&format!("{name}/mul_by_cofactor_inv"), a == want, || format!("{} mul_by_cofactor_inv(P) = {a:?} want {want:?}", d()));
            }
        }
    }
}

fn coord<F: Field>(k: u64) -> F {
    let d = F::extension_degree() as usize;
    if d == 1 {
        return F::from(k);
    }
    // alternate between the prime subfield and elements with a non-trivial second coordinate
    let mut e = vec![F::BasePrimeField::zero(); d];
    e[0] = F::BasePrimeField::from(k / 2);
    e[1] = F::BasePrimeField::from(k % 2);
    F::from_base_prime_field_elems(e).expect("degree")
}

fn sw_on_curve<P: SWCurveConfig>(p: &sw::Affine<P>) -> bool {
    p.infinity || p.y * p.y == p.x * p.x * p.x + P::COEFF_A * p.x + P::COEFF_B
}
fn te_on_curve<P: TECurveConfig>(p: &te::Affine<P>) -> bool {
    let (x2, y2) = (p.x * p.x, p.y * p.y);
    P::COEFF_A * x2 + y2 == P::BaseField::one() + P::COEFF_D * x2 * y2
}

fn npts_for(ctx: &Ctx, total_bits: u64) -> (usize, usize) {
    // (valid coordinates, points also used for h*P / r*P)
    if total_bits > 3000 {
        ctx.t((2, 2), (16, 6))
    } else if total_bits > 1400 {
        ctx.t((3, 3), (24, 8))
    } else if total_bits > 700 {
        ctx.t((6, 4), (32, 12))
    } else {
        ctx.t((12, 6), (48, 24))
    }
}

fn sw_spec<P: SWCurveConfig>(ctx: &Ctx, name: &str, fast_c: Option<BigUint>, fast_c_standard: bool) -> Box<dyn CurveCases> {
    let r = from_limbs(P::ScalarField::MODULUS.as_ref());
    let h = from_limbs(P::COFACTOR);
    let hinv = from_limbs(P::COFACTOR_INV.into_bigint().as_ref());
    let total_bits = h.bits() + r.bits() + <P::BaseField as Field>::BasePrimeField::MODULUS_BIT_SIZE as u64 * P::BaseField::extension_degree();
    let (npts, nsub) = npts_for(ctx, total_bits);
    let light = ctx.quick() && total_bits > 3000;
    let mut pts = Vec::new();
    let mut k = 0u64;
    let mut nx = 0;
    while nx < npts && k < 100_000 {
        let x = coord::<P::BaseField>(k);
        if let Some((y0, y1)) = sw::Affine::<P>::get_ys_from_x_unchecked(x) {
            pts.push(sw::Affine::<P>::new_unchecked(x, y0));
            if y0 != y1 {
                pts.push(sw::Affine::<P>::new_unchecked(x, y1));
            }
            nx += 1;
        }
        k += 1;
    }
    Box::new(
        Spec::<sw::Affine<P>> {
            name: name.to_string(),
            coord_pts: pts,
            in_sub: |p| p.is_in_correct_subgroup_assuming_on_curve(),
            in_sub_cfg: |p| P::is_in_correct_subgroup_assuming_on_curve(p),
            clear_cfg: |p| P::clear_cofactor(p),
            on_curve: sw_on_curve::<P>,
            defined: |_| true,
            fast_c,
            fast_c_standard,
            extra_pts: Vec::new(),
            complete: true,
            r,
            h,
            hinv,
            small: Vec::new(),
            descs: Vec::new(),
            stats: Default::default(),
        }
        .finish(nsub * 2, light),
    )
}

fn te_spec<P: TECurveConfig>(ctx: &mut Ctx, name: &str) -> Box<dyn CurveCases>
where
    P::BaseField: PrimeField,
{
    let r = from_limbs(P::ScalarField::MODULUS.as_ref());
    let h = from_limbs(P::COFACTOR);
    let hinv = from_limbs(P::COFACTOR_INV.into_bigint().as_ref());
    let total_bits = h.bits() + r.bits() + P::BaseField::MODULUS_BIT_SIZE as u64;
    let (npts, nsub) = npts_for(ctx, total_bits);
    let light = ctx.quick() && total_bits > 3000;
    // complete <=> a square and d non-square (Euler criterion evaluated here)
    let e = P::BaseField::MODULUS_MINUS_ONE_DIV_TWO;
    let is_sq = |x: P::BaseField| x.is_zero() || x.pow(e) == P::BaseField::one();
    let complete = is_sq(P::COEFF_A) && !is_sq(P::COEFF_D);
    if !complete {
        ctx.assume(&format!("{name}: twisted-Edwards parameters are not complete (a non-square or d square): the oracle's generic law is only trusted on well-formed results (Z != 0); the Sylow constructions are skipped for this curve, the torsion points (0,-1) [and (+-1/sqrt(a),0) when a is a square] and G + T, 2G + T are built explicitly with the affine law"));
    }
    let mut pts = Vec::new();
    let mut k = 0u64;
    let mut ny = 0;
    while ny < npts && k < 100_000 {
        let y = P::BaseField::from(k);
        if let Some((x0, x1)) = te::Affine::<P>::get_xs_from_y_unchecked(y) {
            pts.push(te::Affine::<P>::new_unchecked(x0, y));
            if x0 != x1 {
                pts.push(te::Affine::<P>::new_unchecked(x1, y));
            }
            ny += 1;
        }
        k += 1;
    }
    // incomplete parameters: the Sylow constructions are skipped, so the small-order points that exist on EVERY
    // twisted-Edwards curve are built explicitly: T2 = (0, -1) of order 2 and, when a is a square, T4 = (+-1/sqrt(a), 0)
    // of order 4; and G + T, 2G + T with the affine law evaluated here (a pair with a zero denominator is skipped)
    let mut extra_pts: Vec<(String, te::Affine<P>, bool)> = Vec::new();
    if !complete {
        let one = P::BaseField::one();
        let zero = P::BaseField::zero();
        let on = |x: P::BaseField, y: P::BaseField| P::COEFF_A * x * x + y * y == one + P::COEFF_D * x * x * y * y;
        let add = |p: (P::BaseField, P::BaseField), q: (P::BaseField, P::BaseField)| -> Option<(P::BaseField, P::BaseField)> {
            let t = P::COEFF_D * p.0 * q.0 * p.1 * q.1;
            let (d1, d2) = (one + t, one - t);
            if d1.is_zero() || d2.is_zero() {
                return None;
            }
            Some(((p.0 * q.1 + p.1 * q.0) / d1, (p.1 * q.1 - P::COEFF_A * p.0 * q.0) / d2))
        };
        let mut torsion: Vec<(String, (P::BaseField, P::BaseField))> = vec![("T2=(0,-1)".to_string(), (zero, -one))];
        if is_sq(P::COEFF_A) {
            if let Some(s) = P::COEFF_A.sqrt() {
                if let Some(x4) = s.inverse() {
                    torsion.push(("T4=(1/sqrt(a),0)".to_string(), (x4, zero)));
                    torsion.push(("-T4=(-1/sqrt(a),0)".to_string(), (-x4, zero)));
                }
            }
        }
        let g = (P::GENERATOR.x, P::GENERATOR.y);
        let g2 = add(g, g);
        let mut ok = on(g.0, g.1);
        for (tn, t) in &torsion {
            ok &= on(t.0, t.1);
            // orders by the affine law: 2*T2 = O, 2*T4 = T2
            let dbl = add(*t, *t);
            ok &= if tn.starts_with("T2") { dbl == Some((zero, one)) } else { dbl == Some((zero, -one)) };
            extra_pts.push((tn.clone(), te::Affine::<P>::new_unchecked(t.0, t.1), true));
            for (gn, gm) in [("G", Some(g)), ("2G", g2)] {
                if let Some(s) = gm.and_then(|gm| add(gm, *t)) {
                    ok &= on(s.0, s.1);
                    extra_pts.push((format!("{gn}+{tn}"), te::Affine::<P>::new_unchecked(s.0, s.1), false));
                }
            }
        }
        ctx.validate(ok, &format!("{name}: explicitly built torsion points T2 / T4 and G + T are on the curve and have the stated orders (affine law in the harness)"));
    }
    Box::new(
        Spec::<te::Affine<P>> {
            name: name.to_string(),
            coord_pts: pts,
            in_sub: |p| p.is_in_correct_subgroup_assuming_on_curve(),
            in_sub_cfg: |p| P::is_in_correct_subgroup_assuming_on_curve(p),
            clear_cfg: |p| P::clear_cofactor(p),
            on_curve: te_on_curve::<P>,
            defined: |g| !g.z.is_zero(),
            fast_c: None,
            fast_c_standard: true,
            extra_pts,
            complete,
            r,
            h,
            hinv,
            small: Vec::new(),
            descs: Vec::new(),
            stats: Default::default(),
        }
        .finish(nsub * 2, light),
    )
}

type Iso<C> = <C as WBConfig>::IsogenousCurve;

fn shipped(ctx: &mut Ctx) {
    if let Some(o) = &ctx.only {
        if !o.contains("shipped") {
            return;
        }
    }
    if let Some((s, _)) = &ctx.replay {
        if !s.starts_with("shipped") {
            return;
        }
    }
    let big = |s: &str| BigUint::parse_bytes(s.as_bytes(), 16).unwrap();
    // ---- documented clearing scalars
    // BLS12-381: x = -0xd201000000010000; G1 clears by 1 - x (eprint 2019/403 sec. 5, RFC 9380 sec. 8.8.1 h_eff)
    let x381 = big("d201000000010000");
    let c381_g1 = &x381 + 1u32;
    // RFC 9380 sec. 8.8.2 h_eff for G2
    let c381_g2 = big("bc69f08f2ee75b3584c6a0ea91b352888e2a8e9145ad7689986ff031508ffe1329c2f178731db956d82bf015d1212b02ec0ec69d7477c1ae954cbc06689f6a359894c0adebbf6b4e8020005aaa95551");
    // BLS12-377: x = 0x8508c00000000001; G1 clears by x - 1; G2: the h_eff of curves/bls12_377/src/curves/g2.rs (test_cofactor_clearing)
    let x377 = big("8508c00000000001");
    let c377_g1 = &x377 - 1u32;
    let c377_g2 = from_limbs(&[
        0x1e34800000000000,
        0xcf664765b0000003,
        0x8e8e73ad8a538800,
        0x78ba279637388559,
        0xb85860aaaad29276,
        0xf7ee7c4b03103b45,
        0x8f6ade35a5c7d769,
        0xa951764c46f4edd2,
        0x53648d3d9502abfb,
        0x1f60243677e306,
    ]);
    // self-validation of the transcribed constants: h_eff(G2) = 3 (x^2 - 1) h2 (Budroni-Pintore), x as shipped
    {
        use ark_ec::bls12::Bls12Config;
        let h2_381 = from_limbs(<ark_bls12_381::g2::Config as CurveConfig>::COFACTOR);
        let h2_377 = from_limbs(<ark_bls12_377::g2::Config as CurveConfig>::COFACTOR);
        ctx.validate(c381_g2 == (&x381 * &x381 - 1u32) * 3u32 * &h2_381, "RFC 9380 h_eff(BLS12-381 G2) = 3(x^2-1) h2");
        ctx.validate(c377_g2 == (&x377 * &x377 - 1u32) * 3u32 * &h2_377, "h_eff(BLS12-377 G2) = 3(x^2-1) h2");
        ctx.validate(from_limbs(ark_bls12_381::Config::X) == x381 && ark_bls12_381::Config::X_IS_NEGATIVE, "BLS12-381 x");
        ctx.validate(from_limbs(ark_bls12_377::Config::X) == x377 && !ark_bls12_377::Config::X_IS_NEGATIVE, "BLS12-377 x");
        ctx.validate(from_limbs(ark_test_curves::bls12_381::Config::X) == x381 && ark_test_curves::bls12_381::Config::X_IS_NEGATIVE, "test-curves BLS12-381 x");
        let h1_381 = from_limbs(<ark_bls12_381::g1::Config as CurveConfig>::COFACTOR);
        let h1_377 = from_limbs(<ark_bls12_377::g1::Config as CurveConfig>::COFACTOR);
        ctx.validate(&c381_g1 * &c381_g1 == &h1_381 * 3u32, "BLS12-381 G1: (1-x)^2 = 3 h");
        ctx.validate(&c377_g1 * &c377_g1 == &h1_377 * 3u32, "BLS12-377 G1: (x-1)^2 = 3 h");
    }
    // the hard-coded cofactor factorisations: prime factors (Miller-Rabin, fixed bases) whose product is the shipped COFACTOR
    {
        let shipped_h: [(&str, BigUint); 3] = [
            ("BLS12-381 G1", from_limbs(<ark_bls12_381::g1::Config as CurveConfig>::COFACTOR)),
            ("BLS12-381 G2", from_limbs(<ark_bls12_381::g2::Config as CurveConfig>::COFACTOR)),
            ("BN254 G2", from_limbs(<ark_bn254::g2::Config as CurveConfig>::COFACTOR)),
        ];
        for (i, (nm, h)) in shipped_h.iter().enumerate() {
            let (f, prod) = known_factorisation(i);
            ctx.validate(KNOWN_FACTORISATIONS[i].0 == *nm && prod == *h, &format!("hard-coded factorisation of the cofactor of {nm}: product equals COFACTOR"));
            ctx.validate(f.iter().all(|(l, _)| is_probable_prime(l)), &format!("hard-coded factorisation of the cofactor of {nm}: every factor is prime (Miller-Rabin, 40 fixed bases)"));
            ctx.validate(!known_large_primes(h).is_empty(), &format!("hard-coded factorisation of the cofactor of {nm}: has a prime factor above 2^20"));
        }
        ctx.assume("cofactor torsion of large prime order: the full factorisations of the cofactors of BLS12-381 G1, BLS12-381 G2 and BN254 G2 are hard-coded (validated at start-up: Miller-Rabin with 40 fixed bases for every factor, product equals the shipped COFACTOR; curves with the same cofactor - the test-curves twins and the SWU isogenous curves - use them too); for every prime l | h the l-Sylow component of up to 8 coordinate points is isolated with the harness's own double-and-add");
    }
    let mut curves: Vec<Box<dyn CurveCases>> = Vec::new();
    macro_rules! sw {
        ($P:ty, $name:expr) => {
            curves.push(sw_spec::<$P>(ctx, $name, None, true));
        };
        ($P:ty, $name:expr, $c:expr) => {
            curves.push(sw_spec::<$P>(ctx, $name, Some($c.clone()), true));
        };
        ($P:ty, $name:expr, $c:expr, unstandardised) => {
            curves.push(sw_spec::<$P>(ctx, $name, Some($c.clone()), false));
        };
    }
    macro_rules! te {
        ($P:ty, $name:expr) => {
            curves.push(te_spec::<$P>(ctx, $name));
        };
    }
    // ---- overrides
    sw!(ark_bls12_381::g1::Config, "bls12_381/g1", c381_g1);
    sw!(ark_bls12_381::g2::Config, "bls12_381/g2", c381_g2);
    sw!(ark_test_curves::bls12_381::g1::Config, "test/bls12_381/g1", c381_g1);
    sw!(ark_test_curves::bls12_381::g2::Config, "test/bls12_381/g2", c381_g2);
    sw!(ark_bls12_377::g1::Config, "bls12_377/g1", c377_g1, unstandardised);
    sw!(ark_bls12_377::g2::Config, "bls12_377/g2", c377_g2, unstandardised);
    sw!(ark_bn254::g1::Config, "bn254/g1");
    sw!(ark_bn254::g2::Config, "bn254/g2");
    // ---- defaults, cofactor > 1
    sw!(Iso<ark_bls12_381::g1::Config>, "bls12_381/g1_swu_iso");
    sw!(Iso<ark_bls12_381::g2::Config>, "bls12_381/g2_swu_iso");
    sw!(Iso<ark_bls12_377::g1::Config>, "bls12_377/g1_swu_iso");
    sw!(Iso<ark_bls12_377::g2::Config>, "bls12_377/g2_swu_iso");
    sw!(ark_test_curves::bls12_381::g1_swu_iso::SwuIsoConfig, "test/bls12_381/g1_swu_iso");
    sw!(ark_test_curves::bls12_381::g2_swu_iso::SwuIsoConfig, "test/bls12_381/g2_swu_iso");
    sw!(ark_bw6_761::g1::Config, "bw6_761/g1");
    sw!(ark_bw6_761::g2::Config, "bw6_761/g2");
    sw!(ark_bw6_767::g1::Config, "bw6_767/g1");
    sw!(ark_bw6_767::g2::Config, "bw6_767/g2");
    sw!(ark_cp6_782::g1::Config, "cp6_782/g1");
    sw!(ark_cp6_782::g2::Config, "cp6_782/g2");
    sw!(ark_mnt4_298::g2::Config, "mnt4_298/g2");
    sw!(ark_mnt4_753::g2::Config, "mnt4_753/g2");
    sw!(ark_mnt6_298::g2::Config, "mnt6_298/g2");
    sw!(ark_mnt6_753::g2::Config, "mnt6_753/g2");
    sw!(ark_ed_on_bls12_381::JubjubConfig, "ed_on_bls12_381/jubjub(sw)");
    sw!(ark_ed_on_bls12_381_bandersnatch::BandersnatchConfig, "ed_on_bls12_381_bandersnatch(sw)");
    te!(ark_bls12_377::g1::Config, "bls12_377/g1(te)");
    te!(ark_curve25519::Curve25519Config, "curve25519");
    te!(ark_ed25519::EdwardsConfig, "ed25519");
    te!(ark_ed_on_bls12_377::EdwardsConfig, "ed_on_bls12_377");
    te!(ark_ed_on_bls12_381::JubjubConfig, "ed_on_bls12_381/jubjub");
    te!(ark_ed_on_bls12_381_bandersnatch::BandersnatchConfig, "ed_on_bls12_381_bandersnatch");
    te!(ark_ed_on_bn254::EdwardsConfig, "ed_on_bn254");
    te!(ark_ed_on_cp6_782::EdwardsConfig, "ed_on_cp6_782(=ed_on_bw6_761)");
    te!(ark_ed_on_mnt4_298::EdwardsConfig, "ed_on_mnt4_298");
    te!(ark_ed_on_mnt4_753::EdwardsConfig, "ed_on_mnt4_753");
    te!(ark_test_curves::ed_on_bls12_381::EdwardsConfig, "test/ed_on_bls12_381");
    // ---- cofactor one (shortcut / bn254 override answer `true`: is E(F_q) really of order r?)
    sw!(ark_mnt4_298::g1::Config, "mnt4_298/g1");
    sw!(ark_mnt4_753::g1::Config, "mnt4_753/g1");
    sw!(ark_mnt6_298::g1::Config, "mnt6_298/g1");
    sw!(ark_mnt6_753::g1::Config, "mnt6_753/g1");
    sw!(ark_grumpkin::GrumpkinConfig, "grumpkin");
    sw!(ark_pallas::PallasConfig, "pallas");
    sw!(ark_vesta::VestaConfig, "vesta");
    sw!(ark_secp256k1::Config, "secp256k1");
    sw!(ark_secp256r1::Config, "secp256r1");
    sw!(ark_secp384r1::Config, "secp384r1");
    sw!(ark_secq256k1::Config, "secq256k1");
    sw!(ark_test_curves::bn384_small_two_adicity::g1::Config, "test/bn384_small_two_adicity/g1");
    sw!(ark_test_curves::secp256k1::Config, "test/secp256k1/g1");
    sw!(ark_test_curves::mnt4_753::g1::Config, "test/mnt4_753/g1");

    // heavy curves first (dynamic scheduling then balances the tail)
    curves.sort_by_key(|c| std::cmp::Reverse(c.weight()));
    let mut offs = Vec::new();
    let mut total = 0u64;
    for c in &curves {
        offs.push(total);
        total += c.len() as u64;
    }
    ctx.bound("shipped_curve_configurations", curves.len() as u64);
    ctx.sweep("shipped/constants", curves.len() as u64, |i, loc| curves[i as usize].constants(loc));
    ctx.sweep("shipped/points", total, |i, loc| {
        let k = offs.partition_point(|o| *o <= i) - 1;
        curves[k].run((i - offs[k]) as usize, loc);
    });
    for c in &curves {
        ctx.bound(&format!("shipped/{}", c.name()), c.stats());
    }
    if ctx.only.is_none() && ctx.replay.is_none() {
        for c in &curves {
            if let Some(msg) = c.floor_missing() {
                ctx.validate(false, &format!("per-curve floor: {msg}"));
            }
        }
    }
}

fn main() {
    let mut ctx = Ctx::from_args("C12");
    ctx.require(&["on_curve_not_in_subgroup", "small_order_point", "identity", "subgroup_point", "cofactor_is_one_shortcut", "fast_clearing"]);
    ctx.require(&["large_prime_order_torsion", "large_prime_order_torsion_plus_G"]);
    ctx.require(&["te_incomplete:torsion_point", "te_incomplete:G_plus_torsion", "clearing_homomorphism_pair", "checked_constructor:out_of_subgroup", "batch_check:one_bad_member", "batch_check:two_bad_members_with_sum_in_subgroup"]);
    ctx.require(&["sample:first_draw_geq_modulus", "sample:first_x_not_on_curve", "sample:greatest", "off_curve_pair"]);
    ctx.assume("shipped curves: the membership oracle is r*P == O computed by the harness's own double-and-add over the generic projective `+=`/`double_in_place` (property C03), and point equality is decided on `into_affine()` coordinates");
    ctx.assume("scripted RNG: the k-th RNG call consumes the k-th script byte (low byte of next_u64, top byte of next_u32; remaining bits all-0 or all-1), then an incrementing counter; all scripts of the stated lengths are enumerated, so every (candidate coordinate, sign) pair of the first rejection-loop iteration is reached");
    ctx.bound("toy_curves", 21);
    ctx.bound("small_prime_bound", 1u64 << 20);
    algebra_mc::toy_sw_curves!(toy_sw_m, &mut ctx);
    algebra_mc::toy_te_curves!(toy_te_m, &mut ctx);
    shipped(&mut ctx);
    std::process::exit(ctx.finish());
}
