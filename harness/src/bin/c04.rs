//! C04 - every scalar-multiplication path computes k*P; the GLV decomposition satisfies
//! k = k1 + lambda*k2 (mod r).
//!
//! Spaces (DESIGN section 3, C04):
//!  * E (toy curves): every point of every toy curve x every scalar of F_r (plus raw limb slices at or
//!    above the group order / with leading zero limbs) x every multiplication path: affine / projective
//!    `mul_bigint`, `*`, `*=`, `mul_bits_be`, the curve-config `mul_affine` / `mul_projective`,
//!    `sw_double_and_add_*`, windowed NAF for every window 2..=10 (thorough: 2..=12; 11..=16 on one small curve; the
//!    too-short-table refusal for every window up to 63) with fresh / reused / longer / shorter
//!    tables, fixed-base batch multiplication for every (hint, scalar size) pair.  Reference: table of
//!    multiples j*P built by repeated addition with the textbook affine law.
//!  * E (toy GLV curves): y^2 = x^3 + b with prime order r = 1 (mod 3): all k for the decomposition, all
//!    (P, k) for glv_mul_projective / glv_mul_affine.
//!  * A (shipped curves): boundary alphabet of scalars x {O, G, -G, 2G, a point outside the subgroup};
//!    oracle = plain double-and-add written here on top of the group's `+` / `double` (property C03).
#![allow(non_camel_case_types, clippy::all)]
use algebra_mc::core::*;
use algebra_mc::refmodel::curve::{GroupTable, Pt};
use algebra_mc::refmodel::fieldmodel::{prime_to_u64, FieldModel};
use algebra_mc::refmodel::zmod::{from_limbs, is_prime_small, to_limbs};
use algebra_mc::toy::gen_fields::*;
use algebra_mc::toycurve::{SwToy, TeToy};
use ark_ec::hashing::curve_maps::wb::WBConfig;
use ark_ec::scalar_mul::glv::GLVConfig;
use ark_ec::scalar_mul::wnaf::WnafContext;
use ark_ec::scalar_mul::{sw_double_and_add_affine, sw_double_and_add_projective, BatchMulPreprocessing, ScalarMul};
use ark_ec::short_weierstrass::{self as sw, SWCurveConfig};
use ark_ec::twisted_edwards::{self as te, TECurveConfig};
use ark_ec::{AffineRepr, CurveConfig, CurveGroup, PrimeGroup};
use ark_ff::{BitIteratorBE, Field, MontFp, PrimeField, Zero};
use num_bigint::{BigInt as SBig, BigUint};
use num_traits::{One, Signed};
use std::panic::{catch_unwind, AssertUnwindSafe};
use std::sync::OnceLock;

// =====================================================================================================
// small helpers
// =====================================================================================================

type Aff<G> = <G as CurveGroup>::Affine;
type Fr<G> = <G as PrimeGroup>::ScalarField;
type Paths<G> = Vec<(&'static str, Result<G, String>)>;

/// run one library call; a panic becomes `Err(message)` so that the other paths of the case still run
fn guard<T>(f: impl FnOnce() -> T) -> Result<T, String> {
    catch_unwind(AssertUnwindSafe(f)).map_err(|p| {
        let at = LAST_PANIC_LOC.with(|c| c.borrow().clone());
        let m = if let Some(s) = p.downcast_ref::<&str>() {
            s.to_string()
        } else if let Some(s) = p.downcast_ref::<String>() {
            s.clone()
        } else {
            "<non-string panic>".to_string()
        };
        format!("panic at {at}: {m}")
    })
}
macro_rules! path {
    ($out:expr, $site:expr, $e:expr) => {
        $out.push(($site, guard(|| $e)))
    };
}

fn bitlen(k: u128) -> usize {
    (128 - k.leading_zeros()) as usize
}

/// textbook width-w NAF (digit = k mods 2^w when k is odd), used for branch-class labels only
fn model_wnaf(k: u128, w: usize) -> Vec<i64> {
    let mut e = k as i128;
    let m = 1i128 << w;
    let mut out = Vec::new();
    while e != 0 {
        let d = if e & 1 == 1 {
            let t = e.rem_euclid(m);
            if t >= m / 2 {
                t - m
            } else {
                t
            }
        } else {
            0
        };
        e -= d;
        out.push(d as i64);
        e >>= 1;
    }
    // model sanity: sum d_i 2^i = k
    let mut acc = 0i128;
    for (i, d) in out.iter().enumerate() {
        acc += (*d as i128) << i;
    }
    assert!(acc == k as i128, "model_wnaf does not reconstruct k");
    out
}
fn wnaf_carries_out(k: u128, w: usize) -> bool {
    model_wnaf(k, w).len() > bitlen(k)
}

/// documented window rule of BatchMulPreprocessing (ln(n) ~ ceil(log2 n) * 69 / 100; 3 below 32 scalars)
fn model_batch_window(n: usize) -> usize {
    if n < 32 {
        3
    } else {
        let mut l = 0usize;
        while (1usize << l) < n {
            l += 1;
        }
        l * 69 / 100
    }
}

/// Table of multiples by REPEATED ADDITION with the oracle law: mult[p][j] = j*P for 0 <= j < ord(P).
struct RefMul {
    ord: Vec<u64>,
    mult: Vec<Vec<u32>>,
}
impl RefMul {
    fn build(g: &GroupTable<u64>) -> Self {
        let n = g.n();
        let mut ord = vec![0u64; n];
        let mut mult = vec![Vec::new(); n];
        for p in 0..n {
            let mut row = vec![g.id as u32];
            let mut acc = g.id;
            let mut ok = true;
            loop {
                acc = g.add[acc][p];
                if acc == usize::MAX {
                    ok = false;
                    break;
                }
                if acc == g.id {
                    break;
                }
                row.push(acc as u32);
                assert!(row.len() <= n, "model: point order exceeds the group size");
            }
            if ok {
                ord[p] = row.len() as u64;
                mult[p] = row;
            }
        }
        RefMul { ord, mult }
    }
    /// k*P for the true integer k
    fn mul(&self, p: usize, k: u128) -> usize {
        assert!(self.ord[p] != 0, "model: multiples of a point outside the domain of the oracle law");
        self.mult[p][(k % self.ord[p] as u128) as usize] as usize
    }
}

fn limbs_value(s: &[u64]) -> u128 {
    assert!(s.len() <= 2 || s[2..].iter().all(|x| *x == 0));
    let lo = s.first().copied().unwrap_or(0) as u128;
    let hi = s.get(1).copied().unwrap_or(0) as u128;
    lo | (hi << 64)
}

// =====================================================================================================
// the paths (generic over the group; shared by toy and shipped curves)
// =====================================================================================================
/// every entry point taking a `ScalarField` element
fn field_paths<G: CurveGroup>(a: Aff<G>, g: G, k: Fr<G>, out: &mut Paths<G>) {
    let kb = k.into_bigint();
    let mut km = k;
    path!(out, "affine_mul_scalar", a * k);
    path!(out, "affine_mul_scalar_ref", a * &k);
    path!(out, "projective_mul_scalar", g * k);
    path!(out, "projective_mul_scalar_ref", g * &k);
    path!(out, "projective_mul_scalar_mutref", g * &mut km);
    path!(out, "projective_mul_assign", {
        let mut t = g;
        t *= k;
        t
    });
    path!(out, "projective_mul_assign_ref", {
        let mut t = g;
        t *= &k;
        t
    });
    let mut km = k;
    path!(out, "projective_mul_assign_mutref", {
        let mut t = g;
        t *= &mut km;
        t
    });
    path!(out, "affine_mul_bigint", a.mul_bigint(kb));
    path!(out, "projective_mul_bigint", g.mul_bigint(kb));
    path!(out, "mul_bits_be", g.mul_bits_be(BitIteratorBE::new(kb)));
    path!(out, "mul_bits_be_stripped", g.mul_bits_be(BitIteratorBE::without_leading_zeros(kb)));
}

/// every entry point taking a raw limb slice
fn slice_paths<G: CurveGroup>(a: Aff<G>, g: G, s: &[u64], out: &mut Paths<G>) {
    path!(out, "affine_mul_bigint", a.mul_bigint(s));
    path!(out, "projective_mul_bigint", g.mul_bigint(s));
    path!(out, "mul_bits_be", g.mul_bits_be(BitIteratorBE::new(s)));
    path!(out, "mul_bits_be_stripped", g.mul_bits_be(BitIteratorBE::without_leading_zeros(s)));
    path!(out, "mul_bits_be_padded", g.mul_bits_be(std::iter::repeat(false).take(67).chain(BitIteratorBE::new(s))));
}

// =====================================================================================================
// toy curves
// =====================================================================================================
trait Toy: Sync {
    type G: CurveGroup;
    fn name(&self) -> &str;
    fn gt(&self) -> &GroupTable<u64>;
    fn r(&self) -> u64;
    fn in_sub(&self, i: usize) -> bool;
    /// the property speaks about every point of E(F_p) (false: prime-order subgroup only)
    fn whole_curve(&self) -> bool;
    fn aff(&self, i: usize) -> Aff<Self::G>;
    /// projective representatives: Z = 1, Z != 1, (for the SW identity: Z = 0 with junk X, Y)
    fn reps(&self, i: usize) -> Vec<Self::G>;
    fn idx_a(&self, a: &Aff<Self::G>) -> Option<usize>;
    fn idx_g(&self, g: &Self::G) -> Option<usize>;
    /// the curve-configuration level entry points
    fn cfg_paths(&self, a: &Aff<Self::G>, g: &Self::G, s: &[u64], out: &mut Paths<Self::G>);
}

impl<P: SWCurveConfig> Toy for SwToy<P>
where
    P::BaseField: PrimeField,
{
    type G = sw::Projective<P>;
    fn name(&self) -> &str {
        &self.name
    }
    fn gt(&self) -> &GroupTable<u64> {
        &self.g
    }
    fn r(&self) -> u64 {
        self.r
    }
    fn in_sub(&self, i: usize) -> bool {
        self.in_subgroup[i]
    }
    fn whole_curve(&self) -> bool {
        true
    }
    fn aff(&self, i: usize) -> sw::Affine<P> {
        SwToy::aff(self, i)
    }
    fn reps(&self, i: usize) -> Vec<Self::G> {
        if i == self.g.id {
            vec![self.proj(i, 1), self.proj_identity_junk(5 % self.p, 7 % self.p), self.proj_identity_junk(0, 0)]
        } else {
            vec![self.proj(i, 1), self.proj(i, 2), self.proj(i, self.p - 1)]
        }
    }
    fn idx_a(&self, a: &sw::Affine<P>) -> Option<usize> {
        self.idx_aff(a)
    }
    fn idx_g(&self, g: &Self::G) -> Option<usize> {
        self.idx_proj(g)
    }
    fn cfg_paths(&self, a: &sw::Affine<P>, g: &Self::G, s: &[u64], out: &mut Paths<Self::G>) {
        path!(out, "config_mul_affine", P::mul_affine(a, s));
        path!(out, "config_mul_projective", P::mul_projective(g, s));
        path!(out, "sw_double_and_add_affine", sw_double_and_add_affine(a, s));
        path!(out, "sw_double_and_add_projective", sw_double_and_add_projective(g, s));
    }
}

impl<P: TECurveConfig> Toy for TeToy<P>
where
    P::BaseField: PrimeField,
{
    type G = te::Projective<P>;
    fn name(&self) -> &str {
        &self.name
    }
    fn gt(&self) -> &GroupTable<u64> {
        &self.g
    }
    fn r(&self) -> u64 {
        self.r
    }
    fn in_sub(&self, i: usize) -> bool {
        self.in_subgroup[i]
    }
    fn whole_curve(&self) -> bool {
        self.complete
    }
    fn aff(&self, i: usize) -> te::Affine<P> {
        TeToy::aff(self, i)
    }
    fn reps(&self, i: usize) -> Vec<Self::G> {
        vec![self.proj(i, 1), self.proj(i, 2), self.proj(i, self.p - 1)]
    }
    fn idx_a(&self, a: &te::Affine<P>) -> Option<usize> {
        self.idx_aff(a)
    }
    fn idx_g(&self, g: &Self::G) -> Option<usize> {
        self.idx_proj(g)
    }
    fn cfg_paths(&self, a: &te::Affine<P>, g: &Self::G, s: &[u64], out: &mut Paths<Self::G>) {
        path!(out, "config_mul_affine", P::mul_affine(a, s));
        path!(out, "config_mul_projective", P::mul_projective(g, s));
    }
}

/// compare every collected path result with the reference index
fn judge<T: Toy>(t: &T, loc: &mut Loc, paths: Paths<T::G>, want: usize, what: &dyn Fn() -> String) {
    for (site, res) in paths {
        match res {
            Ok(g) => {
                let got = t.idx_g(&g);
                loc.check_at(site, got == Some(want), || {
                    format!("{}: {} got {:?} (= {:?}) want {:?}", t.name(), what(), got.map(|i| t.gt().pts[i]), g, t.gt().pts[want])
                });
            }
            Err(m) => loc.fail_at(site, format!("{}: {} {m}", t.name(), what())),
        }
    }
}

fn toy_curve<T: Toy>(ctx: &mut Ctx, t: &T) {
    // every window 2..=wmax (quick 10, thorough 12)
    let wmax: usize = ctx.t(10, 12);
    let name = t.name().to_string();
    let g = t.gt();
    let rm = RefMul::build(g);
    let r = t.r();
    let n_total = g.n() as u64;
    let rbits = bitlen(r as u128);
    // ---- self-validation of the reference table against the (independent) GroupTable double-and-add
    {
        let mut ok = true;
        for p in 0..g.n() {
            if rm.ord[p] == 0 {
                ok &= !t.whole_curve() && !t.in_sub(p);
                continue;
            }
            ok &= g.order(p) == Some(rm.ord[p]);
            for k in [0u64, 1, 2, 3, r - 1, r, r + 1, 2 * r - 1, n_total, u64::MAX, 1 << 63] {
                ok &= g.mul(k % rm.ord[p], p) == Some(rm.mul(p, k as u128));
            }
        }
        ctx.validate(ok, &format!("{name}: table of multiples by repeated addition agrees with GroupTable::mul / order"));
    }
    let scope: Vec<usize> = (0..g.n()).filter(|i| t.whole_curve() || t.in_sub(*i)).collect();
    let np = scope.len() as u64;
    let sc = |k: u64| <Fr<T::G> as From<u64>>::from(k);

    // ---- (1) all P x all k in [0, r) x the three limb forms [k], [k,0], [k,0,0]
    // wNAF tables per point: tabs[pi][w-2] = WnafContext::new(w).table(rep with Z != 1), w = 2..=wmax
    let tabs: Vec<OnceLock<Vec<Vec<T::G>>>> = (0..g.n()).map(|_| OnceLock::new()).collect();
    ctx.sweep(&format!("toy/{name}/all_points_x_all_scalars"), np * r * 3, |i, loc| {
        let [k, form, pi] = unrank(i, [r, 3, np]);
        let p = scope[pi as usize];
        let want = rm.mul(p, k as u128);
        let a = t.aff(p);
        let reps = t.reps(p);
        loc.class_if(k == 0, "k=0");
        loc.class_if(k == 1, "k=1");
        loc.class_if(k == r - 1, "k=r-1");
        loc.class_if(p == g.id, "P=O");
        loc.class_if(!t.in_sub(p), "P_outside_subgroup");
        loc.class_if(rm.ord[p] != r && rm.ord[p] != 1 && k >= rm.ord[p], "k>=ord(P)");
        if loc.sampling() {
            loc.sample(format!("{name}: P={:?} (order {}) k={k} limb form {form} want {:?}", g.pts[p], rm.ord[p], g.pts[want]));
        }
        let slice: Vec<u64> = match form {
            0 => vec![k],
            1 => vec![k, 0],
            _ => vec![k, 0, 0],
        };
        loc.class_if(form > 0, "leading_zero_limb");
        for (ri, rep) in reps.iter().enumerate() {
            let mut out: Paths<T::G> = Vec::new();
            slice_paths::<T::G>(a, *rep, &slice, &mut out);
            t.cfg_paths(&a, rep, &slice, &mut out);
            if form == 0 {
                field_paths::<T::G>(a, *rep, sc(k), &mut out);
            }
            judge(t, loc, out, want, &|| format!("P={:?} rep#{ri}={:?} scalar limbs {slice:?}", g.pts[p], rep));
        }
        if form != 0 {
            return;
        }
        // ---- windowed NAF, every window 2..=10
        let kf = sc(k);
        loc.class_if(wmax > rbits, "wnaf:window>bits(r)");
        loc.class_if((2..=wmax).any(|w| wnaf_carries_out(k as u128, w)), "wnaf:carry_out_of_top_window");
        let last = *reps.last().unwrap();
        let tab = tabs[p].get_or_init(|| (2..=wmax).map(|w| WnafContext::new(w).table(reps[1])).collect());
        if k == 0 {
            // the layout of the table ([P, 3P, 5P, ...], 2^(w-1) entries) is an implementation detail: observed as a
            // class, judged only through the results of `mul_with_table` below
            let odd_multiples = tab.iter().enumerate().all(|(wi, tb)| tb.len() == 1 << (wi + 1) && tb.iter().enumerate().all(|(j, e)| t.idx_g(e) == Some(rm.mul(p, 2 * j as u128 + 1))));
            loc.class_if(odd_multiples, "observed:wnaf_table_is_[P,3P,5P,..]_of_length_2^(w-1)");
        }
        for w in 2..=wmax {
            let cx = WnafContext::new(w);
            let need = 1usize << (w - 1);
            let mut out: Paths<T::G> = Vec::new();
            path!(out, "wnaf_mul", cx.mul(reps[0], &kf));
            path!(out, "wnaf_mul", cx.mul(last, &kf));
            let fresh = guard(|| cx.table(last));
            match &fresh {
                Ok(tb) => out.push(("wnaf_mul_with_table/fresh", guard(|| cx.mul_with_table(tb, &kf)).and_then(|o| o.ok_or("returned None for a table of exactly 2^(w-1) entries".to_string())))),
                Err(m) => out.push(("wnaf_table", Err(m.clone()))),
            }
            out.push(("wnaf_mul_with_table/reused", guard(|| cx.mul_with_table(&tab[w - 2], &kf)).and_then(|o| o.ok_or("returned None for a table of exactly 2^(w-1) entries".to_string()))));
            // longer than needed: this context's own table followed by three more entries
            let padded: Vec<T::G> = tab[w - 2].iter().copied().chain([reps[0], last, reps[1]]).collect();
            out.push(("wnaf_mul_with_table/longer", guard(|| cx.mul_with_table(&padded, &kf)).and_then(|o| o.ok_or("returned None for a table longer than needed".to_string()))));
            judge(t, loc, out, want, &|| format!("P={:?} k={k} window {w}", g.pts[p]));
            // the table of the NEXT window used with this context: right only if table(w+1) extends table(w) - a layout
            // fact, observed and not judged
            if w < wmax {
                let r2 = guard(|| cx.mul_with_table(&tab[w - 1], &kf));
                loc.class_if(matches!(&r2, Ok(Some(x)) if t.idx_g(x) == Some(want)), "observed:wnaf_table(w+1)_usable_by_window_w");
            }
            // shorter than needed: refused (None, as the rustdoc says) - or, all the property needs, still the right point
            loc.class("wnaf:short_table");
            for short in [need - 1, need / 2, 0] {
                let res = guard(|| cx.mul_with_table(&tab[w - 2][..short], &kf));
                let ok = match &res {
                    Ok(None) => true,
                    Ok(Some(x)) => t.idx_g(x) == Some(want),
                    Err(_) => false,
                };
                loc.class_if(matches!(res, Ok(None)), "observed:wnaf_short_table_gives_None");
                loc.check_at("wnaf_mul_with_table/short_table", ok, || {
                    format!("{name}: window {w}, table of {short} < {need} entries, P={:?} k={k}: expected None or k*P, got {:?}", g.pts[p], res.as_ref().map(|o| o.map(|x| t.idx_g(&x))))
                });
            }
        }
    });

    // ---- (2) raw integers at or above r / the group order, given as limb slices
    let raws: Vec<(Vec<u64>, &'static str)> = vec![
        (vec![r], "r"),
        (vec![r + 1], "r+1"),
        (vec![2 * r - 1], "2r-1"),
        (vec![n_total], "#E"),
        (vec![n_total + 1], "#E+1"),
        (vec![1 << 63], "2^63"),
        (vec![u64::MAX], "2^64-1"),
        (vec![0, 1], "2^64"),
        (vec![r, 0], "[r,0]"),
        (vec![u64::MAX, 0, 0], "[2^64-1,0,0]"),
        (vec![u64::MAX, u64::MAX], "2^128-1"),
        (vec![GENERIC64, GENERIC64 >> 7], "generic 2 limbs"),
        (vec![], "[]"),
        (vec![0], "[0]"),
        (vec![0, 0, 0], "[0,0,0]"),
    ];
    let nr = raws.len() as u64;
    ctx.sweep(&format!("toy/{name}/all_points_x_raw_integers"), np * nr, |i, loc| {
        let [ri, pi] = unrank(i, [nr, np]);
        let p = scope[pi as usize];
        let (slice, label) = &raws[ri as usize];
        let k = limbs_value(slice);
        let want = rm.mul(p, k);
        loc.class_if(k >= r as u128, "k>=r_raw");
        loc.class_if(slice.last() == Some(&0), "leading_zero_limb");
        loc.class_if(k == 0, "k=0");
        loc.class_if(p == g.id, "P=O");
        loc.class_if(!t.in_sub(p), "P_outside_subgroup");
        if loc.sampling() {
            loc.sample(format!("{name}: P={:?} raw scalar {label} = {slice:?} want {:?}", g.pts[p], g.pts[want]));
        }
        let a = t.aff(p);
        for (ri, rep) in t.reps(p).iter().enumerate() {
            let mut out: Paths<T::G> = Vec::new();
            slice_paths::<T::G>(a, *rep, slice, &mut out);
            t.cfg_paths(&a, rep, slice, &mut out);
            judge(t, loc, out, want, &|| format!("P={:?} rep#{ri}={:?} raw scalar {label} = {slice:?}", g.pts[p], rep));
        }
    });

    // ---- (3) fixed-base batch multiplication: every base x every table sizing
    let hints: Vec<usize> = vec![0, 1, 31, 32, 33, 1000, 1_000_000];
    let sizes: Vec<usize> = vec![rbits, rbits + 1, 64, 1, rbits - 1];
    let (nh, ns) = (hints.len() as u64, sizes.len() as u64);
    let all: Vec<Fr<T::G>> = (0..r).map(sc).collect();
    ctx.sweep(&format!("toy/{name}/batch_mul"), np * nh * ns, |i, loc| {
        let [hi, si, pi] = unrank(i, [nh, ns, np]);
        let p = scope[pi as usize];
        let (hint, size) = (hints[hi as usize], sizes[si as usize]);
        let reps = t.reps(p);
        let base = reps[1];
        // documented contract: max_scalar_size bounds the scalars that will be multiplied
        let kmax = if size >= rbits { r } else { r.min(1 << size) };
        let w = model_batch_window(hint);
        loc.class_if(size % w != 0, "batch:last_window_shorter");
        loc.class_if(size < rbits, "batch:size<bits(r)");
        loc.class_if(hint as u64 != kmax, "batch:hint≠len");
        loc.class_if(p == g.id, "P=O");
        loc.class_if(!t.in_sub(p), "P_outside_subgroup");
        if loc.sampling() {
            loc.sample(format!("{name}: base {:?} num_scalars hint {hint} scalar size {size} (window {w}), scalars 0..{kmax}", g.pts[p]));
        }
        let mut tables: Vec<(&'static str, Result<BatchMulPreprocessing<T::G>, String>)> = Vec::new();
        tables.push(("batch_with_num_scalars_and_scalar_size", guard(|| BatchMulPreprocessing::<T::G>::with_num_scalars_and_scalar_size(base, hint, size))));
        if size == rbits {
            tables.push(("batch_new", guard(|| BatchMulPreprocessing::<T::G>::new(reps[0], hint))));
        }
        let v = &all[..kmax as usize];
        let cmp = |loc: &mut Loc, site: &str, res: Result<Vec<Aff<T::G>>, String>, ks: &[u64]| match res {
            Ok(o) => {
                let mut bad = None;
                if o.len() != ks.len() {
                    bad = Some(format!("result length {} for {} scalars", o.len(), ks.len()));
                } else {
                    for (j, k) in ks.iter().enumerate() {
                        if t.idx_a(&o[j]) != Some(rm.mul(p, *k as u128)) {
                            bad = Some(format!("k={k}: got {:?} want {:?}", o[j], g.pts[rm.mul(p, *k as u128)]));
                            break;
                        }
                    }
                }
                loc.ops(ks.len() as u64);
                loc.check_at(site, bad.is_none(), || format!("{name}: base {:?} hint {hint} scalar size {size}: {}", g.pts[p], bad.clone().unwrap()));
            }
            Err(m) => loc.fail_at(site, format!("{name}: base {:?} hint {hint} scalar size {size} ({} scalars): {m}", g.pts[p], ks.len())),
        };
        let ks: Vec<u64> = (0..kmax).collect();
        for (site, tb) in tables {
            let tb = match tb {
                Ok(tb) => tb,
                Err(m) => {
                    loc.fail_at(site, format!("{name}: base {:?} hint {hint} scalar size {size}: {m}", g.pts[p]));
                    continue;
                }
            };
            // (classes read off the table actually built, next to the ones from the harness's model of the window rule)
            loc.class_if(tb.window > 0 && tb.max_scalar_size % tb.window != 0, "batch:built_table_last_window_shorter");
            loc.class_if(tb.window != w, "batch:window_differs_from_ln_rule");
            cmp(loc, site, guard(|| tb.batch_mul(v)), &ks);
            cmp(loc, "batch_mul_with_preprocessing", guard(|| <T::G as ScalarMul>::batch_mul_with_preprocessing(&tb, v)), &ks);
            cmp(loc, site, guard(|| tb.batch_mul(&[])), &[]);
            for k in 0..kmax {
                cmp(loc, site, guard(|| tb.batch_mul(&all[k as usize..k as usize + 1])), &[k]);
            }
        }
        if hi == 0 && si == 0 {
            // ScalarMul::batch_mul sizes the table from the slice length: lengths 0, 1, r
            cmp(loc, "scalarmul_batch_mul", guard(|| base.batch_mul(&all)), &(0..r).collect::<Vec<_>>());
            cmp(loc, "scalarmul_batch_mul", guard(|| reps[0].batch_mul(&[])), &[]);
            for k in 0..r {
                cmp(loc, "scalarmul_batch_mul", guard(|| base.batch_mul(&all[k as usize..k as usize + 1])), &[k]);
            }
        }
    });
}

/// `WnafContext::new` documents (rustdoc "# Panics") a panic unless 2 <= w < 64 - kept as an assertion for that reason;
/// tables shorter than 2^(w-1) entries: None (documented) or the right point
fn wnaf_window_contract(ctx: &mut Ctx) {
    let t = SwToy::<algebra_mc::toy::gen_curves::SwP13A0B2>::new("SwP13A0B2");
    let windows: Vec<usize> = vec![0, 1, 2, 3, 10, 11, 32, 62, 63, 64, 65, 128, usize::MAX];
    ctx.sweep("wnaf/new_window_contract", windows.len() as u64, |i, loc| {
        let w = windows[i as usize];
        let res = guard(|| WnafContext::new(w));
        let valid = (2..64).contains(&w);
        loc.class_if(!valid, "wnaf:invalid_window_panics");
        loc.check_at("wnaf_new", res.is_ok() == valid, || format!("WnafContext::new({w}): documented to panic unless 2 <= w < 64; panicked = {}", res.is_err()));
        if let Ok(cx) = res {
            loc.check_at("wnaf_new", cx.window_size == w, || format!("WnafContext::new({w}).window_size = {}", cx.window_size));
        }
    });
    // every valid window 11..=63 with a 512-entry table (too short): None (or still k*P) for every k; windows 2..=10 are covered per curve
    let r = t.r;
    let tab = WnafContext::new(10).table(t.proj(t.gen, 2));
    ctx.sweep("wnaf/short_table_large_windows", (63 - 10) * r, |i, loc| {
        let [k, wi] = unrank(i, [r, 53]);
        let w = 11 + wi as usize;
        loc.class("wnaf:short_table");
        loc.class("wnaf:window>bits(r)");
        let res = guard(|| WnafContext::new(w).mul_with_table(&tab, &t.scalar(k)));
        let want = t.g.mul(k, t.gen);
        let ok = match &res {
            Ok(None) => true,
            Ok(Some(x)) => want.is_some() && t.idx_proj(x) == want,
            Err(_) => false,
        };
        loc.class_if(matches!(res, Ok(None)), "observed:wnaf_short_table_gives_None");
        loc.check_at("wnaf_mul_with_table/short_table", ok, || format!("window {w}, table of 512 entries, k={k}: expected None or k*P, got {:?}", res.as_ref().map(|o| o.map(|x| t.idx_proj(&x)))));
    });
}

/// windows 11..=wmax with real tables on one small curve (the tables have 2^(w-1) entries)
fn wnaf_large_windows(ctx: &mut Ctx, wmax: usize) {
    let t = SwToy::<algebra_mc::toy::gen_curves::SwP13A0B4>::new("SwP13A0B4");
    let rm = RefMul::build(&t.g);
    let (n, r) = (t.n() as u64, t.r);
    let nw = (wmax - 10) as u64;
    ctx.bound("wnaf.large_windows", format!("SwP13A0B4 (21 points, r = 7): all points x all k x windows 11..={wmax}"));
    ctx.sweep("wnaf/large_windows", n * nw, |i, loc| {
        let [wi, p] = unrank(i, [nw, n]);
        let (w, p) = (11 + wi as usize, p as usize);
        loc.class("wnaf:window>bits(r)");
        let cx = WnafContext::new(w);
        let base = t.proj(p, 3);
        let tab = cx.table(base);
        for k in 0..r {
            let want = rm.mul(p, k as u128);
            let a = cx.mul_with_table(&tab, &t.scalar(k));
            loc.check_at("wnaf_mul_with_table/reused", a.map(|x| t.idx_proj(&x)) == Some(Some(want)), || format!("SwP13A0B4 P={:?} k={k} window {w}: got {:?} want {:?}", t.g.pts[p], a, t.g.pts[want]));
            if p == t.gen {
                let b = cx.mul(base, &t.scalar(k));
                loc.check_at("wnaf_mul", t.idx_proj(&b) == Some(want), || format!("SwP13A0B4 P={:?} k={k} window {w}: got {:?} want {:?}", t.g.pts[p], b, t.g.pts[want]));
            }
        }
    });
}

// =====================================================================================================
// toy GLV curves: y^2 = x^3 + b over p = 1 (mod 3), prime order r = 1 (mod 3)
// =====================================================================================================
#[derive(ark_ff::MontConfig)]
#[modulus = "967"]
#[generator = "5"]
pub struct D967Cfg;
pub type D967 = ark_ff::Fp<ark_ff::MontBackend<D967Cfg, 1>, 1>;

macro_rules! glv_toy {
    ($name:ident, $fq:ty, $fr:ty, $b:literal, $gx:literal, $gy:literal, $beta:literal, $lambda:literal,
     [($s11:expr, $n11:expr), ($s12:expr, $n12:expr), ($s21:expr, $n21:expr), ($s22:expr, $n22:expr)]) => {
        #[derive(Clone, Copy, Debug, Default, PartialEq, Eq)]
        pub struct $name;
        impl CurveConfig for $name {
            type BaseField = $fq;
            type ScalarField = $fr;
            const COFACTOR: &'static [u64] = &[1];
            const COFACTOR_INV: $fr = MontFp!("1");
        }
        impl SWCurveConfig for $name {
            const COEFF_A: $fq = MontFp!("0");
            const COEFF_B: $fq = MontFp!($b);
            const GENERATOR: sw::Affine<Self> = sw::Affine::new_unchecked(MontFp!($gx), MontFp!($gy));
        }
        impl GLVConfig for $name {
            const ENDO_COEFFS: &'static [$fq] = &[MontFp!($beta)];
            const LAMBDA: $fr = MontFp!($lambda);
            const SCALAR_DECOMP_COEFFS: [(bool, ark_ff::BigInt<1>); 4] = [
                ($s11, ark_ff::BigInt::new([$n11])),
                ($s12, ark_ff::BigInt::new([$n12])),
                ($s21, ark_ff::BigInt::new([$n21])),
                ($s22, ark_ff::BigInt::new([$n22])),
            ];
            fn endomorphism(p: &sw::Projective<Self>) -> sw::Projective<Self> {
                let mut res = *p;
                res.x *= Self::ENDO_COEFFS[0];
                res
            }
            fn endomorphism_affine(p: &sw::Affine<Self>) -> sw::Affine<Self> {
                let mut res = *p;
                res.x *= Self::ENDO_COEFFS[0];
                res
            }
        }
    };
}
// parameters computed offline (cube roots of unity, eigenvalue matching the endomorphism, Gauss-reduced
// lattice of {(a, b): a + b*lambda = 0 mod r}); EVERYTHING is re-validated by brute force in `glv_toy_curve`.
// Two (beta, lambda) pairs and two bases per curve: the sign pattern of the halves depends on the basis.
glv_toy!(GlvP103a, D103, D97, "5", "2", "42", "46", "61", [(true, 3), (false, 8), (true, 11), (true, 3)]);
glv_toy!(GlvP103b, D103, D97, "5", "2", "42", "56", "35", [(true, 3), (true, 11), (false, 8), (true, 3)]);
glv_toy!(GlvP103c, D103, D97, "5", "2", "42", "56", "35", [(false, 3), (false, 11), (true, 8), (false, 3)]);
glv_toy!(GlvP211a, D211, D199, "2", "4", "53", "14", "106", [(true, 13), (false, 2), (true, 2), (true, 15)]);
glv_toy!(GlvP211b, D211, D199, "2", "4", "53", "196", "92", [(true, 15), (true, 2), (false, 2), (true, 13)]);
glv_toy!(GlvP211c, D211, D199, "2", "4", "53", "14", "106", [(false, 2), (false, 15), (true, 13), (false, 2)]);
glv_toy!(GlvP1009a, D1009, D967, "11", "1", "298", "374", "824", [(true, 7), (false, 27), (true, 34), (true, 7)]);
glv_toy!(GlvP1009b, D1009, D967, "11", "1", "298", "634", "142", [(true, 7), (true, 34), (false, 27), (true, 7)]);
// a valid basis (row 1 of GlvP1009a replaced by row 1 + row 2, determinant r, squared norms <= 4r) that is less
// short: halves reach 6 bits although r has 10 bits, i.e. they exceed ceil(bits(r) / 2) bits
glv_toy!(GlvP1009c, D1009, D967, "11", "1", "298", "374", "824", [(true, 41), (false, 20), (true, 34), (true, 7)]);

/// Babai round-off with exact nearest-integer rounding (reference decomposition, used for class labels)
fn model_decomp(k: i128, n: [i128; 4], r: i128) -> (i128, i128) {
    let [n11, n12, n21, n22] = n;
    let round = |x: i128| (2 * x + r).div_euclid(2 * r);
    let (b1, b2) = (round(k * n22), round(-k * n12));
    (k - (b1 * n11 + b2 * n21), -(b1 * n12 + b2 * n22))
}

fn glv_toy_curve<P: GLVConfig>(ctx: &mut Ctx, name: &str, base_name: Option<&str>)
where
    P::BaseField: PrimeField,
{
    let t = SwToy::<P>::new(base_name.unwrap_or(name));
    let mut t = t;
    if base_name.is_some() {
        // same curve constants as the generated toy curve of that name: full table validation
        t.validate(ctx);
    }
    t.name = name.to_string();
    let (p, r) = (t.p, t.r);
    let f = t.f;
    let g = &t.g;
    let rm = RefMul::build(g);
    // ---- brute-force validation of the curve and of every GLV constant
    ctx.validate(is_prime_small(p) && is_prime_small(r) && p % 3 == 1 && r % 3 == 1, &format!("{name}: p, r prime and = 1 mod 3"));
    ctx.validate(g.n() as u64 == r && t.h == 1 && t.m.a == 0, &format!("{name}: y^2 = x^3 + b has prime order r = {} (counted {})", r, g.n()));
    ctx.validate(g.order(t.gen) == Some(r) && rm.ord[t.gen] == r, &format!("{name}: generator has order r"));
    ctx.validate(P::ENDO_COEFFS.len() == 1, &format!("{name}: one endomorphism coefficient"));
    let beta = prime_to_u64(&P::ENDO_COEFFS[0]);
    let lambda = prime_to_u64(&P::LAMBDA);
    ctx.validate(beta != 1 && f.mul(beta, f.mul(beta, beta)) == 1, &format!("{name}: beta^3 = 1, beta != 1"));
    ctx.validate((lambda as u128 * lambda as u128 + lambda as u128 + 1) % r as u128 == 0, &format!("{name}: lambda^2 + lambda + 1 = 0 mod r"));
    let mut endo_ok = true;
    for i in 0..g.n() {
        let want = rm.mul(i, lambda as u128);
        let img = match g.pts[i] {
            Pt::O => Pt::O,
            Pt::A(x, y) => Pt::A(f.mul(beta, x), y),
        };
        endo_ok &= g.index.get(&img) == Some(&want);
        // the wrapper's own endomorphism functions (harness code) realise the same map
        endo_ok &= t.idx_aff(&P::endomorphism_affine(&t.aff(i))) == Some(want);
        for rep in Toy::reps(&t, i) {
            endo_ok &= t.idx_proj(&P::endomorphism(&rep)) == Some(want);
        }
    }
    ctx.validate(endo_ok, &format!("{name}: (x, y) -> (beta x, y) equals multiplication by lambda on every point"));
    let n: [i128; 4] = P::SCALAR_DECOMP_COEFFS.map(|(s, v)| {
        let v = from_limbs(v.as_ref()).to_u64_digits().first().copied().unwrap_or(0) as i128;
        if s {
            v
        } else {
            -v
        }
    });
    let (ri, li) = (r as i128, lambda as i128);
    ctx.validate((n[0] + n[1] * li).rem_euclid(ri) == 0 && (n[2] + n[3] * li).rem_euclid(ri) == 0, &format!("{name}: lattice rows (n_i1, n_i2) satisfy n_i1 + n_i2 lambda = 0 mod r"));
    ctx.validate(n[0] * n[3] - n[1] * n[2] == ri, &format!("{name}: lattice determinant = r (documented requirement), got {}", n[0] * n[3] - n[1] * n[2]));
    let norm = |a: i128, b: i128| a * a + b * b;
    ctx.validate(norm(n[0], n[1]) <= 4 * ri && norm(n[2], n[3]) <= 4 * ri, &format!("{name}: lattice basis is reduced (squared norms <= 4r)"));

    let sc = |k: u64| P::ScalarField::from(k);
    // ---- decomposition: all k
    ctx.sweep(&format!("toyglv/{name}/scalar_decomposition"), r, |k, loc| {
        let ((s1, k1), (s2, k2)) = P::scalar_decomposition(sc(k));
        let (k1, k2) = (prime_to_u64(&k1) as i128, prime_to_u64(&k2) as i128);
        let (v1, v2) = (if s1 { k1 } else { -k1 }, if s2 { k2 } else { -k2 });
        let (m1, m2) = model_decomp(k as i128, n, ri);
        assert!((m1 + li * m2 - k as i128).rem_euclid(ri) == 0, "model decomposition broken");
        loc.class_if(m1 < 0, "glv:k1_negative");
        loc.class_if(m2 < 0, "glv:k2_negative");
        loc.class_if(v1 < 0, "glv:impl_k1_negative");
        loc.class_if(v2 < 0, "glv:impl_k2_negative");
        loc.class_if((v1, v2) != (m1, m2), "glv:impl_halves_differ_from_nearest_rounding");
        let half_bits = (128 - (r as u128).leading_zeros() + 1) / 2;
        loc.class_if(m1.unsigned_abs() >> half_bits != 0 || m2.unsigned_abs() >> half_bits != 0, "glv:half_longer_than_half_the_bits_of_r");
        loc.class_if(k == 0, "k=0");
        loc.class_if(k == 1, "k=1");
        loc.class_if(k == r - 1, "k=r-1");
        if loc.sampling() {
            loc.sample(format!("{name}: k={k} -> k1={v1} k2={v2} (lambda={lambda}, r={r}); nearest-rounding model ({m1}, {m2})"));
        }
        loc.check_at("scalar_decomposition", (v1 + li * v2 - k as i128).rem_euclid(ri) == 0, || {
            format!("{name}: k={k}: decomposition (sign {s1}, {k1}), (sign {s2}, {k2}): k1 + lambda k2 = {} != k mod {r} (lambda = {lambda})", (v1 + li * v2).rem_euclid(ri))
        });
    });
    // ---- glv_mul: all P x all k
    let np = g.n() as u64;
    ctx.sweep(&format!("toyglv/{name}/glv_mul"), np * r, |i, loc| {
        let [k, pi] = unrank(i, [r, np]);
        let pi = pi as usize;
        let want = rm.mul(pi, k as u128);
        let (m1, m2) = model_decomp(k as i128, n, ri);
        loc.class_if(m1 < 0, "glv:k1_negative");
        loc.class_if(m2 < 0, "glv:k2_negative");
        loc.class_if(pi == g.id, "P=O");
        loc.class_if(k == 0, "k=0");
        loc.class_if(k == 1, "k=1");
        loc.class_if(k == r - 1, "k=r-1");
        if loc.sampling() {
            loc.sample(format!("{name}: glv_mul P={:?} k={k} want {:?}", g.pts[pi], g.pts[want]));
        }
        let a = t.aff(pi);
        let res = guard(|| P::glv_mul_affine(a, sc(k)));
        loc.check_at("glv_mul_affine", res.as_ref().map(|x| t.idx_aff(x)) == Ok(Some(want)), || format!("{name}: P={:?} k={k}: got {:?} want {:?}", g.pts[pi], res, g.pts[want]));
        for rep in Toy::reps(&t, pi) {
            let res = guard(|| P::glv_mul_projective(rep, sc(k)));
            loc.check_at("glv_mul_projective", res.as_ref().map(|x| t.idx_proj(x)) == Ok(Some(want)), || format!("{name}: P={:?} (as {:?}) k={k}: got {:?} want {:?}", g.pts[pi], rep, res, g.pts[want]));
        }
    });
}

// =====================================================================================================
// shipped curves (alphabet products)
// =====================================================================================================
/// plain MSB-first double-and-add on top of the group's `+` and `double` (the reference for shipped curves)
fn dbl_add<G: CurveGroup>(p: G, k: &BigUint) -> G {
    let mut res = G::zero();
    for i in (0..k.bits()).rev() {
        res = res.double();
        if k.bit(i) {
            res = res + p;
        }
    }
    res
}

#[derive(Clone)]
struct Scalar {
    /// the integer
    v: BigUint,
    /// limb slice handed to the slice-based entry points
    limbs: Vec<u64>,
    /// also goes through the ScalarField-typed entry points (v < r, exactly N limbs)
    field: bool,
    label: String,
}

struct ShippedOpts {
    /// the curve crate overrides SWCurveConfig::mul_projective (GLV on k mod r)
    ovr: bool,
    /// extra scalars (lambda, lattice entries, ...)
    extra: Vec<(String, BigUint)>,
    /// GLV curves: for k < r, is the split of k the trivial one (k, 0) under EVERY rounding rule
    /// (2 k |n22| < r and 2 k |n12| < r, so both Babai coefficients round to 0)?  Computed from the constants only.
    glv_split_trivial: Option<Box<dyn Fn(&BigUint) -> bool + Send + Sync>>,
}

fn scalar_alphabet<F: PrimeField>(extra: &[(String, BigUint)]) -> Vec<Scalar> {
    let r: BigUint = F::MODULUS.into();
    let n = F::MODULUS.as_ref().len();
    let one = BigUint::one();
    let p2 = |k: usize| BigUint::one() << k;
    let mut out: Vec<Scalar> = Vec::new();
    let mut fieldv: Vec<(String, BigUint)> = vec![
        ("0".into(), BigUint::zero()),
        ("1".into(), one.clone()),
        ("2".into(), BigUint::from(2u32)),
        ("3".into(), BigUint::from(3u32)),
        ("r-1".into(), &r - 1u32),
        ("r-2".into(), &r - 2u32),
        ("(r-1)/2".into(), (&r - 1u32) >> 1),
        ("floor(r/2)+1".into(), (&r >> 1) + 1u32),
        ("floor(r/2)-1".into(), (&r >> 1) - 1u32),
        ("2^64-1".into(), p2(64) - 1u32),
        ("2^64".into(), p2(64)),
        ("2^127".into(), p2(127)),
        ("2^128-1".into(), p2(128) - 1u32),
        ("2^128+1".into(), p2(128) + 1u32),
        ("2^(bits(r)-1)".into(), p2(r.bits() as usize - 1)),
        ("2^(bits(r)-1)-1".into(), p2(r.bits() as usize - 1) - 1u32),
        ("generic".into(), from_limbs(&(0..n).map(|i| GENERIC64.rotate_left(7 * i as u32)).collect::<Vec<_>>()) % &r),
        ("0x5555..".into(), from_limbs(&vec![0x5555_5555_5555_5555u64; n]) % &r),
    ];
    fieldv.extend(extra.iter().cloned());
    let mut seen = std::collections::BTreeSet::new();
    for (label, v) in fieldv {
        let v = v % &r;
        if seen.insert(v.clone()) {
            out.push(Scalar { limbs: to_limbs(&v, n), v, field: true, label });
        }
    }
    // raw integers as limb slices
    let mut raw = |label: &str, limbs: Vec<u64>| {
        out.push(Scalar { v: from_limbs(&limbs), limbs, field: false, label: label.to_string() });
    };
    raw("[]", vec![]);
    raw("[0]", vec![0]);
    raw("[5] (one limb)", vec![5]);
    raw("r (N limbs)", to_limbs(&r, n));
    raw("r+1 (N limbs)", to_limbs(&(&r + 1u32), n));
    raw("2^(64N)-1 (N limbs)", vec![u64::MAX; n]);
    let two_r: BigUint = (&r << 1usize) - 1u32;
    let l2 = two_r.to_u64_digits().len();
    raw("2r-1", to_limbs(&two_r, l2));
    // more limbs than the scalar field: leading zero limbs and genuinely longer integers
    raw("[0; N+1]", vec![0; n + 1]);
    let mut v = vec![0u64; n + 1];
    v[0] = 7;
    raw("[7,0,...,0] (N+1 limbs)", v);
    let mut v = to_limbs(&(&r - 1u32), n);
    v.push(0);
    raw("[r-1, 0] (N+1 limbs)", v);
    let mut v = to_limbs(&(&r + 2u32), n);
    v.extend([0, 0]);
    raw("[r+2, 0, 0] (N+2 limbs)", v);
    let mut v = vec![0u64; n + 1];
    v[n] = 1;
    raw("2^(64N) (N+1 limbs)", v);
    let mut v = vec![u64::MAX; n + 1];
    v[n] = 3;
    raw("4*2^(64N)-1 (N+1 limbs)", v);
    out
}

struct ShPoint<G: CurveGroup> {
    label: String,
    a: Aff<G>,
    g: G,
    outside: bool,
}

fn shipped_points<G: CurveGroup>(outside: Option<Aff<G>>) -> Vec<ShPoint<G>> {
    let gen = <G as PrimeGroup>::generator();
    let ga = gen.into_affine();
    let two = gen.double();
    let mut v = vec![
        ShPoint { label: "O".into(), a: Aff::<G>::zero(), g: G::zero(), outside: false },
        ShPoint { label: "G".into(), a: ga, g: gen, outside: false },
        ShPoint { label: "-G".into(), a: -ga, g: -gen, outside: false },
        ShPoint { label: "2G (Z != 1)".into(), a: two.into_affine(), g: two, outside: false },
    ];
    if let Some(q) = outside {
        // projective form with Z != 1: (Q + G) - G by the generic group law
        let qg: G = q.into();
        v.push(ShPoint { label: "Q outside the subgroup".into(), a: q, g: (qg + gen) - gen, outside: true });
    }
    v
}

fn shipped_curve<G: CurveGroup>(ctx: &mut Ctx, name: &str, outside: Option<(String, Aff<G>)>, opts: ShippedOpts) {
    let r: BigUint = <Fr<G> as PrimeField>::MODULUS.into();
    let nl = <Fr<G> as PrimeField>::MODULUS.as_ref().len();
    // the outside point really is outside (oracle double-and-add), the generator really has order r
    let gen = <G as PrimeGroup>::generator();
    ctx.validate(dbl_add(gen, &r).is_zero() && !gen.is_zero(), &format!("{name}: r*G = O by plain double-and-add"));
    let mut outside_label = String::new();
    let outside = outside.map(|(l, q)| {
        let qg: G = q.into();
        ctx.validate(!dbl_add(qg, &r).is_zero(), &format!("{name}: probe point {l} is outside the prime-order subgroup"));
        outside_label = l;
        q
    });
    let pts = shipped_points::<G>(outside);
    let scalars = scalar_alphabet::<Fr<G>>(&opts.extra);
    let wmax: usize = ctx.t(6, 8);
    let (np, nsc) = (pts.len() as u64, scalars.len() as u64);
    let ovr = opts.ovr;
    let light = std::mem::size_of::<G::BaseField>() <= 96 && nl <= 4;
    let full_tables = light || ctx.thorough();
    let same = |a: &G, b: &G| a.into_affine() == b.into_affine();
    // Known finding K2 (the G1 override runs GLV on k mod r; the endomorphism is not multiplication by lambda outside
    // the subgroup) can only concern scalars that reach the GLV path (at most N significant limbs) and are either
    // reduced (k >= r) or split non-trivially.  Every other scalar on the outside point is filed under a site of its
    // own (`.../outside_subgroup_small_k`, message without "P = Q") so that a failure there is reported as new.
    let split_trivial = opts.glv_split_trivial;
    let r_for_sites = r.clone();
    let k2_side = move |v: &BigUint, limbs: &[u64]| -> bool {
        let significant = limbs.iter().rposition(|l| *l != 0).map_or(0, |i| i + 1);
        significant <= nl && (*v >= r_for_sites || !split_trivial.as_ref().map_or(false, |f| f(v)))
    };
    // preconditions that are facts of C03 / C01, not of C04: counted here, turned into a self-validation failure below
    let (bad_oracle, bad_conv) = (std::sync::atomic::AtomicU64::new(0), std::sync::atomic::AtomicU64::new(0));
    ctx.sweep(&format!("shipped/{name}"), np * nsc, |i, loc| {
        let [si, pi] = unrank(i, [nsc, np]);
        let (pt, s) = (&pts[pi as usize], &scalars[si as usize]);
        let want = dbl_add(pt.g, &s.v);
        let want_a = dbl_add::<G>(pt.a.into(), &s.v);
        if !same(&want, &want_a) {
            // the oracle (double-and-add on the group's + / double, property C03) is not well defined on this input
            bad_oracle.fetch_add(1, std::sync::atomic::Ordering::Relaxed);
            loc.class("precondition_failed:oracle_differs_between_affine_and_projective_form(C03)");
            return;
        }
        let long = s.limbs.len() > nl;
        loc.class_if(s.v.is_zero(), "k=0");
        loc.class_if(s.v.is_one(), "k=1");
        loc.class_if(s.v == &r - 1u32, "k=r-1");
        loc.class_if(!s.field && s.v >= r, "k>=r_raw");
        loc.class_if(s.limbs.last() == Some(&0) && !s.limbs.is_empty(), "leading_zero_limb");
        loc.class_if(long, "more_limbs_than_scalar_field");
        loc.class_if(pt.g.is_zero(), "P=O");
        loc.class_if(pt.outside, "P_outside_subgroup");
        if loc.sampling() {
            loc.sample(format!("{name}: P = {} k = {} = {}", pt.label, s.label, s.v));
        }
        let mut out: Paths<G> = Vec::new();
        slice_paths::<G>(pt.a, pt.g, &s.limbs, &mut out);
        if s.field {
            let k = Fr::<G>::from(s.v.clone());
            if from_limbs(k.into_bigint().as_ref()) != s.v {
                // ScalarField::from(BigUint) / into_bigint do not round-trip (property C01): no verdict from this case
                bad_conv.fetch_add(1, std::sync::atomic::Ordering::Relaxed);
                loc.class("precondition_failed:scalar_conversion_round_trip(C01)");
                return;
            }
            field_paths::<G>(pt.a, pt.g, k, &mut out);
            loc.class_if((2..=wmax).any(|w| {
                // carry out of the top window, on the true (multi-limb) integer
                let top = s.v.bits();
                top > 0 && top < 120 && wnaf_carries_out(s.v.to_u64_digits().iter().rev().fold(0u128, |a, d| (a << 64) | *d as u128), w)
            }), "wnaf:carry_out_of_top_window");
            for w in 2..=wmax {
                let cx = WnafContext::new(w);
                path!(out, "wnaf_mul", cx.mul(pt.g, &k));
                // precomputed tables: exact size, longer than needed (own table + 2 entries), one entry short - for EVERY
                // window on 2G (Z != 1) and (quick: 4-limb scalar fields over base fields <= 96 bytes; thorough: all) on the point outside the
                // subgroup, for window 4 on the other points
                if !(w == 4 || (pt.outside && full_tables) || pt.label.starts_with("2G")) {
                    continue;
                }
                loc.class_if(w != 4, "wnaf:precomputed_table_window≠4_real_curve");
                let tb = guard(|| cx.table(pt.g));
                match &tb {
                    Ok(tb) => {
                        out.push(("wnaf_mul_with_table/fresh", guard(|| cx.mul_with_table(tb, &k)).and_then(|o| o.ok_or("returned None".to_string()))));
                        let longer: Vec<G> = tb.iter().copied().chain([pt.g, pt.g.double()]).collect();
                        out.push(("wnaf_mul_with_table/longer", guard(|| cx.mul_with_table(&longer, &k)).and_then(|o| o.ok_or("returned None for a table longer than needed".to_string()))));
                        let res = guard(|| cx.mul_with_table(&tb[..tb.len() - 1], &k));
                        loc.class("wnaf:short_table");
                        loc.class_if(matches!(res, Ok(None)), "observed:wnaf_short_table_gives_None");
                        let ok = match &res {
                            Ok(None) => true,
                            Ok(Some(x)) => same(x, &want),
                            Err(_) => false,
                        };
                        loc.check_at("wnaf_mul_with_table/short_table", ok, || format!("{name}: window {w} with a table one entry short, P = {} k = {}: expected None or k*P", pt.label, s.label));
                    }
                    Err(m) => out.push(("wnaf_table", Err(m.clone()))),
                }
            }
        }
        for (site, res) in out {
            let proj_entry = site.starts_with("projective_");
            let small_k = ovr && pt.outside && proj_entry && !k2_side(&s.v, &s.limbs);
            let site: &str = if small_k {
                "g1_mul_projective_override/outside_subgroup_small_k"
            } else if ovr && pt.outside && proj_entry {
                "g1_mul_projective_override/outside_subgroup"
            } else if ovr && long && site == "projective_mul_bigint" {
                "g1_mul_projective_override/long_scalar"
            } else if long && site == "projective_mul_bigint" {
                "projective_mul_bigint/long_scalar"
            } else if pt.outside && proj_entry {
                "projective_entry_points/outside_subgroup"
            } else {
                site
            };
            loc.class_if(small_k, "P_outside_subgroup:override_with_trivial_glv_split");
            // (the known-finding entries match on "P = Q": the small-k site words the point differently on purpose)
            let pword = if small_k { "point" } else { "P =" };
            let ctxt = || format!("{name}: {pword} {}{} k = {} (limbs {:x?}) via {site}", pt.label, if pt.outside { format!(" [{outside_label}]") } else { String::new() }, s.label, s.limbs);
            match res {
                Ok(g) => {
                    loc.check_at(site, same(&g, &want), || format!("{}: got {} want {}", ctxt(), g.into_affine(), want.into_affine()));
                }
                Err(m) => loc.fail_at(site, format!("{}: {m}", ctxt())),
            }
        }
    });
    ctx.validate(bad_oracle.load(std::sync::atomic::Ordering::Relaxed) == 0, &format!("{name}: the reference double-and-add gives the same point from the affine and the projective form of every alphabet point (a C03 fact; C04 has no oracle otherwise)"));
    ctx.validate(bad_conv.load(std::sync::atomic::Ordering::Relaxed) == 0, &format!("{name}: ScalarField::from(BigUint).into_bigint() round-trips on the scalar alphabet (a C01 fact)"));
    // every bit position: k = 2^j - 1 (runs of ones), 2^j, 2^j + 1 for every j <= bits(r), on 2G (Z != 1) and on the
    // point outside the subgroup (gives the smallest failing scalar there). quick: 4-limb scalar fields over
    // base fields of at most 96 bytes; thorough: every curve.
    if ctx.thorough() || light {
        let nb = r.bits() + 1;
        let bp: Vec<&ShPoint<G>> = pts.iter().filter(|p| p.outside || p.label.starts_with("2G")).collect();
        let nbp = bp.len() as u64;
        ctx.sweep(&format!("shipped/{name}/bit_positions"), 3 * nb * nbp, |i, loc| {
            let [e, j, pi] = unrank(i, [3, nb, nbp]);
            let pt = bp[pi as usize];
            let kl = format!("2^{j}{}", ["-1", "", "+1"][e as usize]);
            let v = (BigUint::one() << j as usize) + e - 1u32;
            if v >= r {
                return;
            }
            loc.class_if(pt.outside, "P_outside_subgroup");
            loc.class_if(e == 0 && j >= 64, "k=long_run_of_ones");
            loc.class_if(v.is_zero(), "k=0");
            loc.class_if(v.is_one(), "k=1");
            let want = dbl_add(pt.g, &v);
            let limbs = to_limbs(&v, nl);
            let k = Fr::<G>::from(v.clone());
            let mut out: Paths<G> = Vec::new();
            path!(out, "projective_mul_bigint", pt.g.mul_bigint(&limbs));
            path!(out, "affine_mul_bigint", pt.a.mul_bigint(&limbs));
            path!(out, "wnaf_mul", WnafContext::new(3).mul(pt.g, &k));
            path!(out, "wnaf_mul", WnafContext::new(5).mul(pt.g, &k));
            if loc.sampling() {
                loc.sample(format!("{name}: P = {} k = {kl}", pt.label));
            }
            let small_k = ovr && pt.outside && !k2_side(&v, &limbs);
            loc.class_if(small_k, "P_outside_subgroup:override_with_trivial_glv_split");
            for (site, res) in out {
                let site = match (site, pt.outside, ovr) {
                    ("projective_mul_bigint", true, true) if small_k => "g1_mul_projective_override/outside_subgroup_small_k",
                    ("projective_mul_bigint", true, true) => "g1_mul_projective_override/outside_subgroup",
                    ("projective_mul_bigint", true, false) => "projective_entry_points/outside_subgroup",
                    _ => site,
                };
                let lbl = if pt.outside { format!("Q = {outside_label}") } else { pt.label.clone() };
                let pword = if small_k { "point" } else { "P =" };
                match res {
                    Ok(g) => {
                        loc.check_at(site, same(&g, &want), || format!("{name}: {pword} {lbl} (projective, Z != 1), k = {kl} via {site}: got {} but k*P = {} (affine entry point: {})", g.into_affine(), want.into_affine(), pt.a.mul_bigint(&limbs).into_affine()));
                    }
                    Err(m) => loc.fail_at(site, format!("{name}: {pword} {lbl} k = {kl} via {site}: {m}")),
                }
            }
        });
    }
}

/// Among the first curve points (x resp. y = 0, 1, 2, ...) that are outside the prime-order subgroup, the one
/// whose cofactor component r*Q has the largest order (orders above 64 count as 65; first among equals):
/// avoids probing only with 2- or 3-torsion points where the cofactor allows more.
fn pick_outside<G: CurveGroup>(cands: impl Iterator<Item = (String, Aff<G>)>) -> Option<(String, Aff<G>)> {
    let r: BigUint = <Fr<G> as PrimeField>::MODULUS.into();
    let mut best: Option<(usize, String, Aff<G>)> = None;
    for (label, q) in cands {
        let t = dbl_add::<G>(q.into(), &r);
        if t.is_zero() {
            continue;
        }
        let mut acc = t;
        let mut ord = 1usize;
        while !acc.is_zero() && ord <= 64 {
            acc = acc + t;
            ord += 1;
        }
        if best.as_ref().map_or(true, |b| ord > b.0) {
            best = Some((ord, format!("{label} (cofactor component of order {})", if ord > 64 { ">64".to_string() } else { ord.to_string() }), q));
        }
        if ord > 64 {
            break;
        }
    }
    best.map(|(_, l, q)| (l, q))
}
fn sw_outside<P: SWCurveConfig>() -> Option<(String, sw::Affine<P>)> {
    if from_limbs(P::COFACTOR) == BigUint::one() {
        return None;
    }
    pick_outside::<sw::Projective<P>>((0u64..24).filter_map(|x| sw::Affine::<P>::get_point_from_x_unchecked(P::BaseField::from(x), false).map(|q| (format!("first curve point with x = {x}"), q))))
}
/// same for complete twisted Edwards curves (a square, d non-square): y = 2, 3, ...
fn te_outside<P: TECurveConfig>() -> Option<(String, te::Affine<P>)> {
    use ark_ff::LegendreSymbol::*;
    let complete = matches!(P::COEFF_A.legendre(), QuadraticResidue) && matches!(P::COEFF_D.legendre(), QuadraticNonResidue);
    if !complete {
        return None;
    }
    pick_outside::<te::Projective<P>>((2u64..26).filter_map(|y| te::Affine::<P>::get_point_from_y_unchecked(P::BaseField::from(y), false).map(|q| (format!("first curve point with y = {y}"), q))))
}

/// alphabet floor: a curve with cofactor > 1 (TE: and a complete law) must contribute a point outside the prime-order
/// subgroup; the number of curves that do is a metric, a curve that silently does not is a machinery error
fn outside_floor<A>(ctx: &mut Ctx, name: &str, cofactor: &[u64], in_scope: bool, q: &Option<(String, A)>) {
    let h_gt_1 = from_limbs(cofactor) != BigUint::one();
    ctx.add_class("shipped:curves_with_point_outside_subgroup", q.is_some() as u64);
    if h_gt_1 && in_scope {
        ctx.add_class("shipped:curves_with_cofactor>1_in_scope", 1);
        ctx.validate(q.is_some(), &format!("{name}: cofactor > 1 but no point outside the prime-order subgroup was found among the first curve points"));
    }
}
fn te_complete<P: TECurveConfig>() -> bool {
    use ark_ff::LegendreSymbol::*;
    matches!(P::COEFF_A.legendre(), QuadraticResidue) && matches!(P::COEFF_D.legendre(), QuadraticNonResidue)
}
fn shipped_sw<P: SWCurveConfig>(ctx: &mut Ctx, name: &str, ovr: bool) {
    let q = sw_outside::<P>();
    outside_floor(ctx, name, P::COFACTOR, true, &q);
    shipped_curve::<sw::Projective<P>>(ctx, name, q, ShippedOpts { ovr, extra: vec![], glv_split_trivial: None });
}
fn shipped_te<P: TECurveConfig>(ctx: &mut Ctx, name: &str) {
    let q = te_outside::<P>();
    outside_floor(ctx, name, P::COFACTOR, te_complete::<P>(), &q);
    shipped_curve::<te::Projective<P>>(ctx, name, q, ShippedOpts { ovr: false, extra: vec![], glv_split_trivial: None });
}

fn sbig(x: &BigUint) -> SBig {
    SBig::from(x.clone())
}

/// shipped GLV configuration: generic paths with the GLV-specific scalars, decomposition identity, glv_mul, endomorphism
fn shipped_glv<P: GLVConfig>(ctx: &mut Ctx, name: &str, ovr: bool) {
    type Fr_<P> = <P as CurveConfig>::ScalarField;
    let r: BigUint = <Fr_<P> as PrimeField>::MODULUS.into();
    let lambda: BigUint = P::LAMBDA.into_bigint().into();
    let mut extra: Vec<(String, BigUint)> = vec![
        ("lambda".into(), lambda.clone()),
        ("lambda+1".into(), &lambda + 1u32),
        ("lambda-1".into(), &lambda - 1u32),
        ("r-lambda".into(), &r - &lambda),
        ("lambda^2 mod r".into(), (&lambda * &lambda) % &r),
    ];
    for (i, (_, v)) in P::SCALAR_DECOMP_COEFFS.iter().enumerate() {
        let v: BigUint = (*v).into();
        extra.push((format!("|n{}{}|", i / 2 + 1, i % 2 + 1), v.clone()));
        extra.push((format!("|n{}{}|+1", i / 2 + 1, i % 2 + 1), &v + 1u32));
        extra.push((format!("r-|n{}{}|", i / 2 + 1, i % 2 + 1), &r - (&v % &r)));
    }
    let q = sw_outside::<P>();
    outside_floor(ctx, name, P::COFACTOR, true, &q);
    let (a22, a12): (BigUint, BigUint) = (P::SCALAR_DECOMP_COEFFS[3].1.into(), P::SCALAR_DECOMP_COEFFS[1].1.into());
    let rr = r.clone();
    let trivial = move |k: &BigUint| -> bool { (k * &a22) << 1usize < rr && (k * &a12) << 1usize < rr };
    shipped_curve::<sw::Projective<P>>(ctx, name, q, ShippedOpts { ovr, extra: extra.clone(), glv_split_trivial: Some(Box::new(trivial)) });

    let scalars: Vec<Scalar> = scalar_alphabet::<Fr_<P>>(&extra).into_iter().filter(|s| s.field).collect();
    let pts = shipped_points::<sw::Projective<P>>(None);
    let (np, nsc) = (pts.len() as u64, scalars.len() as u64);
    let (rs, ls) = (sbig(&r), sbig(&lambda));
    let nn: Vec<SBig> = P::SCALAR_DECOMP_COEFFS.iter().map(|(s, v)| if *s { sbig(&(*v).into()) } else { -sbig(&(*v).into()) }).collect();
    let same = |a: &sw::Projective<P>, b: &sw::Projective<P>| a.into_affine() == b.into_affine();
    ctx.sweep(&format!("shipped_glv/{name}/scalar_decomposition"), nsc, |i, loc| {
        let s = &scalars[i as usize];
        let k = Fr_::<P>::from(s.v.clone());
        let ((s1, k1), (s2, k2)) = P::scalar_decomposition(k);
        let k1: BigUint = k1.into_bigint().into();
        let k2: BigUint = k2.into_bigint().into();
        let (v1, v2) = (if s1 { sbig(&k1) } else { -sbig(&k1) }, if s2 { sbig(&k2) } else { -sbig(&k2) });
        // reference (nearest rounding) decomposition for the class labels
        let round = |x: SBig| -> SBig { num_integer::Integer::div_floor(&(x * 2 + &rs), &(&rs * 2)) };
        let kk = sbig(&s.v);
        let (b1, b2) = (round(&kk * &nn[3]), round(-(&kk * &nn[1])));
        let (m1, m2) = (&kk - (&b1 * &nn[0] + &b2 * &nn[2]), -(&b1 * &nn[1] + &b2 * &nn[3]));
        loc.class_if(m1.is_negative(), "glv:k1_negative");
        loc.class_if(m2.is_negative(), "glv:k2_negative");
        loc.class_if(v1.is_negative(), "glv:impl_k1_negative");
        loc.class_if(v2.is_negative(), "glv:impl_k2_negative");
        loc.class_if(s.v.is_zero(), "k=0");
        loc.class_if(s.v.is_one(), "k=1");
        loc.class_if(s.v == &r - 1u32, "k=r-1");
        if loc.sampling() {
            loc.sample(format!("{name}: k = {} = {} -> k1 = {v1}, k2 = {v2}", s.label, s.v));
        }
        let lhs = num_integer::Integer::mod_floor(&(&v1 + &ls * &v2), &rs);
        loc.check_at("scalar_decomposition", lhs == kk, || format!("{name}: k = {} = {}: (sign {s1}, {k1}), (sign {s2}, {k2}): k1 + lambda*k2 = {lhs} mod r", s.label, s.v));
    });
    ctx.sweep(&format!("shipped_glv/{name}/glv_mul"), np * nsc, |i, loc| {
        let [si, pi] = unrank(i, [nsc, np]);
        let (pt, s) = (&pts[pi as usize], &scalars[si as usize]);
        let k = Fr_::<P>::from(s.v.clone());
        let want = dbl_add(pt.g, &s.v);
        loc.class_if(s.v.is_zero(), "k=0");
        loc.class_if(s.v.is_one(), "k=1");
        loc.class_if(s.v == &r - 1u32, "k=r-1");
        loc.class_if(pt.g.is_zero(), "P=O");
        if loc.sampling() {
            loc.sample(format!("{name}: glv_mul P = {} k = {} = {}", pt.label, s.label, s.v));
        }
        let res = guard(|| P::glv_mul_projective(pt.g, k));
        loc.check_at("glv_mul_projective", res.as_ref().map(|g| same(g, &want)) == Ok(true), || format!("{name}: P = {} k = {} = {}: got {:?} want {}", pt.label, s.label, s.v, res.as_ref().map(|g| g.into_affine()), want.into_affine()));
        let res = guard(|| P::glv_mul_affine(pt.a, k));
        loc.check_at("glv_mul_affine", res.as_ref().map(|g| *g == want.into_affine()) == Ok(true), || format!("{name}: P = {} k = {} = {}: got {:?} want {}", pt.label, s.label, s.v, res, want.into_affine()));
    });
    let nl = <Fr_<P> as PrimeField>::MODULUS.as_ref().len();
    if ctx.thorough() || (std::mem::size_of::<P::BaseField>() <= 96 && nl <= 4) {
        // every bit position through BOTH glv_mul_projective and glv_mul_affine, on G, 2G (Z != 1) and a generic-looking
        // point of the subgroup (H = k_generic * G by the oracle, Z != 1)
        let nb = r.bits() + 1;
        let hk = scalars.iter().find(|s| s.label == "generic").map(|s| s.v.clone()).unwrap_or_else(|| BigUint::from(0x1234_5678_9abc_def1u64));
        let hg = dbl_add(pts[1].g, &hk);
        let bp: Vec<(String, sw::Projective<P>, sw::Affine<P>)> = vec![("G".to_string(), pts[1].g, pts[1].a), (pts[3].label.clone(), pts[3].g, pts[3].a), ("H = generic*G (Z != 1)".to_string(), hg, hg.into_affine())];
        ctx.validate(!hg.is_zero() && hg.into_affine() != pts[1].a, &format!("{name}: generic subgroup point differs from O and G"));
        let nbp = bp.len() as u64;
        ctx.sweep(&format!("shipped_glv/{name}/glv_mul_bit_positions"), 3 * nb * nbp, |i, loc| {
            let [e, j, pi] = unrank(i, [3, nb, nbp]);
            let kl = format!("2^{j}{}", ["-1", "", "+1"][e as usize]);
            let v = (BigUint::one() << j as usize) + e - 1u32;
            if v >= r {
                return;
            }
            loc.class_if(e == 0 && j >= 64, "k=long_run_of_ones");
            loc.class("glv:affine_and_projective_every_bit_position");
            let (label, pg, pa) = &bp[pi as usize];
            let want = dbl_add(*pg, &v);
            let k = Fr_::<P>::from(v.clone());
            let res = guard(|| P::glv_mul_projective(*pg, k));
            loc.check_at("glv_mul_projective", res.as_ref().map(|g| same(g, &want)) == Ok(true), || format!("{name}: P = {label} k = {kl}: got {:?} want {}", res.as_ref().map(|g| g.into_affine()), want.into_affine()));
            let res = guard(|| P::glv_mul_affine(*pa, k));
            loc.check_at("glv_mul_affine", res.as_ref().map(|g| *g == want.into_affine()) == Ok(true), || format!("{name}: P = {label} k = {kl}: got {:?} want {}", res, want.into_affine()));
        });
    }
    ctx.sweep(&format!("shipped_glv/{name}/endomorphism"), np, |i, loc| {
        let pt = &pts[i as usize];
        let want = dbl_add(pt.g, &lambda);
        loc.class_if(pt.g.is_zero(), "P=O");
        let e = P::endomorphism(&pt.g);
        loc.check_at("glv_endomorphism", same(&e, &want), || format!("{name}: endomorphism({}) = {} but lambda*P = {}", pt.label, e.into_affine(), want.into_affine()));
        let e = P::endomorphism_affine(&pt.a);
        loc.check_at("glv_endomorphism_affine", e == want.into_affine(), || format!("{name}: endomorphism_affine({}) = {} but lambda*P = {}", pt.label, e, want.into_affine()));
    });
}

type Iso<C> = <C as WBConfig>::IsogenousCurve;

/// Fixed-base tables on real 255..381-bit scalars, for EVERY window 3..=16 (thorough: ..=19): the toy scalar fields
/// have fewer bits than any window >= 11 and fit a single window of most smaller ones, so window-extraction bugs
/// cannot show there.  One case = one (table sizing, scalar); the table is built once per sizing (shared), the
/// oracle is plain double-and-add.  Tables come from `with_num_scalars_and_scalar_size` (every hint) and from
/// `BatchMulPreprocessing::new` (two hints); the last case of the space is `ScalarMul::batch_mul` on the whole alphabet.
fn shipped_batch_large_windows<G: CurveGroup>(ctx: &mut Ctx, name: &str) {
    let bits = <Fr<G> as PrimeField>::MODULUS_BIT_SIZE as usize;
    // num_scalars hints -> documented window ln(n) ~ ceil(log2 n) * 69 / 100: 3, 4, 5, 6, 7, 8, 9, 10, then 11, 12, 13, 14 (..)
    let mut hints: Vec<usize> = vec![1, 33, 200, 512, (1 << 10) + 1, 1 << 12, (1 << 13) + 1, 1 << 15, 1 << 16, (1 << 17) + 1, (1 << 19) + 1, (1 << 20) + 1];
    if !ctx.quick() {
        hints.extend([(1 << 21) + 1, (1 << 23) + 1, (1 << 24) + 1]);
    }
    let scalars: Vec<Scalar> = scalar_alphabet::<Fr<G>>(&[]).into_iter().filter(|s| s.field).collect();
    let gen = <G as PrimeGroup>::generator();
    let base = gen.double() + gen; // 3G, not normalised
    let mut tables: Vec<(&'static str, usize, usize, Result<BatchMulPreprocessing<G>, String>)> = hints
        .iter()
        .map(|h| ("with_num_scalars_and_scalar_size", *h, model_batch_window(*h), guard(|| BatchMulPreprocessing::<G>::with_num_scalars_and_scalar_size(base, *h, bits))))
        .collect();
    for h in [200usize, (1 << 13) + 1] {
        tables.push(("new", h, model_batch_window(h), guard(|| BatchMulPreprocessing::<G>::new(base, h))));
    }
    let (nt, ns) = (tables.len() as u64, scalars.len() as u64);
    ctx.bound(&format!("shipped_batch.{name}"), format!("num_scalars hints {hints:?} (+ BatchMulPreprocessing::new for 200, 2^13+1) x {ns} field scalars, base 3G; ScalarMul::batch_mul on the whole alphabet"));
    ctx.sweep(&format!("shipped_batch_large_window/{name}"), nt * ns + 1, |i, loc| {
        if i == nt * ns {
            // ScalarMul::batch_mul sizes its own table from the slice length
            loc.class("batch:ScalarMul::batch_mul_real_curve");
            let ks: Vec<Fr<G>> = scalars.iter().map(|s| Fr::<G>::from(s.v.clone())).collect();
            match guard(|| base.batch_mul(&ks)) {
                Ok(v) => {
                    let bad = if v.len() != ks.len() { Some(format!("{} results for {} scalars", v.len(), ks.len())) } else { scalars.iter().zip(&v).find(|(s, got)| **got != dbl_add(base, &s.v).into_affine()).map(|(s, _)| format!("k = {}", s.label)) };
                    loc.ops(ks.len() as u64);
                    loc.check_at("scalarmul_batch_mul", bad.is_none(), || format!("{name}: (3G).batch_mul(scalar alphabet): wrong at {}", bad.clone().unwrap()));
                }
                Err(e) => loc.fail_at("scalarmul_batch_mul", format!("{name}: (3G).batch_mul(scalar alphabet) panicked: {e}")),
            }
            return;
        }
        let [si, ti] = unrank(i, [ns, nt]);
        let (ctor, hint, w, table) = &tables[ti as usize];
        let s = &scalars[si as usize];
        loc.class_if(*w >= 11, "batch:window>=11");
        loc.class_if(*w >= 13, "batch:window>=13");
        loc.class_if(*w <= 10 && bits > 2 * *w, "batch:window<=10_multi_window_scalar_real_curve");
        loc.class_if(*ctor == "new", "batch:BatchMulPreprocessing::new_real_curve");
        let table = match table {
            Ok(t) => t,
            Err(e) => {
                loc.fail_at("batch_large_window", format!("{name}: building the table ({ctor}) for num_scalars={hint} (window {w}) panicked: {e}"));
                return;
            }
        };
        // the window actually chosen is an implementation detail (recorded, not demanded); these labels use the real one
        loc.class_if(table.window != *w, "batch:window_differs_from_ln_rule");
        loc.class_if(table.window >= 11, "batch:actual_window>=11");
        loc.class_if(table.window >= 13, "batch:built_table_window>=13");
        loc.class_if((3..=10).contains(&table.window), "batch:built_table_window_3..=10");
        loc.class_if(table.window > 0 && table.max_scalar_size % table.window != 0, "batch:built_table_last_window_shorter");
        let k: Fr<G> = Fr::<G>::from(s.v.clone());
        let want = dbl_add(base, &s.v).into_affine();
        match guard(|| table.batch_mul(&[k, Fr::<G>::zero(), k])) {
            Ok(v) => {
                loc.check_at("batch_large_window", v.len() == 3 && v[0] == want && v[2] == want && v[1].is_zero(), || {
                    format!("{name}: BatchMulPreprocessing::{ctor}(num_scalars={hint}, window {w}).batch_mul([k, 0, k]) with k = {} is not [kB, O, kB]", s.label)
                });
            }
            Err(e) => loc.fail_at("batch_large_window", format!("{name}: batch_mul panicked for num_scalars={hint}, k = {}: {e}", s.label)),
        }
        if loc.sampling() {
            loc.sample(format!("{name}: table {ctor} num_scalars={hint} window={w}, k = {}", s.label));
        }
    });
}

/// wNAF with LARGE windows (tables of 2^(w-1) real points) on multi-digit scalars: one shipped curve, windows
/// {9, 10, 12, 13} (thorough: + 16), scalar alphabet (r-1 included) plus every single-bit scalar 2^j and every
/// all-ones scalar 2^j - 1 below r.  One table per window (built once, shared): exact, and padded with two entries.
fn shipped_wnaf_large_windows<G: CurveGroup>(ctx: &mut Ctx, name: &str) {
    let r: BigUint = <Fr<G> as PrimeField>::MODULUS.into();
    let mut windows: Vec<usize> = vec![9, 10, 12, 13];
    if !ctx.quick() {
        windows.push(16);
    }
    let mut scalars: Vec<(String, BigUint, bool)> = scalar_alphabet::<Fr<G>>(&[]).into_iter().filter(|s| s.field).map(|s| (s.label, s.v, true)).collect();
    for j in 0..=r.bits() as usize {
        for (e, lbl) in [(0u32, "-1"), (1, "")] {
            let v = (BigUint::one() << j) + e - 1u32;
            if v < r {
                scalars.push((format!("2^{j}{lbl}"), v, false));
            }
        }
    }
    let gen = <G as PrimeGroup>::generator();
    let base = gen.double() + gen; // 3G, Z != 1
    let tabs: Vec<(usize, Result<Vec<G>, String>)> = windows.iter().map(|w| (*w, guard(|| WnafContext::new(*w).table(base)))).collect();
    let (nw, ns) = (windows.len() as u64, scalars.len() as u64);
    ctx.bound(&format!("shipped_wnaf_large_windows.{name}"), format!("windows {windows:?} x ({} alphabet scalars + 2^j, 2^j - 1 for every j <= bits(r)), base 3G; WnafContext::mul (alphabet scalars), mul_with_table on the exact table and on the table padded with two entries", scalars.iter().filter(|s| s.2).count()));
    ctx.sweep(&format!("shipped_wnaf_large_windows/{name}"), nw * ns, |i, loc| {
        let [si, wi] = unrank(i, [ns, nw]);
        let (w, tab) = &tabs[wi as usize];
        let (label, v, alpha) = &scalars[si as usize];
        let k = Fr::<G>::from(v.clone());
        let want = dbl_add(base, v);
        let same = |a: &G, b: &G| a.into_affine() == b.into_affine();
        loc.class("wnaf:window>=9_multi_digit_scalar_real_curve");
        loc.class_if(*w >= 12, "wnaf:window>=12_multi_digit_scalar_real_curve");
        loc.class_if(*v == &r - 1u32, "k=r-1");
        loc.class_if(!*alpha && label.ends_with("-1") && v.bits() >= 64, "k=long_run_of_ones");
        if loc.sampling() {
            loc.sample(format!("{name}: wNAF window {w}, base 3G, k = {label}"));
        }
        let cx = WnafContext::new(*w);
        let mut out: Paths<G> = Vec::new();
        match tab {
            Ok(tb) => {
                out.push(("wnaf_mul_with_table/reused", guard(|| cx.mul_with_table(tb, &k)).and_then(|o| o.ok_or("returned None for a table of exactly 2^(w-1) entries".to_string()))));
                let longer: Vec<G> = tb.iter().copied().chain([base, gen]).collect();
                out.push(("wnaf_mul_with_table/longer", guard(|| cx.mul_with_table(&longer, &k)).and_then(|o| o.ok_or("returned None for a table longer than needed".to_string()))));
            }
            Err(m) => out.push(("wnaf_table", Err(m.clone()))),
        }
        if *alpha {
            path!(out, "wnaf_mul", cx.mul(base, &k));
        }
        for (site, res) in out {
            match res {
                Ok(g) => {
                    loc.check_at(site, same(&g, &want), || format!("{name}: wNAF window {w}, P = 3G, k = {label} via {site}: got {} want {}", g.into_affine(), want.into_affine()));
                }
                Err(m) => loc.fail_at(site, format!("{name}: wNAF window {w}, P = 3G, k = {label} via {site}: {m}")),
            }
        }
    });
}

fn shipped_all(ctx: &mut Ctx) {
    shipped_batch_large_windows::<ark_bls12_381::G1Projective>(ctx, "bls12_381/g1");
    shipped_batch_large_windows::<ark_ed_on_bls12_381::EdwardsProjective>(ctx, "ed_on_bls12_381");
    shipped_batch_large_windows::<ark_secp256k1::Projective>(ctx, "secp256k1");
    shipped_wnaf_large_windows::<ark_bls12_381::G1Projective>(ctx, "bls12_381/g1");
    // ---- the GLV configurations (grep `impl GLVConfig for`): 10 curve crates + test-curves bls12_381 g1
    shipped_glv::<ark_bls12_377::g1::Config>(ctx, "bls12_377/g1", true);
    shipped_glv::<ark_bls12_377::g2::Config>(ctx, "bls12_377/g2", false);
    shipped_glv::<ark_bls12_381::g1::Config>(ctx, "bls12_381/g1", true);
    shipped_glv::<ark_bls12_381::g2::Config>(ctx, "bls12_381/g2", false);
    shipped_glv::<ark_bn254::g1::Config>(ctx, "bn254/g1", true);
    shipped_glv::<ark_bn254::g2::Config>(ctx, "bn254/g2", false);
    shipped_glv::<ark_bw6_761::g1::Config>(ctx, "bw6_761/g1", false);
    shipped_glv::<ark_bw6_761::g2::Config>(ctx, "bw6_761/g2", false);
    shipped_glv::<ark_pallas::PallasConfig>(ctx, "pallas", false);
    shipped_glv::<ark_vesta::VestaConfig>(ctx, "vesta", false);
    shipped_glv::<ark_test_curves::bls12_381::g1::Config>(ctx, "test/bls12_381/g1", true);
    // ---- every other short Weierstrass configuration
    shipped_sw::<Iso<ark_bls12_377::g1::Config>>(ctx, "bls12_377/g1_swu_iso", false);
    shipped_sw::<Iso<ark_bls12_377::g2::Config>>(ctx, "bls12_377/g2_swu_iso", false);
    shipped_sw::<Iso<ark_bls12_381::g1::Config>>(ctx, "bls12_381/g1_swu_iso", false);
    shipped_sw::<Iso<ark_bls12_381::g2::Config>>(ctx, "bls12_381/g2_swu_iso", false);
    shipped_sw::<ark_bw6_767::g1::Config>(ctx, "bw6_767/g1", false);
    shipped_sw::<ark_bw6_767::g2::Config>(ctx, "bw6_767/g2", false);
    shipped_sw::<ark_cp6_782::g1::Config>(ctx, "cp6_782/g1", false);
    shipped_sw::<ark_cp6_782::g2::Config>(ctx, "cp6_782/g2", false);
    shipped_sw::<ark_ed_on_bls12_381::JubjubConfig>(ctx, "ed_on_bls12_381/jubjub(sw)", false);
    shipped_sw::<ark_ed_on_bls12_381_bandersnatch::BandersnatchConfig>(ctx, "ed_on_bls12_381_bandersnatch(sw)", false);
    shipped_sw::<ark_grumpkin::GrumpkinConfig>(ctx, "grumpkin", false);
    shipped_sw::<ark_mnt4_298::g1::Config>(ctx, "mnt4_298/g1", false);
    shipped_sw::<ark_mnt4_298::g2::Config>(ctx, "mnt4_298/g2", false);
    shipped_sw::<ark_mnt4_753::g1::Config>(ctx, "mnt4_753/g1", false);
    shipped_sw::<ark_mnt4_753::g2::Config>(ctx, "mnt4_753/g2", false);
    shipped_sw::<ark_mnt6_298::g1::Config>(ctx, "mnt6_298/g1", false);
    shipped_sw::<ark_mnt6_298::g2::Config>(ctx, "mnt6_298/g2", false);
    shipped_sw::<ark_mnt6_753::g1::Config>(ctx, "mnt6_753/g1", false);
    shipped_sw::<ark_mnt6_753::g2::Config>(ctx, "mnt6_753/g2", false);
    shipped_sw::<ark_secp256k1::Config>(ctx, "secp256k1", false);
    shipped_sw::<ark_secp256r1::Config>(ctx, "secp256r1", false);
    shipped_sw::<ark_secp384r1::Config>(ctx, "secp384r1", false);
    shipped_sw::<ark_secq256k1::Config>(ctx, "secq256k1", false);
    {
        use ark_test_curves as t;
        shipped_sw::<t::bn384_small_two_adicity::g1::Config>(ctx, "test/bn384_small_two_adicity/g1", false);
        shipped_sw::<t::secp256k1::Config>(ctx, "test/secp256k1", false);
        shipped_sw::<t::mnt4_753::g1::Config>(ctx, "test/mnt4_753/g1", false);
        shipped_sw::<t::bls12_381::g2::Config>(ctx, "test/bls12_381/g2", false);
        shipped_sw::<t::bls12_381::g1_swu_iso::SwuIsoConfig>(ctx, "test/bls12_381/g1_swu_iso", false);
        shipped_sw::<t::bls12_381::g2_swu_iso::SwuIsoConfig>(ctx, "test/bls12_381/g2_swu_iso", false);
        shipped_te::<t::ed_on_bls12_381::EdwardsConfig>(ctx, "test/ed_on_bls12_381");
    }
    // ---- twisted Edwards configurations
    shipped_te::<ark_bls12_377::g1::Config>(ctx, "bls12_377/g1(te)");
    shipped_te::<ark_curve25519::Curve25519Config>(ctx, "curve25519");
    shipped_te::<ark_ed25519::EdwardsConfig>(ctx, "ed25519");
    shipped_te::<ark_ed_on_bls12_377::EdwardsConfig>(ctx, "ed_on_bls12_377");
    shipped_te::<ark_ed_on_bls12_381::JubjubConfig>(ctx, "ed_on_bls12_381/jubjub");
    shipped_te::<ark_ed_on_bls12_381_bandersnatch::BandersnatchConfig>(ctx, "ed_on_bls12_381_bandersnatch");
    shipped_te::<ark_ed_on_bn254::EdwardsConfig>(ctx, "ed_on_bn254");
    shipped_te::<ark_ed_on_cp6_782::EdwardsConfig>(ctx, "ed_on_cp6_782(=ed_on_bw6_761)");
    shipped_te::<ark_ed_on_mnt4_298::EdwardsConfig>(ctx, "ed_on_mnt4_298");
    shipped_te::<ark_ed_on_mnt4_753::EdwardsConfig>(ctx, "ed_on_mnt4_753");
}

// =====================================================================================================
fn main() {
    let mut ctx = Ctx::from_args("C04");
    ctx.require(&[
        "batch:window>=13",
        "batch:built_table_window>=13",
        "batch:built_table_window_3..=10",
        "batch:built_table_last_window_shorter",
        "batch:window<=10_multi_window_scalar_real_curve",
        "batch:BatchMulPreprocessing::new_real_curve",
        "batch:ScalarMul::batch_mul_real_curve",
        "wnaf:window>=9_multi_digit_scalar_real_curve",
        "wnaf:window>=12_multi_digit_scalar_real_curve",
        "wnaf:precomputed_table_window≠4_real_curve",
        "glv:affine_and_projective_every_bit_position",
        "P_outside_subgroup:override_with_trivial_glv_split",
        "shipped:curves_with_point_outside_subgroup",
        "k=0",
        "k=1",
        "k=r-1",
        "k>=r_raw",
        "leading_zero_limb",
        "P=O",
        "P_outside_subgroup",
        "wnaf:carry_out_of_top_window",
        "wnaf:window>bits(r)",
        "wnaf:short_table",
        "wnaf:invalid_window_panics",
        "batch:last_window_shorter",
        "batch:hint≠len",
        "glv:k1_negative",
        "glv:half_longer_than_half_the_bits_of_r",
        "glv:k2_negative",
        "more_limbs_than_scalar_field",
    ]);
    // (glv:impl_k1_negative / glv:impl_k2_negative - the signs the library happened to return - and the observed:* classes
    // are metrics only: the property needs k = k1 + lambda*k2 with signed halves, not a particular sign pattern)
    ctx.assume("oracle (toy): k*P read from a table of multiples built by REPEATED ADDITION with the textbook affine chord-and-tangent / Edwards law on u64 arithmetic; for a point of order m the raw integer k is reduced mod m (k*P for the true integer k)");
    ctx.assume("oracle (shipped): plain MSB-first double-and-add written in the harness on top of the group's `+` and `double` (property C03), never mul_bigint / Mul; results compared after into_affine()");
    ctx.assume("model <-> implementation conversion of points decodes projective coordinates with model arithmetic (toycurve::idx_proj); scalars through ScalarField::from(u64) / From<BigUint> with a round-trip check (property C01)");
    ctx.assume("incomplete twisted Edwards parameters (a non-square: toy TeP103, shipped bandersnatch-like curves): only the prime-order subgroup is in scope, as the property states; for every other curve ALL points of E(F_p) are multiplied");
    ctx.assume("BatchMulPreprocessing: max_scalar_size is documented as the maximum size of the scalars that will be multiplied - sizes below bits(r) are exercised only with scalars < 2^size; size 0 is outside the space");
    ctx.assume("WnafContext: `new` is documented (rustdoc '# Panics') to panic unless 2 <= w < 64 (asserted for that reason); tables for w > 16 (2^(w-1) group elements) are not materialised - those windows are exercised through too-short tables only. A too-short table: None (as documented) or the correct k*P are both accepted; the table layout ([P,3P,..], table(w+1) extending table(w)) is observed, not judged - tables are judged through mul_with_table on the context's own table, exact or padded");
    ctx.assume("known finding K2 (G1 mul_projective override outside the subgroup) is confined to scalars that reach the GLV path and are reduced mod r or split non-trivially (2k|n22| >= r or 2k|n12| >= r); every other scalar on the outside point is filed under .../outside_subgroup_small_k and reported if it fails");
    ctx.assume("shipped curves: agreement of the reference double-and-add between the affine and projective form of an alphabet point (C03) and the BigUint -> ScalarField -> BigInt round trip (C01) are preconditions (self-validation), not C04 verdicts");
    ctx.assume("GLV: the property demands the identity k = k1 + lambda*k2 (mod r) and glv_mul = k*P for points of the prime-order subgroup; the size of the halves is not stated and is reported as a class (impl_halves_differ_from_nearest_rounding), not checked. Classes glv:k{1,2}_negative come from a reference Babai round-off with exact nearest rounding; glv:impl_* record the signs the library returned");

    // ------------------------------------------------------------------ toy curves (E)
    macro_rules! sw_toy {
        ($P:ty, $name:expr, $ctx:expr) => {{
            let t = SwToy::<$P>::new($name);
            t.validate($ctx);
            toy_curve($ctx, &t);
        }};
    }
    macro_rules! te_toy {
        ($P:ty, $name:expr, $ctx:expr) => {{
            let t = TeToy::<$P>::new($name);
            t.validate($ctx);
            toy_curve($ctx, &t);
        }};
    }
    algebra_mc::toy_sw_curves!(sw_toy, &mut ctx);
    algebra_mc::toy_te_curves!(te_toy, &mut ctx);
    ctx.bound("toy.curves", "all 16 toy short-Weierstrass and 5 toy twisted-Edwards configurations: every point of E(F_p) (prime-order subgroup for the incomplete TeP103) in 3 projective representations (Z = 1, 2, p-1; SW identity as (1,1,0), (5,7,0), (0,0,0)) + affine");
    ctx.bound("toy.scalars", "every k in [0, r) as a ScalarField element and as limb slices [k], [k,0], [k,0,0]; raw integers r, r+1, 2r-1, #E, #E+1, 2^63, 2^64-1, 2^64, [r,0], [2^64-1,0,0], 2^128-1, a generic 2-limb value, [], [0], [0,0,0]");
    ctx.bound("toy.wnaf", format!("every window 2..={} x (mul on two representatives, fresh table, one table reused for all k, table of window w+1 (longer), tables of 2^(w-1)-1, 2^(w-2), 0 entries (must be None))", ctx.t(10, 12)));
    ctx.bound("toy.batch", "every base point x num_scalars hint in {0,1,31,32,33,1000,10^6} x scalar size in {bits(r), bits(r)+1, 64, 1, bits(r)-1} x slices: all k at once, empty, every single k; ScalarMul::batch_mul on lengths 0, 1, r");
    wnaf_window_contract(&mut ctx);
    let wl = ctx.t(13, 16);
    wnaf_large_windows(&mut ctx, wl);

    // ------------------------------------------------------------------ toy GLV curves (E)
    glv_toy_curve::<GlvP103a>(&mut ctx, "GlvP103a", Some("SwA0P103B5"));
    glv_toy_curve::<GlvP103b>(&mut ctx, "GlvP103b", Some("SwA0P103B5"));
    glv_toy_curve::<GlvP103c>(&mut ctx, "GlvP103c", Some("SwA0P103B5"));
    glv_toy_curve::<GlvP211a>(&mut ctx, "GlvP211a", Some("SwA0P211B2"));
    glv_toy_curve::<GlvP211b>(&mut ctx, "GlvP211b", Some("SwA0P211B2"));
    glv_toy_curve::<GlvP211c>(&mut ctx, "GlvP211c", Some("SwA0P211B2"));
    glv_toy_curve::<GlvP1009a>(&mut ctx, "GlvP1009a", None);
    glv_toy_curve::<GlvP1009b>(&mut ctx, "GlvP1009b", None);
    glv_toy_curve::<GlvP1009c>(&mut ctx, "GlvP1009c", None);
    ctx.bound("toyglv", "y^2=x^3+5 / F_103 (r=97), y^2=x^3+2 / F_211 (r=199), y^2=x^3+11 / F_1009 (r=967): both (beta, lambda) pairs, 2-3 lattice bases each; all k in [0,r) for scalar_decomposition; all P x all k for glv_mul_affine and glv_mul_projective (3 representations)");

    // ------------------------------------------------------------------ shipped curves (A)
    shipped_all(&mut ctx);
    ctx.bound("shipped.points", "O, G, -G, 2G (Z != 1), and for cofactor > 1 (complete curves) the first curve point outside the prime-order subgroup (x resp. y = 0,1,2,...), affine and projective (Z != 1)");
    ctx.bound("shipped.scalars", "ScalarField: 0,1,2,3,r-1,r-2,(r-1)/2,floor(r/2)+-1,2^64-1,2^64,2^127,2^128+-1,2^(bits(r)-1),2^(bits(r)-1)-1, two generic patterns; GLV curves: lambda, lambda+-1, r-lambda, lambda^2, |n_ij|, |n_ij|+1, r-|n_ij|; raw slices: [], [0], [5], r, r+1, 2^(64N)-1, 2r-1, [0;N+1], [7,0..0], [r-1,0], [r+2,0,0], 2^(64N), 4*2^(64N)-1; bit positions: k = 2^j-1, 2^j, 2^j+1 for every j <= bits(r) on 2G and on the point outside the subgroup (quick: curves with 4-limb scalar fields and base fields <= 96 bytes; thorough: all)");
    ctx.bound("shipped.paths", "affine/projective mul_bigint, *, *=, (ref / mut-ref variants), mul_bits_be (full, stripped, padded), wNAF windows 2..=6 (thorough 2..=8) (+ exact / padded / one-entry-short table: window 4 on every point, every window on 2G and the outside point); GLV curves: scalar_decomposition, glv_mul_projective, glv_mul_affine (alphabet; every bit position on G, 2G, generic*G for both), endomorphism, endomorphism_affine");

    std::process::exit(ctx.finish());
}
